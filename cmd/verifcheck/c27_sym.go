package main

import (
	"fmt"
	"go/constant"
	"go/token"
	"go/types"
	"regexp"
	"sort"
	"strconv"
	"strings"

	"golang.org/x/tools/go/ssa"
)

// Symbolic path executor for property C27.
//
// The C27 facts are about WHICH byte strings reach a hash, a key-derivation
// output buffer, a message field or a constructor argument, and in which order
// and encoding — not about where in the source the statements stand. This
// file therefore interprets the SSA of a root function (and of the helpers it
// calls in its own package, in place) over symbolic values:
//
//   - integers/booleans that are known are folded; everything else is an opaque
//     TERM (a canonical string such as
//     "mpint((*math/big.Int).Exp@7(&new#3,peer:kexDHReplyMsg.Y,...))");
//   - memory is concrete: every Alloc / make / composite literal is a cell tree
//     (struct fields, array elements, byte buffers with a write log), pointers
//     and slices refer to cells, so a value is followed through locals, struct
//     fields, helper parameters and results without looking at any name;
//   - memory reached through an opaque pointer (a parameter such as the receiver)
//     is a symbolic location ("t.sessionID") with store-to-load forwarding;
//   - a hash.Hash is an object with the ordered list of what was written to it;
//     Sum yields a term that contains that list;
//   - a branch whose condition is not known is explored on BOTH sides (the
//     decision is remembered per condition term, so the same test is decided the
//     same way later on the path); paths are enumerated by replaying decision
//     prefixes, loops are cut after the same undecided test was taken twice.
//
// Calls: the SSH wire-encoding atoms (marshalInt, marshalString, intLength,
// Marshal, Unmarshal), encoding/binary big-endian writers and hash methods are
// modelled (writeString, writeInt, handshakeMagics.write are interpreted);
// helpers of the root package that receive or return tracked objects are
// interpreted in place; anything else is an uninterpreted function of its
// arguments. Nothing is executed. A construct outside the model ends the run
// "undecided" — never silently.

type c27Kind int

const (
	c27Int   c27Kind = iota // known integer / boolean
	c27Nil                  // nil pointer, slice, map, interface, func
	c27Sym                  // opaque immutable term (tag); hasLen: n is its length in bytes
	c27Addr                 // symbolic location (tag), e.g. a field reached through an opaque pointer
	c27Ptr                  // pointer to a cell, or to byte off of a buffer
	c27Slice                // slice over a byte buffer or an element array
	c27Agg                  // struct / array VALUE (private copy of a cell tree)
	c27Tuple                // multiple results
	c27HashV                // hash object
	c27Func                 // function value / closure
)

type c27Val struct {
	k      c27Kind
	n      int64
	hasLen bool
	neg    bool // Sym of boolean type: logical negation of the term
	tag    string
	cell   *c27Cell
	buf    *c27Buf
	lo, hi *c27Val
	el     []c27Val
	h      *c27Hash
	fn     *ssa.Function
	ityp   types.Type // dynamic type when boxed in an interface
}

type c27Cell struct {
	name   string
	typ    types.Type
	val    c27Val
	fields []*c27Cell
	elems  []*c27Cell
	buf    *c27Buf
	peer   string // decoded from the peer (Unmarshal target): message type name
}

type c27Write struct {
	off, n c27Val
	src    string
	whole  bool // fills the buffer exactly (marshal into a buffer of the matching length)
}

type c27Buf struct {
	name   string
	length c27Val
	log    []c27Write
}

type c27Ev struct {
	kind string // raw | string | mpint | u32 | bin
	arg  string
	at   ssa.Instruction
	ln   string // raw: the length of the written bytes, as a term
}

func (e c27Ev) String() string { return e.kind + "(" + e.arg + ")" }

type c27Hash struct {
	name string
	kind string
	evs  []c27Ev
	all  []c27Ev // including what was written before a Reset
}

type c27Sum struct {
	kind string
	evs  []c27Ev
	at   ssa.Instruction
}

type c27Sent struct {
	typ    string
	fields map[string]string
	at     ssa.Instruction
}

type c27CallRec struct {
	name string
	args []string
	vals []c27Val
	at   ssa.Instruction
	term string // the term standing for the call's result
	// snapshot of symbolic memory at the time of the call
	mem map[string]string
}

func c27I(n int64) c27Val { return c27Val{k: c27Int, n: n} }
func c27B(b bool) c27Val {
	if b {
		return c27I(1)
	}
	return c27I(0)
}
func c27S(tag string) c27Val { return c27Val{k: c27Sym, tag: tag} }
func c27SL(tag string, n int64) c27Val {
	return c27Val{k: c27Sym, tag: tag, n: n, hasLen: true}
}

type c27Abort struct{ why string }
type c27End struct{ kind string } // panic | cutoff

// c27Exec configures a run.
type c27Exec struct {
	c      *Ctx
	opaque map[string]bool // short callee names that are never interpreted
	inline map[string]bool // short callee names that are always interpreted
	// inlineAll: every helper of the root package is interpreted (small root
	// functions whose helpers cannot multiply the paths)
	inlineAll bool
	model     func(p *c27Path, name string, call ssa.CallInstruction, args []c27Val) (c27Val, bool)
	sumLen    int64
	maxPath   int
}

// c27Path is the state of one explored path.
type c27Path struct {
	x        *c27Exec
	root     *ssa.Function
	decide   []bool
	taken    []bool
	pending  [][]bool
	cons     map[string]bool
	consLog  []string
	forkCnt  map[string]int
	steps    int
	nextID   int
	mem      map[string]c27Val // symbolic locations
	sums     map[string]*c27Sum
	hashes   []*c27Hash
	sent     []c27Sent
	calls    []c27CallRec
	peerMut  []ssa.Instruction
	sites    map[ssa.Instruction]int
	occ      map[string]int
	active   map[*ssa.Function]int
	frameSeq int
	memAt    map[string]ssa.Instruction // where a map entry was last assigned
	cur      []ssa.Instruction          // the instruction being executed at each call depth
	// outcome
	end     string // return | panic | cutoff | undecided
	why     string
	results []c27Val
	last    ssa.Instruction
}

type c27Frame struct {
	fn   *ssa.Function
	env  map[ssa.Value]c27Val
	free []c27Val
	id   int
	d    int
}

// c27Trace, when non-nil (debugging), counts which helpers were interpreted and which stayed opaque.
var c27Trace map[string]int

var c27SiteRE = regexp.MustCompile(`@\d+(#\d+)?`)

// c27Strip removes call-site marks from a term (for comparison with a specification term).
func c27Strip(s string) string { return c27SiteRE.ReplaceAllString(s, "") }

// ---------------------------------------------------------------------------
// driver

// explore runs fn on every path. mk builds the argument values for a fresh path.
func (x *c27Exec) explore(fn *ssa.Function, mk func(p *c27Path) []c27Val) (paths []*c27Path, why string) {
	if x.maxPath == 0 {
		x.maxPath = 1500
	}
	work := [][]bool{nil}
	for len(work) > 0 {
		if len(paths) >= x.maxPath {
			return paths, fmt.Sprintf("more than %d paths", x.maxPath)
		}
		dec := work[len(work)-1]
		work = work[:len(work)-1]
		p := &c27Path{x: x, root: fn, decide: dec, cons: map[string]bool{}, forkCnt: map[string]int{}, mem: map[string]c27Val{},
			sums: map[string]*c27Sum{}, sites: map[ssa.Instruction]int{}, occ: map[string]int{}, active: map[*ssa.Function]int{}}
		p.run(fn, mk)
		paths = append(paths, p)
		work = append(work, p.pending...)
		if p.end == "undecided" && why == "" {
			why = p.why
		}
	}
	return paths, why
}

func (p *c27Path) run(fn *ssa.Function, mk func(p *c27Path) []c27Val) {
	defer func() {
		if r := recover(); r != nil {
			switch e := r.(type) {
			case c27Abort:
				p.end, p.why = "undecided", e.why
			case c27End:
				p.end = e.kind
			default:
				panic(r)
			}
		}
	}()
	args := mk(p)
	p.results = p.callFn(fn, args, nil, 0)
	p.end = "return"
}

func (p *c27Path) abort(format string, a ...any) {
	panic(c27Abort{fmt.Sprintf(format, a...)})
}

func (p *c27Path) id() int { p.nextID++; return p.nextID }

// ---------------------------------------------------------------------------
// cells

func c27IsByte(t types.Type) bool {
	b, ok := t.Underlying().(*types.Basic)
	return ok && (b.Kind() == types.Uint8 || b.Kind() == types.Byte)
}

func (p *c27Path) zero(t types.Type) c27Val {
	switch u := t.Underlying().(type) {
	case *types.Basic:
		switch {
		case u.Info()&types.IsString != 0:
			return c27SL(`""`, 0)
		case u.Info()&(types.IsInteger|types.IsBoolean) != 0:
			return c27I(0)
		case u.Kind() == types.UnsafePointer || u.Kind() == types.UntypedNil:
			return c27Val{k: c27Nil}
		}
		return c27S("0.0")
	case *types.Struct, *types.Array:
		return c27Val{k: c27Agg, cell: p.newCell(t, "zero")}
	}
	return c27Val{k: c27Nil}
}

func (p *c27Path) newCell(t types.Type, what string) *c27Cell {
	c := &c27Cell{typ: t, name: fmt.Sprintf("%s#%d", what, p.id())}
	switch u := t.Underlying().(type) {
	case *types.Struct:
		c.fields = make([]*c27Cell, u.NumFields())
		for i := range c.fields {
			c.fields[i] = p.newCell(u.Field(i).Type(), what+"."+u.Field(i).Name())
		}
	case *types.Array:
		if c27IsByte(u.Elem()) {
			c.buf = &c27Buf{name: c.name, length: c27I(u.Len())}
		} else if u.Len() <= 64 {
			c.elems = make([]*c27Cell, u.Len())
			for i := range c.elems {
				c.elems[i] = p.newCell(u.Elem(), what+"[]")
			}
		} else {
			c.val = c27S("zero " + t.String())
		}
	default:
		c.val = p.zero(t)
	}
	return c
}

func (p *c27Path) copyCell(c *c27Cell) *c27Cell {
	n := &c27Cell{name: c.name, typ: c.typ, val: c.val} // a copy is not the decoded message itself
	for _, f := range c.fields {
		n.fields = append(n.fields, p.copyCell(f))
	}
	for _, e := range c.elems {
		n.elems = append(n.elems, p.copyCell(e))
	}
	if c.buf != nil {
		n.buf = &c27Buf{name: c.buf.name, length: c.buf.length, log: append([]c27Write(nil), c.buf.log...)}
	}
	return n
}

// assign overwrites dst in place with the content of src (same type).
func (p *c27Path) assign(dst, src *c27Cell) {
	dst.val = src.val
	if len(dst.fields) == len(src.fields) {
		for i := range dst.fields {
			p.assign(dst.fields[i], src.fields[i])
		}
	}
	if len(dst.elems) == len(src.elems) {
		for i := range dst.elems {
			p.assign(dst.elems[i], src.elems[i])
		}
	}
	if dst.buf != nil && src.buf != nil {
		dst.buf.length = src.buf.length
		dst.buf.log = append([]c27Write(nil), src.buf.log...)
	}
}

// assignSym makes dst hold the opaque aggregate / scalar named tag.
func (p *c27Path) assignSym(dst *c27Cell, tag string) {
	switch {
	case dst.fields != nil:
		st := dst.typ.Underlying().(*types.Struct)
		for i, f := range dst.fields {
			p.assignSym(f, tag+"."+st.Field(i).Name())
		}
	case dst.elems != nil:
		for i, e := range dst.elems {
			p.assignSym(e, fmt.Sprintf("%s[%d]", tag, i))
		}
	case dst.buf != nil:
		dst.buf.log = []c27Write{{off: c27I(0), n: dst.buf.length, src: tag, whole: true}}
	default:
		dst.val = c27S(tag)
	}
}

func (p *c27Path) isAggCell(c *c27Cell) bool {
	return c.fields != nil || c.elems != nil || c.buf != nil
}

// ---------------------------------------------------------------------------
// rendering

func c27Add(a, b c27Val) c27Val {
	if a.k == c27Int && b.k == c27Int {
		return c27I(a.n + b.n)
	}
	if a.k == c27Int && a.n == 0 {
		return b
	}
	if b.k == c27Int && b.n == 0 {
		return a
	}
	xs := []string{c27Render(a), c27Render(b)}
	sort.Strings(xs)
	return c27S("(" + xs[0] + "+" + xs[1] + ")")
}

func c27SubV(a, b c27Val) c27Val {
	if a.k == c27Int && b.k == c27Int {
		return c27I(a.n - b.n)
	}
	if b.k == c27Int && b.n == 0 {
		return a
	}
	return c27S("(" + c27Render(a) + "-" + c27Render(b) + ")")
}

func c27Render(v c27Val) string {
	switch v.k {
	case c27Int:
		return strconv.FormatInt(v.n, 10)
	case c27Nil:
		return "nil"
	case c27Sym:
		if v.neg {
			return "!" + v.tag
		}
		return v.tag
	case c27Addr:
		return "&" + v.tag
	case c27Ptr:
		if v.buf != nil {
			return "&" + v.buf.name + "[" + c27Render(*v.lo) + "]"
		}
		if v.cell.buf != nil {
			return "&" + c27BufContent(v.cell.buf, c27I(0), v.cell.buf.length)
		}
		return "&" + v.cell.name
	case c27Slice:
		if v.buf != nil {
			return c27BufContent(v.buf, *v.lo, *v.hi)
		}
		var xs []string
		if v.lo.k == c27Int && v.hi.k == c27Int {
			for i := v.lo.n; i < v.hi.n && i < int64(len(v.cell.elems)); i++ {
				xs = append(xs, c27RenderCell(v.cell.elems[i]))
			}
		}
		return "[" + strings.Join(xs, ",") + "]"
	case c27Agg:
		return c27RenderCell(v.cell)
	case c27Tuple:
		var xs []string
		for _, e := range v.el {
			xs = append(xs, c27Render(e))
		}
		return "(" + strings.Join(xs, ",") + ")"
	case c27HashV:
		return v.h.name
	case c27Func:
		return "func:" + short(v.fn.String())
	}
	return "?"
}

func c27RenderCell(c *c27Cell) string {
	switch {
	case c.fields != nil:
		st := c.typ.Underlying().(*types.Struct)
		var xs []string
		for i, f := range c.fields {
			xs = append(xs, st.Field(i).Name()+":"+c27RenderCell(f))
		}
		return "{" + strings.Join(xs, ",") + "}"
	case c.elems != nil:
		var xs []string
		for _, e := range c.elems {
			xs = append(xs, c27RenderCell(e))
		}
		return "[" + strings.Join(xs, ",") + "]"
	case c.buf != nil:
		return c27BufContent(c.buf, c27I(0), c.buf.length)
	}
	return c27Render(c.val)
}

// c27BufContent: the bytes of buf[lo:hi] as a term.
func c27BufContent(b *c27Buf, lo, hi c27Val) string {
	full := lo.k == c27Int && lo.n == 0 && c27Render(hi) == c27Render(b.length)
	if len(b.log) == 0 {
		return "zeros[" + c27Render(c27SubV(hi, lo)) + "]"
	}
	if len(b.log) == 1 && b.log[0].whole && full {
		return b.log[0].src
	}
	if s, ok := c27Tiled(b, lo, hi); ok {
		return s
	}
	// one value fills the buffer: a part of the buffer is that part of the value
	if len(b.log) == 1 && b.log[0].whole && lo.k == c27Int {
		if c27Render(hi) == c27Render(b.length) {
			return c27SliceTerm(b.log[0].src, lo.n, -1, -1)
		}
		if hi.k == c27Int {
			return c27SliceTerm(b.log[0].src, lo.n, hi.n, -1)
		}
	}
	var xs []string
	for _, w := range b.log {
		xs = append(xs, "@"+c27Render(w.off)+"+"+c27Render(w.n)+":"+w.src)
	}
	s := "buf[" + c27Render(b.length) + "]{" + strings.Join(xs, ";") + "}"
	if !full {
		h := c27Render(hi)
		if h == c27Render(b.length) {
			h = "" // to the end
		}
		s += "[" + c27Render(lo) + ":" + h + "]"
	}
	return s
}

// c27Tiled: when every write into the buffer has a known offset and length, the
// content of buf[lo:hi] is the concatenation of what the bytes hold, in address
// order: later writes replace earlier ones, unwritten bytes are zero, a field
// that is only partly inside [lo,hi) contributes that part. Four single bytes
// byte(x>>24), byte(x>>16), byte(x>>8), byte(x) in a row are u32be(x).
func c27Tiled(b *c27Buf, lo, hi c27Val) (string, bool) {
	if lo.k != c27Int || hi.k != c27Int || b.length.k != c27Int {
		return "", false
	}
	type seg struct {
		a, z   int64 // [a, z) in the buffer
		src    string
		sa, sn int64 // bytes [sa, sa+(z-a)) of src, which is sn long
	}
	var segs []seg
	for _, w := range b.log {
		if w.off.k != c27Int || w.n.k != c27Int {
			return "", false
		}
		if w.n.n == 0 {
			continue
		}
		na, nz := w.off.n, w.off.n+w.n.n
		var keep []seg
		for _, s := range segs {
			if s.z <= na || s.a >= nz {
				keep = append(keep, s)
				continue
			}
			if s.a < na {
				keep = append(keep, seg{s.a, na, s.src, s.sa, s.sn})
			}
			if s.z > nz {
				keep = append(keep, seg{nz, s.z, s.src, s.sa + (nz - s.a), s.sn})
			}
		}
		segs = append(keep, seg{na, nz, w.src, 0, w.n.n})
	}
	sort.Slice(segs, func(i, j int) bool { return segs[i].a < segs[j].a })
	var parts []string
	pos := lo.n
	zeros := func(n int64) {
		if n > 0 {
			parts = append(parts, "zeros["+strconv.FormatInt(n, 10)+"]")
		}
	}
	for i := 0; i < len(segs); i++ {
		s := segs[i]
		if s.z <= lo.n || s.a >= hi.n {
			continue
		}
		a, z := max(s.a, lo.n), min(s.z, hi.n)
		zeros(a - pos)
		// big-endian word written byte by byte
		if i+3 < len(segs) && a == s.a && s.z-s.a == 1 && segs[i+3].z <= hi.n {
			ok := true
			var bs [4]string
			for k := 0; k < 4; k++ {
				t := segs[i+k]
				if t.a != s.a+int64(k) || t.z-t.a != 1 || t.sn != 1 {
					ok = false
					break
				}
				bs[k] = t.src
			}
			if ok {
				if x, isWord := c27Word(bs); isWord {
					parts = append(parts, "u32be("+x+")")
					pos = s.a + 4
					i += 3
					continue
				}
			}
		}
		parts = append(parts, c27SliceTerm(s.src, s.sa+(a-s.a), s.sa+(z-s.a), s.sn))
		pos = z
	}
	zeros(hi.n - pos)
	if len(parts) == 0 {
		return "zeros[0]", true
	}
	return strings.Join(parts, "||"), true
}

// c27Word: the four byte terms are byte(x>>24), byte(x>>16), byte(x>>8), byte(x).
func c27Word(at [4]string) (string, bool) {
	x := at[3]
	if x == "" {
		return "", false
	}
	var v int64
	known := true
	for _, s := range at {
		n, err := strconv.ParseInt(s, 10, 64)
		if err != nil || n < 0 || n > 255 {
			known = false
			break
		}
		v = v<<8 | n
	}
	if known {
		return strconv.FormatInt(v, 10), true
	}
	if at[0] != "("+x+">>24)" || at[1] != "("+x+">>16)" || at[2] != "("+x+">>8)" {
		return "", false
	}
	return x, true
}

// c27BigEndian32: a 4-byte buffer written as byte(x>>24), byte(x>>16),
// byte(x>>8), byte(x) at offsets 0..3 holds the big-endian uint32 x.
func c27BigEndian32(b *c27Buf) (string, bool) {
	if !(b.length.k == c27Int && b.length.n == 4) || len(b.log) != 4 {
		return "", false
	}
	var at [4]string
	for _, w := range b.log {
		if w.off.k != c27Int || w.off.n < 0 || w.off.n > 3 || !(w.n.k == c27Int && w.n.n == 1) || at[w.off.n] != "" {
			return "", false
		}
		at[w.off.n] = w.src
	}
	x := at[3]
	if x == "" {
		return "", false
	}
	// all four bytes known
	var v int64
	known := true
	for _, s := range at {
		n, err := strconv.ParseInt(s, 10, 64)
		if err != nil || n < 0 || n > 255 {
			known = false
			break
		}
		v = v<<8 | n
	}
	if known {
		return strconv.FormatInt(v, 10), true
	}
	if at[0] != "("+x+">>24)" || at[1] != "("+x+">>16)" || at[2] != "("+x+">>8)" {
		return "", false
	}
	return x, true
}

// content: the byte-string term a value denotes at this moment.
func c27Content(v c27Val) string {
	return c27Render(v)
}

func c27Len(v c27Val) c27Val {
	switch v.k {
	case c27Nil:
		return c27I(0)
	case c27Slice:
		return c27SubV(*v.hi, *v.lo)
	case c27Sym:
		if v.hasLen {
			return c27I(v.n)
		}
		return c27S("len(" + v.tag + ")")
	case c27Agg:
		if v.cell.buf != nil {
			return v.cell.buf.length
		}
		return c27I(int64(len(v.cell.elems)))
	case c27Ptr:
		if v.cell != nil && v.cell.buf != nil {
			return v.cell.buf.length
		}
		if v.cell != nil {
			return c27I(int64(len(v.cell.elems)))
		}
	}
	return c27S("len(" + c27Render(v) + ")")
}

// ---------------------------------------------------------------------------
// values of operands

func (p *c27Path) globalName(g *ssa.Global) string {
	if g.Pkg != nil && p.root.Pkg != nil && g.Pkg == p.root.Pkg {
		return g.Name()
	}
	if g.Pkg != nil {
		return short(g.Pkg.Pkg.Path()) + "." + g.Name()
	}
	return g.Name()
}

func (p *c27Path) constVal(c *ssa.Const) c27Val {
	if c.Value == nil {
		return p.zero(c.Type())
	}
	switch c.Value.Kind() {
	case constant.Bool:
		return c27B(constant.BoolVal(c.Value))
	case constant.Int:
		if n, ok := constInt(c); ok {
			return c27I(n)
		}
	case constant.String:
		s := constant.StringVal(c.Value)
		return c27SL(strconv.Quote(s), int64(len(s)))
	}
	return c27S(c.Value.ExactString())
}

func (p *c27Path) get(f *c27Frame, v ssa.Value) c27Val {
	switch x := v.(type) {
	case *ssa.Const:
		return p.constVal(x)
	case *ssa.Global:
		return c27Val{k: c27Addr, tag: p.globalName(x)}
	case *ssa.Function:
		return c27Val{k: c27Func, fn: x}
	case *ssa.FreeVar:
		for i, fv := range f.fn.FreeVars {
			if fv == x && i < len(f.free) {
				return f.free[i]
			}
		}
		p.abort("free variable %s not bound", x.Name())
	case *ssa.Builtin:
		return c27S("builtin:" + x.Name())
	}
	r, ok := f.env[v]
	if !ok {
		p.abort("value %s (%T) used before it was computed in %s", v.Name(), v, f.fn.Name())
	}
	return r
}

// ---------------------------------------------------------------------------
// memory

func (p *c27Path) load(addr c27Val, t types.Type, at ssa.Instruction) c27Val {
	switch addr.k {
	case c27Ptr:
		if addr.buf != nil {
			return c27S(c27BufContent(addr.buf, c27I(0), addr.buf.length) + "[" + c27Render(*addr.lo) + "]")
		}
		if p.isAggCell(addr.cell) {
			return c27Val{k: c27Agg, cell: p.copyCell(addr.cell)}
		}
		return addr.cell.val
	case c27Addr:
		if v, ok := p.mem[addr.tag]; ok {
			return v
		}
		return c27S(addr.tag)
	case c27Sym:
		// dereference of an opaque pointer value
		if v, ok := p.mem["*"+addr.tag]; ok {
			return v
		}
		return c27S("*" + addr.tag)
	}
	p.abort("load through %s at %s", c27Render(addr), p.x.c.posStr(at.Pos()))
	return c27Val{}
}

func (p *c27Path) store(addr, v c27Val, at ssa.Instruction) {
	switch addr.k {
	case c27Ptr:
		if addr.buf != nil {
			addr.buf.log = append(addr.buf.log, c27Write{off: *addr.lo, n: c27I(1), src: c27Render(v)})
			return
		}
		c := addr.cell
		if p.isAggCell(c) {
			switch v.k {
			case c27Agg:
				p.assign(c, v.cell)
			case c27Sym:
				p.assignSym(c, v.tag)
			default:
				p.abort("store of %s into an aggregate", c27Render(v))
			}
			return
		}
		c.val = v
	case c27Addr:
		p.mem[addr.tag] = v
	case c27Sym:
		p.mem["*"+addr.tag] = v
	default:
		p.abort("store through %s at %s", c27Render(addr), p.x.c.posStr(at.Pos()))
	}
}

func fieldName(t types.Type, i int) string {
	if st := derefStruct(t); st != nil && i < st.NumFields() {
		return st.Field(i).Name()
	}
	return fmt.Sprintf("f%d", i)
}

// ---------------------------------------------------------------------------
// interpretation of one function activation

func (p *c27Path) callFn(fn *ssa.Function, args []c27Val, free []c27Val, depth int) []c27Val {
	if len(fn.Blocks) == 0 {
		p.abort("function %s has no body", fn.Name())
	}
	if depth > 10 || p.active[fn] > 1 {
		p.abort("call depth / recursion bound at %s", fn.Name())
	}
	p.active[fn]++
	defer func() { p.active[fn]-- }()
	p.frameSeq++
	f := &c27Frame{fn: fn, env: map[ssa.Value]c27Val{}, free: free, id: p.frameSeq, d: depth}
	for i, pa := range fn.Params {
		if i < len(args) {
			f.env[pa] = args[i]
		} else {
			f.env[pa] = c27S(pa.Name())
		}
	}
	b := fn.Blocks[0]
	var pred *ssa.BasicBlock
	for {
		// phis: parallel assignment
		if pred != nil {
			idx := -1
			for i, q := range b.Preds {
				if q == pred {
					idx = i
				}
			}
			var phs []*ssa.Phi
			var vals []c27Val
			for _, in := range b.Instrs {
				ph, ok := in.(*ssa.Phi)
				if !ok {
					break
				}
				phs = append(phs, ph)
				vals = append(vals, p.get(f, ph.Edges[idx]))
			}
			for i, ph := range phs {
				f.env[ph] = vals[i]
			}
		}
		var next *ssa.BasicBlock
		for _, in := range b.Instrs {
			for len(p.cur) <= depth {
				p.cur = append(p.cur, nil)
			}
			p.cur[depth] = in
			p.cur = p.cur[:depth+1]
			p.steps++
			if p.steps > 60000 {
				p.abort("step bound exceeded in %s", fn.Name())
			}
			switch x := in.(type) {
			case *ssa.Phi, *ssa.DebugRef, *ssa.RunDefers:
			case *ssa.Jump:
				next = b.Succs[0]
			case *ssa.If:
				if p.branch(f, x) {
					next = b.Succs[0]
				} else {
					next = b.Succs[1]
				}
			case *ssa.Return:
				p.last = x
				var rs []c27Val
				for _, r := range x.Results {
					rs = append(rs, p.get(f, r))
				}
				return rs
			case *ssa.Panic:
				p.last = x
				panic(c27End{"panic"})
			default:
				p.instr(f, in)
			}
		}
		if next == nil {
			p.abort("block without terminator in %s", fn.Name())
		}
		pred, b = b, next
	}
}

func (p *c27Path) branch(f *c27Frame, x *ssa.If) bool {
	c := p.get(f, x.Cond)
	switch c.k {
	case c27Int:
		return c.n != 0
	case c27Sym:
		key := c.tag
		if d, ok := p.cons[key]; ok {
			return d != c.neg
		}
		// loop cut: the same undecided test taken again in the same activation
		// with no known loop counter having moved (a counted loop over a table
		// makes progress and is followed to its end)
		var prog uint64
		for v, val := range f.env {
			if ph, ok := v.(*ssa.Phi); ok && val.k == c27Int {
				var hn uint64 = 1469598103934665603
				for _, ch := range ph.Name() {
					hn = (hn ^ uint64(ch)) * 1099511628211
				}
				prog += hn * uint64(val.n+7)
			}
		}
		fk := fmt.Sprintf("%p/%d/%x", x, f.id, prog)
		p.forkCnt[fk]++
		gk := fmt.Sprintf("%p", x)
		p.forkCnt[gk]++
		if p.forkCnt[fk] > 2 || p.forkCnt[gk] > 200 {
			panic(c27End{"cutoff"})
		}
		d := true // outcome of the condition as written
		if len(p.taken) < len(p.decide) {
			d = p.decide[len(p.taken)]
		} else {
			p.pending = append(p.pending, append(append([]bool(nil), p.taken...), false))
		}
		p.taken = append(p.taken, d)
		p.cons[key] = d != c.neg
		p.consLog = append(p.consLog, fmt.Sprintf("%s=%v", key, d != c.neg))
		p.imply(key, d != c.neg)
		return d
	}
	p.abort("branch on %s", c27Render(c))
	return false
}

// imply records what a decision entails for related tests of the same value:
// x == nil entails len(x) == 0, and len(x) != 0 entails x != nil.
func (p *c27Path) imply(key string, truth bool) {
	set := func(k string, v bool) {
		if _, has := p.cons[k]; !has {
			p.cons[k] = v
			p.consLog = append(p.consLog, fmt.Sprintf("(=> %s=%v)", k, v))
		}
	}
	x := ""
	switch {
	case strings.HasPrefix(key, "(nil==") && strings.HasSuffix(key, ")"):
		x = key[6 : len(key)-1]
	case strings.HasSuffix(key, "==nil)") && strings.HasPrefix(key, "("):
		x = key[1 : len(key)-6]
	}
	if x != "" && truth {
		set(c27EqKey("0", "len("+x+")"), true)
	}
	if strings.HasPrefix(key, "(0==len(") && strings.HasSuffix(key, "))") {
		if !truth {
			set(c27EqKey("nil", key[8:len(key)-2]), false)
		}
		// a length is not negative: len == 0 is the same as !(0 < len)
		set("(0<"+key[4:], !truth)
	}
	if strings.HasPrefix(key, "(0<len(") && strings.HasSuffix(key, "))") {
		set("(0=="+key[3:], !truth)
		if truth {
			set(c27EqKey("nil", key[7:len(key)-2]), false)
		}
	}
}

// holds reports how the path decided the condition term (as printed by c27Render without negation).
func (p *c27Path) holds(tag string) (val, known bool) {
	v, ok := p.cons[tag]
	return v, ok
}

func (p *c27Path) instr(f *c27Frame, in ssa.Instruction) {
	switch x := in.(type) {
	case *ssa.Alloc:
		t := x.Type().Underlying().(*types.Pointer).Elem()
		what := "new"
		if n, ok := t.(*types.Named); ok {
			what = n.Obj().Name()
		}
		f.env[x] = c27Val{k: c27Ptr, cell: p.newCell(t, what)}
	case *ssa.Store:
		addr := p.get(f, x.Addr)
		if addr.k == c27Ptr && addr.cell != nil && addr.cell.peer != "" {
			p.peerMut = append(p.peerMut, x)
		}
		p.store(addr, p.get(f, x.Val), x)
	case *ssa.UnOp:
		f.env[x] = p.unop(f, x)
	case *ssa.BinOp:
		f.env[x] = p.binop(x.Op, p.get(f, x.X), p.get(f, x.Y), x.X.Type())
	case *ssa.FieldAddr:
		base := p.get(f, x.X)
		switch base.k {
		case c27Ptr:
			if base.cell == nil || base.cell.fields == nil {
				p.abort("field address of a non-struct cell")
			}
			fc := base.cell.fields[x.Field]
			if base.cell.peer != "" && fc.peer == "" {
				fc.peer = base.cell.peer
			}
			f.env[x] = c27Val{k: c27Ptr, cell: fc}
		case c27Sym, c27Addr:
			f.env[x] = c27Val{k: c27Addr, tag: base.tag + "." + fieldName(x.X.Type(), x.Field)}
		case c27Nil:
			panic(c27End{"panic"})
		default:
			p.abort("field address of %s", c27Render(base))
		}
	case *ssa.Field:
		base := p.get(f, x.X)
		switch base.k {
		case c27Agg:
			f.env[x] = p.cellVal(base.cell.fields[x.Field])
		case c27Sym:
			f.env[x] = c27S(base.tag + "." + fieldName(x.X.Type(), x.Field))
		default:
			p.abort("field of %s", c27Render(base))
		}
	case *ssa.IndexAddr:
		f.env[x] = p.indexAddr(p.get(f, x.X), p.get(f, x.Index))
	case *ssa.Index:
		base, idx := p.get(f, x.X), p.get(f, x.Index)
		if base.k == c27Agg && base.cell.elems != nil && idx.k == c27Int && idx.n >= 0 && idx.n < int64(len(base.cell.elems)) {
			f.env[x] = p.cellVal(base.cell.elems[idx.n])
		} else {
			f.env[x] = c27S(c27Render(base) + "[" + c27Render(idx) + "]")
		}
	case *ssa.Lookup:
		base, idx := p.get(f, x.X), p.get(f, x.Index)
		tag := c27Render(base) + "[" + c27Render(idx) + "]"
		if base.k == c27Addr {
			tag = base.tag + "[" + c27Render(idx) + "]"
		}
		v := c27S(tag)
		if m, ok := p.mem[tag]; ok {
			v = m
		}
		if x.CommaOk {
			f.env[x] = c27Val{k: c27Tuple, el: []c27Val{v, c27S("has(" + tag + ")")}}
		} else {
			f.env[x] = v
		}
	case *ssa.MapUpdate:
		m := p.get(f, x.Map)
		mk := c27Render(m) + "[" + c27Render(p.get(f, x.Key)) + "]"
		p.mem[mk] = p.get(f, x.Value)
		if p.memAt == nil {
			p.memAt = map[string]ssa.Instruction{}
		}
		p.memAt[mk] = p.where(x)
	case *ssa.Slice:
		f.env[x] = p.slice(f, x)
	case *ssa.MakeSlice:
		n := p.get(f, x.Len)
		et := x.Type().Underlying().(*types.Slice).Elem()
		if c27IsByte(et) {
			b := &c27Buf{name: fmt.Sprintf("make#%d", p.id()), length: n}
			lo, hi := c27I(0), n
			f.env[x] = c27Val{k: c27Slice, buf: b, lo: &lo, hi: &hi}
		} else if n.k == c27Int && n.n <= 64 {
			c := &c27Cell{name: fmt.Sprintf("make#%d", p.id()), typ: types.NewArray(et, n.n)}
			for i := int64(0); i < n.n; i++ {
				c.elems = append(c.elems, p.newCell(et, "elem"))
			}
			lo, hi := c27I(0), n
			f.env[x] = c27Val{k: c27Slice, cell: c, lo: &lo, hi: &hi}
		} else {
			f.env[x] = c27S(fmt.Sprintf("make#%d(%s,%s)", p.id(), x.Type().String(), c27Render(n)))
		}
	case *ssa.MakeMap:
		f.env[x] = c27S(fmt.Sprintf("map#%d", p.id()))
	case *ssa.MakeChan:
		f.env[x] = c27S(fmt.Sprintf("chan#%d", p.id()))
	case *ssa.MakeClosure:
		fn, _ := x.Fn.(*ssa.Function)
		v := c27Val{k: c27Func, fn: fn}
		for _, b := range x.Bindings {
			v.el = append(v.el, p.get(f, b))
		}
		f.env[x] = v
	case *ssa.MakeInterface:
		v := p.get(f, x.X)
		v.ityp = x.X.Type()
		f.env[x] = v
	case *ssa.ChangeInterface:
		f.env[x] = p.get(f, x.X)
	case *ssa.ChangeType:
		f.env[x] = p.get(f, x.X)
	case *ssa.Convert:
		f.env[x] = p.convert(p.get(f, x.X), x.X.Type(), x.Type())
	case *ssa.SliceToArrayPointer:
		v := p.get(f, x.X)
		if v.k == c27Slice && v.buf != nil && v.lo.k == c27Int && v.lo.n == 0 {
			f.env[x] = c27Val{k: c27Ptr, cell: &c27Cell{name: v.buf.name, typ: x.Type().Underlying().(*types.Pointer).Elem(), buf: v.buf}}
		} else {
			f.env[x] = c27S("(*array)(" + c27Render(v) + ")")
		}
	case *ssa.TypeAssert:
		v := p.get(f, x.X)
		var res, ok c27Val
		switch {
		case v.k == c27Nil:
			res, ok = p.zero(x.AssertedType), c27I(0)
		case v.ityp != nil && !types.IsInterface(x.AssertedType):
			if types.Identical(v.ityp, x.AssertedType) {
				res, ok = v, c27I(1)
			} else {
				res, ok = p.zero(x.AssertedType), c27I(0)
			}
		case v.ityp != nil && types.IsInterface(x.AssertedType):
			if types.Implements(v.ityp, x.AssertedType.Underlying().(*types.Interface)) {
				res, ok = v, c27I(1)
			} else {
				res, ok = p.zero(x.AssertedType), c27I(0)
			}
		default:
			res = v
			ok = c27S("is(" + c27Render(v) + "," + short(x.AssertedType.String()) + ")")
		}
		if x.CommaOk {
			f.env[x] = c27Val{k: c27Tuple, el: []c27Val{res, ok}}
		} else {
			if ok.k == c27Int && ok.n == 0 {
				panic(c27End{"panic"})
			}
			f.env[x] = res
		}
	case *ssa.Extract:
		t := p.get(f, x.Tuple)
		if t.k == c27Tuple && x.Index < len(t.el) {
			f.env[x] = t.el[x.Index]
		} else {
			f.env[x] = c27S(fmt.Sprintf("%s#%d", c27Render(t), x.Index))
		}
	case *ssa.Call:
		f.env[x] = p.call(f, x)
	case *ssa.Defer:
		// deferred calls run at exit; none of the facts decided here is established by one
		for _, a := range x.Call.Args {
			if v := p.get(f, a); v.k == c27HashV {
				p.abort("deferred call with a hash argument")
			}
		}
	case *ssa.Go, *ssa.Send, *ssa.Select, *ssa.Range, *ssa.Next:
		if v, ok := in.(ssa.Value); ok {
			f.env[v] = c27S(fmt.Sprintf("%T#%d", in, p.id()))
			if _, isNext := in.(*ssa.Next); isNext {
				p.abort("range over a map or string is outside the model")
			}
		}
	default:
		p.abort("instruction %T outside the model", in)
	}
}

func (p *c27Path) cellVal(c *c27Cell) c27Val {
	if p.isAggCell(c) {
		return c27Val{k: c27Agg, cell: c}
	}
	return c.val
}

func (p *c27Path) unop(f *c27Frame, x *ssa.UnOp) c27Val {
	v := p.get(f, x.X)
	switch x.Op {
	case token.MUL:
		return p.load(v, x.Type(), x)
	case token.NOT:
		if v.k == c27Int {
			return c27B(v.n == 0)
		}
		if v.k == c27Sym {
			v.neg = !v.neg
			return v
		}
	case token.SUB:
		if v.k == c27Int {
			return c27I(-v.n)
		}
		return c27S("(-" + c27Render(v) + ")")
	case token.XOR:
		if v.k == c27Int {
			return p.trunc(c27I(^v.n), x.Type())
		}
		return c27S("(^" + c27Render(v) + ")")
	case token.ARROW:
		return c27S(fmt.Sprintf("recv#%d(%s)", p.id(), c27Render(v)))
	}
	p.abort("unary %s on %s", x.Op, c27Render(v))
	return c27Val{}
}

func (p *c27Path) trunc(v c27Val, t types.Type) c27Val {
	b, ok := t.Underlying().(*types.Basic)
	if !ok || v.k != c27Int {
		return v
	}
	switch b.Kind() {
	case types.Uint8:
		return c27I(int64(uint8(v.n)))
	case types.Uint16:
		return c27I(int64(uint16(v.n)))
	case types.Uint32:
		return c27I(int64(uint32(v.n)))
	case types.Int8:
		return c27I(int64(int8(v.n)))
	case types.Int16:
		return c27I(int64(int16(v.n)))
	case types.Int32:
		return c27I(int64(int32(v.n)))
	}
	return v
}

func (p *c27Path) convert(v c27Val, from, to types.Type) c27Val {
	if v.k == c27Int {
		return p.trunc(v, to)
	}
	// string <-> []byte keeps the content; numeric conversions keep the term
	if v.k == c27Slice && v.buf != nil {
		if b, ok := to.Underlying().(*types.Basic); ok && b.Info()&types.IsString != 0 {
			l := c27Len(v)
			if l.k == c27Int {
				return c27SL(c27Render(v), l.n)
			}
			return c27S(c27Render(v))
		}
	}
	return v
}

func c27IsNilable(v c27Val) (isNil, known bool) {
	switch v.k {
	case c27Nil:
		return true, true
	case c27Ptr, c27Slice, c27HashV, c27Func, c27Agg:
		return false, true
	}
	return false, false
}

func (p *c27Path) binop(op token.Token, a, b c27Val, t types.Type) c27Val {
	if a.k == c27Int && b.k == c27Int {
		x, y := a.n, b.n
		switch op {
		case token.ADD:
			return p.trunc(c27I(x+y), t)
		case token.SUB:
			return p.trunc(c27I(x-y), t)
		case token.MUL:
			return p.trunc(c27I(x*y), t)
		case token.QUO:
			if y == 0 {
				panic(c27End{"panic"})
			}
			return c27I(x / y)
		case token.REM:
			if y == 0 {
				panic(c27End{"panic"})
			}
			return c27I(x % y)
		case token.AND:
			return c27I(x & y)
		case token.OR:
			return c27I(x | y)
		case token.XOR:
			return c27I(x ^ y)
		case token.AND_NOT:
			return c27I(x &^ y)
		case token.SHL:
			return p.trunc(c27I(x<<uint(y)), t)
		case token.SHR:
			return c27I(x >> uint(y))
		}
		if r, ok := evalCmp(op, x, y); ok {
			return c27B(r)
		}
	}
	if op == token.EQL || op == token.NEQ {
		// a freshly constructed error is not nil
		for _, pr := range [][2]c27Val{{a, b}, {b, a}} {
			if pr[0].k == c27Nil && pr[1].k == c27Sym && (strings.HasPrefix(pr[1].tag, "fmt.Errorf@") || strings.HasPrefix(pr[1].tag, "errors.New@")) && strings.HasSuffix(pr[1].tag, ")") {
				return c27B(op == token.NEQ)
			}
		}
		an, ak := c27IsNilable(a)
		bn, bk := c27IsNilable(b)
		if ak && bk && (an || bn) {
			return c27B((an == bn) == (op == token.EQL))
		}
		// two string constants
		if a.k == c27Sym && b.k == c27Sym && strings.HasPrefix(a.tag, `"`) && strings.HasPrefix(b.tag, `"`) && !strings.Contains(a.tag[1:len(a.tag)-1], `"`) {
			if _, err := strconv.Unquote(a.tag); err == nil {
				if _, err := strconv.Unquote(b.tag); err == nil {
					return c27B((a.tag == b.tag) == (op == token.EQL))
				}
			}
		}
		xs := []string{c27Render(a), c27Render(b)}
		sort.Strings(xs)
		return c27Val{k: c27Sym, tag: "(" + xs[0] + "==" + xs[1] + ")", neg: op == token.NEQ}
	}
	switch op {
	case token.ADD:
		// integer addition commutes; string concatenation does not
		if bt, ok := t.Underlying().(*types.Basic); ok && bt.Info()&types.IsString == 0 {
			return c27Add(a, b)
		}
	case token.SUB:
		return c27SubV(a, b)
	case token.LSS, token.LEQ, token.GTR, token.GEQ:
		// normalise to < and <= so that a test and its mirror image share one term
		switch op {
		case token.GTR:
			a, b, op = b, a, token.LSS
		case token.GEQ:
			a, b, op = b, a, token.LEQ
		}
		if op == token.LEQ {
			// a <= b  ==  !(b < a)
			return c27Val{k: c27Sym, tag: "(" + c27Render(b) + "<" + c27Render(a) + ")", neg: true}
		}
		return c27Val{k: c27Sym, tag: "(" + c27Render(a) + "<" + c27Render(b) + ")"}
	}
	return c27S("(" + c27Render(a) + op.String() + c27Render(b) + ")")
}

func (p *c27Path) indexAddr(base, idx c27Val) c27Val {
	switch base.k {
	case c27Ptr:
		if base.cell != nil && base.cell.buf != nil {
			i := idx
			return c27Val{k: c27Ptr, buf: base.cell.buf, lo: &i}
		}
		if base.cell != nil && base.cell.elems != nil && idx.k == c27Int {
			if idx.n < 0 || idx.n >= int64(len(base.cell.elems)) {
				panic(c27End{"panic"})
			}
			return c27Val{k: c27Ptr, cell: base.cell.elems[idx.n]}
		}
	case c27Slice:
		if base.buf != nil {
			i := c27Add(*base.lo, idx)
			return c27Val{k: c27Ptr, buf: base.buf, lo: &i}
		}
		if idx.k == c27Int && base.lo.k == c27Int {
			k := base.lo.n + idx.n
			if k < 0 || k >= int64(len(base.cell.elems)) {
				panic(c27End{"panic"})
			}
			return c27Val{k: c27Ptr, cell: base.cell.elems[k]}
		}
	case c27Sym, c27Addr:
		return c27Val{k: c27Addr, tag: base.tag + "[" + c27Render(idx) + "]"}
	case c27Nil:
		panic(c27End{"panic"})
	}
	p.abort("element address %s[%s]", c27Render(base), c27Render(idx))
	return c27Val{}
}

func (p *c27Path) slice(f *c27Frame, x *ssa.Slice) c27Val {
	base := p.get(f, x.X)
	var lo, hi *c27Val
	if x.Low != nil {
		v := p.get(f, x.Low)
		lo = &v
	}
	if x.High != nil {
		v := p.get(f, x.High)
		hi = &v
	}
	return p.sliceVal(base, lo, hi)
}

func (p *c27Path) sliceVal(base c27Val, lo, hi *c27Val) c27Val {
	mk := func(b *c27Buf, c *c27Cell, blo, bhi c27Val) c27Val {
		nlo, nhi := blo, bhi
		if lo != nil {
			nlo = c27Add(blo, *lo)
		}
		if hi != nil {
			nhi = c27Add(blo, *hi)
		}
		if nlo.k == c27Int && nhi.k == c27Int && nlo.n > nhi.n {
			panic(c27End{"panic"})
		}
		return c27Val{k: c27Slice, buf: b, cell: c, lo: &nlo, hi: &nhi}
	}
	switch base.k {
	case c27Ptr:
		if base.cell != nil && base.cell.buf != nil {
			return mk(base.cell.buf, nil, c27I(0), base.cell.buf.length)
		}
		if base.cell != nil && base.cell.elems != nil {
			return mk(nil, base.cell, c27I(0), c27I(int64(len(base.cell.elems))))
		}
	case c27Slice:
		return mk(base.buf, base.cell, *base.lo, *base.hi)
	case c27Nil:
		return base
	case c27Sym, c27Addr:
		if lo == nil && hi == nil {
			return c27Val{k: c27Sym, tag: base.tag, n: base.n, hasLen: base.hasLen}
		}
		l, h := "", ""
		var ln c27Val
		lov := c27I(0)
		if lo != nil {
			l = c27Render(*lo)
			lov = *lo
		}
		if hi != nil {
			h = c27Render(*hi)
			ln = c27SubV(*hi, lov)
		} else {
			ln = c27SubV(c27Len(base), lov)
		}
		if lov.k == c27Int && lov.n == 0 && hi != nil && base.hasLen && hi.k == c27Int && hi.n == base.n {
			return base
		}
		if lov.k == c27Int && lov.n == 0 && hi == nil {
			return base
		}
		bt := base.tag
		if len(c27SplitCat(bt)) > 1 {
			bt = "(" + bt + ")"
		}
		r := c27S(bt + "[" + l + ":" + h + "]")
		if ln.k == c27Int {
			if ln.n < 0 {
				panic(c27End{"panic"})
			}
			r.n, r.hasLen = ln.n, true
		}
		return r
	}
	p.abort("slice of %s", c27Render(base))
	return c27Val{}
}

// ---------------------------------------------------------------------------
// calls

func c27HasRef(v c27Val) bool {
	switch v.k {
	case c27Ptr, c27Slice, c27HashV, c27Func:
		return true
	case c27Agg:
		return c27CellHasRef(v.cell)
	case c27Tuple:
		for _, e := range v.el {
			if c27HasRef(e) {
				return true
			}
		}
	}
	return false
}

func c27CellHasRef(c *c27Cell) bool {
	if c27HasRef(c.val) {
		return true
	}
	for _, f := range c.fields {
		if c27CellHasRef(f) {
			return true
		}
	}
	for _, e := range c.elems {
		if c27CellHasRef(e) {
			return true
		}
	}
	return false
}

// c27Tracked: result types whose values the rules follow (byte strings, hashes,
// records of the root package); a helper returning one is interpreted even when
// its arguments are all opaque.
func (p *c27Path) trackedType(t types.Type) bool {
	switch u := t.(type) {
	case *types.Tuple:
		for i := 0; i < u.Len(); i++ {
			if p.trackedType(u.At(i).Type()) {
				return true
			}
		}
		return false
	}
	if s, ok := t.Underlying().(*types.Slice); ok && c27IsByte(s.Elem()) {
		return true
	}
	if strings.HasSuffix(t.String(), "hash.Hash") {
		return true
	}
	el := t
	if pt, ok := t.Underlying().(*types.Pointer); ok {
		el = pt.Elem()
	}
	if n, ok := el.(*types.Named); ok && n.Obj().Pkg() != nil && p.root.Pkg != nil && n.Obj().Pkg() == p.root.Pkg.Pkg {
		if _, isStruct := n.Underlying().(*types.Struct); isStruct {
			return true
		}
	}
	return false
}

// c27WritesOutside: fn (or a function of its package that it calls, or a
// closure it creates) stores to memory that is not a local allocation of the
// storing function — through a parameter, a loaded pointer, a global, a map.
// Such a helper is interpreted even when all its arguments are opaque, so that
// its updates of symbolic memory ("t.sessionID = ...") are not lost.
func c27WritesOutside(fn *ssa.Function, depth int, seen map[*ssa.Function]bool) bool {
	if seen[fn] || depth > 4 {
		return false
	}
	seen[fn] = true
	// local: the address is not derived from a parameter, a captured variable
	// or a global (fresh allocations and results of calls are the callee's own)
	var local func(v ssa.Value, d int) bool
	local = func(v ssa.Value, d int) bool {
		if d > 12 {
			return false
		}
		switch x := v.(type) {
		case *ssa.Parameter, *ssa.FreeVar, *ssa.Global:
			return false
		case *ssa.FieldAddr:
			return local(x.X, d+1)
		case *ssa.IndexAddr:
			return local(x.X, d+1)
		case *ssa.Slice:
			return local(x.X, d+1)
		case *ssa.UnOp:
			return local(x.X, d+1)
		case *ssa.ChangeType:
			return local(x.X, d+1)
		case *ssa.Convert:
			return local(x.X, d+1)
		case *ssa.Phi:
			for _, e := range x.Edges {
				if e != v && !local(e, d+1) {
					return false
				}
			}
		}
		return true
	}
	out := false
	allInstrs(fn, func(in ssa.Instruction) {
		switch x := in.(type) {
		case *ssa.Store:
			if !local(x.Addr, 0) {
				out = true
			}
		case *ssa.MapUpdate:
			if !local(x.Map, 0) {
				out = true
			}
		case *ssa.Send:
			out = true
		case *ssa.MakeClosure:
			if g, ok := x.Fn.(*ssa.Function); ok && c27WritesOutside(g, depth+1, seen) {
				out = true
			}
		case ssa.CallInstruction:
			if g := x.Common().StaticCallee(); g != nil && g.Pkg != nil && g.Pkg == fn.Pkg && len(g.Blocks) > 0 && c27WritesOutside(g, depth+1, seen) {
				out = true
			}
		}
	})
	return out
}

// c27EqKey: the condition term of "a == b".
func c27EqKey(a, b string) string {
	xs := []string{a, b}
	sort.Strings(xs)
	return "(" + xs[0] + "==" + xs[1] + ")"
}

// isNil: the value is nil on this path (a constant nil, or a term the path
// decided to be nil).
func (p *c27Path) isNil(v c27Val) bool {
	if v.k == c27Nil {
		return true
	}
	if v.k == c27Sym {
		d, ok := p.cons[c27EqKey("nil", v.tag)]
		return ok && d
	}
	return false
}

func (p *c27Path) opaqueTerm(name string, args []c27Val, site ssa.Instruction, f *c27Frame) string {
	var as []string
	for _, a := range args {
		as = append(as, c27Render(a))
	}
	id, ok := p.sites[site]
	if !ok {
		id = len(p.sites) + 1
		p.sites[site] = id
	}
	key := fmt.Sprintf("%d/%d", f.id, id)
	p.occ[key]++
	s := fmt.Sprintf("%s@%d", name, id)
	if p.occ[key] > 1 {
		s += fmt.Sprintf("#%d", p.occ[key])
	}
	return s + "(" + strings.Join(as, ",") + ")"
}

func (p *c27Path) opaqueResult(term string, sig *types.Signature, name string) c27Val {
	res := sig.Results()
	mk := func(t types.Type, tag string) c27Val {
		if strings.HasSuffix(t.String(), "hash.Hash") {
			h := &c27Hash{name: fmt.Sprintf("hash#%d", p.id()), kind: c27Strip(tag)}
			p.hashes = append(p.hashes, h)
			return c27Val{k: c27HashV, h: h}
		}
		return c27S(tag)
	}
	switch res.Len() {
	case 0:
		return c27Val{k: c27Tuple}
	case 1:
		return mk(res.At(0).Type(), term)
	}
	var el []c27Val
	for i := 0; i < res.Len(); i++ {
		el = append(el, mk(res.At(i).Type(), fmt.Sprintf("%s#%d", term, i)))
	}
	return c27Val{k: c27Tuple, el: el}
}

func (p *c27Path) record(name string, args []c27Val, at ssa.Instruction, term string) {
	rec := c27CallRec{name: name, at: p.where(at), vals: args, mem: map[string]string{}, term: term}
	for _, a := range args {
		rec.args = append(rec.args, c27Render(a))
	}
	for k, v := range p.mem {
		rec.mem[k] = c27Render(v)
	}
	p.calls = append(p.calls, rec)
}

func (p *c27Path) pack(rs []c27Val) c27Val {
	if len(rs) == 1 {
		return rs[0]
	}
	return c27Val{k: c27Tuple, el: rs}
}

func (p *c27Path) call(f *c27Frame, x *ssa.Call) c27Val {
	cc := &x.Call
	var args []c27Val
	if cc.IsInvoke() {
		args = append(args, p.get(f, cc.Value))
	}
	for _, a := range cc.Args {
		args = append(args, p.get(f, a))
	}
	name := short(calleeName(cc))
	// builtins
	if b, ok := cc.Value.(*ssa.Builtin); ok && !cc.IsInvoke() {
		return p.builtin(f, x, b.Name(), args)
	}
	// rule-specific model first, then the shared SSH / hash model
	if p.x.model != nil {
		if v, ok := p.x.model(p, name, x, args); ok {
			return v
		}
	}
	if v, ok := p.sshModel(f, name, x, args); ok {
		return v
	}
	// interface method on a value whose dynamic type is known
	if cc.IsInvoke() && args[0].ityp != nil && p.root.Pkg != nil && !types.IsInterface(args[0].ityp) {
		if sel := p.root.Prog.MethodSets.MethodSet(args[0].ityp).Lookup(cc.Method.Pkg(), cc.Method.Name()); sel != nil {
			if m := p.root.Prog.MethodValue(sel); m != nil && len(m.Blocks) > 0 && m.Pkg == p.root.Pkg && !p.x.opaque[short(m.String())] {
				return p.pack(p.callFn(m, args, nil, f.d+1))
			}
		}
	}
	// function values and closures
	if _, isFn := cc.Value.(*ssa.Function); !cc.IsInvoke() && !isFn {
		fv := p.get(f, cc.Value)
		if fv.k == c27Func && fv.fn != nil && len(fv.fn.Blocks) > 0 && (fv.fn.Parent() != nil || fv.fn.Pkg == p.root.Pkg) {
			return p.pack(p.callFn(fv.fn, args, fv.el, f.d+1))
		}
		name = "dyn:" + c27Render(fv)
	}
	// helpers of the root package
	if callee := cc.StaticCallee(); callee != nil && len(callee.Blocks) > 0 && callee.Pkg != nil && callee.Pkg == p.root.Pkg && !p.x.opaque[name] {
		need := p.x.inlineAll || p.x.inline[name] || p.trackedType(callee.Signature.Results())
		for _, a := range args {
			if c27HasRef(a) {
				need = true
			}
		}
		if callee.Signature.Results().Len() == 0 || len(callee.Blocks) == 1 || c27WritesOutside(callee, 0, map[*ssa.Function]bool{}) {
			// effects only / straight-line code (length formulas, thin wrappers) /
			// may store through its arguments or into package state
			need = true
		}
		if need {
			if c27Trace != nil {
				c27Trace["inlined "+name]++
			}
			return p.pack(p.callFn(callee, args, nil, f.d+1))
		}
		if c27Trace != nil {
			c27Trace["opaque "+name]++
		}
	}
	// uninterpreted
	return p.uninterpreted(f, name, x, args)
}

func (p *c27Path) uninterpreted(f *c27Frame, name string, x *ssa.Call, args []c27Val) c27Val {
	cc := &x.Call
	term := p.opaqueTerm(name, args, x, f)
	p.record(name, args, x, term)
	p.clobber(name, args, term)
	return p.opaqueResult(term, cc.Signature(), name)
}

// clobber: standard-library writers fill their destination argument.
func (p *c27Path) clobber(name string, args []c27Val, term string) {
	dst := -1
	switch {
	case name == "io.ReadFull" || name == "io.ReadAtLeast":
		dst = 1
	case strings.HasSuffix(name, ".Read") && len(args) == 2:
		dst = 1
	case strings.HasPrefix(name, "crypto/subtle.") || strings.HasPrefix(name, "(encoding/binary.") || strings.HasPrefix(name, "crypto/rand.Read"):
		dst = 0
		if strings.HasPrefix(name, "(encoding/binary.") {
			dst = 1
		}
	}
	if dst < 0 || dst >= len(args) {
		return
	}
	if a := args[dst]; a.k == c27Slice && a.buf != nil {
		a.buf.log = append(a.buf.log, c27Write{off: *a.lo, n: c27Len(a), src: "out:" + term})
	}
}

func (p *c27Path) builtin(f *c27Frame, x *ssa.Call, name string, args []c27Val) c27Val {
	switch name {
	case "len", "cap":
		return c27Len(args[0])
	case "min", "max":
		all := true
		for _, a := range args {
			all = all && a.k == c27Int
		}
		if all {
			r := args[0].n
			for _, a := range args[1:] {
				if (name == "min" && a.n < r) || (name == "max" && a.n > r) {
					r = a.n
				}
			}
			return c27I(r)
		}
		return c27S(p.opaqueTerm(name, args, x, f))
	case "copy":
		dst, src := args[0], args[1]
		dl, sl := c27Len(dst), c27Len(src)
		var n c27Val
		srcTerm := c27Content(src)
		switch {
		case dl.k == c27Int && sl.k == c27Int:
			n = c27I(min(dl.n, sl.n))
			if n.n < sl.n {
				if len(c27SplitCat(srcTerm)) > 1 {
					srcTerm = "(" + srcTerm + ")"
				}
				srcTerm += "[:" + c27Render(n) + "]"
			}
		case c27Render(dl) == c27Render(sl):
			n = dl
		default:
			n = c27S("min(" + c27Render(dl) + "," + c27Render(sl) + ")")
			srcTerm = "copy(" + srcTerm + ")"
		}
		if dst.k == c27Slice && dst.buf != nil {
			if !(n.k == c27Int && n.n == 0) {
				whole := dst.lo.k == c27Int && dst.lo.n == 0 && c27Render(n) == c27Render(dst.buf.length)
				if whole {
					dst.buf.log = nil
				}
				dst.buf.log = append(dst.buf.log, c27Write{off: *dst.lo, n: n, src: srcTerm, whole: whole})
			}
		} else if dst.k != c27Nil {
			p.abort("copy into %s", c27Render(dst))
		}
		return n
	case "append":
		a, b := args[0], c27Val{k: c27Nil}
		if len(args) > 1 {
			b = args[1]
		}
		// element slices with known bounds: build a new array
		if (a.k == c27Nil || (a.k == c27Slice && a.cell != nil)) && (b.k == c27Slice && b.cell != nil) && (a.k == c27Nil || (a.lo.k == c27Int && a.hi.k == c27Int)) && b.lo.k == c27Int && b.hi.k == c27Int {
			c := &c27Cell{name: fmt.Sprintf("append#%d", p.id())}
			if a.k == c27Slice {
				for i := a.lo.n; i < a.hi.n; i++ {
					c.elems = append(c.elems, p.copyCell(a.cell.elems[i]))
				}
			}
			for i := b.lo.n; i < b.hi.n; i++ {
				c.elems = append(c.elems, p.copyCell(b.cell.elems[i]))
			}
			lo, hi := c27I(0), c27I(int64(len(c.elems)))
			return c27Val{k: c27Slice, cell: c, lo: &lo, hi: &hi}
		}
		// byte strings: immutable concatenation
		return c27Cat(a, b)
	case "new":
		p.abort("builtin new with a dynamic type")
	case "delete", "clear", "print", "println":
		if name == "clear" && args[0].k == c27Slice && args[0].buf != nil {
			args[0].buf.log = append(args[0].buf.log, c27Write{off: *args[0].lo, n: c27Len(args[0]), src: "zeros"})
		}
		return c27Val{k: c27Tuple}
	case "ssa:wrapnilchk":
		return args[0]
	}
	p.abort("builtin %s outside the model", name)
	return c27Val{}
}

// c27Cat: concatenation of two byte strings as a flat term "a||b".
func c27Cat(a, b c27Val) c27Val {
	la, lb := c27Len(a), c27Len(b)
	if la.k == c27Int && la.n == 0 {
		if b.k == c27Nil {
			return a
		}
		r := c27S(c27Content(b))
		if lb.k == c27Int {
			r.n, r.hasLen = lb.n, true
		}
		return r
	}
	if lb.k == c27Int && lb.n == 0 {
		r := c27S(c27Content(a))
		if la.k == c27Int {
			r.n, r.hasLen = la.n, true
		}
		return r
	}
	r := c27S(c27Content(a) + "||" + c27Content(b))
	if la.k == c27Int && lb.k == c27Int {
		r.n, r.hasLen = la.n+lb.n, true
	}
	return r
}

// ---------------------------------------------------------------------------
// model of hashes and of the SSH wire-encoding primitives

func (p *c27Path) hashOf(v c27Val) *c27Hash {
	if v.k == c27HashV {
		return v.h
	}
	return nil
}

// where: the position to report for something happening at instruction x — the
// innermost active instruction in the root function's own file (an event inside
// writeString in messages.go is reported at the kex function's call), else x.
func (p *c27Path) where(x ssa.Instruction) ssa.Instruction {
	fset := p.x.c.ld.fset
	rootFile := fset.Position(p.root.Pos()).Filename
	for i := len(p.cur) - 1; i >= 0; i-- {
		if in := p.cur[i]; in != nil && in.Pos().IsValid() && fset.Position(in.Pos()).Filename == rootFile {
			return in
		}
	}
	return x
}

func (h *c27Hash) add(e c27Ev) {
	h.evs = append(h.evs, e)
	h.all = append(h.all, e)
}

func (p *c27Path) sshModel(f *c27Frame, name string, x *ssa.Call, args []c27Val) (c27Val, bool) {
	cc := &x.Call
	// hash methods
	if cc.IsInvoke() {
		if h := p.hashOf(args[0]); h != nil {
			switch cc.Method.Name() {
			case "Write":
				h.add(c27Ev{kind: "raw", arg: c27Content(args[1]), at: p.where(x), ln: c27Render(c27Len(args[1]))})
				return c27Val{k: c27Tuple, el: []c27Val{c27Len(args[1]), {k: c27Nil}}}, true
			case "Reset":
				h.evs = nil
				return c27Val{k: c27Tuple}, true
			case "Sum":
				var es []string
				for _, e := range c27Canon(h.evs) {
					es = append(es, e.String())
				}
				tag := "sum(" + h.kind + ";" + strings.Join(es, ",") + ")"
				p.sums[tag] = &c27Sum{kind: h.kind, evs: append([]c27Ev(nil), h.evs...), at: p.where(x)}
				r := c27S(tag)
				if p.x.sumLen > 0 {
					r.n, r.hasLen = p.x.sumLen, true
				}
				// Sum appends the digest to its argument
				return c27Cat(args[1], r), true
			case "Size":
				if p.x.sumLen > 0 {
					return c27I(p.x.sumLen), true
				}
				return c27S("size(" + h.kind + ")"), true
			case "BlockSize":
				return c27S("blocksize(" + h.kind + ")"), true
			}
			p.abort("hash method %s outside the model", cc.Method.Name())
		}
	}
	switch name {
	case "encoding/binary.Write":
		if h := p.hashOf(args[0]); h != nil {
			kind := "bin:" + short(cc.Args[2].Type().String())
			if mi, ok := cc.Args[2].(*ssa.MakeInterface); ok {
				kind = "bin:" + short(mi.X.Type().String())
			}
			order := c27Render(args[1])
			if strings.Contains(order, "encoding/binary.BigEndian") && kind == "bin:uint32" {
				kind = "u32"
			} else {
				kind += ":" + order
			}
			h.add(c27Ev{kind: kind, arg: c27Render(args[2]), at: p.where(x)})
			return c27S("nil-error"), true
		}
	case "ssh.marshalInt", "ssh.marshalString":
		to := args[0]
		if to.k != c27Slice || to.buf == nil {
			p.abort("%s into %s", name, c27Render(to))
		}
		var src string
		var ln c27Val
		if name == "ssh.marshalInt" {
			src = "mpint(" + c27Render(args[1]) + ")"
			ln = c27S("ssh.intLength(" + c27Render(args[1]) + ")")
		} else {
			src = "string(" + c27Content(args[1]) + ")"
			ln = c27Add(c27I(4), c27Len(args[1]))
		}
		whole := to.lo.k == c27Int && to.lo.n == 0 && c27Strip(c27Render(to.buf.length)) == c27Strip(c27Render(ln)) && c27Render(*to.hi) == c27Render(to.buf.length)
		if whole {
			to.buf.log = nil
		}
		to.buf.log = append(to.buf.log, c27Write{off: *to.lo, n: ln, src: src, whole: whole})
		nlo := c27Add(*to.lo, ln)
		return c27Val{k: c27Slice, buf: to.buf, lo: &nlo, hi: to.hi}, true
	case "(encoding/binary.bigEndian).PutUint32":
		if to := args[1]; len(args) == 3 && to.k == c27Slice && to.buf != nil {
			whole := to.lo.k == c27Int && to.lo.n == 0 && to.buf.length.k == c27Int && to.buf.length.n == 4
			if whole {
				to.buf.log = nil
			}
			to.buf.log = append(to.buf.log, c27Write{off: *to.lo, n: c27I(4), src: "u32be(" + c27Render(args[2]) + ")", whole: whole})
			return c27Val{k: c27Tuple}, true
		}
	case "(encoding/binary.bigEndian).AppendUint32":
		if len(args) == 3 {
			return c27Cat(args[1], c27SL("u32be("+c27Render(args[2])+")", 4)), true
		}
	case "ssh.intLength":
		return c27S("ssh.intLength(" + c27Render(args[0]) + ")"), true
	case "ssh.Unmarshal":
		tgt := args[1]
		if tgt.k == c27Ptr && tgt.cell != nil && tgt.cell.fields != nil {
			tn := typeName(tgt.cell.typ)
			tgt.cell.peer = tn
			p.assignSym(tgt.cell, "peer:"+tn)
			term := p.opaqueTerm("ssh.Unmarshal.err", args[:1], x, f)
			p.record(name, args, x, term)
			return c27S(term), true
		}
		return p.uninterpreted(f, name, x, args), true
	case "ssh.Marshal":
		m := args[0]
		var c *c27Cell
		switch {
		case m.k == c27Ptr && m.cell != nil && m.cell.fields != nil:
			c = m.cell
		case m.k == c27Agg && m.cell.fields != nil:
			c = m.cell
		}
		if c != nil {
			tn := typeName(c.typ)
			s := c27Sent{typ: tn, fields: map[string]string{}, at: x}
			st := c.typ.Underlying().(*types.Struct)
			for i, fc := range c.fields {
				s.fields[st.Field(i).Name()] = c27RenderCell(fc)
			}
			p.sent = append(p.sent, s)
			return c27S("marshal(" + tn + c27RenderCell(c) + ")"), true
		}
		return p.uninterpreted(f, name, x, args), true
	}
	return c27Val{}, false
}

// c27Canon brings a hash-input sequence into a canonical form: the input is a
// BYTE STREAM, so how it was cut into Write calls and buffers does not matter:
// raw(a||b) = raw(a),raw(b); raw(x[a:b]),raw(x[b:c]) = raw(x[a:c]) and a slice
// that covers x is x; raw(mpint(x)) = mpint(x); raw(string(x)) = string(x);
// raw(u32be(x)) = u32(x); u32(len(x)),raw(x) = string(x).
func c27Canon(evs []c27Ev) []c27Ev {
	var out []c27Ev
	var push func(part string, at ssa.Instruction, ln string)
	push = func(part string, at ssa.Instruction, ln string) {
		// two adjacent runs of zero bytes
		if n := len(out); n > 0 && out[n-1].kind == "raw" && strings.HasPrefix(part, "zeros[") && strings.HasPrefix(out[n-1].arg, "zeros[") {
			x, e1 := strconv.ParseInt(strings.TrimSuffix(out[n-1].arg[6:], "]"), 10, 64)
			y, e2 := strconv.ParseInt(strings.TrimSuffix(part[6:], "]"), 10, 64)
			if e1 == nil && e2 == nil {
				at0 := out[n-1].at
				out = out[:n-1]
				push("zeros["+strconv.FormatInt(x+y, 10)+"]", at0, strconv.FormatInt(x+y, 10))
				return
			}
		}
		// two adjacent slices of the same byte string
		if n := len(out); n > 0 && out[n-1].kind == "raw" {
			if m, ok := c27JoinSlices(out[n-1].arg, part); ok {
				at0, ln0 := out[n-1].at, ""
				x, e1 := strconv.ParseInt(out[n-1].ln, 10, 64)
				y, e2 := strconv.ParseInt(ln, 10, 64)
				qs := c27SplitCat(m)
				if e1 == nil && e2 == nil && len(qs) == 1 {
					ln0 = strconv.FormatInt(x+y, 10)
				}
				out = out[:n-1]
				for _, q := range qs {
					push(q, at0, ln0)
				}
				return
			}
		}
		switch {
		case strings.HasPrefix(part, "mpint(") && c27Balanced(part[5:]):
			out = append(out, c27Ev{kind: "mpint", arg: part[6 : len(part)-1], at: at})
		case strings.HasPrefix(part, "string(") && c27Balanced(part[6:]):
			out = append(out, c27Ev{kind: "string", arg: part[7 : len(part)-1], at: at})
		case strings.HasPrefix(part, "u32be(") && c27Balanced(part[5:]):
			out = append(out, c27Ev{kind: "u32", arg: part[6 : len(part)-1], at: at})
		case part == "zeros[0]" || part == "nil":
		default:
			if n := len(out); n > 0 && out[n-1].kind == "u32" && (out[n-1].arg == "len("+part+")" || (ln != "" && out[n-1].arg == ln)) {
				out[n-1] = c27Ev{kind: "string", arg: part, at: at}
			} else {
				out = append(out, c27Ev{kind: "raw", arg: part, at: at, ln: ln})
			}
		}
	}
	for _, e := range evs {
		if e.kind == "raw" {
			if n := len(out); n > 0 && out[n-1].kind == "u32" && (out[n-1].arg == "len("+e.arg+")" || (e.ln != "" && out[n-1].arg == e.ln)) {
				out[n-1] = c27Ev{kind: "string", arg: e.arg, at: e.at}
				continue
			}
			parts := c27SplitCat(e.arg)
			for _, part := range parts {
				ln := ""
				if len(parts) == 1 {
					ln = e.ln
				}
				push(part, e.at, ln)
			}
			continue
		}
		out = append(out, e)
	}
	return out
}

// c27SliceOf parses "base[a:b]" (a, b plain terms, possibly empty).
func c27SliceOf(s string) (base, lo, hi string, ok bool) {
	if !strings.HasSuffix(s, "]") {
		return
	}
	i := strings.LastIndex(s, "[")
	if i <= 0 {
		return
	}
	inner := s[i+1 : len(s)-1]
	j := strings.Index(inner, ":")
	if j < 0 || strings.ContainsAny(inner, "[](){}|,;") || strings.Count(inner, ":") != 1 {
		return
	}
	return s[:i], inner[:j], inner[j+1:], true
}

// c27SliceTerm: the term for bytes [a, b) of src, which is n bytes long (n < 0: unknown; b < 0: to the end).
func c27SliceTerm(src string, a, b, n int64) string {
	if a == 0 && (b < 0 || (n >= 0 && b == n)) {
		return src
	}
	if len(c27SplitCat(src)) > 1 {
		src = "(" + src + ")"
	}
	// a slice of a slice composes
	if base, lo, hi, ok := c27SliceOf(src); ok {
		l0, err := strconv.ParseInt("0"+lo, 10, 64)
		if err == nil {
			h := ""
			if b >= 0 && !(n >= 0 && b == n && hi == "") {
				h = strconv.FormatInt(l0+b, 10)
			} else {
				h = hi
			}
			return base + "[" + strconv.FormatInt(l0+a, 10) + ":" + h + "]"
		}
	}
	if b < 0 || (n >= 0 && b == n) {
		return src + "[" + strconv.FormatInt(a, 10) + ":]"
	}
	return src + "[" + strconv.FormatInt(a, 10) + ":" + strconv.FormatInt(b, 10) + "]"
}

// c27JoinSlices: x[a:b] followed by x[b:c] is x[a:c]; from 0 to the end it is x.
func c27JoinSlices(p, q string) (string, bool) {
	b1, lo1, hi1, ok1 := c27SliceOf(p)
	b2, lo2, hi2, ok2 := c27SliceOf(q)
	if !ok1 || !ok2 || b1 != b2 || hi1 == "" || hi1 != lo2 {
		return "", false
	}
	if (lo1 == "" || lo1 == "0") && hi2 == "" {
		if strings.HasPrefix(b1, "(") && c27Balanced(b1) {
			return b1[1 : len(b1)-1], true
		}
		return b1, true
	}
	return b1 + "[" + lo1 + ":" + hi2 + "]", true
}

// c27Balanced: s is one parenthesised group "( ... )" spanning the whole string.
func c27Balanced(s string) bool {
	if len(s) < 2 || s[0] != '(' || s[len(s)-1] != ')' {
		return false
	}
	d := 0
	for i, ch := range s {
		switch ch {
		case '(', '[', '{':
			d++
		case ')', ']', '}':
			d--
			if d == 0 && i != len(s)-1 {
				return false
			}
		}
	}
	return d == 0
}

// c27SplitCat splits "a||b||c" at top nesting level.
func c27SplitCat(s string) []string {
	var out []string
	d, start := 0, 0
	for i := 0; i < len(s); i++ {
		switch s[i] {
		case '(', '[', '{':
			d++
		case ')', ']', '}':
			d--
		case '|':
			if d == 0 && i+1 < len(s) && s[i+1] == '|' {
				out = append(out, s[start:i])
				start = i + 2
				i++
			}
		}
	}
	return append(out, s[start:])
}
