package main

import (
	"go/token"
	"go/types"
	"sort"
	"strings"

	"golang.org/x/tools/go/ssa"
)

// Factoring-independent machinery for C39.
//
// Everything the C39 rules look at is identified by ROLE (which record field a
// value is decoded from, which library call produced it), after following
// helper parameters to the arguments of their single call site, local slots to
// the value stored in them and identity conversions — never by the name of a
// local, a parameter or a closure, and never by the function a pattern sits in:
// the search space is parseOpenSSHPrivateKey plus everything it can run (static
// callees of the package, closures defined in them, transitively).
//
// A *gate* is a semantic fact ("the check words are equal", "N has at most
// 16384 bits", "rsa.Validate returned nil") recognised on SSA values in a given
// state (true / false / nil / non-nil). c39Gate computes on which CFG edges the
// fact is established — the edges of every If whose condition implies it,
// whether the condition is the gate value itself, a negation or nil test of
// it, a phi merging it (`ok := a && b`), or the result of a helper all of whose
// returns in that state lie behind the fact (`func check(...) error`,
// `func consistent(...) bool`, a closure passed down as a func value). The
// must-cross rules then run on the call tree expanded in place (deepReach)
// with those edges as the cut set.

type c39St int

const (
	c39True c39St = iota
	c39False
	c39Nil
	c39NonNil
)

func (s c39St) flip() c39St {
	switch s {
	case c39True:
		return c39False
	case c39False:
		return c39True
	case c39Nil:
		return c39NonNil
	}
	return c39Nil
}

// c39K: the analysis universe of one root function.
type c39K struct {
	c     *Ctx
	root  *ssa.Function
	funcs []*ssa.Function
	inSet map[*ssa.Function]bool
	// subst: while a helper is evaluated for one particular call (callTable),
	// its parameters stand for that call's arguments
	subst map[ssa.Value]ssa.Value
}

// c39Universe: root, its same-package static callees and the closures defined
// in any of them, transitively.
func (c *Ctx) c39Universe(root *ssa.Function) *c39K {
	k := &c39K{c: c, root: root, inSet: map[*ssa.Function]bool{}}
	var add func(f *ssa.Function, d int)
	add = func(f *ssa.Function, d int) {
		if f == nil || k.inSet[f] || len(f.Blocks) == 0 || d > deepDepth+1 {
			return
		}
		k.inSet[f] = true
		k.funcs = append(k.funcs, f)
		for _, a := range f.AnonFuncs {
			add(a, d+1)
		}
		allInstrs(f, func(in ssa.Instruction) {
			if call, ok := in.(*ssa.Call); ok {
				if g := samePkgCallee(root, &call.Call); g != nil {
					add(g, d+1)
				}
			}
		})
	}
	add(root, 0)
	return k
}

func (k *c39K) each(f func(in ssa.Instruction)) {
	for _, g := range k.funcs {
		allInstrs(g, f)
	}
}

func (k *c39K) callsNamed(names ...string) []*ssa.Call {
	var out []*ssa.Call
	m := nameIs(names...)
	k.each(func(in ssa.Instruction) {
		if call, ok := in.(*ssa.Call); ok && m(short(calleeName(&call.Call))) {
			out = append(out, call)
		}
	})
	return out
}

// ---------------------------------------------------------------------------
// provenance

// c39SingleStore: the only value ever stored into a local slot (nil if the
// slot is written more than once or its address is used in any other way than
// loads, stores and being boxed / returned).
func c39SingleStore(al *ssa.Alloc) ssa.Value {
	if al.Referrers() == nil {
		return nil
	}
	var val ssa.Value
	for _, r := range *al.Referrers() {
		if st, ok := r.(*ssa.Store); ok && st.Addr == ssa.Value(al) {
			if val != nil {
				return nil
			}
			val = st.Val
		}
	}
	return val
}

// res: where a value comes from — through identity conversions, helper
// parameters (single call site) and single-assignment local slots.
func (k *c39K) res(v ssa.Value) ssa.Value {
	for i := 0; i < 16 && v != nil; i++ {
		switch x := v.(type) {
		case *ssa.ChangeType:
			v = x.X
			continue
		case *ssa.ChangeInterface:
			v = x.X
			continue
		case *ssa.Parameter:
			if a, ok := k.subst[x]; ok {
				v = a
				continue
			}
			o := k.c.origin(x)
			if o == ssa.Value(x) {
				return v
			}
			v = o
			continue
		case *ssa.UnOp:
			if x.Op == token.MUL {
				if al, ok := x.X.(*ssa.Alloc); ok {
					if s := c39SingleStore(al); s != nil {
						v = s
						continue
					}
				}
			}
		}
		return v
	}
	return v
}

// field: the record type and field a value is loaded from.
func (k *c39K) field(v ssa.Value) (typ, fld string, ok bool) {
	typ, fld, _, ok = fieldOf(k.res(v))
	return
}

func (k *c39K) isField(v ssa.Value, typ, fld string) bool {
	return k.all(v, func(x ssa.Value) bool {
		t, f, _, ok := fieldOf(x)
		return ok && t == typ && f == fld
	}, 0)
}

// all: the resolved value satisfies pred; a parameter of a helper with several
// call sites does when the argument does at every one of them.
func (k *c39K) all(v ssa.Value, pred func(ssa.Value) bool, depth int) bool {
	v = k.res(v)
	if v == nil {
		return false
	}
	if pred(v) {
		return true
	}
	p, ok := v.(*ssa.Parameter)
	if !ok || depth > 3 || p.Parent() == nil {
		return false
	}
	idx := -1
	for i, q := range p.Parent().Params {
		if q == p {
			idx = i
		}
	}
	cs := k.c.callersOf(p.Parent())
	if idx < 0 || len(cs) < 2 {
		return false
	}
	for _, ci := range cs {
		cc := ci.Common()
		if cc.IsInvoke() || idx >= len(cc.Args) || !k.all(cc.Args[idx], pred, depth+1) {
			return false
		}
	}
	return true
}

// sliceOf: v as base[lo:hi] after resolution (lo = 0, hi = -1 for the whole
// value; hi = -1 also for an open upper bound).
func (k *c39K) sliceOf(v ssa.Value) (base ssa.Value, lo, hi int64) {
	v = k.res(v)
	lo, hi = 0, -1
	for i := 0; i < 4; i++ {
		sl, ok := v.(*ssa.Slice)
		if !ok {
			break
		}
		l, h := int64(0), int64(-1)
		if sl.Low != nil {
			n, isC := constInt(sl.Low)
			if !isC {
				return nil, 0, 0
			}
			l = n
		}
		if sl.High != nil {
			n, isC := constInt(sl.High)
			if !isC {
				return nil, 0, 0
			}
			h = n
		}
		// (x[l:h])[lo:hi] = x[l+lo : l+hi]  (or :h when hi is open)
		if hi >= 0 {
			hi += l
		} else {
			hi = h
		}
		lo += l
		v = k.res(sl.X)
	}
	return v, lo, hi
}

// calleeOf: the function a call runs when that is known statically: a static
// same-package callee, a closure called directly, or a func value whose
// provenance is a closure / function of the universe (a check passed down to a
// helper as a parameter).
func (k *c39K) calleeOf(call *ssa.Call) *ssa.Function {
	if call.Call.IsInvoke() {
		return nil
	}
	if g := samePkgCallee(k.root, &call.Call); g != nil {
		return g
	}
	var g *ssa.Function
	switch x := k.res(call.Call.Value).(type) {
	case *ssa.MakeClosure:
		g, _ = x.Fn.(*ssa.Function)
	case *ssa.Function:
		g = x
	}
	if g == nil || len(g.Blocks) == 0 || g.Pkg != k.root.Pkg {
		return nil
	}
	return g
}

// callsOf: the calls in the universe that run h.
func (k *c39K) callsOf(h *ssa.Function) []*ssa.Call {
	var out []*ssa.Call
	k.each(func(in ssa.Instruction) {
		if call, ok := in.(*ssa.Call); ok && k.calleeOf(call) == h {
			out = append(out, call)
		}
	})
	return out
}

// ---------------------------------------------------------------------------
// truth tables of comparisons over a role

// roleRoots: the values in the operand tree of v that satisfy role.
func c39RoleRoots(v ssa.Value, role func(ssa.Value) bool, depth int, out *[]ssa.Value) {
	if v == nil || depth > 6 {
		return
	}
	if role(v) {
		*out = append(*out, v)
		return
	}
	switch x := v.(type) {
	case *ssa.BinOp:
		c39RoleRoots(x.X, role, depth+1, out)
		c39RoleRoots(x.Y, role, depth+1, out)
	case *ssa.UnOp:
		if x.Op != token.MUL && x.Op != token.ARROW {
			c39RoleRoots(x.X, role, depth+1, out)
		}
	case *ssa.Convert:
		c39RoleRoots(x.X, role, depth+1, out)
	case *ssa.ChangeType:
		c39RoleRoots(x.X, role, depth+1, out)
	}
}

// c39Table evaluates the boolean value v for every d of dom with the role
// values it is computed from bound to d. ok is false when v does not depend on
// a role value or does not evaluate from it and constants alone.
func c39Table(v ssa.Value, role func(ssa.Value) bool, dom []int64) (tab []bool, ok bool) {
	if b, isB := v.Type().Underlying().(*types.Basic); !isB || b.Info()&types.IsBoolean == 0 {
		return nil, false
	}
	if _, isBin := v.(*ssa.BinOp); !isBin {
		if u, isU := v.(*ssa.UnOp); !isU || u.Op != token.NOT {
			return nil, false
		}
	}
	var roots []ssa.Value
	c39RoleRoots(v, role, 0, &roots)
	if len(roots) == 0 {
		return nil, false
	}
	for _, d := range dom {
		e := newEnv()
		for _, r := range roots {
			e.bind(r, d)
		}
		n, isK := e.eval(v)
		if !isK {
			return nil, false
		}
		tab = append(tab, n != 0)
	}
	return tab, true
}

// c39Decides: in which states does v establish P over dom? exact demands
// that v be P or its negation (no stricter and no weaker).
func c39Decides(tab []bool, dom []int64, P func(int64) bool, exact bool) (whenTrue, whenFalse bool) {
	whenTrue, whenFalse = true, true
	for i, d := range dom {
		p := P(d)
		if tab[i] && !p {
			whenTrue = false
		}
		if !tab[i] && !p {
			whenFalse = false
		}
		if exact {
			if !tab[i] && p {
				whenTrue = false
			}
			if tab[i] && p {
				whenFalse = false
			}
		}
	}
	return
}

// callTable: the truth table of a call of a predicate helper of the universe
// — `func tooBig(x *big.Int, limit int) bool`, `func checkBits(...) error` —
// evaluated for THIS call's arguments: the helper's parameters stand for the
// arguments (so the role is looked up in the caller's terms), constant
// arguments are bound, and the helper's body is folded for every d. An entry
// is true when the helper returns true / a nil error. ok is false when the
// helper's result does not depend on a role value and constants alone.
func (k *c39K) callTable(call *ssa.Call, role func(ssa.Value) bool, dom []int64) (tab []bool, isErr bool, ok bool) {
	if k.subst != nil || call.Call.Signature().Results().Len() != 1 {
		return nil, false, false
	}
	H := k.calleeOf(call)
	if H == nil || len(H.Params) != len(call.Call.Args) {
		return nil, false, false
	}
	rt := H.Signature.Results().At(0).Type()
	if b, isB := rt.Underlying().(*types.Basic); isB && b.Info()&types.IsBoolean != 0 {
		isErr = false
	} else if types.Identical(rt, types.Universe.Lookup("error").Type()) {
		isErr = true
	} else {
		return nil, false, false
	}
	k.subst = map[ssa.Value]ssa.Value{}
	defer func() { k.subst = nil }()
	for i, p := range H.Params {
		k.subst[p] = call.Call.Args[i]
	}
	var roots []ssa.Value
	allInstrs(H, func(in ssa.Instruction) {
		v, isV := in.(ssa.Value)
		if !isV || v.Type() == nil {
			return
		}
		if _, _, isInt := intBits(v.Type()); isInt && role(v) {
			roots = append(roots, v)
		}
	})
	if len(roots) == 0 {
		return nil, isErr, false
	}
	for _, d := range dom {
		e := newEnv()
		for _, r := range roots {
			e.bind(r, d)
		}
		for i, p := range H.Params {
			if n, isC := constInt(call.Call.Args[i]); isC {
				e.bind(p, n)
			}
		}
		e.solve(H)
		val := int64(-1)
		for _, r := range returnsOf(H) {
			if !e.reach[r.Block()] {
				continue
			}
			rv := retVal(r, 0)
			var n int64
			if isErr {
				switch errNilness(rv, r.Block(), 0) {
				case definitelyNil:
					n = 1
				case neverNil:
					n = 0
				default:
					return nil, isErr, false
				}
			} else {
				m, isK := e.eval(rv)
				if !isK {
					return nil, isErr, false
				}
				n = m
			}
			if val != -1 && val != n {
				return nil, isErr, false
			}
			val = n
		}
		if val == -1 {
			return nil, isErr, false
		}
		tab = append(tab, val != 0)
	}
	return tab, isErr, true
}

// cmpGate: the recogniser of the fact P(role value), read off comparisons and
// off calls of predicate helpers.
func (k *c39K) cmpGate(role func(ssa.Value) bool, dom []int64, P func(int64) bool, exact bool) func(v ssa.Value, st c39St) bool {
	return func(v ssa.Value, st c39St) bool {
		if call, isCall := v.(*ssa.Call); isCall {
			tab, isErr, ok := k.callTable(call, role, dom)
			if !ok || isErr != (st == c39Nil || st == c39NonNil) {
				return false
			}
			t, f := c39Decides(tab, dom, P, exact)
			if st == c39True || st == c39Nil {
				return t
			}
			return f
		}
		if st != c39True && st != c39False {
			return false
		}
		tab, ok := c39Table(v, role, dom)
		if !ok {
			return false
		}
		t, f := c39Decides(tab, dom, P, exact)
		if st == c39True {
			return t
		}
		return f
	}
}

// or: a fact that any of several recognisers establishes.
func c39Or(is ...func(v ssa.Value, st c39St) bool) func(v ssa.Value, st c39St) bool {
	return func(v ssa.Value, st c39St) bool {
		for _, f := range is {
			if f(v, st) {
				return true
			}
		}
		return false
	}
}

// c39CallCmpGate: the recogniser of a fact about the integer result of a
// library call (big.Int.Cmp, bytes.Compare, subtle.ConstantTimeCompare), read
// off the comparison of that result with constants. sel picks the calls and
// says what must hold of their result.
func c39CallCmpGate(sel func(call *ssa.Call) (dom []int64, P func(int64) bool, ok bool)) func(v ssa.Value, st c39St) bool {
	return func(v ssa.Value, st c39St) bool {
		bo, ok := v.(*ssa.BinOp)
		if !ok || (st != c39True && st != c39False) {
			return false
		}
		for _, op := range []ssa.Value{bo.X, bo.Y} {
			call, ok := op.(*ssa.Call)
			if !ok {
				continue
			}
			dom, P, ok := sel(call)
			if !ok {
				continue
			}
			tab, ok := c39Table(v, func(y ssa.Value) bool { return y == ssa.Value(call) }, dom)
			if !ok {
				continue
			}
			t, f := c39Decides(tab, dom, P, false)
			if (st == c39True && t) || (st == c39False && f) {
				return true
			}
		}
		return false
	}
}

// eqTest: v in state st means that the byte strings a and b are equal — in
// any of the equivalent forms bytes.Equal(a, b), slices.Equal(a, b),
// subtle.ConstantTimeCompare(a, b) == 1, bytes.Compare(a, b) == 0 and the
// Equal methods of the ed25519 key types.
func c39EqTest(v ssa.Value, st c39St) (a, b ssa.Value, ok bool) {
	switch x := v.(type) {
	case *ssa.Call:
		if st != c39True || x.Call.IsInvoke() {
			return nil, nil, false
		}
		n := short(calleeName(&x.Call))
		switch {
		case n == "bytes.Equal" || strings.HasPrefix(n, "slices.Equal"):
			if len(x.Call.Args) == 2 {
				return x.Call.Args[0], x.Call.Args[1], true
			}
		case n == "(crypto/ed25519.PrivateKey).Equal" || n == "(crypto/ed25519.PublicKey).Equal":
			if len(x.Call.Args) == 2 {
				return x.Call.Args[0], stripConv(x.Call.Args[1]), true
			}
		}
	case *ssa.BinOp:
		var found *ssa.Call
		is := c39CallCmpGate(func(call *ssa.Call) ([]int64, func(int64) bool, bool) {
			if call.Call.IsInvoke() || len(call.Call.Args) != 2 {
				return nil, nil, false
			}
			switch short(calleeName(&call.Call)) {
			case "crypto/subtle.ConstantTimeCompare":
				found = call
				return []int64{0, 1}, func(d int64) bool { return d == 1 }, true
			case "bytes.Compare":
				found = call
				return []int64{-1, 0, 1}, func(d int64) bool { return d == 0 }, true
			}
			return nil, nil, false
		})
		if is(v, st) && found != nil {
			return found.Call.Args[0], found.Call.Args[1], true
		}
	}
	return nil, nil, false
}

// ---------------------------------------------------------------------------
// the gate engine

type c39Key struct {
	v  ssa.Value
	st c39St
}

type c39Gate struct {
	k     *c39K
	is    func(v ssa.Value, st c39St) bool
	pass  map[*ssa.Function]edgeSet
	done  map[*ssa.Function]bool
	busy  map[*ssa.Function]bool
	stack map[c39Key]bool

	siteList  []ssa.Value
	sitesDone bool
}

func (k *c39K) gate(is func(v ssa.Value, st c39St) bool) *c39Gate {
	return &c39Gate{k: k, is: is, pass: map[*ssa.Function]edgeSet{}, done: map[*ssa.Function]bool{}, busy: map[*ssa.Function]bool{}, stack: map[c39Key]bool{}}
}

// passOf: the edges of F on which the fact is established (fixpoint: a flag
// carried by a phi is justified by pass edges found earlier).
func (g *c39Gate) passOf(F *ssa.Function) edgeSet {
	if F == nil {
		return edgeSet{}
	}
	if g.done[F] || g.busy[F] {
		return g.pass[F]
	}
	g.busy[F] = true
	g.pass[F] = edgeSet{}
	for changed := true; changed; {
		changed = false
		for _, b := range F.Blocks {
			if len(b.Instrs) == 0 {
				continue
			}
			iff, ok := b.Instrs[len(b.Instrs)-1].(*ssa.If)
			if !ok {
				continue
			}
			if !g.pass[F][edge{b, 0}] && g.implies(iff.Cond, c39True) {
				g.pass[F][edge{b, 0}] = true
				changed = true
			}
			if !g.pass[F][edge{b, 1}] && g.implies(iff.Cond, c39False) {
				g.pass[F][edge{b, 1}] = true
				changed = true
			}
		}
	}
	g.busy[F] = false
	g.done[F] = true
	return g.pass[F]
}

// passAll: the pass edges in every function of the universe.
func (g *c39Gate) passAll() []edge {
	var out []edge
	if len(g.sites()) == 0 {
		// no value establishes the fact: the edges that "imply" it are only the
		// infeasible ones (`if err != nil` on a fresh error); the gate is absent
		return nil
	}
	for _, h := range g.k.funcs {
		var es []edge
		for e := range g.passOf(h) {
			es = append(es, e)
		}
		sort.Slice(es, func(i, j int) bool {
			if es[i].from.Index != es[j].from.Index {
				return es[i].from.Index < es[j].from.Index
			}
			return es[i].idx < es[j].idx
		})
		out = append(out, es...)
	}
	return out
}

// sites: the values of the universe that the recogniser accepts (in any state).
func (g *c39Gate) sites() []ssa.Value {
	if g.sitesDone {
		return g.siteList
	}
	var out []ssa.Value
	defer func() { g.siteList, g.sitesDone = out, true }()
	g.k.each(func(in ssa.Instruction) {
		v, ok := in.(ssa.Value)
		if !ok || v.Type() == nil {
			return
		}
		if _, isTuple := v.Type().(*types.Tuple); isTuple {
			return
		}
		for _, st := range []c39St{c39True, c39False, c39Nil, c39NonNil} {
			if g.is(v, st) {
				out = append(out, v)
				return
			}
		}
	})
	return out
}

// summarises: helper H reports success (nil error / true) in its last result
// only when the fact has been established.
func (g *c39Gate) summarises(H *ssa.Function) bool {
	n := H.Signature.Results().Len()
	if n == 0 {
		return false
	}
	st := c39Nil
	if b, isB := H.Signature.Results().At(n - 1).Type().Underlying().(*types.Basic); isB && b.Info()&types.IsBoolean != 0 {
		st = c39True
	}
	rets := returnsOf(H)
	if len(rets) == 0 {
		return false
	}
	for _, r := range rets {
		rv := retVal(r, n-1)
		if rv == nil {
			return false
		}
		if g.implies(rv, st) || c39CannotBe(rv, r.Block(), st) || g.blockGated(r.Block()) {
			continue
		}
		return false
	}
	return true
}

func (g *c39Gate) blockGated(b *ssa.BasicBlock) bool {
	F := b.Parent()
	return !reach([]*ssa.BasicBlock{F.Blocks[0]}, g.passOf(F))[b]
}

func (g *c39Gate) edgeGated(pred, succ *ssa.BasicBlock) bool {
	cut := g.passOf(pred.Parent())
	open := false
	for i, s := range pred.Succs {
		if s == succ && !cut[edge{pred, i}] {
			open = true
		}
	}
	if !open {
		return true
	}
	return g.blockGated(pred)
}

// cannotBe: value v, as seen at the end of block at, is never in state st
// (an error returned under `err != nil` is never nil).
func c39CannotBe(v ssa.Value, at *ssa.BasicBlock, st c39St) bool {
	if st != c39Nil && st != c39NonNil {
		return false
	}
	if _, isIface := v.Type().Underlying().(*types.Interface); !isIface {
		return false
	}
	switch errNilness(v, at, 0) {
	case neverNil:
		return st == c39Nil
	case definitelyNil:
		return st == c39NonNil
	}
	return false
}

// implies: whenever v is in state st, the fact has been established.
func (g *c39Gate) implies(v ssa.Value, st c39St) bool {
	key := c39Key{v, st}
	if g.stack[key] {
		return true // loop-carried flag: decided by its other sources
	}
	if len(g.stack) > 64 {
		return false
	}
	g.stack[key] = true
	defer delete(g.stack, key)

	if g.is(v, st) {
		return true
	}
	switch x := v.(type) {
	case *ssa.Const:
		if b, ok := constBool(x); ok {
			return (st == c39True && !b) || (st == c39False && b) // cannot be in that state
		}
		if x.IsNil() {
			return st == c39NonNil
		}
		return false
	case *ssa.UnOp:
		if x.Op == token.NOT {
			return g.implies(x.X, st.flip())
		}
		if x.Op == token.MUL {
			if _, isGlobal := x.X.(*ssa.Global); isGlobal {
				return st == c39Nil // sentinel error variables are never nil
			}
			if al, ok := x.X.(*ssa.Alloc); ok {
				if s := c39SingleStore(al); s != nil {
					return g.implies(s, st)
				}
			}
		}
		return false
	case *ssa.BinOp:
		if (x.Op != token.EQL && x.Op != token.NEQ) || (st != c39True && st != c39False) {
			return false
		}
		equal := (x.Op == token.EQL) == (st == c39True) // in this state the operands are equal
		for _, pair := range [][2]ssa.Value{{x.X, x.Y}, {x.Y, x.X}} {
			cst, ok := pair[1].(*ssa.Const)
			if !ok {
				continue
			}
			if cst.IsNil() {
				if equal {
					return g.implies(pair[0], c39Nil)
				}
				return g.implies(pair[0], c39NonNil)
			}
			if b, ok := constBool(cst); ok {
				if equal == b {
					return g.implies(pair[0], c39True)
				}
				return g.implies(pair[0], c39False)
			}
		}
		return false
	case *ssa.Phi:
		for i, e := range x.Edges {
			pred := x.Block().Preds[i]
			if g.implies(e, st) || c39CannotBe(e, pred, st) || g.edgeGated(pred, x.Block()) {
				continue
			}
			return false
		}
		return true
	case *ssa.Extract:
		if call, ok := x.Tuple.(*ssa.Call); ok {
			return g.calleeImplies(call, x.Index, st)
		}
		return false
	case *ssa.Call:
		if x.Call.Signature().Results().Len() == 1 {
			return g.calleeImplies(x, 0, st)
		}
		return false
	case *ssa.MakeInterface, *ssa.Alloc, *ssa.MakeSlice, *ssa.MakeMap, *ssa.MakeClosure, *ssa.Function:
		return st == c39Nil // never nil
	case *ssa.ChangeInterface:
		return g.implies(x.X, st)
	case *ssa.ChangeType:
		return g.implies(x.X, st)
	case *ssa.Parameter:
		if o := g.k.c.origin(x); o != ssa.Value(x) {
			return g.implies(o, st)
		}
		return false
	}
	return false
}

// calleeImplies: result #idx of the call is in state st only if the fact was
// established inside the callee.
func (g *c39Gate) calleeImplies(call *ssa.Call, idx int, st c39St) bool {
	H := g.k.calleeOf(call)
	if H == nil {
		if st == c39Nil {
			switch calleeName(&call.Call) {
			case "fmt.Errorf", "errors.New":
				return true // never nil
			}
		}
		return false
	}
	if g.busy[H] {
		return false // recursion: not summarised
	}
	rets := returnsOf(H)
	if len(rets) == 0 {
		return false
	}
	for _, r := range rets {
		if idx >= len(r.Results) {
			return false
		}
		rv := retVal(r, idx)
		if g.implies(rv, st) || c39CannotBe(rv, r.Block(), st) || g.blockGated(r.Block()) {
			continue
		}
		return false
	}
	return true
}

// ---------------------------------------------------------------------------
// paths

// cutsUnder: the edges contradicted by the bindings, in every function of the
// universe.
func (k *c39K) cutsUnder(e *penv) edgeSet {
	cut := edgeSet{}
	for _, g := range k.funcs {
		for ed := range e.cuts(g) {
			cut[ed] = true
		}
	}
	return cut
}

// accepts: the instructions at which the root hands out a key: its returns
// whose error is not provably non-nil; a return that forwards the results of a
// helper (`return parseX(...)`) stands for that helper's own accepting returns.
func (k *c39K) accepts(f *ssa.Function, errIdx int, depth int) []ssa.Instruction {
	var out []ssa.Instruction
	for _, r := range returnsOf(f) {
		if errIdx >= len(r.Results) {
			continue
		}
		ev := retVal(r, errIdx)
		if ex, ok := ev.(*ssa.Extract); ok && depth < 4 {
			if call, ok := ex.Tuple.(*ssa.Call); ok && c39Forwards(r, call) {
				if h := k.calleeOf(call); h != nil && h != f {
					out = append(out, k.accepts(h, ex.Index, depth+1)...)
					continue
				}
			}
		}
		if errNilness(ev, r.Block(), 0) != neverNil {
			out = append(out, r)
		}
	}
	return out
}

// c39Forwards: r is `return call(...)`: result i of the return is result i of
// the call.
func c39Forwards(r *ssa.Return, call *ssa.Call) bool {
	if call.Call.Signature().Results().Len() != len(r.Results) {
		return false
	}
	for i := range r.Results {
		ex, ok := retVal(r, i).(*ssa.Extract)
		if !ok || ex.Tuple != ssa.Value(call) || ex.Index != i {
			return false
		}
	}
	return true
}

// reachable: the first target reachable from the root's entry (helpers
// expanded in place) without crossing an edge of cut.
func (k *c39K) reachable(cut edgeSet, targets []ssa.Instruction) ssa.Instruction {
	tset := map[ssa.Instruction]bool{}
	for _, t := range targets {
		tset[t] = true
	}
	return deepReach(k.root, cut, func(in ssa.Instruction) bool { return tset[in] })
}

// siteInRoot: the instruction of the root through which in executes: in
// itself, or the root's call of the helper that (transitively) contains it.
func (k *c39K) siteInRoot(in ssa.Instruction) ssa.Instruction {
	if in.Parent() == k.root {
		return in
	}
	var site ssa.Instruction
	allInstrs(k.root, func(x ssa.Instruction) {
		if site != nil {
			return
		}
		call, ok := x.(*ssa.Call)
		if !ok {
			return
		}
		h := k.calleeOf(call)
		if h == nil {
			return
		}
		sub := k.c.c39Universe(h)
		if sub.inSet[in.Parent()] {
			site = call
		}
	})
	return site
}

// rootReturnsFrom: the root's returns reachable from block start without
// crossing an edge of cut (helpers expanded in place).
func (k *c39K) rootReturnsFrom(start *ssa.BasicBlock, cut edgeSet) []*ssa.Return {
	var out []*ssa.Return
	seen := map[*ssa.Return]bool{}
	deepReachFrom(k.root, start, cut, func(in ssa.Instruction) bool {
		if r, ok := in.(*ssa.Return); ok && r.Parent() == k.root && !seen[r] {
			seen[r] = true
			out = append(out, r)
		}
		return false
	})
	return out
}

// leavesUnder: the source values v can carry — through phis (only over edges
// that are feasible under cut), identity conversions, single-assignment slots,
// helper parameters and the results of helpers of the universe (only through
// their returns reachable under cut).
func (k *c39K) leavesUnder(v ssa.Value, cut edgeSet) []ssa.Value {
	var out []ssa.Value
	seen := map[ssa.Value]bool{}
	var walk func(v ssa.Value, d int)
	fromCallee := func(call *ssa.Call, idx int, d int) bool {
		h := k.calleeOf(call)
		if h == nil {
			return false
		}
		r := reach([]*ssa.BasicBlock{h.Blocks[0]}, cut)
		for _, ret := range returnsOf(h) {
			if r[ret.Block()] && idx < len(ret.Results) {
				walk(retVal(ret, idx), d+1)
			}
		}
		return true
	}
	walk = func(v ssa.Value, d int) {
		if v == nil || d > 24 {
			return
		}
		v = k.res(v)
		if seen[v] {
			return
		}
		seen[v] = true
		switch x := v.(type) {
		case *ssa.Phi:
			r := reach([]*ssa.BasicBlock{x.Parent().Blocks[0]}, cut)
			for i, e := range x.Edges {
				pred := x.Block().Preds[i]
				if !r[pred] {
					continue
				}
				open := false
				for j, s := range pred.Succs {
					if s == x.Block() && !cut[edge{pred, j}] {
						open = true
					}
				}
				if open {
					walk(e, d+1)
				}
			}
			return
		case *ssa.MakeInterface:
			walk(x.X, d+1)
			return
		case *ssa.Extract:
			if call, ok := x.Tuple.(*ssa.Call); ok && fromCallee(call, x.Index, d) {
				return
			}
		case *ssa.Call:
			if x.Call.Signature().Results().Len() == 1 && fromCallee(x, 0, d) {
				return
			}
		}
		out = append(out, v)
	}
	walk(v, 0)
	return out
}

// c39IsGlobal: v is a load of the package-level variable pkgPath.name.
func c39IsGlobal(v ssa.Value, pkgPath, name string) bool {
	u, ok := v.(*ssa.UnOp)
	if !ok || u.Op != token.MUL {
		return false
	}
	gl, ok := u.X.(*ssa.Global)
	return ok && gl.Name() == name && gl.Pkg != nil && gl.Pkg.Pkg.Path() == pkgPath
}

// c39UsesRecordTypes: the named struct types with the given prefix that the
// functions of the universe allocate, box or pass around.
func (k *c39K) recordTypes(prefix string) map[string]bool {
	out := map[string]bool{}
	note := func(t types.Type) {
		if p, ok := t.Underlying().(*types.Pointer); ok {
			t = p.Elem()
		}
		n, ok := t.(*types.Named)
		if !ok {
			return
		}
		if _, isStruct := n.Underlying().(*types.Struct); isStruct && strings.HasPrefix(n.Obj().Name(), prefix) {
			out[n.Obj().Name()] = true
		}
	}
	for _, g := range k.funcs {
		for _, p := range g.Params {
			note(p.Type())
		}
		allInstrs(g, func(in ssa.Instruction) {
			if v, ok := in.(ssa.Value); ok && v.Type() != nil {
				if _, isTuple := v.Type().(*types.Tuple); !isTuple {
					note(v.Type())
				}
			}
		})
	}
	return out
}
