package main

import (
	"bytes"
	"encoding/base64"
	"encoding/binary"
	"fmt"
	"go/token"
	"go/types"
	"strings"

	"golang.org/x/tools/go/ssa"
)

// C46 interpretation harness: a concrete byte-level machine layered on the
// pathWalker. The rules of C46 do not look for statements of a particular
// shape. They run the anchor functions (with every in-package helper
// interpreted in place by the walker) on small concrete inputs — a CRC value,
// a few armor lines, a clearsigned text, one input byte in one escaper state —
// and compare what the code computes (bytes handed to base64, fields left in
// the receiver, bytes written to the hash and to the output, Block.Bytes) with
// the specification evaluated in Go.
//
// The walker supplies control flow, integer folding, phis, tuples and the
// trial inlining of helpers; this file supplies memory:
//
//   - byte storage (local arrays, slices, strings, package-level []byte
//     literals) as objects of known/unknown bytes, with slices as views
//     (object, offset, length) so that aliasing through reslicing, copy, append,
//     parameters and results is exact;
//   - scalar / slice / pointer memory addressed by canonical paths that are
//     rooted at the ROOT function's parameters ("%0.crc") or at allocations
//     ("$encodeChecksum#1.t1"), never at the names of locals, parameters or
//     receivers, so that a field read in a helper is the field written by the
//     caller;
//   - abstract identities for error values (nil = 0), with the nil tests on
//     them folded;
//   - models of the standard-library functions this code (and its obvious
//     rewrites) uses on bytes: bytes.* / strings.* searching and trimming,
//     append / copy / cap, encoding/base64, encoding/binary.
//
// Anything outside the model leaves a value unknown; a branch on an unknown
// value ends the walk as undecided (never a silent pass).

type c46obj struct {
	b []int16 // 0..255: known byte, -1: unknown
}

type c46ref struct {
	o      *c46obj
	off, n int
}

func (r c46ref) capacity() int { return len(r.o.b) - r.off }

func (r c46ref) str() (string, bool) {
	var sb strings.Builder
	for i := 0; i < r.n; i++ {
		v := r.o.b[r.off+i]
		if v < 0 {
			return "", false
		}
		sb.WriteByte(byte(v))
	}
	return sb.String(), true
}

func (r c46ref) show() string {
	if r.o == nil {
		return "<unknown>"
	}
	var sb strings.Builder
	for i := 0; i < r.n; i++ {
		v := r.o.b[r.off+i]
		if v < 0 {
			sb.WriteString("\\?")
		} else {
			sb.WriteString(strings.Trim(fmt.Sprintf("%q", string(rune(byte(v)))), "\""))
		}
	}
	return "\"" + sb.String() + "\""
}

type c46snap struct {
	callee  *ssa.Function
	mem     map[string]int64
	memRef  map[string]c46ref
	memPtr  map[string]string
	memList map[string][]c46ref
	objs    map[string]*c46obj
	bytes   map[*c46obj][]int16
}

type c46m struct {
	c    *Ctx
	root *ssa.Function

	ref    map[ssa.Value]c46ref         // slice- and string-valued SSA values
	arr    map[ssa.Value][]int16        // byte-array-valued SSA values (snapshots)
	ptr    map[ssa.Value]string         // canonical path of pointer-valued parameters / phis / results
	tupRef map[ssa.Value]map[int]c46ref // slice-valued components of tuple results
	list   map[ssa.Value][]c46ref       // [][]byte- and []string-valued SSA values

	mem     map[string]int64    // scalars and abstract identities, by canonical path
	memRef  map[string]c46ref   // slice- and string-valued locations
	memPtr  map[string]string   // pointer-valued locations
	memList map[string][]c46ref // list-valued locations
	objs    map[string]*c46obj
	all     []*c46obj

	pend   map[ssa.Value]int64
	snaps  []c46snap
	act    map[*ssa.Function]int
	errIDs map[string]int64
	glob   map[*ssa.Global]*c46obj

	// model lets the rule interpret a call itself (I/O of the scenario); it
	// returns true when it handled the call.
	model func(m *c46m, w *pathWalker, ci ssa.CallInstruction) bool
	// observe is shown every call before it is modelled
	observe func(m *c46m, w *pathWalker, ci ssa.CallInstruction)
	// zero tells which locations outside fresh allocations read as the zero
	// value when nothing was stored there (a fresh receiver)
	zero  func(p string) bool
	oob   string
	vague string // set by a rule model when an observed effect has unknown content
	// summary is consulted when a helper was interpreted in place but its scalar
	// result is not determined (it read a table the model does not know, say)
	summary func(m *c46m, w *pathWalker, ci ssa.CallInstruction) bool
	unknown []string // calls left unmodelled (diagnostics)
}

func c46NewMachine(c *Ctx, root *ssa.Function) *c46m {
	return &c46m{
		c: c, root: root,
		ref: map[ssa.Value]c46ref{}, arr: map[ssa.Value][]int16{}, ptr: map[ssa.Value]string{}, tupRef: map[ssa.Value]map[int]c46ref{},
		mem: map[string]int64{}, memRef: map[string]c46ref{}, memPtr: map[string]string{}, objs: map[string]*c46obj{},
		pend: map[ssa.Value]int64{}, act: map[*ssa.Function]int{}, errIDs: map[string]int64{}, glob: map[*ssa.Global]*c46obj{},
		list: map[ssa.Value][]c46ref{}, memList: map[string][]c46ref{},
	}
}

func (m *c46m) newObj(n int, fill int16) *c46obj {
	o := &c46obj{b: make([]int16, n)}
	for i := range o.b {
		o.b[i] = fill
	}
	m.all = append(m.all, o)
	return o
}

func (m *c46m) strObj(s string) c46ref {
	o := m.newObj(len(s), 0)
	for i := 0; i < len(s); i++ {
		o.b[i] = int16(s[i])
	}
	return c46ref{o, 0, len(s)}
}

// unknownBuf: a buffer of n bytes of unknown content (a caller's read buffer).
func (m *c46m) unknownBuf(n int) c46ref { return c46ref{m.newObj(n, -1), 0, n} }

// walker builds the pathWalker wired to this machine. Parameter i of the root
// function is addressed as "%i".
func (m *c46m) walker(maxSteps int) *pathWalker {
	w := &pathWalker{env: newEnv(), state: map[string]int64{}, lengths: true, assumeErrNil: true, maxSteps: maxSteps}
	w.onLoad = m.onLoad
	w.onStore = m.onStore
	w.onSlice = m.onSlice
	w.onPhi = m.onPhi
	w.onCall = m.onCall
	w.onInline = m.onInline
	w.onReturn = m.onReturn
	w.onExtract = m.onExtract
	for i, p := range m.root.Params {
		if _, isPtr := p.Type().Underlying().(*types.Pointer); isPtr {
			m.ptr[p] = fmt.Sprintf("%%%d", i)
		}
	}
	return w
}

func (m *c46m) setRef(w *pathWalker, v ssa.Value, r c46ref) {
	m.ref[v] = r
	w.env.bind(v, int64(r.n))
}

func (m *c46m) flush(w *pathWalker) {
	for v, n := range m.pend {
		w.env.bind(v, n)
		delete(m.pend, v)
	}
}

func c46IsByte(t types.Type) bool {
	b, ok := t.Underlying().(*types.Basic)
	return ok && b.Kind() == types.Uint8
}

func c46IsBytes(t types.Type) bool {
	switch u := t.Underlying().(type) {
	case *types.Slice:
		return c46IsByte(u.Elem())
	case *types.Basic:
		return u.Info()&types.IsString != 0
	}
	return false
}

func c46ByteArray(t types.Type) (int, bool) {
	if p, ok := t.Underlying().(*types.Pointer); ok {
		t = p.Elem()
	}
	if a, ok := t.Underlying().(*types.Array); ok && c46IsByte(a.Elem()) {
		return int(a.Len()), true
	}
	return 0, false
}

func c46IsIface(t types.Type) bool {
	_, ok := t.Underlying().(*types.Interface)
	return ok
}

func (m *c46m) fresh(p string) bool {
	return strings.HasPrefix(p, "$") || m.zero != nil && m.zero(p)
}

// ptrOf: the canonical path of the storage a pointer-like value denotes.
func (m *c46m) ptrOf(w *pathWalker, v ssa.Value) string {
	if p, ok := m.ptr[v]; ok {
		return p
	}
	switch x := v.(type) {
	case *ssa.Alloc:
		return fmt.Sprintf("$%s#%d.%s", x.Parent().Name(), m.act[x.Parent()], x.Name())
	case *ssa.Global:
		if x.Pkg != nil {
			return "@" + x.Pkg.Pkg.Path() + "." + x.Name()
		}
		return "@" + x.Name()
	case *ssa.FieldAddr:
		st := derefStruct(x.X.Type())
		b := m.ptrOf(w, x.X)
		if st == nil || b == "" {
			return ""
		}
		return b + "." + st.Field(x.Field).Name()
	case *ssa.IndexAddr:
		b := m.ptrOf(w, x.X)
		k, ok := w.env.eval(x.Index)
		if b == "" || !ok {
			return ""
		}
		return b + "[" + itoa(k) + "]"
	case *ssa.UnOp:
		if x.Op == token.MUL {
			p := m.ptrOf(w, x.X)
			if p == "" {
				return ""
			}
			if q, ok := m.memPtr[p]; ok {
				return q
			}
			return p
		}
	case *ssa.ChangeType:
		return m.ptrOf(w, x.X)
	case *ssa.MakeInterface:
		return m.ptrOf(w, x.X)
	case *ssa.Slice:
		if x.Low == nil {
			return m.ptrOf(w, x.X)
		}
		if k, ok := w.env.eval(x.Low); ok && k == 0 {
			return m.ptrOf(w, x.X)
		}
	}
	return ""
}

func (m *c46m) objAt(p string, n int) *c46obj {
	if o, ok := m.objs[p]; ok && len(o.b) == n {
		return o
	}
	fill := int16(-1)
	if m.fresh(p) {
		fill = 0
	}
	o := m.newObj(n, fill)
	m.objs[p] = o
	return o
}

// globalBytes: the literal a package-level []byte / string variable is
// initialised with (read from the package initialiser).
func (m *c46m) globalInit(g *ssa.Global) (bytesVal string, isBytes bool, scalar int64, isScalar bool) {
	if g.Pkg == nil {
		return
	}
	init := g.Pkg.Func("init")
	n := 0
	allInstrs(init, func(in ssa.Instruction) {
		st, ok := in.(*ssa.Store)
		if !ok || st.Addr != ssa.Value(g) {
			return
		}
		n++
		if s, ok := constString(st.Val); ok {
			bytesVal, isBytes = s, true
		} else if s, ok := sliceLiteralString(st.Val); ok {
			bytesVal, isBytes = s, true
		} else if k, ok := constInt(stripConv(st.Val)); ok {
			scalar, isScalar = k, true
		} else if b, ok := constBool(st.Val); ok {
			scalar, isScalar = b2i(b), true
		}
	})
	if n != 1 {
		return "", false, 0, false
	}
	return
}

func (m *c46m) errID(name string) int64 {
	if id, ok := m.errIDs[name]; ok {
		return id
	}
	id := int64(100 + len(m.errIDs))
	m.errIDs[name] = id
	return id
}

func c46GlobalKey(g *ssa.Global) string {
	if g.Pkg != nil {
		return g.Pkg.Pkg.Path() + "." + g.Name()
	}
	return g.Name()
}

func (m *c46m) globalRef(g *ssa.Global) (c46ref, bool) {
	if o, ok := m.glob[g]; ok {
		if o == nil {
			return c46ref{}, false
		}
		return c46ref{o, 0, len(o.b)}, true
	}
	s, ok, _, _ := m.globalInit(g)
	if !ok {
		m.glob[g] = nil
		return c46ref{}, false
	}
	r := m.strObj(s)
	m.glob[g] = r.o
	return r, true
}

// get: the byte view a slice- or string-valued SSA value denotes.
func (m *c46m) get(w *pathWalker, v ssa.Value) (c46ref, bool) {
	if r, ok := m.ref[v]; ok {
		return r, true
	}
	if !c46IsBytes(v.Type()) {
		return c46ref{}, false
	}
	var r c46ref
	ok := false
	switch x := v.(type) {
	case *ssa.Const:
		if s, isS := constString(x); isS {
			r, ok = m.strObj(s), true
		} else if x.IsNil() {
			r, ok = c46ref{m.newObj(0, 0), 0, 0}, true
		}
	case *ssa.Convert:
		if src, isB := m.get(w, x.X); isB {
			o := m.newObj(src.n, -1)
			copy(o.b, src.o.b[src.off:src.off+src.n])
			r, ok = c46ref{o, 0, src.n}, true
		}
	case *ssa.ChangeType:
		r, ok = m.get(w, x.X)
	case *ssa.MakeSlice:
		n, okn := w.env.eval(x.Len)
		cp, okc := w.env.eval(x.Cap)
		if okn && okc && n >= 0 && cp >= n && cp < 1<<16 {
			r, ok = c46ref{m.newObj(int(cp), 0), 0, int(n)}, true
		}
	case *ssa.UnOp:
		if x.Op == token.MUL {
			if g, isG := x.X.(*ssa.Global); isG {
				r, ok = m.globalRef(g)
			} else if p := m.ptrOf(w, x.X); p != "" {
				r, ok = m.memRef[p]
				if !ok && m.fresh(p) {
					r, ok = c46ref{m.newObj(0, 0), 0, 0}, true
				}
			}
		}
	}
	if ok {
		m.setRef(w, v, r)
	}
	return r, ok
}

// cell: the byte an IndexAddr denotes.
func (m *c46m) cell(w *pathWalker, ia *ssa.IndexAddr) (*c46obj, int, bool) {
	k, ok := w.env.eval(ia.Index)
	if !ok {
		return nil, 0, false
	}
	if _, isPtr := ia.X.Type().Underlying().(*types.Pointer); isPtr {
		n, isB := c46ByteArray(ia.X.Type())
		if !isB {
			return nil, 0, false
		}
		p := m.ptrOf(w, ia.X)
		if p == "" {
			return nil, 0, false
		}
		if k < 0 || int(k) >= n {
			m.oob = fmt.Sprintf("index %d out of range [0,%d)", k, n)
			return nil, 0, false
		}
		return m.objAt(p, n), int(k), true
	}
	r, ok := m.get(w, ia.X)
	if !ok {
		return nil, 0, false
	}
	if k < 0 || int(k) >= r.n {
		m.oob = fmt.Sprintf("index %d out of range [0,%d)", k, r.n)
		return nil, 0, false
	}
	return r.o, r.off + int(k), true
}

func c46NilCmp(bo *ssa.BinOp, v ssa.Value) bool {
	if bo.Op != token.EQL && bo.Op != token.NEQ {
		return false
	}
	return bo.X == v && isNilConst(bo.Y) || bo.Y == v && isNilConst(bo.X)
}

// bindNil folds every comparison of v with nil.
func (m *c46m) bindNil(w *pathWalker, v ssa.Value, isNil bool) {
	refs := v.Referrers()
	if refs == nil {
		return
	}
	for _, r := range *refs {
		if bo, ok := r.(*ssa.BinOp); ok && c46NilCmp(bo, v) {
			w.env.bind(bo, b2i((bo.Op == token.EQL) == isNil))
		}
	}
}

// scalarOf: the integer (or abstract identity) a non-slice value carries.
func (m *c46m) scalarOf(w *pathWalker, v ssa.Value) (int64, bool) {
	if isNilConst(v) {
		return 0, true
	}
	if mi, ok := v.(*ssa.MakeInterface); ok {
		return m.scalarOf(w, mi.X)
	}
	return w.env.eval(v)
}

func (m *c46m) onLoad(w *pathWalker, u *ssa.UnOp) (int64, bool) {
	m.flush(w)
	delete(m.ref, u)
	delete(m.arr, u)
	switch a := u.X.(type) {
	case *ssa.Global:
		if c46IsBytes(u.Type()) {
			if r, ok := m.globalRef(a); ok {
				m.ref[u] = r
				return int64(r.n), true
			}
			return 0, false
		}
		if c46IsIface(u.Type()) {
			id := m.errID(c46GlobalKey(a))
			m.bindNil(w, u, false)
			return id, true
		}
		if _, _, k, ok := m.globalInit(a); ok {
			return k, true
		}
		return 0, false
	case *ssa.IndexAddr:
		if c46IsByte(u.Type()) {
			if o, i, ok := m.cell(w, a); ok && o.b[i] >= 0 {
				return int64(o.b[i]), true
			}
			return 0, false
		}
		if l, k, ok := m.listElem(w, a); ok {
			m.ref[u] = l[k]
			return int64(l[k].n), true
		}
	}
	p := m.ptrOf(w, u.X)
	if p == "" {
		return 0, false
	}
	t := u.Type()
	switch {
	case c46IsList(t):
		delete(m.list, u)
		l, ok := m.memList[p]
		if !ok && m.fresh(p) {
			l, ok = nil, true
		}
		if ok {
			m.list[u] = l
			return int64(len(l)), true
		}
		return 0, false
	case c46IsBytes(t):
		r, ok := m.memRef[p]
		if !ok && m.fresh(p) {
			r, ok = c46ref{m.newObj(0, 0), 0, 0}, true
		}
		if ok {
			m.ref[u] = r
			return int64(r.n), true
		}
		return 0, false
	case c46IsIface(t):
		n, ok := m.mem[p]
		if !ok && m.fresh(p) {
			n, ok = 0, true
		}
		if ok {
			m.bindNil(w, u, n == 0)
		}
		return n, ok
	}
	if n, isArr := c46ByteArray(t); isArr {
		if _, isPtr := t.Underlying().(*types.Pointer); !isPtr {
			m.arr[u] = append([]int16(nil), m.objAt(p, n).b...)
		}
		return 0, false
	}
	if _, isBasic := t.Underlying().(*types.Basic); isBasic {
		n, ok := m.mem[p]
		if !ok && m.fresh(p) {
			n, ok = 0, true
		}
		return n, ok
	}
	return 0, false
}

func (m *c46m) onStore(w *pathWalker, st *ssa.Store) string {
	m.flush(w)
	if ia, ok := st.Addr.(*ssa.IndexAddr); ok && c46IsByte(st.Val.Type()) {
		if o, i, ok := m.cell(w, ia); ok {
			if n, known := w.env.eval(st.Val); known {
				o.b[i] = int16(n & 0xff)
			} else {
				o.b[i] = -1
			}
		}
		return ""
	}
	if ia, ok := st.Addr.(*ssa.IndexAddr); ok && c46IsBytes(st.Val.Type()) {
		if l, k, ok := m.listElem(w, ia); ok {
			if r, known := m.get(w, st.Val); known {
				l[k] = r
			} else {
				l[k] = m.unknownBuf(1) // content unknown: a later Join is not determined
			}
			return ""
		}
	}
	p := m.ptrOf(w, st.Addr)
	if p == "" {
		return ""
	}
	t := st.Val.Type()
	switch {
	case c46IsList(t):
		if l, ok := m.getList(w, st.Val); ok {
			m.memList[p] = l
		} else {
			delete(m.memList, p)
		}
		return ""
	case c46IsBytes(t):
		if r, ok := m.get(w, st.Val); ok {
			m.memRef[p] = r
			delete(m.memRef, p+"?")
		} else {
			delete(m.memRef, p)
			m.memRef[p+"?"] = c46ref{} // remembered as "written with unknown content"
		}
		return ""
	case c46IsIface(t):
		if n, ok := m.scalarOf(w, st.Val); ok {
			m.mem[p] = n
		} else {
			delete(m.mem, p)
			if q := m.ptrOf(w, st.Val); q != "" {
				m.memPtr[p] = q
			}
		}
		return ""
	}
	if n, isArr := c46ByteArray(t); isArr {
		if _, isPtr := t.Underlying().(*types.Pointer); !isPtr {
			o := m.objAt(p, n)
			if a, ok := m.arr[st.Val]; ok && len(a) == n {
				copy(o.b, a)
			} else {
				for i := range o.b {
					o.b[i] = -1
				}
			}
			return ""
		}
	}
	if _, isPtr := t.Underlying().(*types.Pointer); isPtr {
		if q := m.ptrOf(w, st.Val); q != "" {
			m.memPtr[p] = q
		} else {
			delete(m.memPtr, p)
		}
		return ""
	}
	if _, isBasic := t.Underlying().(*types.Basic); isBasic {
		if n, ok := w.env.eval(st.Val); ok {
			m.mem[p] = n
			delete(m.mem, p+"?")
		} else {
			delete(m.mem, p)
			m.mem[p+"?"] = 1
		}
	}
	return ""
}

func (m *c46m) onSlice(w *pathWalker, x *ssa.Slice) {
	m.flush(w)
	delete(m.ref, x)
	if c46IsList(x.Type()) {
		m.listSlice(w, x)
		return
	}
	var base c46ref
	ok := false
	if _, isPtr := x.X.Type().Underlying().(*types.Pointer); isPtr {
		if n, isB := c46ByteArray(x.X.Type()); isB {
			if p := m.ptrOf(w, x.X); p != "" {
				base, ok = c46ref{m.objAt(p, n), 0, n}, true
			}
		}
	} else if c46IsBytes(x.X.Type()) {
		base, ok = m.get(w, x.X)
	}
	if !ok {
		return
	}
	lo, hi := 0, base.n
	if x.Low != nil {
		k, okk := w.env.eval(x.Low)
		if !okk {
			return
		}
		lo = int(k)
	}
	if x.High != nil {
		k, okk := w.env.eval(x.High)
		if !okk {
			return
		}
		hi = int(k)
	}
	if lo < 0 || hi < lo || hi > base.capacity() {
		m.oob = fmt.Sprintf("slice bounds [%d:%d] out of range (len %d, cap %d)", lo, hi, base.n, base.capacity())
		return
	}
	m.setRef(w, x, c46ref{base.o, base.off + lo, hi - lo})
}

func (m *c46m) onPhi(w *pathWalker, ph *ssa.Phi, in ssa.Value) {
	delete(m.pend, ph)
	t := ph.Type()
	switch {
	case c46IsList(t):
		if l, ok := m.getList(w, in); ok {
			m.list[ph] = l
			m.pend[ph] = int64(len(l))
		} else {
			delete(m.list, ph)
		}
	case c46IsBytes(t):
		if r, ok := m.get(w, in); ok {
			m.ref[ph] = r
			m.pend[ph] = int64(r.n)
		} else {
			delete(m.ref, ph)
		}
	case c46IsIface(t):
		if n, ok := m.scalarOf(w, in); ok {
			m.bindNil(w, ph, n == 0)
			m.pend[ph] = n
		}
		if p := m.ptrOf(w, in); p != "" {
			m.ptr[ph] = p
		} else {
			delete(m.ptr, ph)
		}
	default:
		if _, isPtr := t.Underlying().(*types.Pointer); isPtr {
			if p := m.ptrOf(w, in); p != "" {
				m.ptr[ph] = p
			} else {
				delete(m.ptr, ph)
			}
		} else if _, isArr := c46ByteArray(t); isArr {
			if a, ok := m.arr[in]; ok {
				m.arr[ph] = a
			} else {
				delete(m.arr, ph)
			}
		}
	}
}

func (m *c46m) snapshot(callee *ssa.Function) {
	s := c46snap{callee: callee, mem: map[string]int64{}, memRef: map[string]c46ref{}, memPtr: map[string]string{}, objs: map[string]*c46obj{}, bytes: map[*c46obj][]int16{}}
	for k, v := range m.mem {
		s.mem[k] = v
	}
	for k, v := range m.memRef {
		s.memRef[k] = v
	}
	for k, v := range m.memPtr {
		s.memPtr[k] = v
	}
	for k, v := range m.objs {
		s.objs[k] = v
	}
	for _, o := range m.all {
		s.bytes[o] = append([]int16(nil), o.b...)
	}
	s.memList = map[string][]c46ref{}
	for k, v := range m.memList {
		s.memList[k] = append([]c46ref(nil), v...)
	}
	m.snaps = append(m.snaps, s)
}

// restore: a trial interpretation of callee was abandoned by the walker; its
// effects on memory are undone.
func (m *c46m) restore(callee *ssa.Function) bool {
	for i := len(m.snaps) - 1; i >= 0; i-- {
		if m.snaps[i].callee != callee {
			continue
		}
		s := m.snaps[i]
		m.mem, m.memRef, m.memPtr, m.objs, m.memList = s.mem, s.memRef, s.memPtr, s.objs, s.memList
		for o, b := range s.bytes {
			copy(o.b, b)
		}
		m.snaps = m.snaps[:i]
		return true
	}
	return false
}

func (m *c46m) onInline(parent, child *pathWalker, callee *ssa.Function, args []ssa.Value) {
	m.flush(parent)
	m.snapshot(callee)
	m.act[callee]++
	for i, p := range callee.Params {
		delete(m.ref, p)
		delete(m.arr, p)
		delete(m.ptr, p)
		if i >= len(args) {
			continue
		}
		a := args[i]
		t := p.Type()
		delete(m.list, p)
		switch {
		case c46IsList(t):
			if l, ok := m.getList(parent, a); ok {
				m.setList(child, p, l)
			}
		case c46IsBytes(t):
			if r, ok := m.get(parent, a); ok {
				m.setRef(child, p, r)
			}
		case c46IsIface(t):
			if n, ok := m.scalarOf(parent, a); ok {
				child.env.bind(p, n)
				m.bindNil(child, p, n == 0)
			}
			if q := m.ptrOf(parent, a); q != "" {
				m.ptr[p] = q
			}
		default:
			if _, isArr := c46ByteArray(t); isArr {
				if _, isPtr := t.Underlying().(*types.Pointer); !isPtr {
					if v, ok := m.arr[a]; ok {
						m.arr[p] = v
					}
					continue
				}
			}
			if q := m.ptrOf(parent, a); q != "" {
				m.ptr[p] = q
			}
		}
	}
}

func (m *c46m) onReturn(parent, child *pathWalker, call *ssa.Call, results []ssa.Value) {
	m.flush(child)
	for i := len(m.snaps) - 1; i >= 0; i-- {
		if m.snaps[i].callee == call.Call.StaticCallee() {
			m.snaps = m.snaps[:i]
			break
		}
	}
	delete(m.ref, call)
	delete(m.arr, call)
	delete(m.ptr, call)
	delete(m.tupRef, call)
	if len(results) == 1 {
		r := results[0]
		t := r.Type()
		delete(m.list, call)
		switch {
		case c46IsList(t):
			if l, ok := m.getList(child, r); ok {
				m.setList(parent, call, l)
			}
		case c46IsBytes(t):
			if v, ok := m.get(child, r); ok {
				m.setRef(parent, call, v)
			}
		case c46IsIface(t):
			if n, ok := m.scalarOf(child, r); ok {
				parent.env.bind(call, n)
				m.bindNil(parent, call, n == 0)
			}
			if q := m.ptrOf(child, r); q != "" {
				m.ptr[call] = q
			}
		default:
			if _, isArr := c46ByteArray(t); isArr {
				if _, isPtr := t.Underlying().(*types.Pointer); !isPtr {
					if v, ok := m.arr[r]; ok {
						m.arr[call] = v
					}
					return
				}
			}
			if q := m.ptrOf(child, r); q != "" {
				m.ptr[call] = q
			}
			if _, isBasic := t.Underlying().(*types.Basic); isBasic && m.summary != nil {
				if _, known := child.env.eval(r); !known {
					m.summary(m, parent, call)
				}
			}
		}
		return
	}
	tr := map[int]c46ref{}
	for i, r := range results {
		if c46IsBytes(r.Type()) {
			if v, ok := m.get(child, r); ok {
				tr[i] = v
				if rs := parent.tuple[call]; i < len(rs) {
					rs[i] = optInt{int64(v.n), true}
				}
			}
		} else if c46IsIface(r.Type()) {
			if n, ok := m.scalarOf(child, r); ok {
				if rs := parent.tuple[call]; i < len(rs) {
					rs[i] = optInt{n, true}
				}
			}
		}
	}
	m.tupRef[call] = tr
}

func (m *c46m) onExtract(w *pathWalker, ex *ssa.Extract) {
	delete(m.ref, ex)
	if r, ok := m.tupRef[ex.Tuple][ex.Index]; ok {
		m.setRef(w, ex, r)
	}
	if c46IsIface(ex.Type()) {
		if n, ok := w.env.vals[ex]; ok {
			m.bindNil(w, ex, n == 0)
		}
	}
}

// result setters used by the models
func (m *c46m) retInt(w *pathWalker, ci ssa.CallInstruction, n int64) {
	if v, ok := ci.(ssa.Value); ok {
		w.env.bind(v, n)
		if c46IsIface(v.Type()) {
			m.bindNil(w, v, n == 0)
		}
	}
}

func (m *c46m) retRef(w *pathWalker, ci ssa.CallInstruction, r c46ref) {
	if v, ok := ci.(ssa.Value); ok {
		m.setRef(w, v, r)
	}
}

// retTuple: ints[i] is the integer / length / abstract identity of component
// i; refs holds the slice-valued components.
func (m *c46m) retTuple(w *pathWalker, ci ssa.CallInstruction, ints []int64, refs map[int]c46ref) {
	v, ok := ci.(ssa.Value)
	if !ok {
		return
	}
	if w.tuple == nil {
		w.tuple = map[ssa.Value][]optInt{}
	}
	var rs []optInt
	for _, n := range ints {
		rs = append(rs, optInt{n, true})
	}
	w.tuple[v] = rs
	if refs == nil {
		refs = map[int]c46ref{}
	}
	m.tupRef[v] = refs
}

func (m *c46m) forget(w *pathWalker, ci ssa.CallInstruction) {
	if v, ok := ci.(ssa.Value); ok {
		delete(w.env.vals, v)
		delete(m.ref, v)
		delete(m.arr, v)
		delete(m.ptr, v)
		delete(m.tupRef, v)
		delete(m.list, v)
		if w.tuple != nil {
			delete(w.tuple, v)
		}
	}
}

// havoc: an unmodelled call may write through its pointer and slice arguments.
func (m *c46m) havoc(w *pathWalker, cc *ssa.CallCommon) {
	for _, a := range cc.Args {
		if c46IsBytes(a.Type()) {
			if _, isStr := a.Type().Underlying().(*types.Basic); isStr {
				continue
			}
			if r, ok := m.get(w, a); ok {
				for i := 0; i < r.n; i++ {
					r.o.b[r.off+i] = -1
				}
			}
			continue
		}
		if _, isPtr := a.Type().Underlying().(*types.Pointer); !isPtr {
			continue
		}
		p := m.ptrOf(w, a)
		if p == "" {
			continue
		}
		pre := func(k string) bool { return k == p || strings.HasPrefix(k, p+".") || strings.HasPrefix(k, p+"[") }
		for k := range m.mem {
			if pre(k) {
				delete(m.mem, k)
			}
		}
		for k := range m.memRef {
			if pre(k) {
				delete(m.memRef, k)
			}
		}
		for k := range m.memPtr {
			if pre(k) {
				delete(m.memPtr, k)
			}
		}
		for k, o := range m.objs {
			if pre(k) {
				for i := range o.b {
					o.b[i] = -1
				}
			}
		}
	}
}

func (m *c46m) onCall(w *pathWalker, ci ssa.CallInstruction) string {
	m.flush(w)
	cc := ci.Common()
	// a same-package helper that reaches onCall was tried in place and abandoned
	if callee := cc.StaticCallee(); callee != nil && len(callee.Blocks) > 0 && callee.Pkg == m.root.Pkg {
		m.restore(callee)
	}
	if m.observe != nil {
		m.observe(m, w, ci)
	}
	if m.model != nil && m.model(m, w, ci) {
		return ""
	}
	if m.stdModel(w, ci) {
		return ""
	}
	m.unknown = append(m.unknown, short(calleeName(cc)))
	m.forget(w, ci)
	m.havoc(w, cc)
	return ""
}

// argument helpers
func (m *c46m) argStr(w *pathWalker, v ssa.Value) (string, bool) {
	if s, ok := constString(v); ok {
		return s, true
	}
	if r, ok := m.get(w, v); ok {
		return r.str()
	}
	return "", false
}

func c46B64(v ssa.Value) *base64.Encoding {
	u, ok := v.(*ssa.UnOp)
	if !ok || u.Op != token.MUL {
		return nil
	}
	g, ok := u.X.(*ssa.Global)
	if !ok || g.Pkg == nil || g.Pkg.Pkg.Path() != "encoding/base64" {
		return nil
	}
	switch g.Name() {
	case "StdEncoding":
		return base64.StdEncoding
	case "RawStdEncoding":
		return base64.RawStdEncoding
	case "URLEncoding":
		return base64.URLEncoding
	case "RawURLEncoding":
		return base64.RawURLEncoding
	}
	return nil
}

func (m *c46m) write(r c46ref, s []byte) {
	for i := 0; i < len(s) && i < r.n; i++ {
		r.o.b[r.off+i] = int16(s[i])
	}
}

// appendTo: append(dst, s...) as a fresh object (spare capacity is not modelled).
func (m *c46m) appendTo(dst c46ref, src c46ref) c46ref {
	o := m.newObj(dst.n+src.n, -1)
	copy(o.b, dst.o.b[dst.off:dst.off+dst.n])
	copy(o.b[dst.n:], src.o.b[src.off:src.off+src.n])
	return c46ref{o, 0, dst.n + src.n}
}

// stdModel: the standard-library functions on bytes.
func (m *c46m) stdModel(w *pathWalker, ci ssa.CallInstruction) bool {
	cc := ci.Common()
	name := short(calleeName(cc))
	a := cc.Args
	switch name {
	case "bytes.Join", "strings.Join":
		return m.listJoin(w, ci)
	case "builtin:append":
		if len(a) == 0 {
			return false
		}
		if c46IsList(a[0].Type()) {
			return m.listAppend(w, ci)
		}
		dst, ok := m.get(w, a[0])
		if !ok || !c46IsBytes(a[0].Type()) {
			return false
		}
		if len(a) == 1 {
			m.retRef(w, ci, dst)
			return true
		}
		src, ok := m.get(w, a[1])
		if !ok {
			return false
		}
		m.retRef(w, ci, m.appendTo(dst, src))
		return true
	case "builtin:copy":
		dst, ok1 := m.get(w, a[0])
		src, ok2 := m.get(w, a[1])
		if !ok1 {
			return false
		}
		if !ok2 {
			for i := 0; i < dst.n; i++ {
				dst.o.b[dst.off+i] = -1
			}
			return true
		}
		n := min(dst.n, src.n)
		tmp := append([]int16(nil), src.o.b[src.off:src.off+n]...)
		copy(dst.o.b[dst.off:dst.off+n], tmp)
		m.retInt(w, ci, int64(n))
		return true
	case "builtin:cap":
		if r, ok := m.get(w, a[0]); ok {
			m.retInt(w, ci, int64(r.capacity()))
			return true
		}
		return false
	case "builtin:clear":
		if r, ok := m.get(w, a[0]); ok {
			for i := 0; i < r.n; i++ {
				r.o.b[r.off+i] = 0
			}
			return true
		}
		return false
	}
	if i := strings.Index(name, "."); i > 0 && (name[:i] == "bytes" || name[:i] == "strings") {
		return m.bytesModel(w, ci, name[i+1:])
	}
	if strings.HasPrefix(name, "(*encoding/base64.Encoding).") && len(a) > 0 {
		enc := c46B64(a[0])
		if enc == nil {
			return false
		}
		switch name[len("(*encoding/base64.Encoding)."):] {
		case "EncodedLen":
			if n, ok := w.env.eval(a[1]); ok {
				m.retInt(w, ci, int64(enc.EncodedLen(int(n))))
				return true
			}
		case "DecodedLen":
			if n, ok := w.env.eval(a[1]); ok {
				m.retInt(w, ci, int64(enc.DecodedLen(int(n))))
				return true
			}
		case "Encode":
			dst, ok1 := m.get(w, a[1])
			src, ok2 := m.argStr(w, a[2])
			if ok1 && ok2 && dst.n >= enc.EncodedLen(len(src)) {
				buf := make([]byte, enc.EncodedLen(len(src)))
				enc.Encode(buf, []byte(src))
				m.write(dst, buf)
				return true
			}
		case "EncodeToString":
			if src, ok := m.argStr(w, a[1]); ok {
				m.retRef(w, ci, m.strObj(enc.EncodeToString([]byte(src))))
				return true
			}
		case "AppendEncode":
			dst, ok1 := m.get(w, a[1])
			src, ok2 := m.argStr(w, a[2])
			if ok1 && ok2 {
				m.retRef(w, ci, m.appendTo(dst, m.strObj(enc.EncodeToString([]byte(src)))))
				return true
			}
		case "Decode":
			dst, ok1 := m.get(w, a[1])
			src, ok2 := m.argStr(w, a[2])
			if ok1 && ok2 && dst.n >= enc.DecodedLen(len(src)) {
				buf := make([]byte, enc.DecodedLen(len(src)))
				n, err := enc.Decode(buf, []byte(src))
				m.write(dst, buf[:n])
				e := int64(0)
				if err != nil {
					e = m.errID("encoding/base64.CorruptInputError")
				}
				m.retTuple(w, ci, []int64{int64(n), e}, nil)
				return true
			}
		case "DecodeString":
			if src, ok := m.argStr(w, a[1]); ok {
				out, err := enc.DecodeString(src)
				e := int64(0)
				if err != nil {
					e = m.errID("encoding/base64.CorruptInputError")
				}
				m.retTuple(w, ci, []int64{int64(len(out)), e}, map[int]c46ref{0: m.strObj(string(out))})
				return true
			}
		case "AppendDecode":
			dst, ok1 := m.get(w, a[1])
			src, ok2 := m.argStr(w, a[2])
			if ok1 && ok2 {
				out, err := enc.DecodeString(src)
				e := int64(0)
				if err != nil {
					e = m.errID("encoding/base64.CorruptInputError")
				}
				r := m.appendTo(dst, m.strObj(string(out)))
				m.retTuple(w, ci, []int64{int64(r.n), e}, map[int]c46ref{0: r})
				return true
			}
		}
		return false
	}
	if strings.HasPrefix(name, "(encoding/binary.") && len(a) >= 2 {
		return m.binModel(w, ci, name)
	}
	return false
}

func (m *c46m) binModel(w *pathWalker, ci ssa.CallInstruction, name string) bool {
	a := ci.Common().Args
	var order binary.ByteOrder
	var app binary.AppendByteOrder
	switch {
	case strings.HasPrefix(name, "(encoding/binary.bigEndian)."):
		order, app = binary.BigEndian, binary.BigEndian
	case strings.HasPrefix(name, "(encoding/binary.littleEndian)."):
		order, app = binary.LittleEndian, binary.LittleEndian
	default:
		return false
	}
	meth := name[strings.LastIndex(name, ".")+1:]
	width := 0
	switch {
	case strings.HasSuffix(meth, "16"):
		width = 2
	case strings.HasSuffix(meth, "32"):
		width = 4
	case strings.HasSuffix(meth, "64"):
		width = 8
	default:
		return false
	}
	buf, ok := m.get(w, a[1])
	if !ok {
		return false
	}
	switch {
	case strings.HasPrefix(meth, "PutUint"):
		if buf.n < width {
			m.oob = "encoding/binary: buffer too short"
			return true
		}
		v, known := w.env.eval(a[2])
		tmp := make([]byte, 8)
		switch width {
		case 2:
			order.PutUint16(tmp, uint16(v))
		case 4:
			order.PutUint32(tmp, uint32(v))
		case 8:
			order.PutUint64(tmp, uint64(v))
		}
		for i := 0; i < width; i++ {
			if known {
				buf.o.b[buf.off+i] = int16(tmp[i])
			} else {
				buf.o.b[buf.off+i] = -1
			}
		}
		return true
	case strings.HasPrefix(meth, "AppendUint"):
		v, known := w.env.eval(a[2])
		if !known {
			return false
		}
		var out []byte
		switch width {
		case 2:
			out = app.AppendUint16(nil, uint16(v))
		case 4:
			out = app.AppendUint32(nil, uint32(v))
		case 8:
			out = app.AppendUint64(nil, uint64(v))
		}
		m.retRef(w, ci, m.appendTo(buf, m.strObj(string(out))))
		return true
	case strings.HasPrefix(meth, "Uint"):
		if buf.n < width {
			m.oob = "encoding/binary: buffer too short"
			return true
		}
		s, known := c46ref{buf.o, buf.off, width}.str()
		if !known {
			return false
		}
		var v uint64
		switch width {
		case 2:
			v = uint64(order.Uint16([]byte(s)))
		case 4:
			v = uint64(order.Uint32([]byte(s)))
		case 8:
			v = order.Uint64([]byte(s))
		}
		m.retInt(w, ci, int64(v))
		return true
	}
	return false
}

// bytesModel: bytes.F / strings.F on known content. Results that are parts of
// the first argument are views of it.
func (m *c46m) bytesModel(w *pathWalker, ci ssa.CallInstruction, fn string) bool {
	a := ci.Common().Args
	if len(a) == 0 {
		return false
	}
	src, ok := m.get(w, a[0])
	if !ok {
		return false
	}
	s, ok := src.str()
	if !ok {
		return false
	}
	arg := func(i int) (string, bool) {
		if i >= len(a) {
			return "", false
		}
		return m.argStr(w, a[i])
	}
	sub := func(lo, hi int) c46ref { return c46ref{src.o, src.off + lo, hi - lo} }
	switch fn {
	case "HasPrefix", "HasSuffix", "Equal", "Contains", "Index", "LastIndex", "IndexAny", "ContainsAny", "EqualFold", "Compare":
		t, ok := arg(1)
		if !ok {
			return false
		}
		switch fn {
		case "HasPrefix":
			m.retInt(w, ci, b2i(strings.HasPrefix(s, t)))
		case "HasSuffix":
			m.retInt(w, ci, b2i(strings.HasSuffix(s, t)))
		case "Equal":
			m.retInt(w, ci, b2i(s == t))
		case "EqualFold":
			m.retInt(w, ci, b2i(strings.EqualFold(s, t)))
		case "Compare":
			m.retInt(w, ci, int64(strings.Compare(s, t)))
		case "Contains":
			m.retInt(w, ci, b2i(strings.Contains(s, t)))
		case "ContainsAny":
			m.retInt(w, ci, b2i(strings.ContainsAny(s, t)))
		case "Index":
			m.retInt(w, ci, int64(strings.Index(s, t)))
		case "LastIndex":
			m.retInt(w, ci, int64(strings.LastIndex(s, t)))
		case "IndexAny":
			m.retInt(w, ci, int64(strings.IndexAny(s, t)))
		}
		return true
	case "IndexByte", "LastIndexByte", "IndexRune", "ContainsRune":
		k, ok := w.env.eval(a[1])
		if !ok || k < 0 || k > 127 {
			return false
		}
		switch fn {
		case "IndexByte", "IndexRune":
			m.retInt(w, ci, int64(strings.IndexByte(s, byte(k))))
		case "LastIndexByte":
			m.retInt(w, ci, int64(strings.LastIndexByte(s, byte(k))))
		case "ContainsRune":
			m.retInt(w, ci, b2i(strings.IndexByte(s, byte(k)) >= 0))
		}
		return true
	case "TrimRight", "TrimLeft", "Trim", "TrimPrefix", "TrimSuffix":
		t, ok := arg(1)
		if !ok {
			return false
		}
		lo, hi := 0, len(s)
		switch fn {
		case "TrimRight":
			hi = len(strings.TrimRight(s, t))
		case "TrimLeft":
			lo = len(s) - len(strings.TrimLeft(s, t))
		case "Trim":
			lo = len(s) - len(strings.TrimLeft(s, t))
			hi = lo + len(strings.Trim(s, t))
		case "TrimPrefix":
			if strings.HasPrefix(s, t) {
				lo = len(t)
			}
		case "TrimSuffix":
			if strings.HasSuffix(s, t) {
				hi = len(s) - len(t)
			}
		}
		m.retRef(w, ci, sub(lo, hi))
		return true
	case "TrimSpace":
		lo := len(s) - len(strings.TrimLeft(s, " \t\n\v\f\r"))
		hi := lo + len(bytes.TrimSpace([]byte(s)))
		if lo > hi {
			lo = hi
		}
		m.retRef(w, ci, sub(lo, hi))
		return true
	case "CutPrefix", "CutSuffix":
		t, ok := arg(1)
		if !ok {
			return false
		}
		lo, hi, found := 0, len(s), false
		if fn == "CutPrefix" && strings.HasPrefix(s, t) {
			lo, found = len(t), true
		}
		if fn == "CutSuffix" && strings.HasSuffix(s, t) {
			hi, found = len(s)-len(t), true
		}
		m.retTuple(w, ci, []int64{int64(hi - lo), b2i(found)}, map[int]c46ref{0: sub(lo, hi)})
		return true
	case "Cut":
		t, ok := arg(1)
		if !ok {
			return false
		}
		i := strings.Index(s, t)
		if i < 0 {
			m.retTuple(w, ci, []int64{int64(len(s)), 0, 0}, map[int]c46ref{0: sub(0, len(s)), 1: {m.newObj(0, 0), 0, 0}})
		} else {
			m.retTuple(w, ci, []int64{int64(i), int64(len(s) - i - len(t)), 1}, map[int]c46ref{0: sub(0, i), 1: sub(i+len(t), len(s))})
		}
		return true
	case "Clone":
		m.retRef(w, ci, m.strObj(s))
		return true
	}
	return false
}

// results of the root function: integer / identity of result i.
func (m *c46m) result(w *pathWalker, i int) (int64, bool) {
	r, ok := w.last.(*ssa.Return)
	if !ok || i >= len(r.Results) {
		return 0, false
	}
	return m.scalarOf(w, r.Results[i])
}

func (m *c46m) why(w *pathWalker, end string) string {
	s := fmt.Sprintf("interpretation ended with %q", end)
	if w.why != "" {
		s += ": " + w.why
	}
	if len(m.unknown) > 0 {
		s += fmt.Sprintf(" (calls outside the model: %s)", strings.Join(c46Uniq(m.unknown), ", "))
	}
	return s
}

func c46Uniq(xs []string) []string {
	seen := map[string]bool{}
	var out []string
	for _, x := range xs {
		if !seen[x] {
			seen[x] = true
			out = append(out, x)
		}
	}
	return out
}

// c46CRC24 is the reference CRC-24 of RFC 4880 section 6.1.
func c46CRC24(crc uint32, d []byte) uint32 {
	for _, b := range d {
		crc ^= uint32(b) << 16
		for i := 0; i < 8; i++ {
			crc <<= 1
			if crc&0x1000000 != 0 {
				crc ^= 0x1864cfb
			}
		}
	}
	return crc
}
