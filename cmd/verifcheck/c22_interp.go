package main

import (
	"fmt"
	"go/constant"
	"go/token"
	"go/types"
	"strings"

	"golang.org/x/tools/go/ssa"
)

// Abstract interpreter used by the C22 rules.
//
// The C22 rules decide facts about what the cryptobyte Builder WRITES and what
// String READS back. Deciding them on the shape of one function (an if-chain in
// flushChild, a shift/or loop in readLengthPrefixed) ties the rule to the way
// the code happens to be factored. Instead the rules interpret the SSA of the
// package's entry points on chosen inputs and compare the observable outcome
// (bytes produced, values read, error or panic) with the specification
// computed here in Go. The interpreter follows calls into whatever helpers
// exist, so that extracting, inlining or renaming a helper, restructuring a
// loop, or renaming locals, parameters and receivers does not change what a
// rule sees. Nothing is compiled or run: SSA instructions are folded over an
// abstract memory in which a byte buffer is a sparse map (a buffer of 2^32
// bytes costs a handful of entries), integers follow Go's fixed-width
// arithmetic, and anything outside the modelled fragment (maps, channels,
// goroutines, floats, reflection, assembly) ends the interpretation as
// UNDECIDED, never as a pass.

type c22Kind uint8

const (
	c22KInt   c22Kind = iota // integers and booleans (n)
	c22KNil                  // nil pointer / slice / interface / func
	c22KPtr                  // element n of mem
	c22KSlice                // mem[n : n+ln] with capacity cp
	c22KErr                  // an opaque non-nil error (n = identity, str = text)
	c22KStr                  // string
	c22KFunc                 // function, closure (fn, free) or native (nat)
	c22KTuple                // t
	c22KAgg                  // struct or array VALUE stored in mem
	c22KIface                // non-nil interface holding *in of dynamic type typ
)

type c22V struct {
	k      c22Kind
	n      int64
	ln, cp int64
	mem    *c22Mem
	str    string
	fn     *ssa.Function
	free   []c22V
	nat    func(it *c22I, args []c22V) c22V
	t      []c22V
	typ    types.Type
	in     *c22V
}

// c22Mem is a block of n storage elements: the fields of a struct, the
// elements of an array, the backing array of a slice, or a single cell.
type c22Mem struct {
	n      int64
	dense  []c22V
	sparse map[int64]c22V
	zero   c22V
}

type c22Exit struct {
	kind string // "panic" (a panic statement), "runtime" (a run-time error the Go runtime would raise), "undecided"
	msg  string
	at   ssa.Instruction
}

func (e *c22Exit) String() string {
	if e == nil {
		return "normal return"
	}
	switch e.kind {
	case "panic":
		return "panic(" + e.msg + ")"
	case "runtime":
		return "run-time panic: " + e.msg
	}
	return "not interpretable: " + e.msg
}

type c22I struct {
	steps int
	limit int
	nerr  int64
	depth int
	cur   ssa.Instruction
	cover map[ssa.Instruction]bool // executed call and make instructions
	// every function (methods, closures, the initialiser) of a package, for the
	// analysis of package-level variables
	pkgFuncs func(p *ssa.Package) []*ssa.Function
	globals  map[*ssa.Global]c22V
}

func c22NewInterp() *c22I {
	return &c22I{limit: 4000000, cover: map[ssa.Instruction]bool{}}
}

func c22Int(n int64) c22V { return c22V{k: c22KInt, n: n} }

func c22Bool(b bool) c22V {
	if b {
		return c22Int(1)
	}
	return c22Int(0)
}

func (it *c22I) abort(format string, args ...any) {
	panic(&c22Exit{kind: "undecided", msg: fmt.Sprintf(format, args...), at: it.cur})
}

func (it *c22I) rtPanic(msg string) {
	panic(&c22Exit{kind: "runtime", msg: msg, at: it.cur})
}

// run interprets f and reports how it ended (nil = normally).
func (it *c22I) run(f func()) (ex *c22Exit) {
	it.steps = 0
	it.depth = 0
	defer func() {
		if r := recover(); r != nil {
			if e, ok := r.(*c22Exit); ok {
				ex = e
				return
			}
			ex = &c22Exit{kind: "undecided", msg: fmt.Sprint("interpreter fault: ", r), at: it.cur}
		}
	}()
	f()
	return nil
}

func (it *c22I) newMem(n int64, zero c22V) *c22Mem {
	m := &c22Mem{n: n, zero: zero}
	if n <= 256 || zero.k == c22KAgg {
		if n > 1<<16 {
			it.abort("array of %d aggregate elements", n)
		}
		m.dense = make([]c22V, n)
		for i := range m.dense {
			m.dense[i] = c22Copy(zero)
		}
	} else {
		m.sparse = map[int64]c22V{}
	}
	return m
}

func (m *c22Mem) get(i int64) c22V {
	if m.dense != nil {
		return m.dense[i]
	}
	if v, ok := m.sparse[i]; ok {
		return v
	}
	return m.zero
}

func (m *c22Mem) set(i int64, v c22V) {
	if m.dense != nil {
		m.dense[i] = v
		return
	}
	m.sparse[i] = v
}

// c22Copy: the copy made by an assignment (structs and arrays are values).
func c22Copy(v c22V) c22V {
	if v.k != c22KAgg {
		return v
	}
	m := &c22Mem{n: v.mem.n, zero: v.mem.zero}
	if v.mem.dense != nil {
		m.dense = make([]c22V, len(v.mem.dense))
		for i, e := range v.mem.dense {
			m.dense[i] = c22Copy(e)
		}
	} else {
		m.sparse = map[int64]c22V{}
		for i, e := range v.mem.sparse {
			m.sparse[i] = e
		}
	}
	return c22V{k: c22KAgg, mem: m}
}

// move copies n elements (memmove semantics, overlapping allowed).
func (it *c22I) move(dst *c22Mem, do int64, src *c22Mem, so int64, n int64) {
	if n <= 0 {
		return
	}
	if n <= 4096 {
		tmp := make([]c22V, n)
		for i := int64(0); i < n; i++ {
			tmp[i] = src.get(so + i)
		}
		for i := int64(0); i < n; i++ {
			dst.set(do+i, c22Copy(tmp[i]))
		}
		return
	}
	if src.sparse == nil || dst.sparse == nil || src.zero.k != c22KInt || dst.zero.k != c22KInt || src.zero.n != dst.zero.n {
		it.abort("bulk copy of %d elements between differently modelled buffers", n)
	}
	type ent struct {
		i int64
		v c22V
	}
	var es []ent
	for i, v := range src.sparse {
		if i >= so && i < so+n {
			es = append(es, ent{i - so, v})
		}
	}
	for i := range dst.sparse {
		if i >= do && i < do+n {
			delete(dst.sparse, i)
		}
	}
	for _, e := range es {
		dst.sparse[do+e.i] = e.v
	}
}

func (it *c22I) zero(t types.Type) c22V {
	switch u := t.Underlying().(type) {
	case *types.Basic:
		switch {
		case u.Info()&types.IsString != 0:
			return c22V{k: c22KStr}
		case u.Info()&(types.IsInteger|types.IsBoolean) != 0:
			return c22Int(0)
		case u.Kind() == types.UnsafePointer || u.Kind() == types.UntypedNil:
			return c22V{k: c22KNil}
		}
	case *types.Pointer, *types.Slice, *types.Interface, *types.Signature, *types.Map, *types.Chan:
		return c22V{k: c22KNil}
	case *types.Struct:
		m := &c22Mem{n: int64(u.NumFields()), dense: make([]c22V, u.NumFields())}
		for i := range m.dense {
			m.dense[i] = it.zero(u.Field(i).Type())
		}
		return c22V{k: c22KAgg, mem: m}
	case *types.Array:
		return c22V{k: c22KAgg, mem: it.newMem(u.Len(), it.zero(u.Elem()))}
	}
	it.abort("zero value of type %s is outside the modelled fragment", t)
	return c22V{}
}

func (it *c22I) konst(c *ssa.Const) c22V {
	if c.Value == nil {
		return it.zero(c.Type())
	}
	switch c.Value.Kind() {
	case constant.Bool:
		return c22Bool(constant.BoolVal(c.Value))
	case constant.Int:
		if n, ok := constant.Int64Val(c.Value); ok {
			return c22Int(wrapTo(n, c.Type()))
		}
		if u, ok := constant.Uint64Val(c.Value); ok {
			return c22Int(int64(u))
		}
	case constant.String:
		return c22V{k: c22KStr, str: constant.StringVal(c.Value)}
	}
	it.abort("constant %s is outside the modelled fragment", c)
	return c22V{}
}

type c22Deferred struct {
	fn   c22V
	args []c22V
}

type c22Frame struct {
	fn     *ssa.Function
	env    map[ssa.Value]c22V
	defers []c22Deferred
}

func (it *c22I) val(fr *c22Frame, v ssa.Value) c22V {
	switch x := v.(type) {
	case *ssa.Const:
		return it.konst(x)
	case *ssa.Function:
		return c22V{k: c22KFunc, fn: x}
	case *ssa.Global:
		return it.global(x)
	case *ssa.Builtin:
		it.abort("builtin %s used as a value", x.Name())
	}
	r, ok := fr.env[v]
	if !ok {
		it.abort("value %s has not been computed", v.Name())
	}
	return r
}

// global: the storage of a package-level variable. Only variables whose value
// is known for certain are modelled: a variable of an empty struct type
// (binary.BigEndian), and a variable that is only ever READ in its package
// apart from one constant initialisation in the package initialiser (a limit
// or flag declared as `var x = const`). Anything else ends the interpretation.
func (it *c22I) global(g *ssa.Global) c22V {
	if p, ok := it.globals[g]; ok {
		return p
	}
	el := g.Type().Underlying().(*types.Pointer).Elem()
	st, isStruct := el.Underlying().(*types.Struct)
	val := c22V{}
	switch {
	case isStruct && st.NumFields() == 0:
		val = it.zero(el)
	case it.pkgFuncs != nil && g.Pkg != nil && !g.Object().Exported():
		val = it.zero(el)
		inits := 0
		for _, f := range it.pkgFuncs(g.Pkg) {
			for _, b := range f.Blocks {
				for _, in := range b.Instrs {
					uses := false
					for _, op := range in.Operands(nil) {
						if *op == ssa.Value(g) {
							uses = true
						}
					}
					if !uses {
						continue
					}
					switch x := in.(type) {
					case *ssa.UnOp:
						if x.Op == token.MUL {
							continue
						}
					case *ssa.Store:
						if k, ok := x.Val.(*ssa.Const); ok && x.Addr == ssa.Value(g) && f.Synthetic != "" && f.Name() == "init" && inits == 0 {
							inits++
							val = it.konst(k)
							continue
						}
					}
					it.abort("package-level variable %s is modified or has its address taken in %s", g.Name(), f.Name())
				}
			}
		}
	default:
		it.abort("package-level variable %s (value unknown)", g.Name())
	}
	cell := it.newMem(1, c22Int(0))
	cell.set(0, val)
	p := c22V{k: c22KPtr, mem: cell}
	if it.globals == nil {
		it.globals = map[*ssa.Global]c22V{}
	}
	it.globals[g] = p
	return p
}

func (it *c22I) load(p c22V) c22V {
	if p.k != c22KPtr {
		if p.k == c22KNil {
			it.rtPanic("nil pointer dereference")
		}
		it.abort("load through a non-pointer")
	}
	return c22Copy(p.mem.get(p.n))
}

func (it *c22I) store(p, v c22V) {
	if p.k != c22KPtr {
		if p.k == c22KNil {
			it.rtPanic("nil pointer dereference")
		}
		it.abort("store through a non-pointer")
	}
	p.mem.set(p.n, c22Copy(v))
}

// aggOf: the storage of the struct / array a pointer points to.
func (it *c22I) aggOf(p c22V) *c22Mem {
	if p.k == c22KNil {
		it.rtPanic("nil pointer dereference")
	}
	if p.k != c22KPtr {
		it.abort("field or element address of a non-pointer")
	}
	a := p.mem.get(p.n)
	if a.k != c22KAgg {
		it.abort("pointer does not point to a struct or array")
	}
	return a.mem
}

func c22IsUnsigned(t types.Type) bool {
	_, uns, _ := intBits(t)
	return uns
}

func (it *c22I) binop(x *ssa.BinOp, a, b c22V) c22V {
	op := x.Op
	if a.k == c22KInt && b.k == c22KInt {
		uns := c22IsUnsigned(x.X.Type())
		switch op {
		case token.EQL:
			return c22Bool(a.n == b.n)
		case token.NEQ:
			return c22Bool(a.n != b.n)
		case token.LSS, token.LEQ, token.GTR, token.GEQ:
			lt, eq := a.n < b.n, a.n == b.n
			if uns {
				lt = uint64(a.n) < uint64(b.n)
			}
			switch op {
			case token.LSS:
				return c22Bool(lt)
			case token.LEQ:
				return c22Bool(lt || eq)
			case token.GTR:
				return c22Bool(!lt && !eq)
			}
			return c22Bool(!lt)
		case token.ADD:
			return c22Int(wrapTo(a.n+b.n, x.Type()))
		case token.SUB:
			return c22Int(wrapTo(a.n-b.n, x.Type()))
		case token.MUL:
			return c22Int(wrapTo(a.n*b.n, x.Type()))
		case token.QUO, token.REM:
			if b.n == 0 {
				it.rtPanic("integer divide by zero")
			}
			if uns {
				if op == token.QUO {
					return c22Int(wrapTo(int64(uint64(a.n)/uint64(b.n)), x.Type()))
				}
				return c22Int(wrapTo(int64(uint64(a.n)%uint64(b.n)), x.Type()))
			}
			if op == token.QUO {
				return c22Int(wrapTo(a.n/b.n, x.Type()))
			}
			return c22Int(wrapTo(a.n%b.n, x.Type()))
		case token.AND:
			return c22Int(wrapTo(a.n&b.n, x.Type()))
		case token.OR:
			return c22Int(wrapTo(a.n|b.n, x.Type()))
		case token.XOR:
			return c22Int(wrapTo(a.n^b.n, x.Type()))
		case token.AND_NOT:
			return c22Int(wrapTo(a.n&^b.n, x.Type()))
		case token.SHL, token.SHR:
			cnt := b.n
			if !c22IsUnsigned(x.Y.Type()) && cnt < 0 {
				it.rtPanic("negative shift amount")
			}
			if cnt < 0 || cnt > 64 {
				cnt = 64
			}
			if op == token.SHL {
				if cnt >= 64 {
					return c22Int(0)
				}
				return c22Int(wrapTo(a.n<<uint(cnt), x.Type()))
			}
			if uns {
				bits, _, _ := intBits(x.X.Type())
				ua := uint64(a.n)
				if bits < 64 {
					ua &= uint64(1)<<uint(bits) - 1
				}
				if cnt >= 64 {
					return c22Int(0)
				}
				return c22Int(int64(ua >> uint(cnt)))
			}
			if cnt >= 64 {
				cnt = 63
			}
			return c22Int(a.n >> uint(cnt))
		}
		it.abort("integer operator %s", op)
	}
	if a.k == c22KStr && b.k == c22KStr {
		switch op {
		case token.ADD:
			return c22V{k: c22KStr, str: a.str + b.str}
		case token.EQL:
			return c22Bool(a.str == b.str)
		case token.NEQ:
			return c22Bool(a.str != b.str)
		case token.LSS:
			return c22Bool(a.str < b.str)
		case token.GTR:
			return c22Bool(a.str > b.str)
		}
	}
	if op == token.EQL || op == token.NEQ {
		eq := it.equal(a, b)
		return c22Bool(eq == (op == token.EQL))
	}
	it.abort("operator %s on operands outside the modelled fragment", op)
	return c22V{}
}

func (it *c22I) equal(a, b c22V) bool {
	if a.k == c22KNil || b.k == c22KNil {
		return a.k == b.k
	}
	if a.k != b.k {
		it.abort("comparison of differently modelled values")
	}
	switch a.k {
	case c22KInt:
		return a.n == b.n
	case c22KStr:
		return a.str == b.str
	case c22KPtr:
		return a.mem == b.mem && a.n == b.n
	case c22KErr:
		return a.n == b.n
	case c22KIface:
		return types.Identical(a.typ, b.typ) && it.equal(*a.in, *b.in)
	case c22KAgg:
		if a.mem.n != b.mem.n {
			return false
		}
		if a.mem.n > 4096 {
			it.abort("comparison of large arrays")
		}
		for i := int64(0); i < a.mem.n; i++ {
			if !it.equal(a.mem.get(i), b.mem.get(i)) {
				return false
			}
		}
		return true
	}
	it.abort("comparison outside the modelled fragment")
	return false
}

func c22Len(v c22V) (int64, bool) {
	switch v.k {
	case c22KNil:
		return 0, true
	case c22KSlice:
		return v.ln, true
	case c22KStr:
		return int64(len(v.str)), true
	case c22KAgg:
		return v.mem.n, true
	}
	return 0, false
}

// seq: the elements of a slice or string operand of append / copy.
func (it *c22I) seq(v c22V) (mem *c22Mem, off, n int64) {
	switch v.k {
	case c22KNil:
		return nil, 0, 0
	case c22KSlice:
		return v.mem, v.n, v.ln
	case c22KStr:
		m := it.newMem(int64(len(v.str)), c22Int(0))
		for i := 0; i < len(v.str); i++ {
			m.set(int64(i), c22Int(int64(v.str[i])))
		}
		return m, 0, int64(len(v.str))
	}
	it.abort("append/copy operand outside the modelled fragment")
	return nil, 0, 0
}

func (it *c22I) builtin(fr *c22Frame, name string, x ssa.CallInstruction, args []c22V) c22V {
	switch name {
	case "len", "cap":
		a := args[0]
		if a.k == c22KPtr { // pointer to array
			return c22Int(it.aggOf(a).n)
		}
		if name == "cap" && a.k == c22KSlice {
			return c22Int(a.cp)
		}
		if n, ok := c22Len(a); ok && (name == "len" || a.k != c22KStr) {
			return c22Int(n)
		}
	case "append":
		s := args[0]
		if len(args) < 2 {
			return s
		}
		tm, to, tn := it.seq(args[1])
		if tn == 0 {
			return s
		}
		var sm *c22Mem
		var so, sl, sc int64
		if s.k == c22KSlice {
			sm, so, sl, sc = s.mem, s.n, s.ln, s.cp
		} else if s.k != c22KNil {
			it.abort("append to a non-slice")
		}
		if sl+tn < sl {
			it.rtPanic("growslice: len out of range")
		}
		if sl+tn <= sc {
			it.move(sm, so+sl, tm, to, tn)
			return c22V{k: c22KSlice, mem: sm, n: so, ln: sl + tn, cp: sc}
		}
		nc := max(2*sc, sl+tn)
		zero := tm.zero
		if sm != nil {
			zero = sm.zero
		}
		nm := it.newMem(nc, zero)
		if sm != nil {
			it.move(nm, 0, sm, so, sl)
		}
		it.move(nm, sl, tm, to, tn)
		return c22V{k: c22KSlice, mem: nm, n: 0, ln: sl + tn, cp: nc}
	case "copy":
		dm, do, dn := it.seq(args[0])
		sm, so, sn := it.seq(args[1])
		n := min(dn, sn)
		if n > 0 {
			it.move(dm, do, sm, so, n)
		}
		return c22Int(n)
	case "min", "max":
		best := args[0]
		uns := c22IsUnsigned(x.Value().Type())
		for _, a := range args[1:] {
			if a.k != c22KInt || best.k != c22KInt {
				it.abort("min/max of non-integers")
			}
			less := a.n < best.n
			if uns {
				less = uint64(a.n) < uint64(best.n)
			}
			if (name == "min") == less {
				best = a
			}
		}
		return best
	case "clear":
		if a := args[0]; a.k == c22KSlice {
			if a.mem.sparse != nil {
				for i := range a.mem.sparse {
					if i >= a.n && i < a.n+a.ln {
						delete(a.mem.sparse, i)
					}
				}
			} else {
				for i := a.n; i < a.n+a.ln; i++ {
					a.mem.dense[i] = c22Copy(a.mem.zero)
				}
			}
			return c22V{}
		} else if a.k == c22KNil {
			return c22V{}
		}
	case "SliceData":
		if a := args[0]; a.k == c22KSlice {
			return c22V{k: c22KPtr, mem: a.mem, n: a.n}
		} else if a.k == c22KNil {
			return a
		}
	case "recover":
		return c22V{k: c22KNil}
	case "print", "println":
		return c22V{}
	case "ssa:wrapnilchk":
		return args[0]
	}
	it.abort("builtin %s outside the modelled fragment", name)
	return c22V{}
}

func (it *c22I) newErr(text string) c22V {
	it.nerr++
	return c22V{k: c22KErr, n: it.nerr, str: text}
}

// model: library functions interpreted by their specification.
func (it *c22I) model(fn *ssa.Function, args []c22V) (c22V, bool) {
	if fn.Pkg != nil && fn.Pkg.Pkg.Path() == "math/bits" {
		var as []int64
		for _, a := range args {
			if a.k != c22KInt {
				return c22V{}, false
			}
			as = append(as, a.n)
		}
		if rs, ok := bitsModel(fn.Name(), as); ok {
			if len(rs) == 1 {
				return c22Int(rs[0]), true
			}
			var t []c22V
			for _, r := range rs {
				t = append(t, c22Int(r))
			}
			return c22V{k: c22KTuple, t: t}, true
		}
		return c22V{}, false
	}
	switch name := fn.String(); name {
	case "errors.New":
		return it.newErr(args[0].str), true
	case "fmt.Errorf":
		return it.newErr(args[0].str), true
	case "fmt.Sprintf", "fmt.Sprint":
		return c22V{k: c22KStr, str: "<formatted>"}, true
	case "(encoding/binary.bigEndian).Uint16", "(encoding/binary.bigEndian).Uint32", "(encoding/binary.bigEndian).Uint64",
		"(encoding/binary.littleEndian).Uint16", "(encoding/binary.littleEndian).Uint32", "(encoding/binary.littleEndian).Uint64":
		w := c22BinWidth(name)
		m, off, n := it.seq(args[1])
		if n < w {
			it.rtPanic("index out of range")
		}
		var v uint64
		for i := int64(0); i < w; i++ {
			b := uint64(m.get(off+i).n & 0xff)
			if strings.Contains(name, "bigEndian") {
				v = v<<8 | b
			} else {
				v |= b << (8 * uint(i))
			}
		}
		return c22Int(int64(v)), true
	case "(encoding/binary.bigEndian).PutUint16", "(encoding/binary.bigEndian).PutUint32", "(encoding/binary.bigEndian).PutUint64",
		"(encoding/binary.littleEndian).PutUint16", "(encoding/binary.littleEndian).PutUint32", "(encoding/binary.littleEndian).PutUint64":
		w := c22BinWidth(name)
		m, off, n := it.seq(args[1])
		if n < w {
			it.rtPanic("index out of range")
		}
		v := uint64(args[2].n)
		for i := int64(0); i < w; i++ {
			sh := 8 * uint(i)
			if strings.Contains(name, "bigEndian") {
				sh = 8 * uint(w-1-i)
			}
			m.set(off+i, c22Int(int64(v>>sh&0xff)))
		}
		return c22V{}, true
	case "(encoding/binary.bigEndian).AppendUint16", "(encoding/binary.bigEndian).AppendUint32", "(encoding/binary.bigEndian).AppendUint64",
		"(encoding/binary.littleEndian).AppendUint16", "(encoding/binary.littleEndian).AppendUint32", "(encoding/binary.littleEndian).AppendUint64":
		w := c22BinWidth(name)
		v := uint64(args[2].n)
		tmp := it.newMem(w, c22Int(0))
		for i := int64(0); i < w; i++ {
			sh := 8 * uint(i)
			if strings.Contains(name, "bigEndian") {
				sh = 8 * uint(w-1-i)
			}
			tmp.set(i, c22Int(int64(v>>sh&0xff)))
		}
		return it.builtin(nil, "append", nil, []c22V{args[1], {k: c22KSlice, mem: tmp, ln: w, cp: w}}), true
	}
	return c22V{}, false
}

func c22BinWidth(name string) int64 {
	switch {
	case strings.HasSuffix(name, "16"):
		return 2
	case strings.HasSuffix(name, "32"):
		return 4
	}
	return 8
}

// callValue calls a function value (static function, closure or native).
func (it *c22I) callValue(f c22V, args []c22V) c22V {
	if f.k == c22KNil {
		it.rtPanic("call of nil function")
	}
	if f.k != c22KFunc {
		it.abort("call of a value that is not a function")
	}
	if f.nat != nil {
		return f.nat(it, args)
	}
	return it.call(f.fn, args, f.free)
}

func (it *c22I) call(fn *ssa.Function, args []c22V, free []c22V) c22V {
	if r, ok := it.model(fn, args); ok {
		return r
	}
	if len(fn.Blocks) == 0 {
		it.abort("function %s has no Go body", fn.String())
	}
	if fn.Pkg != nil && fn.Pkg.Pkg.Path() == "fmt" {
		it.abort("call of %s", fn.String())
	}
	it.depth++
	if it.depth > 80 {
		it.abort("call depth exceeded in %s", fn.String())
	}
	defer func() { it.depth-- }()
	if len(args) != len(fn.Params) || len(free) != len(fn.FreeVars) {
		it.abort("arity mismatch calling %s", fn.String())
	}
	fr := &c22Frame{fn: fn, env: map[ssa.Value]c22V{}}
	for i, p := range fn.Params {
		fr.env[p] = args[i]
	}
	for i, fv := range fn.FreeVars {
		fr.env[fv] = free[i]
	}
	b := fn.Blocks[0]
	var pred *ssa.BasicBlock
	for {
		// phis: parallel assignment
		if pred != nil {
			idx := -1
			for i, p := range b.Preds {
				if p == pred {
					idx = i
				}
			}
			var phis []*ssa.Phi
			var vals []c22V
			for _, in := range b.Instrs {
				ph, ok := in.(*ssa.Phi)
				if !ok {
					break
				}
				phis = append(phis, ph)
				vals = append(vals, it.val(fr, ph.Edges[idx]))
			}
			for i, ph := range phis {
				fr.env[ph] = vals[i]
			}
		}
		var next *ssa.BasicBlock
		for _, in := range b.Instrs {
			if _, isPhi := in.(*ssa.Phi); isPhi {
				continue
			}
			it.steps++
			if it.steps > it.limit {
				it.abort("step bound exceeded")
			}
			it.cur = in
			switch x := in.(type) {
			case *ssa.DebugRef:
			case *ssa.Alloc:
				cell := it.newMem(1, it.zero(x.Type().Underlying().(*types.Pointer).Elem()))
				fr.env[x] = c22V{k: c22KPtr, mem: cell}
			case *ssa.UnOp:
				a := it.val(fr, x.X)
				switch x.Op {
				case token.MUL:
					fr.env[x] = it.load(a)
				case token.NOT:
					fr.env[x] = c22Int(1 - a.n)
				case token.SUB:
					fr.env[x] = c22Int(wrapTo(-a.n, x.Type()))
				case token.XOR:
					fr.env[x] = c22Int(wrapTo(^a.n, x.Type()))
				default:
					it.abort("unary operator %s", x.Op)
				}
			case *ssa.BinOp:
				fr.env[x] = it.binop(x, it.val(fr, x.X), it.val(fr, x.Y))
			case *ssa.Store:
				it.store(it.val(fr, x.Addr), it.val(fr, x.Val))
			case *ssa.FieldAddr:
				fr.env[x] = c22V{k: c22KPtr, mem: it.aggOf(it.val(fr, x.X)), n: int64(x.Field)}
			case *ssa.Field:
				a := it.val(fr, x.X)
				if a.k != c22KAgg {
					it.abort("field of a non-struct value")
				}
				fr.env[x] = c22Copy(a.mem.get(int64(x.Field)))
			case *ssa.IndexAddr:
				a := it.val(fr, x.X)
				i := it.val(fr, x.Index).n
				switch a.k {
				case c22KSlice, c22KNil:
					if i < 0 || i >= a.ln || a.k == c22KNil {
						it.rtPanic(fmt.Sprintf("index out of range [%d] with length %d", i, a.ln))
					}
					fr.env[x] = c22V{k: c22KPtr, mem: a.mem, n: a.n + i}
				case c22KPtr:
					m := it.aggOf(a)
					if i < 0 || i >= m.n {
						it.rtPanic(fmt.Sprintf("index out of range [%d] with length %d", i, m.n))
					}
					fr.env[x] = c22V{k: c22KPtr, mem: m, n: i}
				default:
					it.abort("element address of a value outside the modelled fragment")
				}
			case *ssa.Index:
				a := it.val(fr, x.X)
				i := it.val(fr, x.Index).n
				switch a.k {
				case c22KAgg:
					if i < 0 || i >= a.mem.n {
						it.rtPanic("index out of range")
					}
					fr.env[x] = c22Copy(a.mem.get(i))
				case c22KStr:
					if i < 0 || i >= int64(len(a.str)) {
						it.rtPanic("index out of range")
					}
					fr.env[x] = c22Int(int64(a.str[i]))
				default:
					it.abort("index of a value outside the modelled fragment")
				}
			case *ssa.Lookup:
				a := it.val(fr, x.X)
				if a.k != c22KStr || x.CommaOk {
					it.abort("map lookup")
				}
				i := it.val(fr, x.Index).n
				if i < 0 || i >= int64(len(a.str)) {
					it.rtPanic("index out of range")
				}
				fr.env[x] = c22Int(int64(a.str[i]))
			case *ssa.Slice:
				fr.env[x] = it.slice(fr, x)
			case *ssa.MakeSlice:
				it.cover[x] = true
				ln, cp := it.val(fr, x.Len).n, it.val(fr, x.Cap).n
				if ln < 0 || cp < ln {
					it.rtPanic("makeslice: len out of range")
				}
				el := x.Type().Underlying().(*types.Slice).Elem()
				fr.env[x] = c22V{k: c22KSlice, mem: it.newMem(cp, it.zero(el)), ln: ln, cp: cp}
			case *ssa.MakeInterface:
				v := it.val(fr, x.X)
				fr.env[x] = c22V{k: c22KIface, typ: x.X.Type(), in: &v}
			case *ssa.ChangeInterface:
				fr.env[x] = it.val(fr, x.X)
			case *ssa.ChangeType:
				fr.env[x] = it.val(fr, x.X)
			case *ssa.Convert:
				fr.env[x] = it.convert(x, it.val(fr, x.X))
			case *ssa.TypeAssert:
				fr.env[x] = it.typeAssert(x, it.val(fr, x.X))
			case *ssa.MakeClosure:
				var free []c22V
				for _, bnd := range x.Bindings {
					free = append(free, it.val(fr, bnd))
				}
				fr.env[x] = c22V{k: c22KFunc, fn: x.Fn.(*ssa.Function), free: free}
			case *ssa.Extract:
				t := it.val(fr, x.Tuple)
				if t.k != c22KTuple || x.Index >= len(t.t) {
					it.abort("extract from a non-tuple")
				}
				fr.env[x] = t.t[x.Index]
			case *ssa.Call:
				fr.env[x] = it.doCall(fr, x)
			case *ssa.Defer:
				cc := x.Common()
				if cc.IsInvoke() {
					it.abort("deferred interface method call")
				}
				if _, isB := cc.Value.(*ssa.Builtin); isB {
					it.abort("deferred builtin")
				}
				var args []c22V
				for _, a := range cc.Args {
					args = append(args, it.val(fr, a))
				}
				fr.defers = append(fr.defers, c22Deferred{it.val(fr, cc.Value), args})
			case *ssa.RunDefers:
				for len(fr.defers) > 0 {
					d := fr.defers[len(fr.defers)-1]
					fr.defers = fr.defers[:len(fr.defers)-1]
					it.callValue(d.fn, d.args)
					it.cur = in
				}
			case *ssa.Return:
				switch len(x.Results) {
				case 0:
					return c22V{}
				case 1:
					return it.val(fr, x.Results[0])
				}
				var t []c22V
				for _, r := range x.Results {
					t = append(t, it.val(fr, r))
				}
				return c22V{k: c22KTuple, t: t}
			case *ssa.Panic:
				panic(&c22Exit{kind: "panic", msg: c22Describe(it.val(fr, x.X)), at: x})
			case *ssa.Jump:
				next = b.Succs[0]
			case *ssa.If:
				c := it.val(fr, x.Cond)
				if c.k != c22KInt {
					it.abort("branch on a non-boolean")
				}
				if c.n != 0 {
					next = b.Succs[0]
				} else {
					next = b.Succs[1]
				}
			default:
				it.abort("instruction %T is outside the modelled fragment", in)
			}
		}
		if next == nil {
			it.abort("block without terminator")
		}
		pred, b = b, next
	}
}

func c22Describe(v c22V) string {
	switch v.k {
	case c22KIface:
		return c22Describe(*v.in)
	case c22KStr:
		return fmt.Sprintf("%q", v.str)
	case c22KErr:
		return "error " + fmt.Sprintf("%q", v.str)
	case c22KInt:
		return fmt.Sprint(v.n)
	}
	return "value"
}

func (it *c22I) doCall(fr *c22Frame, x *ssa.Call) c22V {
	cc := x.Common()
	it.cover[x] = true
	var args []c22V
	for _, a := range cc.Args {
		args = append(args, it.val(fr, a))
	}
	if cc.IsInvoke() {
		recv := it.val(fr, cc.Value)
		it.abort("interface method call %s on %s", cc.Method.Name(), c22Describe(recv))
	}
	var r c22V
	switch f := cc.Value.(type) {
	case *ssa.Builtin:
		r = it.builtin(fr, f.Name(), x, args)
	case *ssa.Function:
		r = it.call(f, args, nil)
	default:
		r = it.callValue(it.val(fr, cc.Value), args)
	}
	it.cur = x
	return r
}

func (it *c22I) slice(fr *c22Frame, x *ssa.Slice) c22V {
	a := it.val(fr, x.X)
	opt := func(v ssa.Value, def int64) int64 {
		if v == nil {
			return def
		}
		return it.val(fr, v).n
	}
	switch a.k {
	case c22KStr:
		lo := opt(x.Low, 0)
		hi := opt(x.High, int64(len(a.str)))
		if lo < 0 || hi < lo || hi > int64(len(a.str)) {
			it.rtPanic("slice bounds out of range")
		}
		return c22V{k: c22KStr, str: a.str[lo:hi]}
	case c22KNil:
		lo, hi, mx := opt(x.Low, 0), opt(x.High, 0), opt(x.Max, 0)
		if lo != 0 || hi != 0 || mx != 0 {
			it.rtPanic(fmt.Sprintf("slice bounds out of range [%d:%d] with capacity 0", lo, hi))
		}
		return a
	case c22KSlice:
		lo := opt(x.Low, 0)
		hi := opt(x.High, a.ln)
		mx := opt(x.Max, a.cp)
		if lo < 0 || hi < lo || mx < hi || mx > a.cp {
			it.rtPanic(fmt.Sprintf("slice bounds out of range [%d:%d] with capacity %d", lo, hi, a.cp))
		}
		return c22V{k: c22KSlice, mem: a.mem, n: a.n + lo, ln: hi - lo, cp: mx - lo}
	case c22KPtr:
		m := it.aggOf(a)
		lo := opt(x.Low, 0)
		hi := opt(x.High, m.n)
		mx := opt(x.Max, m.n)
		if lo < 0 || hi < lo || mx < hi || mx > m.n {
			it.rtPanic(fmt.Sprintf("slice bounds out of range [%d:%d] with capacity %d", lo, hi, m.n))
		}
		return c22V{k: c22KSlice, mem: m, n: lo, ln: hi - lo, cp: mx - lo}
	}
	it.abort("slice of a value outside the modelled fragment")
	return c22V{}
}

func (it *c22I) convert(x *ssa.Convert, a c22V) c22V {
	_, _, srcInt := intBits(x.X.Type())
	_, _, dstInt := intBits(x.Type())
	if srcInt && dstInt && a.k == c22KInt {
		return c22Int(wrapTo(a.n, x.Type()))
	}
	_, dstSlice := x.Type().Underlying().(*types.Slice)
	if a.k == c22KStr && dstSlice {
		m, _, n := it.seq(a)
		return c22V{k: c22KSlice, mem: m, ln: n, cp: n}
	}
	if b, ok := x.Type().Underlying().(*types.Basic); ok && b.Info()&types.IsString != 0 && (a.k == c22KSlice || a.k == c22KNil) {
		if a.ln > 4096 {
			it.abort("string conversion of a large buffer")
		}
		bs := make([]byte, a.ln)
		for i := range bs {
			bs[i] = byte(a.mem.get(a.n + int64(i)).n)
		}
		return c22V{k: c22KStr, str: string(bs)}
	}
	it.abort("conversion %s -> %s is outside the modelled fragment", x.X.Type(), x.Type())
	return c22V{}
}

func (it *c22I) typeAssert(x *ssa.TypeAssert, a c22V) c22V {
	ok := false
	res := c22V{}
	if _, toIface := x.AssertedType.Underlying().(*types.Interface); toIface {
		if a.k != c22KNil {
			it.abort("type assertion to an interface type")
		}
	} else if a.k == c22KIface && types.Identical(a.typ, x.AssertedType) {
		ok, res = true, *a.in
	} else if a.k == c22KErr {
		it.abort("type assertion on an opaque error value")
	}
	if x.CommaOk {
		if !ok {
			res = it.zero(x.AssertedType)
		}
		return c22V{k: c22KTuple, t: []c22V{res, c22Bool(ok)}}
	}
	if !ok {
		it.rtPanic("interface conversion failed")
	}
	return res
}

// ---------------------------------------------------------------------------
// helpers for building scenarios and reading results

// c22Buf: a byte slice of the given length and capacity over a fresh buffer.
func (it *c22I) buf(ln, cp int64, content map[int64]byte) c22V {
	m := it.newMem(cp, c22Int(0))
	for i, b := range content {
		if i >= 0 && i < cp {
			m.set(i, c22Int(int64(b)))
		}
	}
	return c22V{k: c22KSlice, mem: m, ln: ln, cp: cp}
}

func (it *c22I) bufOf(bs []byte) c22V {
	m := it.newMem(int64(len(bs)), c22Int(0))
	for i, b := range bs {
		m.set(int64(i), c22Int(int64(b)))
	}
	return c22V{k: c22KSlice, mem: m, ln: int64(len(bs)), cp: int64(len(bs))}
}

// cell: a pointer to a fresh variable holding v.
func (it *c22I) cell(v c22V) c22V {
	m := it.newMem(1, c22Int(0))
	m.set(0, c22Copy(v))
	return c22V{k: c22KPtr, mem: m}
}

// byteAt: element i of a slice value.
func c22ByteAt(s c22V, i int64) int64 {
	if s.k != c22KSlice || i < 0 || i >= s.ln {
		return -1
	}
	return s.mem.get(s.n+i).n & 0xff
}

func c22Bytes(s c22V, from, n int64) []byte {
	out := make([]byte, 0, n)
	for i := int64(0); i < n; i++ {
		out = append(out, byte(c22ByteAt(s, from+i)))
	}
	return out
}

// fieldPtr: the address of the named field of the struct p points to.
func (it *c22I) fieldPtr(p c22V, st *types.Struct, name string) (c22V, bool) {
	if p.k != c22KPtr {
		return c22V{}, false
	}
	a := p.mem.get(p.n)
	if a.k != c22KAgg {
		return c22V{}, false
	}
	for i := 0; i < st.NumFields(); i++ {
		if st.Field(i).Name() == name {
			return c22V{k: c22KPtr, mem: a.mem, n: int64(i)}, true
		}
	}
	return c22V{}, false
}
