package main

import (
	"fmt"
	"go/token"

	"golang.org/x/tools/go/ssa"
)

// mustCross records an obligation: every path from fn's entry to any target
// crosses one of the pass edges (typically the success edges of a check).
func (c *Ctx) mustCross(rule, construct string, fn *ssa.Function, targets []ssa.Instruction, pass []edge, what string) bool {
	if fn == nil {
		return false
	}
	if len(pass) == 0 {
		c.fail(rule, construct, fn, "gate not found: "+what+" (no branch on it exists in "+fnName(fn)+")")
		return false
	}
	if len(targets) == 0 {
		c.fail(rule, construct, fn, "no target instruction found for "+what+" (rule anchor lost)")
		return false
	}
	cut := edgeSet{}
	cut.addAll(pass)
	r := reach([]*ssa.BasicBlock{fn.Blocks[0]}, cut)
	for _, t := range targets {
		if r[t.Block()] {
			c.fail(rule, construct, t, "reachable without passing "+what)
			return false
		}
	}
	c.ok(rule, construct, targets[0], fmt.Sprintf("every path to the %d target(s) passes %s (%d pass edge(s))", len(targets), what, len(pass)))
	return true
}

// mustCrossFrom: like mustCross but paths start just after instruction 'from'.
func (c *Ctx) mustCrossFrom(rule, construct string, from ssa.Instruction, targets []ssa.Instruction, pass []edge, what string) bool {
	if len(pass) == 0 {
		c.fail(rule, construct, from, "gate not found: "+what)
		return false
	}
	if len(targets) == 0 {
		c.fail(rule, construct, from, "no target instruction found for "+what+" (rule anchor lost)")
		return false
	}
	cut := edgeSet{}
	cut.addAll(pass)
	for _, t := range targets {
		if pathBetween(from, t, cut) {
			c.fail(rule, construct, t, "reachable from "+c.posStr(from.Pos())+" without passing "+what)
			return false
		}
	}
	c.ok(rule, construct, targets[0], fmt.Sprintf("every path from %s to the %d target(s) passes %s", c.posStr(from.Pos()), len(targets), what))
	return true
}

// acceptReturns: returns whose result #idx (an error) is not provably non-nil.
func acceptReturns(fn *ssa.Function, idx int) []ssa.Instruction {
	var out []ssa.Instruction
	for _, r := range returnsOf(fn) {
		if idx < len(r.Results) && errNilness(retVal(r, idx), r.Block(), 0) != neverNil {
			out = append(out, r)
		}
	}
	return out
}

// valueReturns: returns whose result #idx is not the constant nil/false/zero.
func valueReturns(fn *ssa.Function, idx int) []ssa.Instruction {
	var out []ssa.Instruction
	for _, r := range returnsOf(fn) {
		if idx >= len(r.Results) {
			continue
		}
		v := retVal(r, idx)
		if isNilConst(v) {
			continue
		}
		if b, ok := constBool(v); ok && !b {
			continue
		}
		out = append(out, r)
	}
	return out
}

func instrsOf[T ssa.Instruction](xs []T) []ssa.Instruction {
	out := make([]ssa.Instruction, len(xs))
	for i, x := range xs {
		out[i] = x
	}
	return out
}

func callInstrs(cs []ssa.CallInstruction) []ssa.Instruction {
	out := make([]ssa.Instruction, len(cs))
	for i, x := range cs {
		out[i] = x
	}
	return out
}

// callSuccess returns the success edges of every call in cs (error result nil
// for kind isNil on the last result; bool true for isTrue on result idx).
func callSuccess(cs []ssa.CallInstruction, resIdx int, k predKind) []edge {
	var out []edge
	for _, ci := range cs {
		call, ok := ci.(*ssa.Call)
		if !ok {
			continue
		}
		idx := resIdx
		if idx < 0 {
			idx = call.Call.Signature().Results().Len() - 1
		}
		y, _ := successEdges(call, idx, k)
		out = append(out, y...)
	}
	return out
}

// callFailure returns the failure edges (complement of callSuccess).
func callFailure(cs []ssa.CallInstruction, resIdx int, k predKind) []edge {
	var out []edge
	for _, ci := range cs {
		call, ok := ci.(*ssa.Call)
		if !ok {
			continue
		}
		idx := resIdx
		if idx < 0 {
			idx = call.Call.Signature().Results().Len() - 1
		}
		_, n := successEdges(call, idx, k)
		out = append(out, n...)
	}
	return out
}

// loadsOfPath returns the values in fn (loads / field reads) with access path p.
func loadsOfPath(fn *ssa.Function, p string) []ssa.Value {
	var out []ssa.Value
	allInstrs(fn, func(in ssa.Instruction) {
		switch x := in.(type) {
		case *ssa.UnOp:
			if x.Op == token.MUL && accessPath(x) == p {
				out = append(out, x)
			}
		case *ssa.Field:
			if accessPath(x) == p {
				out = append(out, x)
			}
		}
	})
	return out
}

// edgesOnPath: edges where P holds for any load of access path p.
func edgesOnPath(fn *ssa.Function, p string, k predKind) (yes, no []edge) {
	for _, v := range loadsOfPath(fn, p) {
		y, n := edgesWhere(v, k)
		yes = append(yes, y...)
		no = append(no, n...)
	}
	return
}

// positiveGuarded reports whether integer value v is a positive constant or
// every path to 'at' crosses an edge implying v > 0 (v or a conversion of it).
func positiveGuarded(v ssa.Value, at ssa.Instruction) (bool, string) {
	e := newEnv()
	if n, ok := e.eval(v); ok {
		if n > 0 {
			return true, fmt.Sprintf("constant %d", n)
		}
		return false, fmt.Sprintf("constant %d is not positive", n)
	}
	var pos []edge
	seen := map[ssa.Value]bool{}
	var fam func(x ssa.Value)
	fam = func(x ssa.Value) {
		if seen[x] {
			return
		}
		seen[x] = true
		pos = append(pos, edgesImplying(x, []int64{-2, -1, 0, 1, 2}, func(d int64) bool { return d > 0 })...)
		switch y := x.(type) {
		case *ssa.Convert:
			fam(y.X)
		case *ssa.ChangeType:
			fam(y.X)
		}
		if refs := x.Referrers(); refs != nil {
			for _, r := range *refs {
				switch y := r.(type) {
				case *ssa.Convert:
					fam(y)
				case *ssa.ChangeType:
					fam(y)
				}
			}
		}
	}
	fam(v)
	if len(pos) == 0 {
		return false, "no comparison establishing > 0 found"
	}
	cut := edgeSet{}
	cut.addAll(pos)
	if pathFromEntry(at, cut) {
		return false, "reachable without passing a > 0 test"
	}
	return true, fmt.Sprintf("dominated by a > 0 test (%d edges)", len(pos))
}
