package main

import (
	"fmt"
	"go/token"
	"go/types"
	"sort"
	"strings"

	"golang.org/x/tools/go/ssa"
)

// C02 interpreter: every authenticated Open of the module is interpreted from
// its EXPORTED entry point with the path walker (helpers of the same package
// are interpreted in place, wherever the maintainers put the code), for every
// input length of a boundary domain, every destination geometry (empty /
// non-empty prefix; capacity too small, exactly fitting, with spare room) and
// BOTH outcomes of every content-dependent call (tag verification, overlap
// tests, CPU feature flag). Slices are (base, offset, length, capacity)
// regions; every byte of every region is "untouched", "dirty" (written by a
// decrypting routine or by a data-dependent store), "zeroed" (overwritten
// with the constant 0 afterwards, by a store, clear() or a copy from zero
// memory) or "other" (copied caller data, a computed tag: not plaintext, not
// known to be zero). What the rules read off a path:
//
//   the authentication events (which routine, over which bytes, against which
//   tag bytes, with which verdict), the result values, the byte states of the
//   caller's memory at the exit, out-of-range slicing.
//
// No name of a local, parameter, receiver or unexported helper is used: roles
// are parameter positions of the exported API (cipher.AEAD / NaCl signatures)
// and callee names of OTHER packages' exported API (poly1305, ed25519, salsa,
// chacha20, alias).

type c02Reg struct {
	base string // "" unknown, "nil", "p<i>" root parameter i, other prefixes: local / fresh / field / global / MAC / error
	off  int64
	cap  int64 // capacity counted from off; -1 unknown
}

type c02Span struct {
	base   string
	off, n int64
}

func (s c02Span) String() string { return fmt.Sprintf("%s[%d:%d]", s.base, s.off, s.off+s.n) }

type c02Copy struct {
	dstOff, n int64
	src       c02Span
}

type c02TagRec struct {
	off  int64
	data []c02Span
}

type c02Auth struct {
	name    string
	at      ssa.Instruction
	verdict bool
	hasTag  bool
	tag     c02Span
	data    []c02Span
}

type c02Case struct {
	n, d, a int64
	capMode int // 0: cap(dst) == len(dst); 1: exactly room for the plaintext; 2: spare room
}

var c02CapNames = []string{"cap(dst)=len(dst)", "cap(dst)=len(dst)+len(plaintext)", "cap(dst)=len(dst)+len(plaintext)+7"}

// one root = one exported Open
type c02Root struct {
	pkg, name     string
	f             *ssa.Function
	out, in       int // parameter positions (receiver included)
	ad, nonce     int // -1 when absent
	nonceLen      int64
	over          int64
	aead          bool // returns ([]byte, error); wipes the output region on failure
	wantTag       func(cs c02Case) (c02Span, bool)
	wantData      func(cs c02Case) []c02Span
	sourceOK, src string
}

type c02Path struct {
	cs       c02Case
	end, why string
	last     ssa.Instruction
	auths    []c02Auth
	choices  []string
	free1    bool // some free (non-authenticator) choice was taken as true
	res0Nil  bool
	res0Len  int64
	res0Kn   bool
	success  int // 1 success indication, 0 failure, -1 unknown
	oob      bool
	oobAt    ssa.Instruction
	dirty    map[string][]int64 // caller-visible bases only
	zeroed   map[string]map[int64]bool
	stray    int // constant stores into untouched bytes of the output parameter's memory
	early    []ssa.Instruction
	accepted bool
	rejected bool
}

func (p *c02Path) verdict() string {
	switch {
	case p.rejected:
		return "reject"
	case p.accepted:
		return "accept"
	}
	return "none"
}

func (p *c02Path) desc() string {
	s := fmt.Sprintf("input of %d bytes, len(dst)=%d, %s", p.cs.n, p.cs.d, c02CapNames[p.cs.capMode])
	if len(p.choices) > 0 {
		s += " [" + strings.Join(p.choices, ", ") + "]"
	}
	return s
}

type c02Run struct {
	c      *Ctx
	r      *c02Root
	cs     c02Case
	vec    []int
	used   int
	reg    map[ssa.Value]c02Reg
	state  map[string]map[int64]byte // 0 untouched, 1 dirty, 2 zeroed, 3 other content that is not plaintext
	cont   map[string][]c02Copy
	macW   map[string][]c02Span
	tags   map[string][]c02TagRec // computed Poly1305 tags: where they lie and what they cover
	globs  map[string]int64
	p      *c02Path
	nfresh int
}

func c02IsRootBase(b string) bool {
	if len(b) < 2 || b[0] != 'p' {
		return false
	}
	for _, ch := range b[1:] {
		if ch < '0' || ch > '9' {
			return false
		}
	}
	return true
}

func c02ArrayLen(t types.Type) (int64, bool) {
	if p, ok := t.Underlying().(*types.Pointer); ok {
		if a, ok := p.Elem().Underlying().(*types.Array); ok {
			return a.Len(), true
		}
	}
	return 0, false
}

func c02IsErrorType(t types.Type) bool {
	return types.Identical(t, types.Universe.Lookup("error").Type())
}

// regOf: the region (or abstract identity) a value denotes on the current path.
func (x *c02Run) regOf(w *pathWalker, v ssa.Value) c02Reg {
	return x.regD(w, v, 0)
}

func (x *c02Run) regD(w *pathWalker, v ssa.Value, depth int) c02Reg {
	if r, ok := x.reg[v]; ok {
		return r
	}
	if depth > 8 {
		return c02Reg{cap: -1}
	}
	switch y := v.(type) {
	case *ssa.Const:
		if y.Value == nil {
			return c02Reg{base: "nil", cap: 0}
		}
	case *ssa.Alloc:
		r := c02Reg{base: "L:" + y.Name() + "@" + y.Parent().String(), cap: -1}
		if n, ok := c02ArrayLen(y.Type()); ok {
			r.cap = n
		}
		return r
	case *ssa.Global:
		r := c02Reg{base: "G:" + y.String(), cap: -1}
		if n, ok := c02ArrayLen(y.Type()); ok {
			r.cap = n
		}
		return r
	case *ssa.FieldAddr:
		b := x.regD(w, y.X, depth+1)
		st := derefStruct(y.X.Type())
		if b.base == "" || st == nil {
			return c02Reg{cap: -1}
		}
		r := c02Reg{base: b.base + "." + st.Field(y.Field).Name(), cap: -1}
		if n, ok := c02ArrayLen(y.Type()); ok {
			r.cap = n
		}
		return r
	case *ssa.MakeSlice:
		r := c02Reg{base: "M:" + y.Name() + "@" + y.Parent().String(), cap: -1}
		if n, ok := w.env.eval(y.Cap); ok {
			r.cap = n
		}
		return r
	case *ssa.SliceToArrayPointer:
		return x.regD(w, y.X, depth+1)
	case *ssa.ChangeType:
		return x.regD(w, y.X, depth+1)
	case *ssa.MakeInterface:
		if c02IsErrorType(y.Type()) {
			return c02Reg{base: "E:new", cap: -1}
		}
	case *ssa.UnOp:
		if y.Op == token.MUL {
			if g, ok := y.X.(*ssa.Global); ok && c02IsErrorType(y.Type()) {
				// a package-level error variable (errors.New at init) is a failure value
				return c02Reg{base: "E:" + g.Name(), cap: -1}
			}
		}
	}
	return c02Reg{cap: -1}
}

// lenOf: the number of elements a slice / array-pointer value spans.
func (x *c02Run) lenOf(w *pathWalker, v ssa.Value) (int64, bool) {
	if n, ok := c02ArrayLen(v.Type()); ok {
		return n, true
	}
	if _, isS := v.Type().Underlying().(*types.Slice); isS {
		return w.env.eval(v)
	}
	return 0, false
}

func (x *c02Run) spanOf(w *pathWalker, v ssa.Value) (c02Span, bool) {
	r := x.regOf(w, v)
	n, ok := x.lenOf(w, v)
	if r.base == "" || r.base == "nil" || !ok {
		return c02Span{}, false
	}
	return c02Span{r.base, r.off, n}, true
}

// resolve follows recorded copies: bytes of a local array that were copied
// from another region denote that region.
func (x *c02Run) resolve(s c02Span) c02Span {
	for i := 0; i < 4; i++ {
		found := false
		recs := x.cont[s.base]
		for k := len(recs) - 1; k >= 0; k-- {
			rc := recs[k]
			if s.off >= rc.dstOff && s.off+s.n <= rc.dstOff+rc.n {
				s = c02Span{rc.src.base, rc.src.off + (s.off - rc.dstOff), s.n}
				found = true
				break
			}
		}
		if !found {
			break
		}
	}
	return s
}

// resolveAll: as resolve, piecewise — a buffer assembled from several copies
// (and bytes of its own) denotes the sequence of its sources.
func (x *c02Run) resolveAll(s c02Span, depth int) []c02Span {
	recs := x.cont[s.base]
	if depth > 3 || s.n <= 0 || len(recs) == 0 || s.base == "?" {
		return []c02Span{s}
	}
	var out []c02Span
	pos, end := s.off, s.off+s.n
	for pos < end {
		found := -1
		for k := len(recs) - 1; k >= 0; k-- {
			if pos >= recs[k].dstOff && pos < recs[k].dstOff+recs[k].n {
				found = k
				break
			}
		}
		if found >= 0 {
			rc := recs[found]
			hi := min(end, rc.dstOff+rc.n)
			out = append(out, x.resolveAll(c02Span{rc.src.base, rc.src.off + pos - rc.dstOff, hi - pos}, depth+1)...)
			pos = hi
			continue
		}
		next := end
		for _, rc := range recs {
			if rc.dstOff > pos && rc.dstOff < next {
				next = rc.dstOff
			}
		}
		out = append(out, c02Span{s.base, pos, next - pos})
		pos = next
	}
	return out
}

// dataOf: the caller-visible sources of the bytes a routine is given.
func (x *c02Run) dataOf(w *pathWalker, v ssa.Value) []c02Span {
	if s, ok := x.spanOf(w, v); ok {
		return x.resolveAll(s, 0)
	}
	if x.regOf(w, v).base == "nil" {
		return nil
	}
	if n, okn := x.lenOf(w, v); okn && n == 0 {
		return nil
	}
	return []c02Span{{"?", 0, -1}}
}

func (x *c02Run) setState(base string, lo, n int64, st byte) {
	if base == "" || base == "nil" || n <= 0 {
		return
	}
	m := x.state[base]
	if m == nil {
		m = map[int64]byte{}
		x.state[base] = m
	}
	for i := lo; i < lo+n; i++ {
		m[i] = st
	}
	// later writes invalidate copy records of the touched bytes
	if recs := x.cont[base]; len(recs) > 0 {
		var keep []c02Copy
		for _, rc := range recs {
			if rc.dstOff+rc.n <= lo || rc.dstOff >= lo+n {
				keep = append(keep, rc)
			}
		}
		x.cont[base] = keep
	}
}

func (x *c02Run) choose(desc string, free bool) int64 {
	k := x.used
	x.used++
	v := 0
	if k < len(x.vec) {
		v = x.vec[k]
	}
	x.p.choices = append(x.p.choices, fmt.Sprintf("%s=%v", desc, v == 1))
	if free && v == 1 {
		x.p.free1 = true
	}
	return int64(v)
}

func (x *c02Run) authenticated() bool { return x.p.accepted && !x.p.rejected }

func (x *c02Run) addAuth(a c02Auth) {
	if a.verdict {
		x.p.accepted = true
	} else {
		x.p.rejected = true
	}
	x.p.auths = append(x.p.auths, a)
}

var c02Readers = []string{"internal/alias."}

func c02IsWriter(name string) (dst, src int, ok bool) {
	switch {
	case strings.HasPrefix(name, "invoke:") && strings.HasSuffix(name, ".XORKeyStream"):
		return 0, 1, true // cipher.Stream: XORKeyStream(dst, src)
	case strings.HasPrefix(name, "(") && strings.HasSuffix(name, ").XORKeyStream"):
		return 1, 2, true // method: receiver, dst, src
	case name == "salsa20/salsa.XORKeyStream":
		return 0, 1, true
	case name == "crypto/subtle.XORBytes":
		return 0, 1, true
	}
	return 0, 0, false
}

func (x *c02Run) markWrite(w *pathWalker, at ssa.Instruction, dst ssa.Value, n int64, known bool) {
	r := x.regOf(w, dst)
	if r.base == "nil" {
		return
	}
	if !known {
		if m, ok := x.lenOf(w, dst); ok {
			n, known = m, true
		}
	}
	if r.base == "" || !known {
		// never a silent pass: plaintext written to a place this model cannot locate
		if !known || n > 0 {
			x.p.why = "the region a decrypting routine writes cannot be located"
		}
		return
	}
	x.setState(r.base, r.off, n, 1)
	if c02IsRootBase(r.base) && !x.authenticated() && n > 0 {
		x.p.early = append(x.p.early, at)
	}
}

func (x *c02Run) bindTupleRegs(call ssa.Value, regs []c02Reg) {
	if refs := call.Referrers(); refs != nil {
		for _, rr := range *refs {
			if ex, ok := rr.(*ssa.Extract); ok && ex.Index < len(regs) {
				if regs[ex.Index].base != "" {
					x.reg[ex] = regs[ex.Index]
				} else {
					delete(x.reg, ex)
				}
			}
		}
	}
}

func (x *c02Run) onCall(w *pathWalker, ci ssa.CallInstruction) string {
	cc := ci.Common()
	name := short(calleeName(cc))
	val, _ := ci.(ssa.Value)
	args := cc.Args
	switch {
	case name == "builtin:cap" && len(args) == 1 && val != nil:
		if n, ok := c02ArrayLen(args[0].Type()); ok {
			w.env.bind(val, n)
		} else if r := x.regOf(w, args[0]); r.base == "nil" {
			w.env.bind(val, 0)
		} else if r.base != "" && r.cap >= 0 {
			w.env.bind(val, r.cap)
		} else {
			delete(w.env.vals, val)
		}
		return ""
	case name == "builtin:copy" && len(args) == 2:
		d := x.regOf(w, args[0])
		s := x.regOf(w, args[1])
		ld, okd := x.lenOf(w, args[0])
		ls, oks := x.lenOf(w, args[1])
		if _, isStr := args[1].Type().Underlying().(*types.Basic); isStr {
			oks = false
		}
		if d.base == "" || d.base == "nil" || !okd {
			return ""
		}
		if s.base == "nil" {
			return ""
		}
		if s.base == "" || !oks {
			x.setState(d.base, d.off, ld, 1)
			return ""
		}
		n := min(ld, ls)
		src := x.state[s.base]
		tmp := make([]byte, n)
		// an untouched byte of a fresh allocation or of a local array is zero;
		// an untouched byte of anything else is content this model does not know
		fresh := strings.HasPrefix(s.base, "M:") || strings.HasPrefix(s.base, "L:")
		for i := int64(0); i < n; i++ {
			tmp[i] = src[s.off+i]
			if tmp[i] == 0 {
				if fresh {
					tmp[i] = 2
				} else {
					tmp[i] = 3
				}
			}
		}
		x.setState(d.base, d.off, n, 0)
		for i := int64(0); i < n; i++ {
			if tmp[i] != 0 {
				x.state[d.base][d.off+i] = tmp[i]
			} else {
				delete(x.state[d.base], d.off+i)
			}
		}
		if n > 0 {
			x.cont[d.base] = append(x.cont[d.base], c02Copy{d.off, n, c02Span{s.base, s.off, n}})
		}
		return ""
	case name == "builtin:clear" && len(args) == 1:
		if r := x.regOf(w, args[0]); r.base != "" && r.base != "nil" {
			if n, ok := x.lenOf(w, args[0]); ok {
				x.zero(r.base, r.off, n)
			}
		}
		return ""
	case name == "builtin:append" && len(args) == 2 && val != nil:
		a := x.regOf(w, args[0])
		la, oka := x.lenOf(w, args[0])
		if a.base == "nil" {
			la, oka = 0, true
		}
		lb, okb := x.lenOf(w, args[1])
		if !oka || !okb {
			delete(w.env.vals, val)
			delete(x.reg, val)
			return ""
		}
		w.env.bind(val, la+lb)
		res := a
		if a.base == "" || a.base == "nil" || a.cap < la+lb {
			x.nfresh++
			res = c02Reg{base: fmt.Sprintf("M:append%d@%s", x.nfresh, val.Name()), cap: la + lb}
			if a.base != "" && a.base != "nil" {
				for i := int64(0); i < la; i++ {
					if st := x.state[a.base][a.off+i]; st != 0 {
						x.setState(res.base, i, 1, st)
					}
				}
			}
		}
		x.reg[val] = res
		if b := x.regOf(w, args[1]); b.base != "" && b.base != "nil" {
			for i := int64(0); i < lb; i++ {
				x.setState(res.base, res.off+la+i, 1, x.state[b.base][b.off+i])
			}
		} else if lb > 0 {
			x.setState(res.base, res.off+la, lb, 1)
		}
		return ""
	}
	// ---- authenticators
	switch name {
	case "internal/poly1305.Verify": // (mac *[16]byte, m []byte, key *[32]byte) bool
		if len(args) == 3 && val != nil {
			a := c02Auth{name: "poly1305.Verify", at: ci}
			if t, ok := x.spanOf(w, args[0]); ok {
				a.tag, a.hasTag = x.resolve(t), true
			}
			a.data = append(a.data, x.dataOf(w, args[1])...)
			a.verdict = x.choose("poly1305.Verify", false) == 1
			w.env.bind(val, b2i(a.verdict))
			x.addAuth(a)
			return ""
		}
	case "(*internal/poly1305.MAC).Verify": // (recv, expected []byte) bool
		if len(args) == 2 && val != nil {
			a := c02Auth{name: "MAC.Verify", at: ci}
			if t, ok := x.spanOf(w, args[1]); ok {
				a.tag, a.hasTag = x.resolve(t), true
			}
			if h := x.regOf(w, args[0]); h.base != "" {
				a.data = append(a.data, x.macW[h.base]...)
			} else {
				a.data = append(a.data, c02Span{"?", 0, -1})
			}
			a.verdict = x.choose("MAC.Verify", false) == 1
			w.env.bind(val, b2i(a.verdict))
			x.addAuth(a)
			return ""
		}
	case "crypto/ed25519.Verify": // (pub, message, sig) bool
		if len(args) == 3 && val != nil {
			a := c02Auth{name: "ed25519.Verify", at: ci}
			if t, ok := x.spanOf(w, args[2]); ok {
				a.tag, a.hasTag = x.resolve(t), true
			}
			a.data = append(a.data, x.dataOf(w, args[1])...)
			a.verdict = x.choose("ed25519.Verify", false) == 1
			w.env.bind(val, b2i(a.verdict))
			x.addAuth(a)
			return ""
		}
	case "chacha20poly1305.chacha20Poly1305Open": // assembly: (dst []byte, key []uint32, src, ad []byte) bool
		if len(args) == 4 && val != nil {
			// decrypts len(src) bytes into dst WHILE authenticating; the tag is
			// read from the 16 bytes that follow src in memory
			a := c02Auth{name: "chacha20Poly1305Open (assembly)", at: ci}
			a.data = append(a.data, x.dataOf(w, args[3])...)
			a.data = append(a.data, x.dataOf(w, args[2])...)
			ls, oks := x.lenOf(w, args[2])
			if s, ok := x.spanOf(w, args[2]); ok {
				a.tag, a.hasTag = c02Span{s.base, s.off + s.n, 16}, true
			}
			if ld, okd := x.lenOf(w, args[0]); oks && okd && ld < ls {
				w.markOOB(ci)
			}
			if r := x.regOf(w, args[0]); r.base != "" && r.base != "nil" && oks {
				x.setState(r.base, r.off, ls, 1)
			} else if oks && ls > 0 {
				x.p.why = "the output region handed to the assembly routine cannot be located"
			}
			a.verdict = x.choose("chacha20Poly1305Open", false) == 1
			w.env.bind(val, b2i(a.verdict))
			x.addAuth(a)
			return ""
		}
	case "nacl/secretbox.Open": // (out, box []byte, nonce, key) ([]byte, bool) — by its own contract, checked with secretbox.Open as root
		if len(args) == 4 && val != nil {
			lb, okb := x.lenOf(w, args[1])
			lo, oko := x.lenOf(w, args[0])
			if x.regOf(w, args[0]).base == "nil" {
				lo, oko = 0, true
			}
			if okb && lb < 16 {
				w.tuple = c02Tuple(w.tuple, val, []optInt{{0, true}, {0, true}})
				x.bindTupleRegs(val, []c02Reg{{base: "nil"}, {}})
				return ""
			}
			a := c02Auth{name: "secretbox.Open", at: ci}
			a.data = append(a.data, x.dataOf(w, args[1])...)
			a.verdict = x.choose("secretbox.Open", false) == 1
			x.addAuth(a)
			if a.verdict {
				x.nfresh++
				w.tuple = c02Tuple(w.tuple, val, []optInt{{lo + lb - 16, okb && oko}, {1, true}})
				x.bindTupleRegs(val, []c02Reg{{base: fmt.Sprintf("M:opened%d", x.nfresh), cap: -1}, {}})
			} else {
				w.tuple = c02Tuple(w.tuple, val, []optInt{{0, true}, {0, true}})
				x.bindTupleRegs(val, []c02Reg{{base: "nil"}, {}})
			}
			return ""
		}
	case "(*internal/poly1305.MAC).Sum": // (recv, b []byte) []byte: the computed tag appended to b
		if len(args) == 2 && val != nil {
			h := x.regOf(w, args[0])
			b := x.regOf(w, args[1])
			lb, okb := x.lenOf(w, args[1])
			if b.base == "nil" {
				lb, okb = 0, true
			}
			if h.base != "" && okb {
				res := b
				if b.base == "" || b.base == "nil" || b.cap < lb+16 {
					x.nfresh++
					res = c02Reg{base: fmt.Sprintf("T:sum%d", x.nfresh), cap: lb + 16}
				}
				x.setState(res.base, res.off+lb, 16, 3)
				x.tags[res.base] = append(x.tags[res.base], c02TagRec{res.off + lb, append([]c02Span(nil), x.macW[h.base]...)})
				x.reg[val] = res
				w.env.bind(val, lb+16)
				return ""
			}
		}
	case "internal/poly1305.Sum": // (out *[16]byte, m []byte, key *[32]byte)
		if len(args) == 3 {
			if o := x.regOf(w, args[0]); o.base != "" && o.base != "nil" {
				rec := c02TagRec{off: o.off, data: x.dataOf(w, args[1])}
				x.setState(o.base, o.off, 16, 3)
				x.tags[o.base] = append(x.tags[o.base], rec)
				return ""
			}
		}
	case "crypto/subtle.ConstantTimeCompare", "bytes.Equal", "crypto/hmac.Equal":
		// comparing a tag COMPUTED by poly1305 (Sum) with another value is a tag verification
		if len(args) == 2 && val != nil {
			for i := 0; i < 2; i++ {
				s, ok := x.spanOf(w, args[i])
				if !ok || s.n != 16 {
					continue
				}
				recs := x.tags[s.base]
				for k := len(recs) - 1; k >= 0; k-- {
					if recs[k].off != s.off {
						continue
					}
					a := c02Auth{name: c02ShortCallee(name) + " on the computed Poly1305 tag", at: ci, data: recs[k].data}
					if t, ok := x.spanOf(w, args[1-i]); ok {
						a.tag, a.hasTag = x.resolve(t), true
					}
					a.verdict = x.choose(c02ShortCallee(name), false) == 1
					w.env.bind(val, b2i(a.verdict))
					x.addAuth(a)
					return ""
				}
			}
		}
	case "internal/poly1305.New":
		if val != nil {
			x.nfresh++
			x.reg[val] = c02Reg{base: fmt.Sprintf("H:mac%d", x.nfresh), cap: -1}
			return ""
		}
	case "(*internal/poly1305.MAC).Write":
		if len(args) == 2 {
			if h := x.regOf(w, args[0]); h.base != "" {
				x.macW[h.base] = append(x.macW[h.base], x.dataOf(w, args[1])...)
			}
			return ""
		}
	}
	// ---- standard-library forms of "grow" and "copy"
	switch {
	case strings.HasPrefix(name, "slices.Grow") && len(args) == 2 && val != nil: // same elements, capacity for n more
		s := x.regOf(w, args[0])
		ls, oks := x.lenOf(w, args[0])
		if s.base == "nil" {
			ls, oks = 0, true
		}
		if n, okn := w.env.eval(args[1]); oks && okn && s.base != "" {
			res := s
			if s.base == "nil" || s.cap < ls+n {
				x.nfresh++
				res = c02Reg{base: fmt.Sprintf("M:grow%d", x.nfresh), cap: ls + n}
				for i := int64(0); i < ls; i++ {
					st := x.state[s.base][s.off+i]
					if st == 0 {
						st = 3
					}
					x.setState(res.base, i, 1, st)
				}
			}
			x.reg[val] = res
			w.env.bind(val, ls)
			return ""
		}
	case (strings.HasPrefix(name, "slices.Clone") || name == "bytes.Clone") && len(args) == 1 && val != nil:
		s := x.regOf(w, args[0])
		if ls, oks := x.lenOf(w, args[0]); oks && s.base != "" && s.base != "nil" {
			x.nfresh++
			res := c02Reg{base: fmt.Sprintf("M:clone%d", x.nfresh), cap: ls}
			for i := int64(0); i < ls; i++ {
				st := x.state[s.base][s.off+i]
				if st == 0 {
					st = 3
				}
				x.setState(res.base, i, 1, st)
			}
			if ls > 0 {
				x.cont[res.base] = append(x.cont[res.base], c02Copy{0, ls, c02Span{s.base, s.off, ls}})
			}
			x.reg[val] = res
			w.env.bind(val, ls)
			return ""
		}
	}
	// ---- decrypting routines
	if name == "crypto/subtle.XORBytes" && len(args) == 3 {
		// dst[i] = x[i] ^ y[i] for i < n = min(len(x), len(y)); returns n
		lx, okx := x.lenOf(w, args[1])
		ly, oky := x.lenOf(w, args[2])
		n := min(lx, ly)
		if okx && oky && val != nil {
			w.env.bind(val, n)
			if ld, okd := x.lenOf(w, args[0]); okd && ld < n {
				w.markOOB(ci) // panics: dst too short
			}
		} else if val != nil {
			delete(w.env.vals, val)
		}
		x.markWrite(w, ci, args[0], n, okx && oky)
		return ""
	}
	if di, si, ok := c02IsWriter(name); ok && len(args) > max(di, si) {
		n, known := x.lenOf(w, args[si])
		x.markWrite(w, ci, args[di], n, known)
		return ""
	}
	// ---- anything else
	if val != nil {
		if b, ok := val.Type().Underlying().(*types.Basic); ok && b.Kind() == types.Bool {
			w.env.bind(val, x.choose(c02ShortCallee(name), true))
		}
		if c02IsErrorType(val.Type()) && (name == "errors.New" || name == "fmt.Errorf") {
			x.reg[val] = c02Reg{base: "E:new", cap: -1}
		}
	}
	reader := false
	for _, p := range c02Readers {
		if strings.HasPrefix(name, p) {
			reader = true
		}
	}
	if !reader && !strings.HasPrefix(name, "builtin:") {
		// a routine this model does not know is given memory of the caller's output buffer: it may write it
		outBase := fmt.Sprintf("p%d", x.r.out)
		for _, a := range args {
			r := x.regOf(w, a)
			n, ok := x.lenOf(w, a)
			switch {
			case r.base == outBase && ok:
				x.markWrite(w, ci, a, n, true)
			case (strings.HasPrefix(r.base, "L:") || strings.HasPrefix(r.base, "M:")) && ok:
				// local memory handed to an unknown routine: content no longer known to be zero
				for i := r.off; i < r.off+n; i++ {
					if x.state[r.base][i] == 0 || x.state[r.base][i] == 2 {
						x.setState(r.base, i, 1, 3)
					}
				}
			}
		}
	}
	return ""
}

func c02ShortCallee(name string) string {
	if i := strings.LastIndex(name, "/"); i >= 0 {
		return name[i+1:]
	}
	return name
}

func c02Tuple(t map[ssa.Value][]optInt, v ssa.Value, rs []optInt) map[ssa.Value][]optInt {
	if t == nil {
		t = map[ssa.Value][]optInt{}
	}
	t[v] = rs
	return t
}

func (x *c02Run) zero(base string, lo, n int64) {
	if c02IsRootBase(base) && base == fmt.Sprintf("p%d", x.r.out) {
		for i := lo; i < lo+n; i++ {
			if x.state[base][i] == 0 {
				x.p.stray++
			}
		}
	}
	x.setState(base, lo, n, 2)
}

func (x *c02Run) onStore(w *pathWalker, st *ssa.Store) string {
	ia, ok := st.Addr.(*ssa.IndexAddr)
	if !ok {
		return ""
	}
	r := x.regOf(w, ia.X)
	cv, isC := constInt(st.Val)
	if r.base == "" {
		if _, isS := ia.X.Type().Underlying().(*types.Slice); isS && !isC {
			x.p.why = "a data-dependent store into a slice whose memory cannot be located"
		}
		return ""
	}
	if r.base == "nil" {
		return ""
	}
	k, okk := w.env.eval(ia.Index)
	if !okk {
		if !isC && c02IsRootBase(r.base) {
			x.p.why = "a data-dependent store into the caller's memory at an index outside the finite domain"
		}
		return ""
	}
	switch {
	case isC && cv == 0:
		x.zero(r.base, r.off+k, 1)
	case isC:
		x.setState(r.base, r.off+k, 1, 0) // a constant is not plaintext
		delete(x.state[r.base], r.off+k)
	default:
		x.setState(r.base, r.off+k, 1, 1)
		if c02IsRootBase(r.base) && !x.authenticated() {
			x.p.early = append(x.p.early, st)
		}
	}
	return ""
}

func (x *c02Run) onSlice(w *pathWalker, sl *ssa.Slice) {
	src := x.regOf(w, sl.X)
	if src.base == "" {
		delete(x.reg, sl)
		return
	}
	if src.base == "nil" {
		x.reg[sl] = src
		return
	}
	lo := int64(0)
	if sl.Low != nil {
		v, ok := w.env.eval(sl.Low)
		if !ok {
			delete(x.reg, sl)
			return
		}
		lo = v
	}
	r := c02Reg{base: src.base, off: src.off + lo, cap: -1}
	if src.cap >= 0 {
		r.cap = src.cap - lo
	}
	if sl.Max != nil {
		if m, ok := w.env.eval(sl.Max); ok {
			if src.cap >= 0 && m > src.cap {
				w.markOOB(sl)
			}
			r.cap = m - lo
		}
	}
	if sl.High != nil {
		if h, ok := w.env.eval(sl.High); ok && src.cap >= 0 && h > src.cap {
			w.markOOB(sl) // beyond the capacity: panics at run time
		}
	}
	x.reg[sl] = r
}

func (x *c02Run) onPhi(w *pathWalker, ph *ssa.Phi, incoming ssa.Value) {
	if r := x.regOf(w, incoming); r.base != "" {
		x.reg[ph] = r
		x.bindNilTests(w, ph, r)
	} else {
		delete(x.reg, ph)
	}
}

// bindNilTests: an error value whose nil-ness is known on this path (it was
// returned by an interpreted helper as the nil constant or as a failure value)
// decides the comparisons with nil it takes part in — a verdict passed on as an
// error reads the same as one passed on as a boolean.
func (x *c02Run) bindNilTests(w *pathWalker, v ssa.Value, r c02Reg) {
	if !c02IsErrorType(v.Type()) {
		return
	}
	isNil := r.base == "nil"
	known := isNil || strings.HasPrefix(r.base, "E:")
	refs := v.Referrers()
	if refs == nil {
		return
	}
	for _, rr := range *refs {
		bo, ok := rr.(*ssa.BinOp)
		if !ok || (bo.Op != token.EQL && bo.Op != token.NEQ) {
			continue
		}
		if !(bo.X == v && isNilConst(bo.Y)) && !(bo.Y == v && isNilConst(bo.X)) {
			continue
		}
		if known {
			w.env.bind(bo, b2i((bo.Op == token.EQL) == isNil))
		} else {
			delete(w.env.vals, bo)
		}
	}
}

func (x *c02Run) onInline(parent, child *pathWalker, callee *ssa.Function, args []ssa.Value) {
	for i, p := range callee.Params {
		if i >= len(args) {
			break
		}
		if r := x.regOf(parent, args[i]); r.base != "" {
			x.reg[p] = r
		} else {
			delete(x.reg, p)
		}
	}
}

func (x *c02Run) onReturn(parent, child *pathWalker, call *ssa.Call, results []ssa.Value) {
	if len(results) == 1 {
		if r := x.regOf(child, results[0]); r.base != "" {
			x.reg[call] = r
			x.bindNilTests(parent, call, r)
		} else {
			delete(x.reg, call)
		}
		return
	}
	regs := make([]c02Reg, len(results))
	for i, rv := range results {
		regs[i] = x.regOf(child, rv)
	}
	x.bindTupleRegs(call, regs)
	if refs := call.Referrers(); refs != nil {
		for _, rr := range *refs {
			if ex, ok := rr.(*ssa.Extract); ok && ex.Index < len(regs) {
				x.bindNilTests(parent, ex, regs[ex.Index])
			}
		}
	}
}

func (x *c02Run) onLoad(w *pathWalker, u *ssa.UnOp) (int64, bool) {
	g, ok := u.X.(*ssa.Global)
	if !ok {
		return 0, false
	}
	if b, ok := u.Type().Underlying().(*types.Basic); !ok || b.Kind() != types.Bool {
		return 0, false
	}
	// a package-level flag (CPU feature selection): both values, consistently on one path
	if v, ok := x.globs[g.String()]; ok {
		return v, true
	}
	v := x.choose(g.Name(), false)
	x.globs[g.String()] = v
	return v, true
}

// run interprets the root once for one case and one vector of choices.
func (r *c02Root) run(c *Ctx, cs c02Case, vec []int) (*c02Path, int) {
	f := r.f
	x := &c02Run{c: c, r: r, cs: cs, vec: vec, reg: map[ssa.Value]c02Reg{}, state: map[string]map[int64]byte{},
		cont: map[string][]c02Copy{}, macW: map[string][]c02Span{}, tags: map[string][]c02TagRec{}, globs: map[string]int64{}, p: &c02Path{cs: cs}}
	w := &pathWalker{env: newEnv(), lengths: true, maxSteps: 40000, assumeErrNil: true}
	need := max(cs.n-r.over, 0)
	for i, p := range f.Params {
		reg := c02Reg{base: fmt.Sprintf("p%d", i), cap: -1}
		if n, ok := c02ArrayLen(p.Type()); ok {
			reg.cap = n
		}
		if _, isS := p.Type().Underlying().(*types.Slice); isS {
			l := int64(0)
			switch i {
			case r.out:
				l = cs.d
				reg.cap = cs.d + []int64{0, need, need + 7}[cs.capMode]
			case r.in:
				l = cs.n
				reg.cap = l
			case r.ad:
				l = cs.a
				reg.cap = l
			case r.nonce:
				l = r.nonceLen
				reg.cap = l
			default:
				l = 4
				reg.cap = l
			}
			w.env.bind(p, l)
		}
		x.reg[p] = reg
	}
	w.inline = func(callee *ssa.Function) bool { return callee.Pkg != nil && callee.Pkg == f.Pkg }
	w.onCall = x.onCall
	w.onStore = x.onStore
	w.onSlice = x.onSlice
	w.onPhi = x.onPhi
	w.onInline = x.onInline
	w.onReturn = x.onReturn
	w.onLoad = x.onLoad
	p := x.p
	p.end = w.walk(f.Blocks[0], nil)
	p.last = w.last
	if p.end == "undecided" || (p.end != "return" && p.end != "panic") {
		p.end = "undecided"
		if w.why != "" {
			p.why = w.why
		}
		if p.why == "" {
			p.why = "the walk left the finite domain"
		}
		return p, x.used
	}
	if p.why != "" {
		p.end = "undecided"
		return p, x.used
	}
	p.oob = w.oob || w.rootW().oob
	p.oobAt = w.rootW().oobAt
	if p.oobAt == nil {
		p.oobAt = w.oobAt
	}
	p.success = -1
	if ret, ok := w.last.(*ssa.Return); ok && p.end == "return" && ret.Parent() == f && len(ret.Results) == 2 {
		r0 := x.regOf(w, ret.Results[0])
		p.res0Nil = r0.base == "nil"
		p.res0Len, p.res0Kn = w.env.eval(ret.Results[0])
		if r.aead {
			switch e := x.regOf(w, ret.Results[1]); {
			case e.base == "nil":
				p.success = 1
			case strings.HasPrefix(e.base, "E:"):
				p.success = 0
			}
		} else if v, ok := w.env.eval(ret.Results[1]); ok {
			p.success = int(v)
		}
	} else if p.end == "return" {
		p.end, p.why = "undecided", "the exit of the walk is not a two-result return of the root"
		return p, x.used
	}
	// byte states of the caller's memory
	p.dirty = map[string][]int64{}
	p.zeroed = map[string]map[int64]bool{}
	for b, m := range x.state {
		if !c02IsRootBase(b) {
			continue
		}
		for i, st := range m {
			switch st {
			case 1:
				p.dirty[b] = append(p.dirty[b], i)
			case 2:
				if p.zeroed[b] == nil {
					p.zeroed[b] = map[int64]bool{}
				}
				p.zeroed[b][i] = true
			}
		}
		sort.Slice(p.dirty[b], func(i, j int) bool { return p.dirty[b][i] < p.dirty[b][j] })
	}
	return p, x.used
}

// paths: all paths of one case (both outcomes of every free choice).
func (r *c02Root) paths(c *Ctx, cs c02Case) []*c02Path {
	var out []*c02Path
	vec := []int{}
	for iter := 0; iter < 256; iter++ {
		p, used := r.run(c, cs, vec)
		out = append(out, p)
		// the choices actually taken on this path
		taken := make([]int, used)
		copy(taken, vec)
		k := len(taken) - 1
		for k >= 0 && taken[k] == 1 {
			k--
		}
		if k < 0 {
			return out
		}
		vec = append(taken[:k:k], 1)
	}
	out = append(out, &c02Path{cs: cs, end: "undecided", why: "more than 256 content-dependent paths"})
	return out
}

// lengths: boundary values of the input length — around the overhead, around
// the cipher's block sizes, and around every constant the code compares with.
func (r *c02Root) lengths() []int64 {
	set := map[int64]bool{}
	add := func(k int64) {
		for _, d := range []int64{-1, 0, 1} {
			if k+d >= 0 && k+d <= 6000 {
				set[k+d] = true
			}
		}
	}
	add(0)
	for _, k := range []int64{0, 16, 32, 64, 100} {
		add(r.over + k)
	}
	for _, g := range deepFuncs(r.f) {
		allInstrs(g, func(in ssa.Instruction) {
			bo, ok := in.(*ssa.BinOp)
			if !ok {
				return
			}
			switch bo.Op {
			case token.LSS, token.LEQ, token.GTR, token.GEQ, token.EQL, token.NEQ:
			default:
				return
			}
			for _, v := range []ssa.Value{bo.X, bo.Y} {
				if k, ok := constInt(v); ok && k >= 0 && k <= 1024 {
					add(k)
					add(r.over + k)
				}
			}
		})
	}
	var out []int64
	for k := range set {
		out = append(out, k)
	}
	sort.Slice(out, func(i, j int) bool { return out[i] < out[j] })
	return out
}

func c02Merge(in []c02Span, keep func(base string) bool) []c02Span {
	var out []c02Span
	for _, s := range in {
		if s.n == 0 {
			continue
		}
		if s.base != "?" && !keep(s.base) {
			continue
		}
		if k := len(out); k > 0 && out[k-1].base == s.base && s.base != "?" && out[k-1].off+out[k-1].n == s.off {
			out[k-1].n += s.n
			continue
		}
		out = append(out, s)
	}
	return out
}

func c02SpansEq(a, b []c02Span) bool {
	if len(a) != len(b) {
		return false
	}
	for i := range a {
		if a[i] != b[i] {
			return false
		}
	}
	return true
}

type c02Verdict struct {
	bad string
	at  poser
	n   int
}

func (v *c02Verdict) fail(at poser, msg string) {
	if v.bad == "" {
		v.bad, v.at = msg, at
	}
}

// check interprets one root over its whole case domain and records one
// obligation per rule.
func (r *c02Root) check(c *Ctx) {
	f := r.f
	construct := r.pkg + "." + r.name
	var short, gate, wipe, order, failres, source, interp c02Verdict
	inB := fmt.Sprintf("p%d", r.in)
	adB := fmt.Sprintf("p%d", r.ad)
	outB := fmt.Sprintf("p%d", r.out)
	keep := func(b string) bool { return b == inB || b == adB || b == outB }
	ads := []int64{0}
	if r.ad >= 0 {
		ads = []int64{0, 5}
	}
	npaths := 0
	lens := r.lengths()
	for _, n := range lens {
		for _, d := range []int64{0, 3} {
			for capMode := 0; capMode < 3; capMode++ {
				for _, a := range ads {
					cs := c02Case{n: n, d: d, a: a, capMode: capMode}
					for _, p := range r.paths(c, cs) {
						npaths++
						if p.end == "undecided" {
							interp.fail(p.last, p.desc()+": "+p.why)
							continue
						}
						// ---- short input / slicing
						if p.oob {
							at := poser(f)
							if p.oobAt != nil {
								at = p.oobAt
							}
							short.fail(at, "an index or slice expression is out of range (the input is not rejected before slicing) — case: "+p.desc())
						}
						if n < r.over {
							if len(p.auths) > 0 {
								short.fail(p.auths[0].at, fmt.Sprintf("an input shorter than the overhead of %d bytes reaches the tag verification — case: %s", r.over, p.desc()))
							}
							if p.end == "panic" && !p.oob {
								short.fail(p.last, "an input shorter than the overhead panics instead of being rejected — case: "+p.desc())
							}
						} else if p.end == "return" && len(p.auths) == 0 {
							short.fail(p.last, fmt.Sprintf("returns without any tag verification although the input has at least the overhead of %d bytes — case: %s", r.over, p.desc()))
						}
						if p.end == "panic" && !p.free1 && !p.oob {
							short.fail(p.last, "panics although no overlap was reported — case: "+p.desc())
						}
						v := p.verdict()
						// ---- tag gate
						if p.end == "return" {
							if !p.res0Nil && v != "accept" {
								gate.fail(p.last, fmt.Sprintf("a non-nil plaintext is returned although the tag verification's verdict is %q (reachable without passing the verification's success edge) — case: %s", v, p.desc()))
							}
							if p.success == 1 && v != "accept" {
								gate.fail(p.last, fmt.Sprintf("success is reported although the tag verification's verdict is %q — case: %s", v, p.desc()))
							}
							if p.success == -1 {
								interp.fail(p.last, p.desc()+": the success indication returned does not evaluate")
							}
							// ---- failure result
							if v != "accept" && (!p.res0Nil || p.success != 0) {
								what := "(nil, false)"
								if r.aead {
									what = "(nil, non-nil error)"
								}
								failres.fail(p.last, fmt.Sprintf("a rejected input does not yield %s — case: %s", what, p.desc()))
							}
							if v == "accept" && (p.res0Nil || p.success != 1) && !p.oob {
								failres.fail(p.last, "an input whose tag was accepted is not returned as success — case: "+p.desc())
							}
						}
						// ---- nothing released on failure
						if v != "accept" {
							if len(p.early) > 0 {
								order.fail(p.early[0], "a decrypting routine or data-dependent store writes the caller's buffer before the tag is accepted — case: "+p.desc())
							}
							var wat poser = p.last
							if k := len(p.auths); k > 0 {
								wat = p.auths[k-1].at
							}
							for b, idx := range p.dirty {
								if len(idx) == 0 {
									continue
								}
								where := fmt.Sprintf("%d decrypted byte(s) remain in the caller's memory (parameter #%d, bytes %d..%d)", len(idx), c02ParamNo(b), idx[0], idx[len(idx)-1])
								var msg string
								switch {
								case p.stray > 0:
									msg = fmt.Sprintf("the wipe after a failed authentication clears a different slice than the one the decryption wrote: %s while %d zero(s) are stored outside the decrypted region", where, p.stray)
								case len(p.zeroed[b]) == 0:
									msg = "after a failed authentication the output region is not wiped on this path (wipe missing or conditional — unauthenticated plaintext stays in the caller's buffer): " + where
								default:
									msg = "the wipe after a failed authentication is incomplete: " + where
								}
								wipe.fail(wat, msg+" — case: "+p.desc())
							}
							if r.aead && p.end == "return" && n >= r.over && capMode > 0 && len(p.auths) > 0 {
								miss := int64(0)
								for i := d; i < d+n-r.over; i++ {
									if !p.zeroed[outB][i] {
										miss++
									}
								}
								if miss > 0 {
									wipe.fail(wat, fmt.Sprintf("on authentication failure the output region dst[%d:%d] is not wiped (%d of %d bytes are not overwritten with zero before the error is returned) — case: %s", d, d+n-r.over, miss, n-r.over, p.desc()))
								}
							}
						}
						// ---- what is verified
						for _, a := range p.auths {
							wantTag, hasTag := r.wantTag(cs)
							if hasTag && (!a.hasTag || a.tag != wantTag) {
								got := "an untraceable value"
								if a.hasTag {
									got = a.tag.String()
								}
								source.fail(a.at, fmt.Sprintf("%s: %s checks the tag %s, expected %s (p%d = the received input) — case: %s", r.src, a.name, got, wantTag, r.in, p.desc()))
							}
							got := c02Merge(a.data, keep)
							want := c02Merge(r.wantData(cs), func(string) bool { return true })
							if !c02SpansEq(got, want) {
								source.fail(a.at, fmt.Sprintf("%s: %s authenticates %v of the caller's data, expected %v — case: %s", r.src, a.name, got, want, p.desc()))
							}
						}
					}
				}
			}
		}
	}
	dom := fmt.Sprintf("%d input lengths x 2 dst lengths x 3 capacities, %d interpreted paths", len(lens), npaths)
	if interp.bad != "" {
		c.undecided("C02.interp", construct, interp.at, interp.bad)
	} else {
		c.ok("C02.interp", construct, f, "every path folds over the finite domain ("+dom+")")
	}
	emit := func(v *c02Verdict, rule, okDetail string) {
		if v.bad != "" {
			at := v.at
			if at == nil {
				at = f
			}
			c.fail(rule, construct, at, v.bad)
		} else {
			c.ok(rule, construct, f, okDetail+" ("+dom+")")
		}
	}
	emit(&short, "C02.short-input", fmt.Sprintf("inputs shorter than %d bytes are rejected before any slicing or verification; longer ones always reach the tag verification; no slice expression goes out of range", r.over))
	emit(&gate, "C02.tag-gate", "a non-nil plaintext / success is returned only on paths where the tag verification accepted")
	if r.aead {
		emit(&wipe, "C02.wipe-on-failure", "on every rejecting path no decrypted byte remains in the caller's memory and the output region dst[len(dst):len(dst)+len(plaintext)] is overwritten with zeros")
	} else {
		emit(&wipe, "C02.wipe-on-failure", "on every rejecting path no decrypted byte exists in the caller's memory")
	}
	emit(&order, "C02.decrypt-after-verify", "no decrypting routine other than the fused assembly open writes caller memory before the tag is accepted")
	emit(&failres, "C02.fail-result", "a rejected input yields nil and the failure indication; an accepted one yields the plaintext")
	emit(&source, "C02.tag-source", r.sourceOK)
}

func c02ParamNo(base string) int {
	n := 0
	fmt.Sscanf(base, "p%d", &n)
	return n
}
