package main

import (
	"fmt"
	"go/token"

	"golang.org/x/tools/go/ssa"
)

// c33Monotone: the per-connection counters of serverAuthenticate
// (authFailures, noneAuthCount, and the attempt counter) are loop-carried
// values that only ever grow: every definition reaching the loop header from a
// back edge is the previous value or the previous value plus a positive
// constant. A reset (for example on partial success) would re-arm the free
// "none" probe or let a client spread unlimited guesses over partial-success
// rounds.
func c33Monotone(c *Ctx, fn *ssa.Function) {
	be := backEdges(fn)
	found := map[string]bool{}
	allInstrs(fn, func(in ssa.Instruction) {
		ph, ok := in.(*ssa.Phi)
		if !ok {
			return
		}
		switch ph.Comment {
		case "authFailures", "noneAuthCount", "authAttempts":
		default:
			return
		}
		// only the loop-header phi (has a back edge)
		hasBack := false
		for i := range ph.Edges {
			pred := ph.Block().Preds[i]
			for j, s := range pred.Succs {
				if s == ph.Block() && be[edge{pred, j}] {
					hasBack = true
				}
			}
		}
		if !hasBack {
			return
		}
		found[ph.Comment] = true
		// walk every definition feeding the back edges down to the header phi
		seen := map[ssa.Value]bool{}
		bad := ""
		var visit func(v ssa.Value, depth int)
		visit = func(v ssa.Value, depth int) {
			if seen[v] || depth > 50 || bad != "" {
				return
			}
			seen[v] = true
			if v == ssa.Value(ph) {
				return
			}
			switch x := v.(type) {
			case *ssa.Phi:
				for _, e := range x.Edges {
					visit(e, depth+1)
				}
			case *ssa.BinOp:
				k, isK := constInt(x.Y)
				if x.Op == token.ADD && isK && k > 0 {
					visit(x.X, depth+1)
					return
				}
				bad = fmt.Sprintf("%s is updated by %s", ph.Comment, x.String())
			default:
				bad = fmt.Sprintf("%s is set to %s inside the loop", ph.Comment, v.String())
			}
		}
		for i, e := range ph.Edges {
			pred := ph.Block().Preds[i]
			isBack := false
			for j, s := range pred.Succs {
				if s == ph.Block() && be[edge{pred, j}] {
					isBack = true
				}
			}
			if isBack {
				visit(e, 0)
			} else if k, isK := constInt(e); !isK || k != 0 {
				bad = ph.Comment + " does not start at 0"
			}
		}
		c.check(bad == "", "C33.counter-monotone", ph.Comment, ph, "starts at 0 and is only ever incremented across the requests of a connection", bad+" — the counter can be reset or lowered between requests, which re-arms an exemption or lifts a limit")
	})
	for _, n := range []string{"authFailures", "noneAuthCount"} {
		if !found[n] {
			c.fail("C33.counter-monotone", n, fn, "loop-carried counter not found (anchor lost)")
		}
	}
}
