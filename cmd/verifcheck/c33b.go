package main

import (
	"fmt"
	"go/token"

	"golang.org/x/tools/go/ssa"
)

// c33Monotone: the per-connection counters of serverAuthenticate (the failure
// counter, the count of "none" requests, and the attempt counter) are
// loop-carried values that only ever grow: every definition reaching the loop
// header from a back edge is the previous value or the previous value plus a
// positive constant. A reset (for example on partial success) would re-arm the
// free "none" probe or let a client spread unlimited guesses over
// partial-success rounds.
//
// The counters are identified by role, not by the names of the locals: they
// are the integer phis of the request loop's header; the failure counter is the
// one compared with ServerConfig.MaxAuthTries, the attempt counter the one
// incremented on every back edge, and every remaining one is a request count
// (the "none" count). The source name of the local is used for display only.
func c33Monotone(s *saCtx, attempts, failures *ssa.Phi) {
	c, fn := s.c, s.fn
	nOther := 0
	for _, ph := range s.c33HeaderInts() {
		role := "request counter"
		switch ph {
		case attempts:
			role = "attempt counter"
		case failures:
			role = "failure counter"
		default:
			nOther++
		}
		name := role
		if ph.Comment != "" {
			name += " (" + ph.Comment + ")"
		}
		// walk every definition feeding the back edges down to the header phi
		seen := map[ssa.Value]bool{}
		bad := ""
		var visit func(v ssa.Value, depth int)
		visit = func(v ssa.Value, depth int) {
			if seen[v] || depth > 50 || bad != "" {
				return
			}
			seen[v] = true
			if v == ssa.Value(ph) {
				return
			}
			switch x := v.(type) {
			case *ssa.Phi:
				for _, e := range x.Edges {
					visit(e, depth+1)
				}
			case *ssa.BinOp:
				k, isK := constInt(x.Y)
				if x.Op == token.ADD && isK && k > 0 {
					visit(x.X, depth+1)
					return
				}
				bad = fmt.Sprintf("the %s is updated by %s", name, x.String())
			default:
				bad = fmt.Sprintf("the %s is set to %s inside the loop", name, v.String())
			}
		}
		for i, e := range ph.Edges {
			pred := ph.Block().Preds[i]
			isBack := false
			for j, sb := range pred.Succs {
				if sb == ph.Block() && s.back[edge{pred, j}] {
					isBack = true
				}
			}
			if isBack {
				visit(e, 0)
			} else if k, isK := constInt(e); !isK || k != 0 {
				bad = "the " + name + " does not start at 0"
			}
		}
		c.check(bad == "", "C33.counter-monotone", name, ph, "starts at 0 and is only ever incremented across the requests of a connection", bad+" — the counter can be reset or lowered between requests, which re-arms an exemption or lifts a limit")
	}
	if failures == nil {
		c.fail("C33.counter-monotone", "failure counter", fn, "loop-carried counter not found (anchor lost)")
	}
	if nOther == 0 {
		c.fail("C33.counter-monotone", "count of none requests", fn, "loop-carried counter not found (anchor lost)")
	}
}
