package main

import (
	"fmt"
	"go/token"
	"go/types"
	"strings"

	"golang.org/x/tools/go/ssa"
)

// AKE transition table of Conversation.Receive, extracted by interpretation.
//
// Nothing here depends on how Receive is factored: the walk starts where the
// type byte of the base64-decoded message is read (found by provenance, in
// Receive or in a helper), helpers of the package that are not protocol steps
// themselves are interpreted in place, the protocol steps (c47Vocab) are the
// observed effects, and the conversation's fields are tracked under whatever
// name the receiver has in the function at hand.

// c47Vocab: the protocol steps of the OTR conversation. A call of one of these
// is an observed effect; every other function of the package that lies on a
// walked path is interpreted in place.
var c47Vocab = map[string]bool{
	"processDHCommit": true, "compareToDHCommit": true, "processDHKey": true, "processRevealSig": true, "processSig": true,
	"reset": true, "generateDHCommit": true, "generateDHKey": true, "serializeDHCommit": true, "serializeDHKey": true,
	"generateRevealSig": true, "generateSig": true, "encode": true, "processData": true, "processSMP": true,
	"generateData": true, "processFragment": true, "isQuery": true, "rotateDHKeys": true, "calcDataKeys": true,
}

// c47Cls: the class a value carries on the walked path: the protocol step that
// produced it, "ERR" for a value that is certainly a non-nil error.
func c47Cls(w *pathWalker, v ssa.Value) string {
	if v == nil {
		return ""
	}
	if cl, ok := w.cls[v]; ok {
		return cl
	}
	switch x := v.(type) {
	case *ssa.UnOp:
		if g, ok := x.X.(*ssa.Global); ok && x.Op == token.MUL && c47IsError(g.Type().(*types.Pointer).Elem()) {
			return "ERR" // package-level error value
		}
	case *ssa.MakeInterface:
		if c47IsError(x.Type()) {
			return "ERR"
		}
	case *ssa.Call:
		switch short(calleeName(&x.Call)) {
		case "errors.New", "fmt.Errorf":
			return "ERR"
		}
	case *ssa.ChangeInterface:
		return c47Cls(w, x.X)
	}
	return ""
}

func c47IsError(t types.Type) bool {
	return types.Identical(t, types.Universe.Lookup("error").Type())
}

// c47ConvParam: the parameter of f that is the *Conversation.
func c47ConvParam(f *ssa.Function) *ssa.Parameter {
	for _, p := range f.Params {
		if pt, ok := p.Type().(*types.Pointer); ok {
			if n, ok := pt.Elem().(*types.Named); ok && n.Obj().Name() == "Conversation" {
				return p
			}
		}
	}
	return nil
}

// c47Walker: a path walker that observes protocol steps. pre may model a call
// itself (returns handled=true).
func c47Walker(pre func(w *pathWalker, ci ssa.CallInstruction, name string) (string, bool)) *pathWalker {
	w := &pathWalker{env: newEnv(), assumeErrNil: true, opaque: c47Vocab, cls: map[ssa.Value]string{}, state: map[string]int64{}}
	w.onCall = func(w *pathWalker, ci ssa.CallInstruction) string {
		cc := ci.Common()
		name := short(calleeName(cc))
		val, _ := ci.(ssa.Value)
		if pre != nil {
			if tok, handled := pre(w, ci, name); handled {
				return tok
			}
		}
		if name == "builtin:append" && val != nil && len(cc.Args) > 0 {
			// a list of messages keeps the class of what was appended to it
			for _, a := range cc.Args {
				if cl := c47Cls(w, a); cl != "" {
					w.cls[val] = cl
				}
			}
			return ""
		}
		m := convMethod(cc)
		if m == "" {
			if callee := cc.StaticCallee(); callee != nil && callee.Pkg == w.rootPkg && c47Vocab[callee.Name()] {
				m = callee.Name()
			}
		}
		switch m {
		case "":
			return ""
		case "encode":
			inner := "?"
			if len(cc.Args) == 2 {
				if cl := c47Cls(w, cc.Args[1]); cl != "" {
					inner = cl
				}
			}
			if val != nil {
				w.cls[val] = "SENT"
			}
			return "send(" + inner + ")"
		}
		if val != nil {
			w.cls[val] = m
		}
		return m
	}
	w.onPhi = func(w *pathWalker, ph *ssa.Phi, incoming ssa.Value) {
		if cl := c47Cls(w, incoming); cl != "" {
			w.cls[ph] = cl
		} else {
			delete(w.cls, ph)
		}
	}
	w.onReturn = func(parent, child *pathWalker, call *ssa.Call, results []ssa.Value) {
		// classes travel back through the results of an interpreted helper
		if len(results) == 1 {
			if cl := c47Cls(child, results[0]); cl != "" {
				parent.cls[call] = cl
			} else {
				delete(parent.cls, call)
			}
			return
		}
		if refs := call.Referrers(); refs != nil {
			for _, r := range *refs {
				if ex, ok := r.(*ssa.Extract); ok && ex.Index < len(results) {
					if cl := c47Cls(child, results[ex.Index]); cl != "" {
						parent.cls[ex] = cl
					} else {
						delete(parent.cls, ex)
					}
				}
			}
		}
	}
	return w
}

// c47SetTuple gives the results of an opaque multi-result call their values
// on the walked path (ok=false entries stay unknown).
func c47SetTuple(w *pathWalker, ci ssa.CallInstruction, rs ...optInt) {
	v, ok := ci.(ssa.Value)
	if !ok {
		return
	}
	if w.tuple == nil {
		w.tuple = map[ssa.Value][]optInt{}
	}
	w.tuple[v] = rs
}

// c47Steps turns the event list into the sequence of protocol steps: a message
// that was produced and then passed to encode is one step "send(producer)".
func c47Steps(events []string) string {
	var out []string
	for _, e := range events {
		if strings.HasPrefix(e, "send(") {
			inner := strings.TrimSuffix(strings.TrimPrefix(e, "send("), ")")
			for i := len(out) - 1; i >= 0; i-- {
				if out[i] == inner {
					out = append(out[:i], out[i+1:]...)
					break
				}
			}
		}
		out = append(out, e)
	}
	return strings.Join(out, " ")
}

// c47Decoded: v is (a reslicing from the start of) the buffer the base64
// decoder wrote the message into, followed through helper parameters.
func (c *Ctx) c47Decoded(v ssa.Value) bool {
	for i := 0; i < 12; i++ {
		v = c.origin(v)
		switch x := v.(type) {
		case *ssa.Slice:
			if x.Low != nil {
				if k, ok := constInt(x.Low); !ok || k != 0 {
					return false
				}
			}
			v = x.X
			continue
		case *ssa.Extract:
			if call, ok := x.Tuple.(*ssa.Call); ok && x.Index == 0 {
				n := short(calleeName(&call.Call))
				return strings.HasPrefix(n, "(*encoding/base64.Encoding).DecodeString") || strings.HasPrefix(n, "(*encoding/base64.Encoding).AppendDecode")
			}
			return false
		}
		refs := v.Referrers()
		if refs == nil {
			return false
		}
		for _, r := range *refs {
			if call, ok := r.(*ssa.Call); ok && short(calleeName(&call.Call)) == "(*encoding/base64.Encoding).Decode" && len(call.Call.Args) == 3 {
				if sliceBase(call.Call.Args[1]) == v {
					return true
				}
			}
		}
		return false
	}
	return false
}

// c47Header: where the message type is read.
type c47Header struct {
	fn    *ssa.Function      // function in which the walk starts
	start *ssa.BasicBlock    // block of the first message-type value in fn
	typ   map[ssa.Value]bool // the message type: the load of byte 2 of the decoded message, its conversions, and the helper results / extracts that carry it
	msg   ssa.Value          // the decoded message slice that is indexed
	msgFn *ssa.Function
	recv  string // name of fn's *Conversation parameter
}

func (c *Ctx) c47FindHeader(recv *ssa.Function) (*c47Header, string) {
	h := &c47Header{typ: map[ssa.Value]bool{}}
	var loads []*ssa.UnOp
	for _, g := range deepFuncs(recv) {
		allInstrs(g, func(in ssa.Instruction) {
			u, ok := in.(*ssa.UnOp)
			if !ok || u.Op != token.MUL {
				return
			}
			ia, ok := u.X.(*ssa.IndexAddr)
			if !ok {
				return
			}
			if k, isK := constInt(ia.Index); !isK || k != 2 {
				return
			}
			if c.c47Decoded(ia.X) {
				loads = append(loads, u)
				if h.msg == nil {
					h.msg, h.msgFn = ia.X, g
				}
			}
		})
	}
	if len(loads) == 0 {
		return nil, "the read of byte 2 (message type) of the base64-decoded message was not found in Receive or its helpers"
	}
	// forward closure: conversions, and results of helpers returning the type
	var work []ssa.Value
	add := func(v ssa.Value) {
		if !h.typ[v] {
			h.typ[v] = true
			work = append(work, v)
		}
	}
	for _, l := range loads {
		add(l)
	}
	for len(work) > 0 {
		v := work[len(work)-1]
		work = work[:len(work)-1]
		refs := v.Referrers()
		if refs == nil {
			continue
		}
		for _, r := range *refs {
			switch x := r.(type) {
			case *ssa.Convert:
				add(x)
			case *ssa.ChangeType:
				add(x)
			case *ssa.Return:
				for i, res := range x.Results {
					if res != v {
						continue
					}
					for _, cs := range c.callersOf(x.Parent()) {
						call, ok := cs.(*ssa.Call)
						if !ok {
							continue
						}
						if len(x.Results) == 1 {
							add(call)
							continue
						}
						if crefs := call.Referrers(); crefs != nil {
							for _, cr := range *crefs {
								if ex, ok := cr.(*ssa.Extract); ok && ex.Index == i {
									add(ex)
								}
							}
						}
					}
				}
			}
		}
	}
	pick := func(f *ssa.Function) bool {
		best := -1
		for v := range h.typ {
			in, ok := v.(ssa.Instruction)
			if !ok || in.Parent() != f {
				continue
			}
			if best < 0 || in.Block().Index < best {
				best = in.Block().Index
			}
		}
		if best < 0 {
			return false
		}
		h.fn, h.start = f, f.Blocks[best]
		return true
	}
	if !pick(recv) && !pick(loads[0].Parent()) {
		return nil, "message type value not located"
	}
	p := c47ConvParam(h.fn)
	if p == nil {
		return nil, "the function reading the message type has no *Conversation parameter"
	}
	h.recv = p.Name()
	return h, ""
}

func c47AKE(c *Ctx) {
	f := c.fn("otr", "(*Conversation).Receive")
	if f == nil {
		return
	}
	cv := func(n string) int64 {
		v, ok := c.pkgConst("otr", n)
		if !ok {
			c.fail("C47.ake-table", "constant "+n, f, "constant not found")
		}
		return v
	}
	msgT := map[string]int64{"DHCommit": cv("msgTypeDHCommit"), "DHKey": cv("msgTypeDHKey"), "RevealSig": cv("msgTypeRevealSig"), "Sig": cv("msgTypeSig"), "Data": cv("msgTypeData")}
	authT := map[string]int64{"None": cv("authStateNone"), "AwaitingDHKey": cv("authStateAwaitingDHKey"), "AwaitingRevealSig": cv("authStateAwaitingRevealSig"), "AwaitingSig": cv("authStateAwaitingSig")}
	authName := map[int64]string{}
	for k, v := range authT {
		authName[v] = k
	}
	stPlain, stEnc, stFin := cv("statePlaintext"), cv("stateEncrypted"), cv("stateFinished")
	newKeys := cv("NewKeys")
	h, why := c.c47FindHeader(f)
	if h == nil {
		c.undecided("C47.ake-table", "Receive message type", f, why)
		return
	}
	keyAuth, keyState := h.recv+".authState", h.recv+".state"
	// index of the SecurityChange result of the function the walk runs in
	chgIdx := -1
	res := h.fn.Signature.Results()
	for i := 0; i < res.Len(); i++ {
		if n, ok := res.At(i).Type().(*types.Named); ok && n.Obj().Name() == "SecurityChange" {
			chgIdx = i
		}
	}
	errIdx := -1
	for i := 0; i < res.Len(); i++ {
		if c47IsError(res.At(i).Type()) {
			errIdx = i
		}
	}
	if chgIdx < 0 || errIdx < 0 {
		c.undecided("C47.ake-table", "Receive results", h.fn, "the function dispatching on the message type returns no SecurityChange / error")
		return
	}
	run := func(msg, auth, state int64, variant string) (w *pathWalker, end string) {
		w = c47Walker(func(w *pathWalker, ci ssa.CallInstruction, name string) (string, bool) {
			switch convMethod(ci.Common()) {
			case "compareToDHCommit":
				switch variant {
				case "cmp>0":
					c47SetTuple(w, ci, optInt{1, true}, optInt{})
				case "cmp<=0":
					c47SetTuple(w, ci, optInt{-1, true}, optInt{})
				}
			case "processDHKey":
				switch variant {
				case "same":
					c47SetTuple(w, ci, optInt{1, true}, optInt{})
				case "different":
					c47SetTuple(w, ci, optInt{0, true}, optInt{})
				}
			}
			return "", false
		})
		c47ErrAware(w, h.fn)
		for v := range h.typ {
			w.env.bind(v, msg)
		}
		w.state[keyAuth], w.state[keyState] = auth, state
		end = w.walk(h.start, nil)
		return
	}
	for _, sp := range akeSpec {
		name := fmt.Sprintf("%s in auth state %s", sp.msg, sp.auth)
		if sp.variant != "" {
			name += " (" + sp.variant + ")"
		}
		w, end := run(msgT[sp.msg], authT[sp.auth], stPlain, sp.variant)
		if end != "return" {
			c.undecided("C47.ake-table", name, f, fmt.Sprintf("walk ended with %q: %s", end, w.why))
			continue
		}
		got := c47Steps(w.events)
		if sp.calls == "processDHKey send(RETRANSMIT)" {
			// the specification asks for a retransmission: any stored (serialized, not regenerated) message
			got = strings.Replace(strings.Replace(got, "send(serializeDHKey)", "send(RETRANSMIT)", 1), "send(serializeDHCommit)", "send(RETRANSMIT)", 1)
		}
		gotAuth := w.state[keyAuth]
		wantAuth := authT[sp.auth]
		if sp.nextAuth != "" {
			wantAuth = authT[sp.nextAuth]
		}
		gotEnc := w.state[keyState] == stEnc
		chg := int64(-1)
		if ret, ok := w.last.(*ssa.Return); ok && chgIdx < len(ret.Results) {
			if n, ok := w.env.eval(ret.Results[chgIdx]); ok {
				chg = n
			}
			if c47Cls(w, ret.Results[errIdx]) == "ERR" {
				if got != "" {
					got += " "
				}
				got += "ERR"
			}
		}
		gotNew := chg == newKeys
		detail := fmt.Sprintf("calls [%s] -> authState %s, encrypted=%v, NewKeys=%v", got, authName[gotAuth], gotEnc, gotNew)
		if got != sp.calls || gotAuth != wantAuth || gotEnc != sp.encrypted || gotNew != sp.encrypted {
			c.fail("C47.ake-table", name, f, fmt.Sprintf("code: %s; OTR v2 table: calls [%s] -> authState %s, encrypted=%v", detail, sp.calls, authName[wantAuth], sp.encrypted))
		} else {
			c.ok("C47.ake-table", name, f, detail)
		}
	}
	// data messages only in the encrypted state: the data path is walked for
	// each message state; processData may be reached only from stateEncrypted
	okData, whyData := true, ""
	for _, st := range []int64{stPlain, stFin, stEnc} {
		w, end := run(msgT["Data"], authT["None"], st, "")
		reached := false
		for _, e := range w.events {
			if e == "processData" {
				reached = true
			}
		}
		switch {
		case st == stEnc && !reached:
			okData, whyData = false, "in stateEncrypted a data message does not reach processData ("+end+": "+w.why+")"
		case st != stEnc && reached:
			okData, whyData = false, fmt.Sprintf("processData is reached in message state %d", st)
		case st != stEnc && end != "return":
			okData, whyData = false, fmt.Sprintf("message state %d: walk ended with %q: %s", st, end, w.why)
		}
	}
	c.check(okData, "C47.ake-table", "data message outside the encrypted state", f, "processData is reached from stateEncrypted and never from statePlaintext / stateFinished", "a data message can be processed although no encrypted session is established: "+whyData)
	// a query restarts the AKE: authState = AwaitingDHKey, reset, fresh commit.
	// Walked from the entry of Receive with an input that is a query (not a
	// fragment, not an encoded message).
	rp := c47ConvParam(f)
	okQ, detailQ := false, "Receive has no *Conversation receiver"
	if rp != nil {
		w := c47Walker(func(w *pathWalker, ci ssa.CallInstruction, name string) (string, bool) {
			v, _ := ci.(ssa.Value)
			switch name {
			case "bytes.HasPrefix", "bytes.HasSuffix", "bytes.Equal", "bytes.Contains":
				if v != nil {
					w.env.bind(v, 0)
				}
				return "", true
			case "bytes.CutPrefix", "bytes.CutSuffix":
				c47SetTuple(w, ci, optInt{}, optInt{0, true})
				return "", true
			case "otr.isQuery":
				if v != nil {
					w.env.bind(v, 2)
				}
				return "isQuery", true
			}
			return "", false
		})
		c47ErrAware(w, f)
		w.state[rp.Name()+".authState"] = authT["None"]
		w.state[rp.Name()+".state"] = stPlain
		end := w.walk(f.Blocks[0], nil)
		got := c47Steps(w.events)
		detailQ = fmt.Sprintf("calls [%s] -> authState %s (%s %s)", got, authName[w.state[rp.Name()+".authState"]], end, w.why)
		okQ = end == "return" && got == "isQuery reset send(generateDHCommit)" && w.state[rp.Name()+".authState"] == authT["AwaitingDHKey"]
	}
	c.check(okQ, "C47.ake-table", "query message", f, "a query resets the key state, sends a fresh D-H Commit and awaits the D-H Key", "a query does not (re)start the AKE with reset + fresh commit + AwaitingDHKey: "+detailQ)
}
