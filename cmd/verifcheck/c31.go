package main

import (
	"fmt"
	"go/token"
	"go/types"
	"strings"

	"golang.org/x/tools/go/ssa"
)

func init() {
	register(&propDef{
		id: "C31", run: runC31, minOblig: 18,
		explanation: "Decides the safety shape of re-keying in ssh/handshake.go. All ordering rules are evaluated on the anchor function (writePacket, kexLoop, readLoop) with the helpers of package ssh that touch the gating state expanded in place per call site (depth 4, deferred calls run at the return points, a helper's nil/non-nil error or constant bool result is remembered along the path so that the caller's test of it is folded); events are recognised by the handshakeTransport field or the connection method they touch, not by function, receiver or variable names. (locking) every WRITE of handshakeTransport.writeError, sentInitPacket, sentInitMsg, pendingPackets, writePacketsLeft, writeBytesLeft, userAuthComplete holds t.mu, either in the function itself or at every static call site of an unexported helper; a helper that is also called on an object still under construction (a fresh allocation in the caller) is accepted when every other call site holds t.mu. (no application packet during our key exchange) in writePacket no packet can be handed to t.conn.writePacket from function entry or after any writeCond.Wait without crossing a branch edge that establishes sentInitMsg == nil (directly or through a bool predicate helper); with p[0] = KEXINIT or NEWKEYS neither the connection write nor the append to pendingPackets is reachable; with a key exchange in progress the append is reachable exactly for len(pendingPackets) < maxPendingPackets (evaluated for 0, 1, max-1, max, max+1). (completion) in kexLoop: sentInitMsg is reset to nil only after the routine that sends NEWKEYS has returned, and after that return always before kexLoop exits or sends the next NEWKEYS; the critical section of t.mu in which it is reset also, on every path from its Lock to its Unlock, flushes pendingPackets (a loop handing queue elements to the connection by index 0,1,2.. or by popping the front, bounded by the queue length, reading the queue before it is truncated) and stores an empty pendingPackets; after the reset a writeCond.Broadcast happens before kexLoop takes t.mu again or returns. (wake-ups) writeCond is only ever Broadcast, never Signal, and every store to writeError is followed by a Broadcast before the goroutine takes t.mu again or leaves its top-level function (followed through the return of unexported helpers into each caller). (shutdown) every path through readLoop to its exit stores writeError under the lock (or skips the store only because writeError is already set or readError is nil) and closes startKex. NOT decided: exactly-once delivery and per-writer order under all schedules, absence of deadlock in general (liveness), a flush that is skipped by an explicit emptiness test.",
		assumptions: []string{"sync.Cond.Wait re-acquires the lock; a deferred Unlock releases at return", "helpers deeper than 4 calls below the anchor function are treated as opaque"},
	})
	tech("C31", "lockset analysis (write-guard table with call-site inheritance), context-sensitive interprocedural flow graph with must-cross / barrier-before-sink searches that fold tests of helper results, must-hold analysis of t.mu on that graph, finite-domain evaluation of the reserved packet types and the queue bound across helpers")
}

type c31Run struct {
	c       *Ctx
	fns     []*ssa.Function
	rel     map[*ssa.Function]int
	graphs  map[*ssa.Function]*c31Graph
	invoked map[string]bool
}

var c31Fields = map[string]bool{"mu": true, "writeCond": true, "writeError": true, "sentInitMsg": true, "sentInitPacket": true,
	"pendingPackets": true, "startKex": true, "readError": true, "writeBytesLeft": true, "writePacketsLeft": true, "userAuthComplete": true}

// relevant: f (or a helper below it) touches the kex gating state, t.mu,
// writeCond, or hands a packet to the connection. Other callees are opaque.
func (r *c31Run) relevant(f *ssa.Function) bool {
	switch r.rel[f] {
	case 1:
		return false // cycle
	case 2:
		return true
	case 3:
		return false
	}
	r.rel[f] = 1
	res := false
	allInstrs(f, func(in ssa.Instruction) {
		if res {
			return
		}
		switch x := in.(type) {
		case *ssa.FieldAddr:
			if t, fld, _, ok := fieldOf(x); ok && t == c31T && c31Fields[fld] {
				res = true
			}
		case *ssa.Field:
			if t, fld, _, ok := fieldOf(x); ok && t == c31T && c31Fields[fld] {
				res = true
			}
		}
		if cc := callCommon(in); cc != nil {
			if cc.IsInvoke() {
				if cc.Method.Name() == "writePacket" && c31IsFieldLoad(cc.Value, "conn") {
					res = true
				}
			} else if callee := cc.StaticCallee(); callee != nil && callee.Pkg == f.Pkg && len(callee.Blocks) > 0 && callee != f {
				if r.relevant(callee) {
					res = true
				}
			}
		}
	})
	if res {
		r.rel[f] = 2
	} else {
		r.rel[f] = 3
	}
	return res
}

func (r *c31Run) graph(f *ssa.Function) *c31Graph {
	if g, ok := r.graphs[f]; ok {
		return g
	}
	g := c31Build(f, r.relevant)
	r.graphs[f] = g
	return g
}

func runC31(c *Ctx) {
	r := &c31Run{c: c, fns: c.funcsOfPkg("ssh"), rel: map[*ssa.Function]int{}, graphs: map[*ssa.Function]*c31Graph{}}
	r.lockRules()
	if f := c.fn("ssh", "(*handshakeTransport).writePacket"); f != nil {
		r.writePacketRules(f)
	}
	if f := c.fn("ssh", "(*handshakeTransport).kexLoop"); f != nil {
		r.kexCompleteRule(f)
	}
	r.wakeRules()
	if f := c.fn("ssh", "(*handshakeTransport).readLoop"); f != nil {
		r.shutdownRule(f)
	}
}

// ---------------------------------------------------------------------------
// locking

func (r *c31Run) lockRules() {
	c := r.c
	guarded := []string{"writeError", "sentInitPacket", "sentInitMsg", "pendingPackets", "writePacketsLeft", "writeBytesLeft", "userAuthComplete"}
	// An unexported helper that writes guarded fields of its transport parameter
	// and is called both with t.mu held and on a transport still under
	// construction (a fresh allocation in the caller, not yet shared): the
	// helper is accepted when EVERY static call site is one or the other.
	exempt := map[string]string{}
	for _, g := range r.fns {
		if g.Object() == nil || g.Object().Exported() || len(g.Blocks) == 0 {
			continue
		}
		k := -1
		for _, fld := range guarded {
			for _, st := range storesTo(g, c31T, fld) {
				if p, ok := st.Addr.(*ssa.FieldAddr).X.(*ssa.Parameter); ok {
					for i, q := range g.Params {
						if q == p {
							k = i
						}
					}
				}
			}
		}
		if k < 0 {
			continue
		}
		sites := c.callersOf(g)
		nFresh, allOK := 0, len(sites) > 0
		type siteV struct {
			ci    ssa.CallInstruction
			fresh bool
		}
		var vs []siteV
		for _, ci := range sites {
			if _, isCall := ci.(*ssa.Call); !isCall || k >= len(ci.Common().Args) {
				allOK = false
				break
			}
			arg := ci.Common().Args[k]
			if al, isAlloc := stripConv(arg).(*ssa.Alloc); isAlloc && typeName(al.Type()) == c31T {
				nFresh++
				vs = append(vs, siteV{ci, true})
				continue
			}
			base := accessPath(arg)
			caller := ci.Parent()
			held := base != "" && computeLocks(caller).at(ci).holds(base, ".mu")
			if !held && base != "" {
				if up, ok := c.entryLocks(caller, 0); ok && up.holds(base, ".mu") {
					held = true
				}
			}
			if !held {
				allOK = false
				break
			}
			vs = append(vs, siteV{ci, false})
		}
		if !allOK || nFresh == 0 {
			continue // all-locked helpers are handled by the engine's call-site inheritance; others are reported there
		}
		exempt[fnName(g)] = "every call site holds t.mu or passes a transport still under construction (checked at each call site)"
		for _, v := range vs {
			what := "t.mu held at the call"
			if v.fresh {
				what = "the transport is a fresh allocation of the caller, not yet shared"
			}
			c.ok("C31.lock", fnName(g)+" called from "+fnName(v.ci.Parent()), v.ci, what)
		}
	}
	for _, fld := range guarded {
		n := c.checkGuarded("C31.lock", r.fns, guardSpec{c31T, fld, ".mu", true}, exempt)
		c.check(n > 0, "C31.lock", c31T+"."+fld, nil, fmt.Sprintf("%d writing functions", n), "no access found (anchor lost)")
	}
}

// ---------------------------------------------------------------------------
// writePacket

func c31IsConnWrite(n *c31Node) bool { _, ok := c31ConnWrite(n); return ok }

// queueAppend: a store to pendingPackets that does not empty it.
func c31IsQueueAppend(n *c31Node) bool {
	v, ok := c31Store(n, "pendingPackets")
	return ok && !c31ZeroLen(v)
}

// envCuts: bind values in every function of the graph, carry bound values
// into helper parameters (when every copy of the helper receives the same
// value) and out of helpers whose every return evaluates to the same value,
// and return the contradicted branch edges.
func (r *c31Run) envCuts(g *c31Graph, bind func(e *penv, fn *ssa.Function)) edgeSet {
	e := newEnv()
	for _, fn := range g.fns {
		bind(e, fn)
	}
	for round := 0; round < 3; round++ {
		for _, fn := range g.fns {
			if fn != g.root {
				for k, p := range fn.Params {
					if _, done := e.vals[p]; done {
						continue
					}
					var val int64
					n, agree := 0, true
					for _, ctx := range g.ctxs {
						if ctx.fn != fn || ctx.call == nil {
							continue
						}
						cc := callCommon(ctx.call)
						if cc == nil || cc.IsInvoke() || k >= len(cc.Args) {
							agree = false
							break
						}
						v, ok := e.eval(cc.Args[k])
						if !ok || (n > 0 && v != val) {
							agree = false
							break
						}
						val = v
						n++
					}
					if agree && n > 0 {
						e.bind(p, val)
					}
				}
			}
			allInstrs(fn, func(in ssa.Instruction) {
				call, ok := in.(*ssa.Call)
				if !ok {
					return
				}
				if _, done := e.vals[call]; done {
					return
				}
				callee := call.Call.StaticCallee()
				if callee == nil || len(callee.Blocks) == 0 || callee.Pkg != g.root.Pkg || callee.Signature.Results().Len() != 1 {
					return
				}
				rs := returnsOf(callee)
				var val int64
				for i, rt := range rs {
					n, ok := e.eval(retVal(rt, 0))
					if !ok || (i > 0 && n != val) {
						return
					}
					val = n
				}
				if len(rs) > 0 {
					e.bind(call, val)
				}
			})
		}
	}
	cut := edgeSet{}
	for _, fn := range g.fns {
		for k := range e.cuts(fn) {
			cut[k] = true
		}
	}
	return cut
}

func (r *c31Run) writePacketRules(f *ssa.Function) {
	c := r.c
	g := r.graph(f)
	name := fnName(f)
	if len(f.Params) < 2 {
		c.fail("C31.no-push-during-kex", name, f, "writePacket has no packet parameter")
		return
	}
	pkt := ssa.Value(f.Params[1])
	isPkt := func(b ssa.Value) bool { return c.origin(b) == pkt }
	writes := g.where(c31IsConnWrite)
	appends := g.where(c31IsQueueAppend)
	waits := g.where(func(n *c31Node) bool { return c31CondOp(n, "Wait") })
	gates := g.nilEdges("sentInitMsg", true)

	// ---- no packet reaches the connection while our kex is in progress
	switch {
	case len(writes) == 0:
		c.fail("C31.no-push-during-kex", name, f, "no hand-over of a packet to t.conn.writePacket found in writePacket or its helpers (anchor lost)")
	case len(gates) == 0:
		c.fail("C31.no-push-during-kex", name, writes[0], "no branch on sentInitMsg == nil found in writePacket or its helpers: nothing keeps application packets out of a running key exchange")
	default:
		cut := edgeSet{}
		cut.addAll(gates)
		bad := ""
		var at poser = writes[0]
		if n := g.search([]*c31Node{g.entry}, false, cut, nil, c31IsConnWrite); n != nil {
			bad, at = "a packet can be handed to the connection without passing sentInitMsg == nil (a packet could be written between our KEXINIT and NEWKEYS)", n
		}
		for _, w := range waits {
			if n := g.search([]*c31Node{w}, true, cut, nil, c31IsConnWrite); n != nil {
				bad, at = "after waking up from writeCond.Wait the packet can be pushed without re-checking sentInitMsg == nil (a packet could be written between our KEXINIT and NEWKEYS)", n
			}
		}
		if bad == "" && len(waits) == 0 {
			bad = "no writeCond.Wait found: a writer that finds the pending queue full has nothing to block on"
		}
		c.check(bad == "", "C31.no-push-during-kex", name, at, fmt.Sprintf("the direct write happens only with sentInitMsg == nil, re-established after each of the %d waits", len(waits)), bad)
	}

	// ---- KEXINIT / NEWKEYS from the application are refused
	kexInit, ok1 := pkgConstInt(c, "ssh", "msgKexInit")
	newKeys, ok2 := pkgConstInt(c, "ssh", "msgNewKeys")
	if !ok1 || !ok2 || len(writes) == 0 || len(appends) == 0 {
		c.fail("C31.reserved-types", name, f, "message type constants, the connection write or the queue append not found (anchor lost)")
	} else {
		bad := ""
		var at poser = f
		for _, code := range []int64{kexInit, newKeys} {
			cut := r.envCuts(g, func(e *penv, fn *ssa.Function) { e.bindIndexLoads(fn, isPkt, 0, code) })
			if n := g.search([]*c31Node{g.entry}, false, cut, nil, c31IsConnWrite); n != nil {
				bad, at = fmt.Sprintf("application packet of type %d can be written", code), n
			}
			if n := g.search([]*c31Node{g.entry}, false, cut, nil, c31IsQueueAppend); n != nil {
				bad, at = fmt.Sprintf("application packet of type %d can be queued", code), n
			}
		}
		c.check(bad == "", "C31.reserved-types", name, at, "KEXINIT and NEWKEYS from the application are refused", bad)
	}

	// ---- queue bound
	maxP, okm := pkgConstInt(c, "ssh", "maxPendingPackets")
	if !okm || len(appends) == 0 {
		c.fail("C31.queue-bound", name, f, "queue append or maxPendingPackets not found")
	} else {
		bad := ""
		for _, n := range []int64{0, 1, maxP - 1, maxP, maxP + 1} {
			cut := r.envCuts(g, func(e *penv, fn *ssa.Function) {
				allInstrs(fn, func(in ssa.Instruction) {
					if call, ok := in.(*ssa.Call); ok && calleeName(&call.Call) == "builtin:len" && c31IsFieldLoad(call.Call.Args[0], "pendingPackets") {
						e.bind(call, n)
					}
				})
				e.bindNilTests(fn, func(v ssa.Value) bool { return c31IsFieldLoad(v, "sentInitMsg") }, false)
				e.bindNilTests(fn, func(v ssa.Value) bool { return c31IsFieldLoad(v, "writeError") }, true)
				e.bindIndexLoads(fn, isPkt, 0, 94)
			})
			got := g.search([]*c31Node{g.entry}, false, cut, nil, c31IsQueueAppend) != nil
			if got != (n < maxP) {
				bad = fmt.Sprintf("queue length %d (limit %d): packet queued=%v", n, maxP, got)
			}
		}
		c.check(bad == "", "C31.queue-bound", name, appends[0], fmt.Sprintf("packets are queued only while fewer than %d are pending", maxP), bad)
	}
}

// ---------------------------------------------------------------------------
// kexLoop: completion of a key exchange

// c31IsNewKeysWrite: t.conn.writePacket([]byte{msgNewKeys}).
func c31IsNewKeysWrite(n *c31Node, newKeys int64) bool {
	arg, ok := c31ConnWrite(n)
	if !ok {
		return false
	}
	_, arg = c31Resolve(n.ctx, arg)
	sl, ok := arg.(*ssa.Slice)
	if !ok {
		return false
	}
	al, ok := sl.X.(*ssa.Alloc)
	if !ok || al.Referrers() == nil {
		return false
	}
	for _, ref := range *al.Referrers() {
		ia, ok := ref.(*ssa.IndexAddr)
		if !ok || ia.Referrers() == nil {
			continue
		}
		if k, ok := constInt(ia.Index); !ok || k != 0 {
			continue
		}
		for _, rr := range *ia.Referrers() {
			if st, ok := rr.(*ssa.Store); ok && st.Addr == ssa.Value(ia) {
				if k, ok := constInt(st.Val); ok && k == newKeys {
					return true
				}
			}
		}
	}
	return false
}

// c31Flush describes one hand-over of a pendingPackets element to the connection.
type c31Flush struct {
	write  *c31Node // the connection write
	snap   *c31Node // the load of t.pendingPackets whose elements are flushed
	head   *c31Node // first node of the flush loop's header
	detail string   // non-empty: why the iteration is not front-to-back over the whole queue
}

// c31QueueSnapshot: q is (a prefix-preserving view of) a load of pendingPackets.
func (r *c31Run) queueSnapshot(g *c31Graph, ctx *c31Ctx, q ssa.Value) (*c31Node, bool) {
	for i := 0; i < 6; i++ {
		ctx, q = c31Resolve(ctx, q)
		if sl, ok := q.(*ssa.Slice); ok && sl.Low == nil {
			q = sl.X
			continue
		}
		break
	}
	if u, ok := q.(*ssa.UnOp); ok && c31IsFieldLoad(u, "pendingPackets") {
		return g.nodeOf(ctx, u), true
	}
	return nil, false
}

// flushOf: is the connection write w the hand-over of an element of the
// pending queue, and how does the enclosing loop walk the queue?
func (r *c31Run) flushOf(g *c31Graph, w *c31Node) (c31Flush, bool) {
	arg, _ := c31ConnWrite(w)
	ctx, v := c31Resolve(w.ctx, arg)
	ld, ok := v.(*ssa.UnOp)
	if !ok || ld.Op != token.MUL {
		return c31Flush{}, false
	}
	ia, ok := ld.X.(*ssa.IndexAddr)
	if !ok {
		return c31Flush{}, false
	}
	fl := c31Flush{write: w}
	h := innermostLoopHeader(ia.Block())
	lenOf := func(x ssa.Value, q ssa.Value) bool {
		call, ok := x.(*ssa.Call)
		return ok && calleeName(&call.Call) == "builtin:len" && call.Call.Args[0] == q
	}
	headerCond := func() *ssa.BinOp {
		if h == nil || len(h.Instrs) == 0 {
			return nil
		}
		iff, ok := h.Instrs[len(h.Instrs)-1].(*ssa.If)
		if !ok {
			return nil
		}
		bo, _ := iff.Cond.(*ssa.BinOp)
		return bo
	}
	// form 1: q[i], i = 0,1,2,.. (for i := 0; i < len(q); i++ / for i := range len(q) / for _, p := range q)
	if snap, ok := r.queueSnapshot(g, ctx, ia.X); ok {
		fl.snap = snap
		if h == nil {
			fl.detail = "a queue element is written outside of a loop"
			return fl, true
		}
		fl.head = g.nodeOf(ctx, h.Instrs[0])
		var ind *ssa.Phi
		step := func(v ssa.Value, ph *ssa.Phi) bool {
			bo, ok := v.(*ssa.BinOp)
			if !ok || bo.Op != token.ADD || bo.X != ssa.Value(ph) {
				return false
			}
			k, ok := constInt(bo.Y)
			return ok && k == 1
		}
		classify := func(ph *ssa.Phi) (int64, bool) {
			if len(ph.Edges) != 2 || ph.Block() != h {
				return 0, false
			}
			for i := 0; i < 2; i++ {
				if k, ok := constInt(ph.Edges[i]); ok && step(ph.Edges[1-i], ph) {
					return k, true
				}
			}
			return 0, false
		}
		var idxVal ssa.Value = ia.Index
		switch x := ia.Index.(type) {
		case *ssa.Phi:
			if k, ok := classify(x); ok && k == 0 {
				ind = x
			}
		case *ssa.BinOp:
			if ph, ok := x.X.(*ssa.Phi); ok && step(x, ph) {
				if k, ok := classify(ph); ok && k == -1 && (ph.Edges[0] == ssa.Value(x) || ph.Edges[1] == ssa.Value(x)) {
					ind = ph
				}
			}
		}
		if ind == nil {
			fl.detail = "the pending queue is not flushed front to back (the element index is not a counter running up from 0 in steps of 1)"
			return fl, true
		}
		// the loop runs while idx < len(q)
		bo := headerCond()
		okBound := false
		if bo != nil {
			switch {
			case bo.Op == token.LSS && bo.X == idxVal && r.isLenOfQueue(g, ctx, bo.Y, ia.X):
				okBound = true
			case bo.Op == token.GTR && bo.Y == idxVal && r.isLenOfQueue(g, ctx, bo.X, ia.X):
				okBound = true
			case bo.Op == token.NEQ && (bo.X == idxVal && r.isLenOfQueue(g, ctx, bo.Y, ia.X) || bo.Y == idxVal && r.isLenOfQueue(g, ctx, bo.X, ia.X)):
				okBound = true
			}
		}
		if !okBound {
			fl.detail = "the flush loop is not bounded by the length of the pending queue (queued packets could be skipped)"
		}
		return fl, true
	}
	// form 2: for len(q) > 0 { p := q[0]; q = q[1:]; ... }
	if ph, ok := ia.X.(*ssa.Phi); ok && h != nil && ph.Block() == h && len(ph.Edges) == 2 {
		for i := 0; i < 2; i++ {
			snap, ok := r.queueSnapshot(g, ctx, ph.Edges[i])
			if !ok {
				continue
			}
			fl.snap = snap
			fl.head = g.nodeOf(ctx, h.Instrs[0])
			sl, isSl := ph.Edges[1-i].(*ssa.Slice)
			popOK := isSl && sl.X == ssa.Value(ph) && sl.High == nil && sl.Low != nil
			if popOK {
				k, isK := constInt(sl.Low)
				popOK = isK && k == 1
			}
			k0, isK0 := constInt(ia.Index)
			if !popOK || !isK0 || k0 != 0 {
				fl.detail = "the pending queue is not flushed front to back (expected q[0] followed by q = q[1:])"
				return fl, true
			}
			bo := headerCond()
			okBound := bo != nil && (bo.Op == token.GTR && lenOf(bo.X, ph) && c31IsZero(bo.Y) ||
				bo.Op == token.LSS && lenOf(bo.Y, ph) && c31IsZero(bo.X) ||
				bo.Op == token.NEQ && (lenOf(bo.X, ph) && c31IsZero(bo.Y) || lenOf(bo.Y, ph) && c31IsZero(bo.X)))
			if !okBound {
				fl.detail = "the flush loop does not run until the pending queue is empty (queued packets could be skipped)"
			}
			return fl, true
		}
	}
	return c31Flush{}, false
}

func c31IsZero(v ssa.Value) bool { k, ok := constInt(v); return ok && k == 0 }

// isLenOfQueue: v is len(q') where q' denotes the same queue value as q.
func (r *c31Run) isLenOfQueue(g *c31Graph, ctx *c31Ctx, v ssa.Value, q ssa.Value) bool {
	call, ok := v.(*ssa.Call)
	if !ok || calleeName(&call.Call) != "builtin:len" {
		return false
	}
	if call.Call.Args[0] == q {
		return true
	}
	a, okA := r.queueSnapshot(g, ctx, call.Call.Args[0])
	b, okB := r.queueSnapshot(g, ctx, q)
	return okA && okB && a == b && a != nil
}

func (r *c31Run) kexCompleteRule(f *ssa.Function) {
	c := r.c
	g := r.graph(f)
	name := fnName(f)
	const rule = "C31.kex-complete"
	isClear := func(n *c31Node) bool { v, ok := c31Store(n, "sentInitMsg"); return ok && isNilConst(v) }
	isTrunc := func(n *c31Node) bool { v, ok := c31Store(n, "pendingPackets"); return ok && c31ZeroLen(v) }
	isExit := func(n *c31Node) bool { return n == g.exit }
	clears := g.where(isClear)
	truncs := g.where(isTrunc)
	var flushes []c31Flush
	for _, w := range g.where(c31IsConnWrite) {
		if fl, ok := r.flushOf(g, w); ok {
			flushes = append(flushes, fl)
		}
	}
	newKeys, okNK := pkgConstInt(c, "ssh", "msgNewKeys")
	nks := g.where(func(n *c31Node) bool { return okNK && c31IsNewKeysWrite(n, newKeys) })

	if len(clears) == 0 {
		c.fail(rule, name, f, "sentInitMsg is never reset to nil in kexLoop or its helpers: after a completed key exchange application writers keep queueing and blocking as if it were still in progress")
		return
	}
	// ---- (a) the reset happens only after, and always after, the routine that sends NEWKEYS
	if len(nks) == 0 {
		c.fail(rule, name+" kex before reset", f, "the NEWKEYS write (t.conn.writePacket([]byte{msgNewKeys})) was not found below kexLoop (anchor lost)")
	} else {
		kexCtx := map[*c31Ctx]bool{}
		inRoot := false
		for _, n := range nks {
			if n.ctx.parent == nil {
				inRoot = true
			}
			for x := n.ctx; x != nil && x.parent != nil; x = x.parent {
				kexCtx[x] = true
			}
		}
		isNK := func(n *c31Node) bool { return okNK && c31IsNewKeysWrite(n, newKeys) }
		kexDone := func(n *c31Node) bool {
			if _, isRet := n.in.(*ssa.Return); isRet && kexCtx[n.ctx] {
				return true
			}
			return inRoot && isNK(n)
		}
		var outer []*c31Node
		for _, n := range g.where(kexDone) {
			if n.ctx.parent == nil || !kexCtx[n.ctx.parent] {
				outer = append(outer, n)
			}
		}
		bad := ""
		var at poser = clears[0]
		if n := g.search([]*c31Node{g.entry}, false, nil, kexDone, isClear); n != nil {
			bad, at = "sentInitMsg can be reset although the key exchange routine (which sends NEWKEYS) has not run: application packets could be written between our KEXINIT and NEWKEYS", n
		} else if n := g.search(clears, true, nil, kexDone, isClear); n != nil {
			bad, at = "sentInitMsg can be reset a second time without another key exchange having run", n
		} else if n := g.search(outer, true, nil, isClear, func(n *c31Node) bool { return isExit(n) || isNK(n) }); n != nil {
			bad = "after the key exchange routine returns kexLoop can exit or start the next exchange without resetting sentInitMsg"
		}
		c.check(bad == "", rule, name+" kex before reset", at, "sentInitMsg is reset only after, and always after, the routine that sends NEWKEYS has returned", bad)
	}
	// ---- (b) one critical section: reset, flush and truncation
	if len(flushes) == 0 || len(truncs) == 0 {
		what := "no loop handing the elements of pendingPackets to the connection"
		if len(flushes) > 0 {
			what = "no store of an empty pendingPackets"
		}
		c.fail(rule, name, clears[0], what+" found in kexLoop or its helpers: queued packets are never flushed / would be sent again after the next key exchange")
	} else {
		held := true
		unheld := ""
		chk := func(what string, ns ...*c31Node) {
			for _, n := range ns {
				if n != nil && !g.held[n] {
					held = false
					unheld = what
				}
			}
		}
		chk("resetting sentInitMsg", clears...)
		chk("truncating the queue", truncs...)
		var heads, snaps []*c31Node
		for _, fl := range flushes {
			chk("writing a queued packet", fl.write)
			chk("reading the queue", fl.snap)
			if fl.head != nil {
				heads = append(heads, fl.head)
			}
			if fl.snap != nil {
				snaps = append(snaps, fl.snap)
			}
		}
		in := func(set []*c31Node) func(*c31Node) bool {
			m := map[*c31Node]bool{}
			for _, n := range set {
				m[n] = true
			}
			return func(n *c31Node) bool { return m[n] }
		}
		end := func(n *c31Node) bool { return c31IsUnlock(n) || isExit(n) }
		locks := g.backTo(clears, func(n *c31Node) bool { return c31IsLock(n) || c31IsUnlock(n) || n == g.entry })
		bad := ""
		var at poser = clears[0]
		switch {
		case !held:
			bad = "t.mu is not held while " + unheld
		case len(locks) == 0:
			bad = "the Lock that opens the completion section was not found"
		default:
			for _, l := range locks {
				if !c31IsLock(l) {
					bad = "sentInitMsg is reset on a path on which t.mu was not taken"
				}
			}
		}
		if bad == "" {
			if n := g.search(locks, true, nil, isClear, end); n != nil {
				bad, at = "the critical section that completes a key exchange can be left without resetting sentInitMsg", n
			} else if n := g.search(locks, true, nil, in(heads), end); n != nil || len(heads) == 0 {
				bad = "t.mu is released between resetting sentInitMsg and flushing the pending queue (or the flush is skipped): a writer could overtake the queued packets"
			} else if n := g.search(locks, true, nil, isTrunc, end); n != nil {
				bad = "the critical section that completes a key exchange can be left without emptying pendingPackets (t.mu released before the truncation, or no truncation): queued packets would be written again after the next key exchange"
			} else if n := g.search(truncs, true, nil, c31IsUnlock, in(snaps)); n != nil {
				bad, at = "pendingPackets is emptied before the flush reads it: the queued packets are dropped", n
			}
		}
		c.check(bad == "", rule, name, at,
			"sentInitMsg is cleared, the queue flushed and truncated inside one critical section of t.mu",
			"completion section broken: "+bad)
		// in-order flush
		detail := ""
		for _, fl := range flushes {
			if fl.detail != "" {
				detail = fl.detail
			}
		}
		c.check(detail == "", rule, "kexLoop flush order", flushes[0].write, "queued packets are written in queue order, the whole queue", detail)
	}
	// ---- (c) writers are woken after the reset
	r.wakeAfter(g, clears, rule, "kexLoop wake-up", "sentInitMsg is reset", "followed by writeCond.Broadcast before kexLoop takes t.mu again or returns")
}

// wakeAfter: after each of the given nodes a writeCond.Broadcast is executed
// before the goroutine takes t.mu again or leaves the root function.
func (r *c31Run) wakeAfter(g *c31Graph, from []*c31Node, rule, construct, what, okDetail string) bool {
	isBC := func(n *c31Node) bool { return c31CondOp(n, "Broadcast") }
	isSig := func(n *c31Node) bool { return c31CondOp(n, "Signal") }
	sink := func(n *c31Node) bool { return n == g.exit || c31IsLock(n) }
	bad := g.search(from, true, nil, isBC, sink)
	if bad == nil {
		r.c.ok(rule, construct, from[0], okDetail)
		return true
	}
	detail := what + " without waking the writers parked on writeCond: no writeCond.Broadcast before " + fnName(g.root) + " takes t.mu again or returns"
	if s := g.search(from, true, nil, func(n *c31Node) bool { return isBC(n) || sink(n) }, isSig); s != nil {
		detail = what + " and the writers parked on writeCond are woken with Signal, not Broadcast: only one of several blocked writers is released, the others stay blocked although the key exchange completed"
		r.c.fail(rule, construct, s, detail)
		return false
	}
	r.c.fail(rule, construct, from[0], detail)
	return false
}

// ---------------------------------------------------------------------------
// wake-ups

// roots: the functions in whose expansion a store inside f has to be judged:
// f itself when it can be entered from outside the statically known call
// sites (exported, interface method, go/defer, method value, no caller), else
// the roots of its callers.
func (r *c31Run) roots(f *ssa.Function, depth int, seen map[*ssa.Function]bool) []*ssa.Function {
	c := r.c
	if r.invoked == nil {
		r.invoked = map[string]bool{}
		for _, g := range r.fns {
			allInstrs(g, func(in ssa.Instruction) {
				if cc := callCommon(in); cc != nil && cc.IsInvoke() {
					r.invoked[cc.Method.Name()] = true
				}
			})
		}
	}
	self := []*ssa.Function{f}
	if seen[f] || depth >= c31MaxDepth || f.Object() == nil || f.Object().Exported() || f.Parent() != nil {
		return self
	}
	if f.Signature.Recv() != nil && r.invoked[f.Name()] {
		return self
	}
	sites := c.callersOf(f)
	if len(sites) == 0 {
		return self
	}
	seen[f] = true
	var out []*ssa.Function
	have := map[*ssa.Function]bool{}
	for _, ci := range sites {
		if _, isCall := ci.(*ssa.Call); !isCall || ci.Parent().Pkg != f.Pkg || !r.relevant(f) {
			return self
		}
		for _, x := range r.roots(ci.Parent(), depth+1, seen) {
			if !have[x] {
				have[x] = true
				out = append(out, x)
			}
		}
	}
	return out
}

func (r *c31Run) wakeRules() {
	c := r.c
	nSignal := 0
	for _, f := range r.fns {
		for _, ci := range callsNamed(f, "(*sync.Cond).Signal") {
			if c31IsFieldLoad(ci.Common().Args[0], "writeCond") {
				nSignal++
				c.fail("C31.broadcast", "writeCond.Signal in "+fnName(f), ci, "writeCond is signalled, not broadcast: with several writers parked on a full queue only one is released and the others stay blocked after the key exchange completed")
			}
		}
	}
	if nSignal == 0 {
		c.ok("C31.broadcast", "writeCond wake-ups", nil, "writeCond is only ever Broadcast")
	}
	nStores := 0
	for _, f := range r.fns {
		for i, st := range storesTo(f, c31T, "writeError") {
			if _, fresh := st.Addr.(*ssa.FieldAddr).X.(*ssa.Alloc); fresh {
				continue // object under construction
			}
			nStores++
			construct := fmt.Sprintf("writeError store#%d in %s", i, fnName(f))
			okAll, found := true, false
			var rootNames []string
			for _, root := range r.roots(f, 0, map[*ssa.Function]bool{}) {
				g := r.graph(root)
				from := g.where(func(n *c31Node) bool { return n.in == ssa.Instruction(st) })
				if len(from) == 0 {
					continue
				}
				found = true
				rootNames = append(rootNames, fnName(root))
				isBC := func(n *c31Node) bool { return c31CondOp(n, "Broadcast") }
				sink := func(n *c31Node) bool { return n == g.exit || c31IsLock(n) }
				if g.search(from, true, nil, isBC, sink) != nil {
					okAll = false
				}
			}
			if !found {
				c.fail("C31.error-wakes", construct, st, "the store was not found in the expansion of any top-level function that reaches it (helper nesting deeper than the rule follows)")
				continue
			}
			c.check(okAll, "C31.error-wakes", construct, st,
				"followed by writeCond.Broadcast before the goroutine takes t.mu again or leaves "+strings.Join(rootNames, " / "),
				"writeError is set without waking writers parked on writeCond")
		}
	}
	c.check(nStores > 0, "C31.error-wakes", "writeError stores", nil, fmt.Sprintf("%d stores judged", nStores), "no store to writeError found (anchor lost)")
}

// ---------------------------------------------------------------------------
// readLoop shutdown

func (r *c31Run) shutdownRule(f *ssa.Function) {
	c := r.c
	g := r.graph(f)
	isRec := func(n *c31Node) bool { _, ok := c31Store(n, "writeError"); return ok && g.held[n] }
	isClose := func(n *c31Node) bool {
		cc := c31Call(n)
		return cc != nil && calleeName(cc) == "builtin:close" && len(cc.Args) == 1 && c31IsFieldLoad(cc.Args[0], "startKex")
	}
	isExit := func(n *c31Node) bool { return n == g.exit }
	// the store may be skipped when an error is already recorded or there is
	// nothing to record (the value handed over is a nil readError)
	skip := edgeSet{}
	skip.addAll(g.nilEdges("writeError", false))
	skip.addAll(g.nilEdges("readError", true))
	for _, ctx := range g.ctxs {
		for _, b := range ctx.fn.Blocks {
			if len(b.Instrs) == 0 {
				continue
			}
			iff, ok := b.Instrs[len(b.Instrs)-1].(*ssa.If)
			if !ok {
				continue
			}
			bo, ok := iff.Cond.(*ssa.BinOp)
			if !ok || (bo.Op != token.EQL && bo.Op != token.NEQ) {
				continue
			}
			var other ssa.Value
			switch {
			case isNilConst(bo.Y):
				other = bo.X
			case isNilConst(bo.X):
				other = bo.Y
			default:
				continue
			}
			if _, v := c31Resolve(ctx, other); v != other && c31IsFieldLoad(v, "readError") {
				k := 0 // edge on which other == nil
				if bo.Op == token.NEQ {
					k = 1
				}
				skip[edge{b, k}] = true
			}
		}
	}
	bad := ""
	switch {
	case len(g.where(isRec)) == 0:
		bad = "readLoop never records the read error in writeError under t.mu"
	case len(g.where(isClose)) == 0:
		bad = "readLoop never closes startKex"
	case g.search([]*c31Node{g.entry}, false, skip, isRec, isExit) != nil:
		bad = "readLoop can exit without recording the error for writers (writers would hang)"
	case g.search([]*c31Node{g.entry}, false, nil, isClose, isExit) != nil:
		bad = "readLoop can exit without closing startKex (kexLoop would hang)"
	}
	c.check(bad == "", "C31.shutdown", fnName(f), f, "every exit records the read error for writers and closes startKex", bad)
}

var _ = types.Typ
