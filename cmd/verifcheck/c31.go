package main

import (
	"fmt"
	"go/token"
	"strings"

	"golang.org/x/tools/go/ssa"
)

func init() {
	register(&propDef{
		id: "C31", run: runC31, minOblig: 18,
		explanation: "Decides the safety shape of re-keying in ssh/handshake.go: (locking) every WRITE of handshakeTransport.writeError, sentInitPacket, sentInitMsg, pendingPackets, writePacketsLeft, writeBytesLeft, userAuthComplete holds t.mu (resetWriteThresholds is checked at its call sites; constructors are exempt); (no application packet during our key exchange) in writePacket the direct pushPacket is unreachable from function entry and from every writeCond.Wait without crossing a 'sentInitMsg == nil' edge, KEXINIT/NEWKEYS from the application are refused before anything else, and packets are queued only while len(pendingPackets) < maxPendingPackets (evaluated); (completion) in kexLoop, after enterKeyExchange, the clearing of sentInitMsg, the in-order flush of pendingPackets, its truncation and the wake-up of blocked writers all execute with t.mu held without an intervening Unlock, and the flush iterates the queue by increasing index; (wake-ups) writeCond is only ever Broadcast, never Signal (several writers can be parked), and every store to writeError is followed by a Broadcast before t.mu is released; (shutdown) readLoop's exit records the error and closes startKex on every path. NOT decided: exactly-once delivery and per-writer order under all schedules, absence of deadlock in general (liveness).",
		assumptions: []string{"sync.Cond.Wait re-acquires the lock; a deferred Unlock releases at return"},
	})
	tech("C31", "lockset analysis (write-guard table, critical-section continuity), must-cross rules from Cond.Wait points, barrier-before-sink path rules, finite-domain evaluation of the queue bound")
}

func runC31(c *Ctx) {
	fns := c.funcsOfPkg("ssh")
	exempt := map[string]string{
		"newHandshakeTransport":                      "constructor, object not yet shared",
		"newClientTransport":                         "constructor, object not yet shared",
		"newServerTransport":                         "constructor, object not yet shared",
		"(*handshakeTransport).resetWriteThresholds": "caller holds t.mu (checked at every call site)",
	}
	for _, fld := range []string{"writeError", "sentInitPacket", "sentInitMsg", "pendingPackets", "writePacketsLeft", "writeBytesLeft", "userAuthComplete"} {
		n := c.checkGuarded("C31.lock", fns, guardSpec{"handshakeTransport", fld, ".mu", true}, exempt)
		c.check(n > 0, "C31.lock", "handshakeTransport."+fld, nil, fmt.Sprintf("%d writing functions", n), "no access found (anchor lost)")
	}
	// call sites of resetWriteThresholds hold the lock (or are constructors)
	for _, f := range fns {
		for _, ci := range callsNamed(f, "(*ssh.handshakeTransport).resetWriteThresholds") {
			nm := fnName(f)
			if strings.HasPrefix(nm, "new") {
				c.ok("C31.lock", "resetWriteThresholds called from "+nm, ci, "constructor")
				continue
			}
			li := computeLocks(f)
			c.check(li.at(ci).holds("", ".mu"), "C31.lock", "resetWriteThresholds called from "+nm, ci, "t.mu held at the call", "resetWriteThresholds is called without t.mu")
		}
	}
	isWait := func(in ssa.Instruction) bool { return isCallTo(in, "(*sync.Cond).Wait") }
	// ---- writePacket
	if f := c.fn("ssh", "(*handshakeTransport).writePacket"); f != nil {
		push := callsNamed(f, "(*ssh.handshakeTransport).pushPacket")
		nilYes, _ := func() (y, n []edge) {
			allInstrs(f, func(in ssa.Instruction) {
				if u, ok := in.(*ssa.UnOp); ok && u.Op == token.MUL && isField(u, "handshakeTransport", "sentInitMsg") {
					yy, nn := edgesWhere(u, isNil)
					y = append(y, yy...)
					n = append(n, nn...)
				}
			})
			return
		}()
		if len(push) != 1 || len(nilYes) == 0 {
			c.fail("C31.no-push-during-kex", "(*handshakeTransport).writePacket", f, "pushPacket call or sentInitMsg test not found")
		} else {
			cut := edgeSet{}
			cut.addAll(nilYes)
			bad := ""
			if pathFromEntry(push[0], cut) {
				bad = "pushPacket is reachable from function entry without passing sentInitMsg == nil"
			}
			nWait := 0
			allInstrs(f, func(in ssa.Instruction) {
				if isWait(in) {
					nWait++
					if pathBetween(in, push[0], cut) {
						bad = "after waking up from writeCond.Wait the packet can be pushed without re-checking sentInitMsg == nil (a packet could be written between our KEXINIT and NEWKEYS)"
					}
				}
			})
			c.check(bad == "" && nWait >= 1, "C31.no-push-during-kex", "(*handshakeTransport).writePacket", push[0], fmt.Sprintf("the direct write happens only with sentInitMsg == nil, re-established after each of the %d waits", nWait), bad)
		}
		// KEXINIT / NEWKEYS refused
		kexInit, _ := pkgConstInt(c, "ssh", "msgKexInit")
		newKeys, _ := pkgConstInt(c, "ssh", "msgNewKeys")
		bad := ""
		for _, code := range []int64{kexInit, newKeys} {
			e := newEnv()
			e.bindIndexLoads(f, func(b ssa.Value) bool { return b == ssa.Value(f.Params[1]) }, 0, code)
			e.solve(f)
			for _, ci := range push {
				if e.reach[ci.Block()] {
					bad = fmt.Sprintf("application packet of type %d can be written", code)
				}
			}
			for _, st := range storesTo(f, "handshakeTransport", "pendingPackets") {
				if e.reach[st.Block()] {
					bad = fmt.Sprintf("application packet of type %d can be queued", code)
				}
			}
		}
		c.check(bad == "", "C31.reserved-types", "(*handshakeTransport).writePacket", f, "KEXINIT and NEWKEYS from the application are refused", bad)
		// queue bound
		maxP, okm := pkgConstInt(c, "ssh", "maxPendingPackets")
		var app ssa.Instruction
		for _, st := range storesTo(f, "handshakeTransport", "pendingPackets") {
			app = st
		}
		if !okm || app == nil {
			c.fail("C31.queue-bound", "(*handshakeTransport).writePacket", f, "queue append or maxPendingPackets not found")
		} else {
			bad := ""
			for _, n := range []int64{0, 1, maxP - 1, maxP, maxP + 1} {
				e := newEnv()
				allInstrs(f, func(in ssa.Instruction) {
					if call, ok := in.(*ssa.Call); ok && calleeName(&call.Call) == "builtin:len" && isField(call.Call.Args[0], "handshakeTransport", "pendingPackets") {
						e.bind(call, n)
					}
				})
				e.bindNilTests(f, func(v ssa.Value) bool { return isField(v, "handshakeTransport", "sentInitMsg") }, false)
				e.bindNilTests(f, func(v ssa.Value) bool { return isField(v, "handshakeTransport", "writeError") }, true)
				e.bindIndexLoads(f, func(b ssa.Value) bool { return b == ssa.Value(f.Params[1]) }, 0, 94)
				cut := e.cuts(f)
				got := reach([]*ssa.BasicBlock{f.Blocks[0]}, cut)[app.Block()]
				if got != (n < maxP) {
					bad = fmt.Sprintf("queue length %d (limit %d): packet queued=%v", n, maxP, got)
				}
			}
			c.check(bad == "", "C31.queue-bound", "(*handshakeTransport).writePacket", app, fmt.Sprintf("packets are queued only while fewer than %d are pending", maxP), bad)
		}
	}
	// ---- kexLoop completion section
	if f := c.fn("ssh", "(*handshakeTransport).kexLoop"); f != nil {
		li := computeLocks(f)
		eke := callsNamed(f, "(*ssh.handshakeTransport).enterKeyExchange")
		var clr *ssa.Store
		for _, st := range storesTo(f, "handshakeTransport", "sentInitMsg") {
			if isNilConst(st.Val) {
				clr = st
			}
		}
		var trunc *ssa.Store
		for _, st := range storesTo(f, "handshakeTransport", "pendingPackets") {
			trunc = st
		}
		push := callsNamed(f, "(*ssh.handshakeTransport).pushPacket")
		var bc ssa.Instruction
		allInstrs(f, func(in ssa.Instruction) {
			if isCallTo(in, "(*sync.Cond).Broadcast") {
				bc = in
			}
		})
		if len(eke) != 1 || clr == nil || trunc == nil || len(push) != 1 || bc == nil {
			c.fail("C31.kex-complete", "(*handshakeTransport).kexLoop", f, "anchors not found (enterKeyExchange, sentInitMsg = nil, flush, truncate, Broadcast)")
		} else {
			held := true
			for _, in := range []ssa.Instruction{clr, push[0], trunc} {
				if !li.at(in).holds("", ".mu") {
					held = false
				}
			}
			// no Unlock between the clear and the truncation (one critical
			// section); the wake-up itself may legally follow the Unlock but
			// must happen before the loop re-locks or the function returns
			isUnlock := func(in ssa.Instruction) bool {
				p, d := lockOp(in)
				return d < 0 && strings.HasSuffix(p, ".mu")
			}
			early := passBefore(clr, func(in ssa.Instruction) bool { return in == ssa.Instruction(trunc) }, isUnlock)
			if early == nil {
				early = passBefore(trunc, func(in ssa.Instruction) bool { return in == bc }, func(in ssa.Instruction) bool {
					if p, d := lockOp(in); d > 0 && strings.HasSuffix(p, ".mu") {
						return true
					}
					_, isRet := in.(*ssa.Return)
					return isRet
				})
			}
			order := precedes(eke[0], clr) && precedes(clr, trunc) && precedes(trunc, bc)
			// flush precedes truncate on every path: truncation unreachable from clear without passing the flush loop header
			h := innermostLoopHeader(push[0].Block())
			flushFirst := h != nil && precedes(clr, h.Instrs[0]) && h.Dominates(trunc.Block())
			c.check(held && early == nil && order && flushFirst, "C31.kex-complete", "(*handshakeTransport).kexLoop", clr,
				"sentInitMsg is cleared, the queue flushed and truncated and waiters woken inside one critical section",
				fmt.Sprintf("completion section broken: lock held at all four steps=%v, unlock before wake-up=%v, order clear<flush<truncate<broadcast=%v/%v", held, early != nil, flushFirst, order))
			// in-order flush: pushPacket's argument is pendingPackets[i] with i a +1 index
			inOrder := false
			if u, ok := push[0].Common().Args[1].(*ssa.UnOp); ok {
				if ia, ok := u.X.(*ssa.IndexAddr); ok && isField(ia.X, "handshakeTransport", "pendingPackets") {
					idx := ia.Index
					if bo, ok := idx.(*ssa.BinOp); ok && bo.Op == token.ADD {
						if k, ok := constInt(bo.Y); ok && k == 1 {
							if ph, ok := bo.X.(*ssa.Phi); ok {
								for _, e := range ph.Edges {
									if k, ok := constInt(e); ok && k == -1 {
										inOrder = true
									}
								}
							}
						}
					}
					if ph, ok := idx.(*ssa.Phi); ok {
						for _, e := range ph.Edges {
							if k, ok := constInt(e); ok && k == 0 {
								inOrder = true
							}
						}
					}
				}
			}
			c.check(inOrder, "C31.kex-complete", "kexLoop flush order", push[0], "queued packets are written in queue order", "the pending queue is not flushed front to back")
		}
	}
	// ---- wake-ups
	nSignal := 0
	for _, f := range fns {
		for _, ci := range callsNamed(f, "(*sync.Cond).Signal") {
			if isField(ci.Common().Args[0], "handshakeTransport", "writeCond") {
				nSignal++
				c.fail("C31.broadcast", "writeCond.Signal in "+fnName(f), ci, "writeCond is signalled, not broadcast: with several writers parked on a full queue only one is released and the others stay blocked after the key exchange completed")
			}
		}
	}
	if nSignal == 0 {
		c.ok("C31.broadcast", "writeCond wake-ups", nil, "writeCond is only ever Broadcast")
	}
	for _, f := range fns {
		if strings.HasPrefix(fnName(f), "new") {
			continue
		}
		for i, st := range storesTo(f, "handshakeTransport", "writeError") {
			isBC := func(in ssa.Instruction) bool {
				return isCallTo(in, "(*sync.Cond).Broadcast") && isField(callCommon(in).Args[0], "handshakeTransport", "writeCond")
			}
			// a wake-up may legally follow the Unlock; it must come before the
			// function returns or takes the lock again
			isRelease := func(in ssa.Instruction) bool {
				if p, d := lockOp(in); d > 0 && strings.HasSuffix(p, ".mu") {
					return true
				}
				_, isRet := in.(*ssa.Return)
				return isRet
			}
			bad := passBefore(st, isBC, isRelease)
			c.check(bad == nil, "C31.error-wakes", fmt.Sprintf("writeError store#%d in %s", i, fnName(f)), st, "followed by writeCond.Broadcast before the function returns or re-locks", "writeError is set without waking writers parked on writeCond")
		}
	}
	// ---- readLoop shutdown
	if f := c.fn("ssh", "(*handshakeTransport).readLoop"); f != nil {
		rec := callsNamed(f, "(*ssh.handshakeTransport).recordWriteError")
		var cl []ssa.Instruction
		for _, ci := range calls(f, nameIs("builtin:close")) {
			if isField(ci.Common().Args[0], "handshakeTransport", "startKex") {
				cl = append(cl, ci)
			}
		}
		ok := len(rec) == 1 && len(cl) == 1
		if ok {
			for _, x := range []ssa.Instruction{rec[0], cl[0]} {
				avoid := map[*ssa.BasicBlock]bool{x.Block(): true}
				r := reachAvoiding([]*ssa.BasicBlock{f.Blocks[0]}, nil, avoid)
				for _, rt := range returnsOf(f) {
					if r[rt.Block()] {
						ok = false
					}
				}
			}
		}
		c.check(ok, "C31.shutdown", "(*handshakeTransport).readLoop", f, "every exit records the read error for writers and closes startKex", "readLoop can exit without recording the error / closing startKex (writers or kexLoop would hang)")
	}
}
