package main

import (
	"fmt"
	"go/types"
	"strings"

	"golang.org/x/tools/go/ssa"
)

const c35U32Max = int64(1)<<32 - 1

// c35ParamOfKind: the first non-receiver parameter of f whose type satisfies
// sel (parameters are identified by type/position, never by name).
func c35ParamWhere(f *ssa.Function, sel func(t types.Type) bool) *ssa.Parameter {
	start := 0
	if f.Signature.Recv() != nil {
		start = 1
	}
	for _, p := range f.Params[start:] {
		if sel(p.Type()) {
			return p
		}
	}
	return nil
}

func c35IsKind(k types.BasicKind) func(t types.Type) bool {
	return func(t types.Type) bool {
		b, ok := t.Underlying().(*types.Basic)
		return ok && b.Kind() == k
	}
}

// ---------------------------------------------------------------------------
// minPayloadSize

func c35MinPayload(c *Ctx) {
	f := c.fn("ssh", "minPayloadSize")
	if f == nil {
		return
	}
	pl, pn := c35ParamWhere(f, c35IsKind(types.Uint32)), c35ParamWhere(f, c35IsKind(types.Int))
	if pl == nil || pn == nil {
		c.fail("C35.min-payload", "minPayloadSize", f, "anchor lost: no (uint32 limit, int length) parameters")
		return
	}
	bad, n := "", 0
	for _, lim := range []int64{9, 32768, 1 << 31, c35U32Max} {
		for _, ln := range []int64{0, 1, 8, 9, 10, 32768, 1 << 31, c35U32Max, 1 << 32, 1<<32 + 5, 1 << 40} {
			m := newC35m()
			w := m.walker(2000)
			w.env.bind(pl, lim)
			w.env.bind(pn, ln)
			ret, why := c35Run(w, f)
			if why != "" {
				c35Undecided(c, "C35.min-payload", "minPayloadSize", f, why)
				return
			}
			want := min(lim, ln)
			n++
			if v, ok := w.env.eval(ret.Results[0]); !ok || v != want {
				bad = fmt.Sprintf("minPayloadSize(%d, %d) evaluates to %d (ok=%v), want %d", lim, ln, v, ok, want)
			}
		}
	}
	c.check(bad == "", "C35.min-payload", "minPayloadSize", f, fmt.Sprintf("min(limit, length) with no 32-bit truncation (%d cases interpreted)", n), bad)
}

// ---------------------------------------------------------------------------
// window.reserve / window.add

func c35Reserve(c *Ctx) {
	f := c.fn("ssh", "(*window).reserve")
	if f == nil {
		return
	}
	recv := f.Params[0].Name()
	bad, n := "", 0
	for _, avail := range []int64{0, 1, 5, 100, c35U32Max} {
		for _, closed := range []int64{0, 1} {
			for _, req := range []int64{0, 1, 5, 99, 100, 101, c35U32Max} {
				for _, after := range []string{"grant3", "grant200", "close"} {
					blocks := avail == 0 && closed == 0
					if !blocks && after != "grant3" {
						continue
					}
					m := newC35m()
					w := m.walker(4000)
					w.state[recv+".win"] = avail
					w.state[recv+".closed"] = closed
					w.state[recv+".writeWaiters"] = 0
					w.env.bind(f.Params[1], req)
					m.call = func(w *pathWalker, ci ssa.CallInstruction, name string) string {
						if name != "(*sync.Cond).Wait" {
							return ""
						}
						win, _ := c35StGet(w, "win")
						cl, _ := c35StGet(w, "closed")
						if win > 0 || cl != 0 {
							// the specification lets reserve proceed here; make the loop end
							c35StSet(w, "win", c35U32Max)
							c35StSet(w, "closed", 1)
							return "wait-with-space"
						}
						switch after {
						case "grant3":
							c35StSet(w, "win", 3)
						case "grant200":
							c35StSet(w, "win", 200)
						default:
							c35StSet(w, "closed", 1)
						}
						return "wait"
					}
					ret, why := c35Run(w, f)
					n++
					if why != "" {
						c35Undecided(c, "C35.reserve", "(*window).reserve", f, fmt.Sprintf("available=%d closed=%d request=%d: %s", avail, closed, req, why))
						return
					}
					av, cl, waits := avail, closed, 0
					if blocks {
						waits = 1
						switch after {
						case "grant3":
							av = 3
						case "grant200":
							av = 200
						default:
							cl = 1
						}
					}
					want := min(req, av)
					gotWaits, early := 0, false
					for _, ev := range w.events {
						switch ev {
						case "wait":
							gotWaits++
						case "wait-with-space":
							early = true
						}
					}
					pre := fmt.Sprintf("available=%d closed=%d request=%d", avail, closed, req)
					if early {
						bad = pre + ": reserve keeps waiting although window space is available (or the window is closed) — a writer whose request exceeds what the peer grants at once never resumes"
						continue
					}
					if gotWaits != waits {
						bad = fmt.Sprintf("%s: waits %d time(s), specification %d", pre, gotWaits, waits)
						continue
					}
					rv, ok1 := w.env.eval(ret.Results[0])
					nv, ok2 := w.state[recv+".win"]
					if !ok1 || !ok2 || rv != want || nv != av-want {
						bad = fmt.Sprintf("%s: returns %d (ok=%v) and leaves %d (ok=%v) in the window; want %d and %d", pre, rv, ok1, nv, ok2, want, av-want)
						continue
					}
					if len(ret.Results) > 1 {
						code, ok := m.code(ret.Results[1])
						wantCode := c35Nil
						if cl != 0 {
							wantCode = c35EOF
						}
						if !ok || code != wantCode {
							bad = fmt.Sprintf("%s: error result class %d (known=%v), want %d (0 nil, 1 io.EOF)", pre, code, ok, wantCode)
						}
					}
				}
			}
		}
	}
	c.check(bad == "", "C35.reserve", "(*window).reserve", f, fmt.Sprintf("reserves min(request, available), never underflows, blocks only while the window is empty and open (%d cases interpreted)", n), bad)
}

func c35Add(c *Ctx) {
	f := c.fn("ssh", "(*window).add")
	if f == nil {
		return
	}
	recv := f.Params[0].Name()
	bad, n := "", 0
	for _, cur := range []int64{0, 1, 1 << 31, c35U32Max - 1, c35U32Max} {
		for _, add := range []int64{0, 1, 2, 1 << 31, c35U32Max} {
			m := newC35m()
			w := m.walker(2000)
			w.state[recv+".win"] = cur
			w.state[recv+".closed"] = 0
			w.state[recv+".writeWaiters"] = 0
			w.env.bind(f.Params[1], add)
			m.call = func(w *pathWalker, ci ssa.CallInstruction, name string) string {
				if name == "(*sync.Cond).Broadcast" || name == "(*sync.Cond).Signal" {
					return "wake"
				}
				return ""
			}
			ret, why := c35Run(w, f)
			n++
			if why != "" {
				c35Undecided(c, "C35.reserve", "(*window).add", f, fmt.Sprintf("win=%d add=%d: %s", cur, add, why))
				return
			}
			overflow := cur+add > c35U32Max
			wantWin, wantRet := cur+add, int64(1)
			if overflow {
				wantWin, wantRet = cur, 0
			}
			rv, ok1 := w.env.eval(ret.Results[0])
			nv, ok2 := w.state[recv+".win"]
			woke := false
			for _, ev := range w.events {
				woke = woke || ev == "wake"
			}
			switch {
			case !ok1 || !ok2 || rv != wantRet || nv != wantWin:
				bad = fmt.Sprintf("win=%d add=%d: overflow=%v but returns %d (ok=%v) and leaves win=%d (ok=%v); want %d and %d", cur, add, overflow, rv, ok1, nv, ok2, wantRet, wantWin)
			case !overflow && add > 0 && !woke:
				bad = fmt.Sprintf("win=%d add=%d: the window is enlarged without waking the writers blocked in reserve", cur, add)
			}
		}
	}
	c.check(bad == "", "C35.reserve", "(*window).add", f, fmt.Sprintf("a window update that would exceed 2^32-1 is rejected, any other is added and wakes blocked writers (%d cases interpreted)", n), bad)
}

// ---------------------------------------------------------------------------
// handleData

// c35BufRole: which of the channel's buffers a *buffer value denotes.
func c35BufRole(w *pathWalker, v ssa.Value) string {
	if typeName(v.Type()) != "buffer" {
		return ""
	}
	if _, fld, _, ok := fieldOf(v); ok {
		return fld
	}
	return w.cls[v]
}

func c35BufHooks(m *c35m) {
	prevPhi, prevInl := m.phi, m.inl
	m.phi = func(w *pathWalker, ph *ssa.Phi, in ssa.Value) {
		if r := c35BufRole(w, in); r != "" {
			w.cls[ph] = r
		}
		if prevPhi != nil {
			prevPhi(w, ph, in)
		}
	}
	m.inl = func(parent, child *pathWalker, callee *ssa.Function, args []ssa.Value) {
		for i, p := range callee.Params {
			if i < len(args) {
				if r := c35BufRole(parent, args[i]); r != "" {
					parent.cls[p] = r
				}
			}
		}
		if prevInl != nil {
			prevInl(parent, child, callee, args)
		}
	}
}

func c35HandleData(c *Ctx) {
	f := c.fn("ssh", "(*channel).handleData")
	if f == nil {
		return
	}
	rule, cons := "C35.handle-data", "(*channel).handleData"
	opData, ok1 := pkgConstInt(c, "ssh", "msgChannelData")
	opExt, ok2 := pkgConstInt(c, "ssh", "msgChannelExtendedData")
	pk := c35ParamWhere(f, c35IsBytes)
	if !ok1 || !ok2 || pk == nil {
		c.fail(rule, cons, f, "anchor lost: message type constants or the packet parameter")
		return
	}
	recv, pkn := f.Params[0].Name(), pk.Name()
	const maxIn = 32768
	type variant struct {
		op, hdr, code int64
	}
	variants := []variant{{opData, 9, 0}, {opExt, 13, 1}, {opExt, 13, 2}, {opExt, 13, 1 << 31}}
	bad, badCredit, undec, n := "", "", "", 0
	run := func(v variant, pktLen, L, W int64) (win int64, code int64, events []string, why string) {
		m := newC35m()
		c35BytesHooks(m)
		c35BufHooks(m)
		w := m.walker(4000, "write", "adjustWindow")
		w.state[recv+".myWindow"] = W
		w.env.bind(pk, pktLen)
		w.cls[pk], w.off[pk] = "pkt", 0
		content := map[int64]int64{}
		put := func(i, b int64) {
			if i < pktLen {
				w.state[pkn+"["+itoa(i)+"]"] = b & 0xff
				content[i] = b & 0xff
			}
		}
		// a header byte read through a sub-slice of the packet (lf := pkt[5:]; lf[3])
		m.load = func(w *pathWalker, u *ssa.UnOp) (int64, bool) {
			ia, ok := u.X.(*ssa.IndexAddr)
			if !ok || !c35IsBytes(ia.X.Type()) {
				return 0, false
			}
			cl, off, oks := c35Space(w, ia.X)
			k, okk := w.env.eval(ia.Index)
			if !oks || !okk || cl != "pkt" {
				return 0, false
			}
			b, has := content[off+k]
			return b, has
		}
		put(0, v.op)
		for i, b := range []int64{0, 0, 0, 7} {
			put(1+int64(i), b)
		}
		if v.hdr == 13 {
			for i := int64(0); i < 4; i++ {
				put(5+i, v.code>>(8*uint(3-i)))
			}
		}
		for i := int64(0); i < 4; i++ {
			put(v.hdr-4+i, L>>(8*uint(3-i)))
		}
		m.field = func(typ, fld string) (int64, bool) {
			if typ == "channel" && fld == "maxIncomingPayload" {
				return maxIn, true
			}
			return 0, false
		}
		m.call = func(w *pathWalker, ci ssa.CallInstruction, name string) string {
			args := ci.Common().Args
			switch name {
			case "(*ssh.buffer).write":
				role := c35BufRole(w, args[0])
				if role == "" {
					role = "unknown-buffer"
				}
				cl, off, oks := c35Space(w, args[1])
				ln, okl := w.env.eval(args[1])
				if !oks || !okl || cl != "pkt" {
					return "write " + role + " unknown-data"
				}
				return c35Ev("write "+role, off, ln)
			case "(*ssh.channel).adjustWindow":
				m.retErr(w, ci, c35Nil)
				if a, ok := w.env.eval(args[1]); ok {
					return c35Ev("credit", a)
				}
				return "credit unknown"
			}
			return ""
		}
		ret, why := c35Run(w, f)
		if why != "" {
			return 0, 0, nil, why
		}
		win, okw := w.state[recv+".myWindow"]
		if !okw {
			return 0, 0, nil, "myWindow is no longer tracked"
		}
		code, okc := m.code(ret.Results[0])
		if !okc {
			code = -1
		}
		return win, code, w.events, ""
	}
	judge := func(v variant, pktLen, L, D, W int64, well bool) {
		win, code, events, why := run(v, pktLen, L, W)
		n++
		pre := fmt.Sprintf("type=%d code=%d length=%d len(data)=%d myWindow=%d", v.op, v.code, L, D, W)
		if !well {
			pre = fmt.Sprintf("type=%d packet of %d bytes (header %d)", v.op, pktLen, v.hdr)
		}
		if why != "" {
			if undec == "" {
				undec = pre + ": " + why
			}
			return
		}
		charged := well && L != 0 && L <= maxIn && L == D && W >= L
		var writes, credits []string
		creditSum := int64(0)
		for _, ev := range events {
			kind, nums, _ := c35Parse(ev)
			switch kind {
			case "write":
				writes = append(writes, ev)
			case "credit":
				credits = append(credits, ev)
				if len(nums) == 1 {
					creditSum += nums[0]
				} else {
					creditSum = -1 << 40
				}
			}
		}
		if !charged {
			switch {
			case win != W:
				bad = fmt.Sprintf("%s: window charged (myWindow becomes %d) although the specification rejects or ignores this packet", pre, win)
			case len(writes) > 0 || len(credits) > 0:
				bad = fmt.Sprintf("%s: rejected packet still has effects %v %v", pre, writes, credits)
			case (!well || L != 0) && code == c35Nil:
				bad = fmt.Sprintf("%s: the violation is not reported (nil error)", pre)
			}
			return
		}
		if win != W-L {
			bad = fmt.Sprintf("%s: myWindow becomes %d, want %d", pre, win, W-L)
			return
		}
		if code != c35Nil {
			bad = fmt.Sprintf("%s: compliant data is answered with an error (class %d)", pre, code)
			return
		}
		wantBuf := "pending"
		if v.code == 1 {
			wantBuf = "extPending"
		}
		if v.code > 1 {
			if len(writes) > 0 {
				bad = fmt.Sprintf("%s: undeliverable extended data is buffered: %v", pre, writes)
			}
			if creditSum != L {
				badCredit = fmt.Sprintf("%s: discarded extended data is not credited back to the window with its length (credited %v)", pre, credits)
			}
			return
		}
		want := c35Ev("write "+wantBuf, v.hdr, L)
		if len(writes) != 1 || writes[0] != want || len(credits) > 0 {
			bad = fmt.Sprintf("%s: delivery %v %v, want exactly [%s] (buffer, payload offset, length)", pre, writes, credits, want)
		}
	}
	for _, v := range variants {
		for short := int64(1); short < v.hdr; short += 3 {
			judge(v, short, 1, 0, 100, false)
		}
		for _, L := range []int64{0, 1, 100, 32768, 32769, c35U32Max} {
			for _, W := range []int64{0, 1, 99, 100, 101, 2097152} {
				for _, D := range []int64{0, 1, 100, 32768, 32769} {
					judge(v, v.hdr+D, L, D, W, true)
				}
			}
		}
	}
	if undec != "" {
		c35Undecided(c, rule, cons, f, undec)
		return
	}
	c.check(bad == "", rule, cons, f, fmt.Sprintf("window is charged exactly for well-formed data within the window, which is delivered intact to its stream; everything else is rejected without effect (%d cases interpreted)", n), bad)
	c.check(badCredit == "", rule, cons+" credit for discarded data", f, "extended data that cannot be read is credited back with its full length", badCredit)
}

// ---------------------------------------------------------------------------
// ReadExtended

func c35ReadExtended(c *Ctx) {
	f := c.fn("ssh", "(*channel).ReadExtended")
	if f == nil {
		return
	}
	rule, cons := "C35.read-credit", "(*channel).ReadExtended"
	pd, pe := c35ParamWhere(f, c35IsBytes), c35ParamWhere(f, c35IsKind(types.Uint32))
	if pd == nil || pe == nil {
		c.fail(rule, cons, f, "anchor lost: no ([]byte, uint32) parameters")
		return
	}
	bad, n := "", 0
	for _, ext := range []int64{0, 1, 2} {
		for _, nRead := range []int64{0, 1, 5, 32768} {
			for _, readCode := range []int64{c35Nil, c35EOF} {
				for _, adjCode := range []int64{c35Nil, c35EOF, c35Other} {
					m := newC35m()
					c35BufHooks(m)
					w := m.walker(2000, "Read", "adjustWindow")
					w.env.bind(pd, 65536)
					w.env.bind(pe, ext)
					m.call = func(w *pathWalker, ci ssa.CallInstruction, name string) string {
						args := ci.Common().Args
						switch name {
						case "(*ssh.buffer).Read":
							role := c35BufRole(w, args[0])
							if role == "" {
								role = "unknown-buffer"
							}
							m.retTuple(w, ci, []optInt{{nRead, true}, {}}, []optInt{{}, {readCode, true}})
							return "read " + role
						case "(*ssh.channel).adjustWindow":
							m.retErr(w, ci, adjCode)
							if a, ok := w.env.eval(args[1]); ok {
								return c35Ev("credit", a)
							}
							return "credit unknown"
						}
						return ""
					}
					ret, why := c35Run(w, f)
					n++
					pre := fmt.Sprintf("extended=%d, buffer yields n=%d", ext, nRead)
					if why != "" {
						c35Undecided(c, rule, cons, f, pre+": "+why)
						return
					}
					var reads []string
					credit := int64(0)
					for _, ev := range w.events {
						kind, nums, strs := c35Parse(ev)
						switch kind {
						case "read":
							reads = append(reads, strs...)
						case "credit":
							if len(nums) == 1 {
								credit += nums[0]
							} else {
								credit = -1 << 40
							}
						}
					}
					wantN, wantReads := nRead, "[pending]"
					switch ext {
					case 1:
						wantReads = "[extPending]"
					case 2:
						wantN, wantReads = 0, "[]"
					}
					got, okg := w.env.eval(ret.Results[0])
					switch {
					case fmt.Sprint(reads) != wantReads:
						bad = fmt.Sprintf("%s: reads from %v, want %s", pre, reads, wantReads)
					case !okg || got != wantN:
						bad = fmt.Sprintf("%s: returns n=%d (ok=%v), want %d", pre, got, okg, wantN)
					case credit != wantN:
						bad = fmt.Sprintf("%s: bytes handed to the application are not (exactly) credited through adjustWindow(n): credited %d", pre, credit)
					}
				}
			}
		}
	}
	c.check(bad == "", rule, cons, f, fmt.Sprintf("every read of n > 0 bytes from the selected stream is credited by adjustWindow(n), nothing else is (%d cases interpreted)", n), bad)
}

// ---------------------------------------------------------------------------
// adjustWindow

func c35AdjustWindow(c *Ctx) {
	f := c.fn("ssh", "(*channel).adjustWindow")
	if f == nil {
		return
	}
	rule, cons := "C35.adjust-order", "(*channel).adjustWindow"
	chanWin, okc := pkgConstInt(c, "ssh", "channelWindowSize")
	if !okc {
		c.fail(rule, cons, f, "anchor lost: channelWindowSize")
		return
	}
	recv := f.Params[0].Name()
	const maxIn = 32768
	bad, n, announced := "", 0, 0
	for _, W := range []int64{0, 100, chanWin/2 - 1, chanWin / 2, chanWin - 3*maxIn - 1, chanWin - 3*maxIn, chanWin - 1} {
		for _, C := range []int64{0, 7, 40000} {
			for _, A := range []int64{1, 32768} {
				m := newC35m()
				w := m.walker(2000, "sendMessage", "writePacket")
				w.state[recv+".myWindow"] = W
				w.state[recv+".myConsumed"] = C
				w.env.bind(f.Params[1], A)
				m.field = func(typ, fld string) (int64, bool) {
					if typ == "channel" && fld == "maxIncomingPayload" {
						return maxIn, true
					}
					return 0, false
				}
				m.store = func(w *pathWalker, st *ssa.Store) string {
					if typ, fld, _, ok := fieldOf(st.Addr); ok && typ == "windowAdjustMsg" && fld == "AdditionalBytes" {
						if v, ok := w.env.eval(st.Val); ok {
							return c35Ev("adj", v)
						}
						return "adj unknown"
					}
					return ""
				}
				m.call = func(w *pathWalker, ci ssa.CallInstruction, name string) string {
					switch name {
					case "(*ssh.channel).sendMessage", "(*ssh.channel).writePacket", "(*ssh.mux).sendMessage":
						m.retErr(w, ci, c35Nil)
						if win, ok := c35StGet(w, "myWindow"); ok {
							return c35Ev("send", win)
						}
						return "send unknown"
					}
					return ""
				}
				_, why := c35Run(w, f)
				n++
				pre := fmt.Sprintf("myWindow=%d myConsumed=%d adj=%d", W, C, A)
				if why != "" {
					c35Undecided(c, rule, cons, f, pre+": "+why)
					return
				}
				cum, lastAdj := int64(0), int64(-1)
				for _, ev := range w.events {
					kind, nums, _ := c35Parse(ev)
					switch kind {
					case "adj":
						lastAdj = -1
						if len(nums) == 1 {
							lastAdj = nums[0]
						}
					case "send":
						announced++
						switch {
						case lastAdj < 0 || len(nums) != 1:
							bad = pre + ": a message is sent whose announced amount (windowAdjustMsg.AdditionalBytes) or the window state at that moment cannot be determined"
						case lastAdj == 0:
							bad = pre + ": a WINDOW_ADJUST of zero bytes can be sent"
						default:
							cum += lastAdj
							if nums[0] != W+cum {
								bad = fmt.Sprintf("%s: the WINDOW_ADJUST message for %d bytes can be sent before the enlarged window is recorded in myWindow (myWindow is %d at the send, must be %d; the peer may use the granted window while handleData still checks the old value)", pre, lastAdj, nums[0], W+cum)
							}
						}
						lastAdj = -1
					}
				}
				fw, ok1 := w.state[recv+".myWindow"]
				fc, ok2 := w.state[recv+".myConsumed"]
				switch {
				case bad != "":
				case !ok1 || !ok2:
					bad = pre + ": myWindow / myConsumed no longer tracked"
				case fw != W+cum:
					bad = fmt.Sprintf("%s: the amount announced in WINDOW_ADJUST (%d) is not the amount added to myWindow (%d)", pre, cum, fw-W)
				case fc+cum != C+A:
					bad = fmt.Sprintf("%s: consumed bytes are lost or counted twice: %d pending + %d announced, want %d in total", pre, fc, cum, C+A)
				case fw == 0 && fc > 0:
					bad = fmt.Sprintf("%s: the advertised window stays 0 while %d consumed bytes are held back (the peer can never send again)", pre, fc)
				}
			}
		}
	}
	if bad == "" && announced == 0 {
		bad = "no WINDOW_ADJUST is ever sent on the grid (send anchor lost)"
	}
	c.check(bad == "", rule, cons, f, fmt.Sprintf("myWindow is enlarged, by the amount announced, before WINDOW_ADJUST is sent; consumed bytes are conserved (%d cases interpreted, %d announcements)", n, announced), bad)
}

// ---------------------------------------------------------------------------
// WriteExtended

func c35WriteExtended(c *Ctx) {
	f := c.fn("ssh", "(*channel).WriteExtended")
	if f == nil {
		return
	}
	rule, cons := "C35.write-reserve", "(*channel).WriteExtended"
	opData, ok1 := pkgConstInt(c, "ssh", "msgChannelData")
	opExt, ok2 := pkgConstInt(c, "ssh", "msgChannelExtendedData")
	pd, pe := c35ParamWhere(f, c35IsBytes), c35ParamWhere(f, c35IsKind(types.Uint32))
	if !ok1 || !ok2 || pd == nil || pe == nil {
		c.fail(rule, cons, f, "anchor lost: message type constants or the (data, extendedCode) parameters")
		return
	}
	const remoteID = 0x01020304
	bad, n, packets := "", 0, 0
	for _, ext := range []int64{0, 1} {
		for _, N := range []int64{0, 1, 9, 40, 100} {
			for _, M := range []int64{9, 16, 32768} {
				for _, mode := range []string{"full", "half", "one"} {
					for _, capv := range []int64{0, 1 << 20} {
						m := newC35m()
						c35BytesHooks(m)
						w := m.walker(40000, "reserve", "writePacket")
						w.env.bind(pd, N)
						w.env.bind(pe, ext)
						w.cls[pd], w.off[pd] = "data", 0
						m.field = func(typ, fld string) (int64, bool) {
							if typ != "channel" {
								return 0, false
							}
							switch fld {
							case "sentEOF":
								return 0, true
							case "maxRemotePayload":
								return M, true
							case "remoteId":
								return remoteID, true
							}
							return 0, false
						}
						m.store = func(w *pathWalker, st *ssa.Store) string {
							ia, ok := st.Addr.(*ssa.IndexAddr)
							if !ok || !c35IsBytes(ia.X.Type()) {
								return ""
							}
							cl, off, oks := c35Space(w, ia.X)
							k, okk := w.env.eval(ia.Index)
							v, okv := w.env.eval(st.Val)
							if !oks || !okk {
								return "put unknown"
							}
							if !okv {
								v = -1
							}
							return c35Ev("put "+cl, off+k, 1, v)
						}
						m.call = func(w *pathWalker, ci ssa.CallInstruction, name string) string {
							cc := ci.Common()
							args := cc.Args
							switch {
							case name == "(*ssh.window).reserve":
								req, ok := w.env.eval(args[1])
								if !ok {
									return "reserve unknown"
								}
								got := req
								switch mode {
								case "half":
									got = max(min(req, 1), req/2)
								case "one":
									got = min(req, 1)
								}
								m.retTuple(w, ci, []optInt{{got, true}, {}}, []optInt{{}, {c35Nil, true}})
								return c35Ev("reserve", req, got)
							case name == "(*ssh.channel).writePacket":
								m.retErr(w, ci, c35Nil)
								cl, off, oks := c35Space(w, args[1])
								ln, okl := w.env.eval(args[1])
								if !oks || !okl || cl != "pkt" || off != 0 {
									return "send unknown"
								}
								return c35Ev("send", ln)
							case name == "builtin:cap":
								if v := callValue(ci); v != nil {
									w.env.bind(v, capv)
								}
							case name == "builtin:copy":
								dcl, doff, okd := c35Space(w, args[0])
								scl, soff, oks := c35Space(w, args[1])
								dl, okdl := w.env.eval(args[0])
								sl, oksl := w.env.eval(args[1])
								if !okd || !oks || !okdl || !oksl {
									return "copy unknown"
								}
								return c35Ev("copy "+dcl+" "+scl, doff, dl, soff, sl)
							case name == "builtin:append" && len(args) == 2 && c35IsBytes(args[0].Type()) && c35IsBytes(args[1].Type()):
								v := callValue(ci)
								dcl, doff, okd := c35Space(w, args[0])
								scl, soff, oks := c35Space(w, args[1])
								dl, okdl := w.env.eval(args[0])
								sl, oksl := w.env.eval(args[1])
								if v == nil || !okd || !oks || !okdl || !oksl {
									return "copy unknown"
								}
								w.env.bind(v, dl+sl)
								w.cls[v], w.off[v] = dcl, doff
								return c35Ev("copy "+dcl+" "+scl, doff+dl, sl, soff, sl)
							case strings.HasPrefix(name, "(encoding/binary.") && len(args) == 3:
								meth := name[strings.LastIndex(name, ".")+1:]
								width := int64(0)
								switch strings.TrimPrefix(strings.TrimPrefix(meth, "PutUint"), "AppendUint") {
								case "16":
									width = 2
								case "32":
									width = 4
								case "64":
									width = 8
								}
								if width == 0 || meth[0] == 'U' {
									return ""
								}
								if !strings.HasPrefix(name, "(encoding/binary.bigEndian)") {
									return "put unknown"
								}
								cl, off, oks := c35Space(w, args[1])
								val, okv := w.env.eval(args[2])
								if !oks {
									return "put unknown"
								}
								if !okv {
									val = -1
								}
								if strings.HasPrefix(meth, "Append") {
									dl, okdl := w.env.eval(args[1])
									v := callValue(ci)
									if !okdl || v == nil {
										return "put unknown"
									}
									w.env.bind(v, dl+width)
									w.cls[v], w.off[v] = cl, off
									off += dl
								}
								return c35Ev("put "+cl, off, width, val)
							}
							return ""
						}
						ret, why := c35Run(w, f)
						n++
						pre := fmt.Sprintf("extendedCode=%d len(data)=%d maxRemotePayload=%d window=%s cap(buffer)=%d", ext, N, M, mode, capv)
						if why != "" {
							c35Undecided(c, rule, cons, f, pre+": "+why)
							return
						}
						op, hdr := opData, int64(9)
						if ext > 0 {
							op, hdr = opExt, 13
						}
						msg, np := c35JudgeWrites(w.events, N, M, hdr, op, ext, remoteID)
						packets += np
						if msg == "" {
							if got, ok := w.env.eval(ret.Results[0]); !ok || got != N {
								msg = fmt.Sprintf("returns n=%d (ok=%v) after sending all %d bytes", got, ok, N)
							}
						}
						if msg != "" {
							bad = pre + ": " + msg
						}
					}
				}
			}
		}
	}
	if bad == "" && packets == 0 {
		bad = "no data packet is ever written on the grid (writePacket anchor lost)"
	}
	c.check(bad == "", rule, cons, f, fmt.Sprintf("each packet carries exactly the bytes reserved from the peer's window, at most maxRemotePayload, taken in order from data, with a matching length field (%d cases interpreted, %d packets)", n, packets), bad)
}

// c35JudgeWrites replays the event sequence of one WriteExtended run against
// the specification of the sender side.
func c35JudgeWrites(events []string, N, M, hdr, op, ext, remoteID int64) (string, int) {
	type bt struct {
		v  int64
		at int
	}
	type cp struct{ doff, dlen, soff, slen int64 }
	bytes := map[int64]bt{}
	var copies []cp
	sent, pending, lastSend, packets := int64(0), int64(-1), -1, 0
	be32 := func(off int64) (val int64, fresh, ok bool) {
		fresh = true
		for k := int64(0); k < 4; k++ {
			b, has := bytes[off+k]
			if !has || b.v < 0 {
				return 0, false, false
			}
			fresh = fresh && b.at > lastSend
			val = val<<8 | b.v
		}
		return val, fresh, true
	}
	for i, ev := range events {
		kind, nums, strs := c35Parse(ev)
		switch kind {
		case "reserve":
			if len(nums) != 2 {
				return "the amount asked from the window cannot be determined", packets
			}
			if pending >= 0 {
				return "window space is reserved twice without a packet in between (the first reservation is lost)", packets
			}
			req, rem := nums[0], N-sent
			if req <= 0 || req > M || req > rem {
				return fmt.Sprintf("reserve is asked for %d bytes with %d bytes left to send and a peer packet limit of %d (must be min of the two)", req, rem, M), packets
			}
			pending = nums[1]
		case "put":
			if len(strs) != 1 || len(nums) != 3 {
				return "a byte store into a buffer cannot be located", packets
			}
			if strs[0] != "pkt" {
				return "the caller's data is overwritten", packets
			}
			off, width, v := nums[0], nums[1], nums[2]
			for k := int64(0); k < width; k++ {
				b := int64(-1)
				if v >= 0 {
					b = v >> (8 * uint(width-1-k)) & 0xff
				}
				bytes[off+k] = bt{b, i}
			}
		case "copy":
			if len(strs) != 2 || len(nums) != 4 {
				return "a copy cannot be located", packets
			}
			if strs[0] != "pkt" {
				return "the caller's data is overwritten", packets
			}
			nb := min(nums[1], nums[3])
			for k := int64(0); k < nb && k < 64; k++ {
				delete(bytes, nums[0]+k)
			}
			if strs[1] == "data" {
				copies = append(copies, cp{nums[0], nums[1], nums[2], nums[3]})
			}
		case "send":
			if len(nums) != 1 {
				return "the packet handed to writePacket cannot be determined", packets
			}
			if pending < 0 {
				return "writePacket is not preceded by reserve in the same iteration (a data packet is sent without window)", packets
			}
			g := pending
			if nums[0] != hdr+g {
				return fmt.Sprintf("a packet of %d bytes is written for %d reserved bytes (header %d): the payload of a data packet is not data[:reserved]", nums[0], g, hdr), packets
			}
			lf, fresh, ok := be32(hdr - 4)
			if !ok || !fresh {
				return "the length field of the data packet is not (re)written for this packet", packets
			}
			if lf != g {
				return fmt.Sprintf("the length field says %d for %d reserved payload bytes", lf, g), packets
			}
			if b, has := bytes[0]; !has || b.v != op {
				return fmt.Sprintf("the message type byte is not %d", op), packets
			}
			if id, _, ok := be32(1); !ok || id != remoteID {
				return "the recipient channel field is not the peer's channel id", packets
			}
			if ext > 0 {
				if code, _, ok := be32(5); !ok || code != ext {
					return "the extended data type field is not extendedCode", packets
				}
			}
			found := g == 0
			for _, c := range copies {
				if c.doff == hdr && c.soff == sent && min(c.dlen, c.slen) == g {
					found = true
				}
			}
			if !found {
				return fmt.Sprintf("the payload is not the next %d unsent bytes of data (offset %d) placed after the header", g, sent), packets
			}
			sent += g
			pending, lastSend, copies = -1, i, nil
			packets++
		default:
			return "unrecognised effect " + ev, packets
		}
	}
	if pending >= 0 {
		return "window space is reserved but no packet is sent for it", packets
	}
	if sent != N {
		return fmt.Sprintf("only %d of %d bytes are sent", sent, N), packets
	}
	return "", packets
}

// ---------------------------------------------------------------------------
// MaxPacketSize of CHANNEL_OPEN / CHANNEL_OPEN_CONFIRMATION

func c35SeedAsserts(w *pathWalker, fn *ssa.Function, want string) {
	allInstrs(fn, func(in ssa.Instruction) {
		ta, ok := in.(*ssa.TypeAssert)
		if !ok || !ta.CommaOk {
			return
		}
		if w.tuple == nil {
			w.tuple = map[ssa.Value][]optInt{}
		}
		w.tuple[ta] = []optInt{{}, {c35B2i(typeName(ta.AssertedType) == want), true}}
	})
}

func c35MaxPacket(c *Ctx) {
	minPL, okm := pkgConstInt(c, "ssh", "minPacketLength")
	confirm, okc := pkgConstInt(c, "ssh", "msgChannelOpenConfirm")
	for _, spec := range []struct {
		fn, typ string
	}{
		{"(*channel).handlePacket", "channelOpenConfirmMsg"},
		{"(*mux).handleChannelOpen", "channelOpenMsg"},
	} {
		f := c.fn("ssh", spec.fn)
		if f == nil {
			continue
		}
		pk := c35ParamWhere(f, c35IsBytes)
		if !okm || !okc || pk == nil {
			c.fail("C35.max-packet", spec.fn, f, "anchor not found (minPacketLength, msgChannelOpenConfirm or the packet parameter)")
			continue
		}
		bad, n, accepted := "", 0, 0
		for _, v := range []int64{0, minPL - 1, minPL, 32768, 1 << 31, 1<<31 + 1, c35U32Max} {
			m := newC35m()
			w := m.walker(4000, "decode", "Unmarshal", "newChannel", "sendMessage", "add", "handleData", "close", "remove")
			w.assumeErrNil = true
			w.env.bind(pk, 64)
			w.state[pk.Name()+"[0]"] = confirm
			c35SeedAsserts(w, f, spec.typ)
			m.inl = func(parent, child *pathWalker, callee *ssa.Function, args []ssa.Value) {
				c35SeedAsserts(child, callee, spec.typ)
			}
			m.field = func(typ, fld string) (int64, bool) {
				if typ == spec.typ && fld == "MaxPacketSize" {
					return v, true
				}
				return 0, false
			}
			m.store = func(w *pathWalker, st *ssa.Store) string {
				if typ, fld, _, ok := fieldOf(st.Addr); ok && typ == "channel" && fld == "maxRemotePayload" {
					if x, ok := w.env.eval(st.Val); ok {
						return c35Ev("maxpkt", x)
					}
					return "maxpkt unknown"
				}
				return ""
			}
			m.call = func(w *pathWalker, ci ssa.CallInstruction, name string) string {
				switch name {
				case "ssh.decode":
					m.retTuple(w, ci, []optInt{{}, {}}, []optInt{{}, {c35Nil, true}})
				case "ssh.Unmarshal":
					m.retErr(w, ci, c35Nil)
				case "(*ssh.mux).newChannel":
					return "newchannel"
				}
				return ""
			}
			_, why := c35Run(w, f)
			n++
			if why != "" {
				c35Undecided(c, "C35.max-packet", spec.fn, f, fmt.Sprintf("MaxPacketSize=%d: %s", v, why))
				bad = "-"
				break
			}
			want := v >= minPL && v <= 1<<31
			got, created := false, false
			for _, ev := range w.events {
				kind, nums, _ := c35Parse(ev)
				switch kind {
				case "maxpkt":
					got = true
					if len(nums) != 1 || nums[0] != v {
						bad = fmt.Sprintf("MaxPacketSize=%d: maxRemotePayload receives %v", v, nums)
					}
				case "newchannel":
					created = true
				}
			}
			if got {
				accepted++
			}
			if got != want || (created && !want) {
				bad = fmt.Sprintf("MaxPacketSize=%d: accepted=%v, specification %v", v, got || created, want)
			}
		}
		if bad == "-" {
			continue
		}
		if bad == "" && accepted == 0 {
			bad = "no packet size is ever accepted on the grid (anchor lost: store to channel.maxRemotePayload)"
		}
		c.check(bad == "", "C35.max-packet", spec.fn, f, fmt.Sprintf("peer packet sizes outside [%d, 2^31] are rejected, the others become maxRemotePayload (%d cases interpreted)", minPL, n), bad)
	}
}
