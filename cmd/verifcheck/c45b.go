package main

import (
	"fmt"
	"os"
	"strings"

	"golang.org/x/tools/go/ssa"
)

// c45Subpacket: parseSignatureSubpacket never indexes or slices outside its
// input. The function is interpreted with the input represented by its length
// and by a partial model of its content: the length octet(s) and the type
// octet are fixed per case, every other content byte is unknown (branches on
// unknown bytes are explored on both edges). Cases: input lengths 1..12; the
// one-octet length form with every declared length 0..11 (including longer
// than what follows), the two-octet and five-octet forms with and without
// their header being complete; every subpacket type the function knows plus
// an unknown one, critical bit clear and set; hashed and unhashed area. On no
// explored path may an index or slice bound leave its slice, and a call of
// binary.BigEndian.UintNN must receive at least NN/8 bytes. The caller's
// contract (parseSignatureSubpackets calls only while len > 0) is checked
// separately.
func c45Subpacket(c *Ctx) {
	if os.Getenv("SWEEP_SURVEY") != "" {
		c.sweepSurvey() // development aid: prints the sweep verdict for every candidate function
	}
	c.sweepFunctions("C45.bounds-sweep", []sweepTarget{
		{pkg: "openpgp/packet", fn: "parseSignatureSubpackets", params: []int{1}, maxLen: 9},
		{pkg: "openpgp/packet", fn: "nextSubpacket", params: []int{0}, maxLen: 9},
		{pkg: "openpgp/packet", fn: "OpaqueSubpackets", params: []int{0}, maxLen: 9},
		{pkg: "openpgp/packet", fn: "parseUserId", params: []int{0}, maxLen: 9},
		{pkg: "openpgp/packet", fn: "(*partialLengthReader).Read", params: []int{1}, maxLen: 9},
		{pkg: "openpgp/packet", fn: "(*spanReader).Read", params: []int{1}, maxLen: 9},
		{pkg: "openpgp/packet", fn: "(*seMDCReader).Read", params: []int{1}, maxLen: 9},
		{pkg: "openpgp/packet", fn: "(*SymmetricKeyEncrypted).Decrypt", params: []int{1}, maxLen: 9},
		{pkg: "openpgp/packet", fn: "checksumKeyMaterial", params: []int{0}, maxLen: 9},
		{pkg: "openpgp/packet", fn: "(*PrivateKey).parsePrivateKey", params: []int{1}, maxLen: 9},
		{pkg: "openpgp/packet", fn: "(*PrivateKey).parseRSAPrivateKey", params: []int{1}, maxLen: 9},
		{pkg: "openpgp/packet", fn: "(*PrivateKey).parseDSAPrivateKey", params: []int{1}, maxLen: 9},
		{pkg: "openpgp/packet", fn: "(*PrivateKey).parseElGamalPrivateKey", params: []int{1}, maxLen: 9},
		{pkg: "openpgp/packet", fn: "(*PrivateKey).parseECDSAPrivateKey", params: []int{1}, maxLen: 9},
		{pkg: "openpgp/packet", fn: "unwrapECDSASig", params: []int{0}, maxLen: 9},
		{pkg: "openpgp/armor", fn: "(*lineReader).Read", params: []int{1}, maxLen: 9},
		{pkg: "openpgp/armor", fn: "(*openpgpReader).Read", params: []int{1}, maxLen: 9},
		{pkg: "openpgp/clearsign", fn: "getLine", params: []int{0}, maxLen: 9},
		{pkg: "openpgp", fn: "(*canonicalTextHash).Write", params: []int{1}, maxLen: 9},
		{pkg: "openpgp", fn: "(*signatureCheckReader).Read", params: []int{1}, maxLen: 9},
	})
	const pkg = "openpgp/packet"
	f := c.fn(pkg, "parseSignatureSubpacket")
	if f == nil {
		return
	}
	sub, hashed := f.Params[1], f.Params[2]
	types_ := []int64{2, 3, 9, 11, 16, 21, 22, 25, 27, 29, 30, 32, 99}
	cases, bad := 0, ""
	run := func(L int64, model map[int64]int64, isHashed int64, id string) {
		if bad != "" {
			return
		}
		w := &pathWalker{env: newEnv(), lengths: true, maxSteps: 6000, fork: true, assumeErrNil: true}
		w.env.bind(sub, L)
		w.env.bind(hashed, isHashed)
		w.off = map[ssa.Value]int64{sub: 0}
		w.onSlice = func(w *pathWalker, sl *ssa.Slice) {
			if base, ok := w.off[sl.X]; ok {
				lo := int64(0)
				if sl.Low != nil {
					v, okl := w.env.eval(sl.Low)
					if !okl {
						delete(w.off, sl)
						return
					}
					lo = v
				}
				w.off[sl] = base + lo
			}
		}
		w.onPhi = func(w *pathWalker, ph *ssa.Phi, in ssa.Value) {
			if o, ok := w.off[in]; ok {
				w.off[ph] = o
			} else {
				delete(w.off, ph)
			}
		}
		w.onLoad = func(w *pathWalker, u *ssa.UnOp) (int64, bool) {
			ia, ok := u.X.(*ssa.IndexAddr)
			if !ok {
				return 0, false
			}
			base, okb := w.off[ia.X]
			k, okk := w.env.eval(ia.Index)
			if !okb || !okk {
				return 0, false
			}
			v, known := model[base+k]
			return v, known
		}
		w.onCall = func(w *pathWalker, ci ssa.CallInstruction) string {
			cc := ci.Common()
			n := short(calleeName(cc))
			need := int64(0)
			switch {
			case strings.HasPrefix(n, "(encoding/binary.bigEndian).Uint16"):
				need = 2
			case strings.HasPrefix(n, "(encoding/binary.bigEndian).Uint32"):
				need = 4
			case strings.HasPrefix(n, "(encoding/binary.bigEndian).Uint64"):
				need = 8
			}
			if need > 0 {
				if l, ok := w.env.eval(cc.Args[1]); ok && l < need {
					w.markOOB(ci)
				}
			}
			return ""
		}
		end := w.walk(f.Blocks[0], nil)
		cases++
		ends := append([]string{}, w.forkEnds...)
		if end != "forked" {
			ends = append(ends, end)
		}
		for _, e := range ends {
			if e == "undecided" {
				bad = id + ": " + w.why
				return
			}
			if e == "panic" {
				bad = id + ": an explicit panic is reachable"
				return
			}
		}
		if w.oob || w.beyondLen {
			at := ""
			if w.oobAt != nil {
				at = " at " + c.posStr(w.oobAt.Pos())
			}
			bad = id + ": an index or slice bound leaves the input" + at + " (index out of range panic on attacker-controlled data)"
		}
	}
	for L := int64(1); L <= 12; L++ {
		for _, isHashed := range []int64{0, 1} {
			// one-octet length form
			for decl := int64(0); decl <= 11; decl++ {
				for _, t := range types_ {
					for _, crit := range []int64{0, 0x80} {
						run(L, map[int64]int64{0: decl, 1: t | crit}, isHashed, fmt.Sprintf("input of %d bytes, declared length %d, type %d, hashed=%d", L, decl, t, isHashed))
					}
				}
			}
			// two-octet form: declared length 192 + b1 (always more than a short input holds)
			run(L, map[int64]int64{0: 192, 1: 0}, isHashed, fmt.Sprintf("input of %d bytes, two-octet length form", L))
			run(L, map[int64]int64{0: 254, 1: 255}, isHashed, fmt.Sprintf("input of %d bytes, two-octet length form (max)", L))
			// five-octet form with a small and a huge declared length
			run(L, map[int64]int64{0: 255, 1: 0, 2: 0, 3: 0, 4: 3, 5: 29}, isHashed, fmt.Sprintf("input of %d bytes, five-octet length form, declared 3", L))
			run(L, map[int64]int64{0: 255, 1: 255, 2: 255, 3: 255, 4: 255}, isHashed, fmt.Sprintf("input of %d bytes, five-octet length form, declared 2^32-1", L))
		}
	}
	c.check(bad == "" && cases > 5000, "C45.index-guard", "parseSignatureSubpacket stays inside its input", f, fmt.Sprintf("%d (input length, length form, declared length, type, critical, area) cases, unknown content explored on both branch edges", cases), bad)
	// caller contract: parseSignatureSubpackets calls only while len(subpackets) > 0
	if g := c.fn(pkg, "parseSignatureSubpackets"); g != nil {
		cs := callsNamed(g, pkg+".parseSignatureSubpacket")
		ok := len(cs) == 1
		if ok {
			// every path to the call crosses an edge on which len(<the very value
			// passed>) > 0 — the loop condition tests the slice that is handed over
			arg := cs[0].Common().Args[1]
			var pass []edge
			allInstrs(g, func(in ssa.Instruction) {
				if cl, isC := in.(*ssa.Call); isC && calleeName(&cl.Call) == "builtin:len" && cl.Call.Args[0] == arg {
					pass = append(pass, edgesImplying(cl, []int64{0, 1, 2}, func(d int64) bool { return d > 0 })...)
				}
			})
			cut := edgeSet{}
			cut.addAll(pass)
			ok = len(pass) > 0 && !pathFromEntry(cs[0], cut)
		}
		c.check(ok, "C45.index-guard", "parseSignatureSubpackets passes non-empty input", g, "the subpacket parser is entered only with len > 0", "parseSignatureSubpacket can be called with an empty slice (it reads subpacket[0] unconditionally)")
	}
}
