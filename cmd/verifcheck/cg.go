package main

import (
	"sort"
	"strings"

	"golang.org/x/tools/go/callgraph"
	"golang.org/x/tools/go/callgraph/cha"
	"golang.org/x/tools/go/callgraph/vta"
	"golang.org/x/tools/go/ssa"
)

// callGraph builds (once) a VTA call graph seeded with CHA.
func (c *Ctx) callGraph() *callgraph.Graph {
	if c.ld.cg == nil {
		c.ld.cg = vta.CallGraph(c.ld.allFns, cha.CallGraph(c.ld.prog))
	}
	return c.ld.cg
}

// reachableFrom returns the module functions reachable from roots in the call graph.
func (c *Ctx) reachableFrom(roots []*ssa.Function) map[*ssa.Function]bool {
	g := c.callGraph()
	seen := map[*ssa.Function]bool{}
	var stack []*ssa.Function
	for _, r := range roots {
		if r != nil && !seen[r] {
			seen[r] = true
			stack = append(stack, r)
		}
	}
	for len(stack) > 0 {
		f := stack[len(stack)-1]
		stack = stack[:len(stack)-1]
		n := g.Nodes[f]
		if n == nil {
			continue
		}
		for _, e := range n.Out {
			cal := e.Callee.Func
			if cal == nil || seen[cal] {
				continue
			}
			seen[cal] = true
			stack = append(stack, cal)
		}
		for _, a := range f.AnonFuncs {
			if !seen[a] {
				seen[a] = true
				stack = append(stack, a)
			}
		}
	}
	return seen
}

type panicSite struct {
	fn   *ssa.Function
	p    *ssa.Panic
	key  string // "pkg.Func: message"
	text string
}

// explicitPanics lists the explicit panic instructions of module functions in
// the given package prefixes that are reachable from roots.
func (c *Ctx) explicitPanics(roots []*ssa.Function, pkgPrefixes ...string) []panicSite {
	var out []panicSite
	for f := range c.reachableFrom(roots) {
		if f.Pkg == nil {
			continue
		}
		rel := strings.TrimPrefix(strings.TrimPrefix(f.Pkg.Pkg.Path(), modPath), "/")
		if !strings.HasPrefix(f.Pkg.Pkg.Path(), modPath) {
			continue
		}
		ok := false
		for _, p := range pkgPrefixes {
			if rel == p || strings.HasPrefix(rel, p+"/") {
				ok = true
			}
		}
		if !ok {
			continue
		}
		for _, p := range panicsOf(f) {
			t := panicText(p)
			out = append(out, panicSite{f, p, rel + "." + fnName(f) + ": " + t, t})
		}
	}
	sort.Slice(out, func(i, j int) bool { return out[i].key < out[j].key })
	return out
}
