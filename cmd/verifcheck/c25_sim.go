package main

import (
	"fmt"
	"go/token"
	"go/types"
	"strings"

	"golang.org/x/tools/go/ssa"
)

// Byte-level abstract interpretation of the SSH packet cipher methods (C25).
//
// The pathWalker supplies control flow, fixed-width integer evaluation and
// slice lengths; this file adds an abstract byte memory on top of it, so that a
// rule can look at WHAT a writer puts on the wire / feeds the MAC / hands to the
// AEAD instead of at the shape of the code that does it. Every byte cell
// carries
//
//	known/v   its numeric value when the finite-domain evaluation determines it
//	          (the length field, the padding length, sequence-number bytes, IV bytes);
//	enc/ks    under which keystream (and at which keystream offset) it is
//	          currently encrypted ("" = plaintext);
//	tag/idx   where its content came from (payload byte i, random padding byte j,
//	          wire byte k, MAC output, AEAD tag).
//
// Memory objects are identified structurally — a struct field by type and field
// name, a parameter by INDEX, a local array / make() by its SSA instruction —
// never by the name of a local variable, parameter or receiver. Calls of
// functions of the ssh package are interpreted in place (any depth of helper
// extraction reads the same as inlined code); crypto primitives are modelled:
// XORKeyStream / CryptBlocks toggle the encryption state and advance the
// keystream position, Seal/Open, hash.Hash Reset/Write/Sum, poly1305 Sum/Verify,
// encoding/binary accessors, copy/append, io.ReadFull, io.Writer.Write.

type c25cell struct {
	v     int64
	known bool
	enc   string
	ks    int64
	tag   string
	idx   int64
}

type c25ref struct {
	obj string
	off int64
}

type c25ev struct {
	kind   string
	at     ssa.Instruction
	n      int64
	data   []c25cell
	nonce  []c25cell
	aad    []c25cell
	key    []c25cell
	cipher string
	ref    c25ref // storage of the nonce operand (seal/open)
}

type c25slot struct {
	r  c25ref
	n  int64
	ok bool
}

type c25stream struct {
	id  string
	pos int64
}

type c25sim struct {
	root      *ssa.Function
	mem       map[string]map[int64]c25cell
	fieldRef  map[string]c25ref
	fieldLen  map[string]int64
	fields    map[string]int64 // scalar (bool / integer) fields by field name
	nilIface  func(t types.Type) (isNil, decided bool)
	valRef    map[ssa.Value]c25ref
	tupRef    map[ssa.Value]c25ref // first component of a tuple-valued call
	tupRefN   map[c25tupKey]c25ref // further components
	tupAlias  map[c25tupKey]ssa.Value
	loaded    map[ssa.Value]c25cell
	slots     map[c25ref]c25slot // byte slices kept in a list ([][]byte{...})
	alias     map[ssa.Value]ssa.Value
	events    []c25ev
	wire      []c25cell
	bigCap    bool
	probe     bool // locating run: stored slices are 12 zero bytes
	macSize   int64
	blockSize int64
	sinkIdx   int // parameter index of the io.Writer (writers), -1
	srcIdx    int // parameter index of the io.Reader the data comes from (rand for writers, r for readers)
	reader    bool
	script    func(pos int64) c25cell
	rpos      int64
	randPos   int64
	streams   map[string]*c25stream
	failOpen  bool
	problem   string
}

func newC25sim(root *ssa.Function) *c25sim {
	return &c25sim{
		root: root, mem: map[string]map[int64]c25cell{}, fieldRef: map[string]c25ref{}, fieldLen: map[string]int64{},
		fields: map[string]int64{}, valRef: map[ssa.Value]c25ref{}, tupRef: map[ssa.Value]c25ref{}, alias: map[ssa.Value]ssa.Value{},
		streams: map[string]*c25stream{}, sinkIdx: -1, srcIdx: -1, macSize: 20, blockSize: 16, tupRefN: map[c25tupKey]c25ref{}, slots: map[c25ref]c25slot{}, tupAlias: map[c25tupKey]ssa.Value{}, loaded: map[ssa.Value]c25cell{},
	}
}

func (s *c25sim) fault(format string, a ...any) {
	if s.problem == "" {
		s.problem = fmt.Sprintf(format, a...)
	}
}

func (s *c25sim) get(obj string, i int64) c25cell {
	if m, ok := s.mem[obj]; ok {
		if c, ok := m[i]; ok {
			return c
		}
	}
	switch {
	case strings.HasPrefix(obj, "A:"), strings.HasPrefix(obj, "M:"):
		return c25cell{known: true} // zero-initialised local storage
	case strings.HasPrefix(obj, "P:"):
		return c25cell{tag: "p" + obj[2:], idx: i}
	}
	if s.probe && strings.HasPrefix(obj, "S:") {
		return c25cell{known: true}
	}
	return c25cell{tag: "old:" + obj, idx: i}
}

func (s *c25sim) put(obj string, i int64, c c25cell) {
	m := s.mem[obj]
	if m == nil {
		m = map[int64]c25cell{}
		s.mem[obj] = m
	}
	m[i] = c
}

func (s *c25sim) snapshot(r c25ref, n int64) []c25cell {
	if n < 0 {
		n = 0
	}
	out := make([]c25cell, n)
	for i := int64(0); i < n; i++ {
		out[i] = s.get(r.obj, r.off+i)
	}
	return out
}

func (s *c25sim) write(r c25ref, cells []c25cell) {
	for i, c := range cells {
		s.put(r.obj, r.off+int64(i), c)
	}
}

func c25fieldKey(v ssa.Value) (string, bool) {
	t, f, _, ok := fieldOf(v)
	if !ok {
		return "", false
	}
	return t + "." + f, true
}

// resolve follows the aliases recorded when helpers were entered (a helper's
// parameter stands for the caller's argument).
func (s *c25sim) resolve(v ssa.Value) ssa.Value {
	for i := 0; i < 8; i++ {
		switch x := v.(type) {
		case *ssa.ChangeType:
			v = x.X
			continue
		case *ssa.ChangeInterface:
			v = x.X
			continue
		case *ssa.MakeInterface:
			v = x.X
			continue
		case *ssa.Extract:
			if a, ok := s.tupAlias[c25tupKey{x.Tuple, x.Index}]; ok {
				v = a
				continue
			}
		}
		a, ok := s.alias[v]
		if !ok {
			return v
		}
		v = a
	}
	return v
}

// rootParam: the index of the root function's parameter v stands for (-1).
func (s *c25sim) rootParam(v ssa.Value) int {
	v = s.resolve(v)
	for i, p := range s.root.Params {
		if ssa.Value(p) == v {
			return i
		}
	}
	return -1
}

// ref names the byte storage a slice value / pointer to array / element
// address denotes.
func (s *c25sim) ref(w *pathWalker, v ssa.Value) (c25ref, bool) {
	return s.refD(w, v, 0)
}

func (s *c25sim) refD(w *pathWalker, v ssa.Value, d int) (c25ref, bool) {
	if d > 12 || v == nil {
		return c25ref{}, false
	}
	if r, ok := s.valRef[v]; ok {
		return r, true
	}
	switch x := v.(type) {
	case *ssa.Slice:
		r, ok := s.refD(w, x.X, d+1)
		if !ok {
			return r, false
		}
		if x.Low != nil {
			n, ok := w.env.eval(x.Low)
			if !ok {
				return r, false
			}
			r.off += n
		}
		return r, true
	case *ssa.IndexAddr:
		r, ok := s.refD(w, x.X, d+1)
		if !ok {
			return r, false
		}
		n, ok := w.env.eval(x.Index)
		if !ok {
			return r, false
		}
		r.off += n
		return r, true
	case *ssa.FieldAddr:
		if k, ok := c25fieldKey(x); ok {
			if pt, isP := x.Type().Underlying().(*types.Pointer); isP {
				if _, isArr := pt.Elem().Underlying().(*types.Array); isArr {
					return c25ref{"F:" + k, 0}, true
				}
			}
		}
	case *ssa.UnOp:
		if x.Op == token.MUL {
			if k, ok := c25fieldKey(x.X); ok {
				if _, isSl := x.Type().Underlying().(*types.Slice); isSl {
					if r, ok := s.fieldRef[k]; ok {
						return r, true
					}
					return c25ref{"S:" + k, 0}, true
				}
			}
		}
	case *ssa.Alloc:
		return c25ref{fmt.Sprintf("A:%s.%s", x.Parent().Name(), x.Name()), 0}, true
	case *ssa.MakeSlice:
		return c25ref{fmt.Sprintf("M:%s.%s", x.Parent().Name(), x.Name()), 0}, true
	case *ssa.Parameter:
		if a, ok := s.alias[x]; ok {
			return s.refD(w, a, d+1)
		}
		if i := s.rootParam(x); i >= 0 {
			return c25ref{"P:" + itoa(int64(i)), 0}, true
		}
	case *ssa.Extract:
		if x.Index == 0 {
			if r, ok := s.tupRef[x.Tuple]; ok {
				return r, true
			}
		} else if r, ok := s.tupRefN[c25tupKey{x.Tuple, x.Index}]; ok {
			return r, true
		}
	case *ssa.ChangeType:
		return s.refD(w, x.X, d+1)
	case *ssa.Convert:
		return s.refD(w, x.X, d+1)
	case *ssa.SliceToArrayPointer:
		return s.refD(w, x.X, d+1)
	}
	return c25ref{}, false
}

func (s *c25sim) lenOf(w *pathWalker, v ssa.Value) (int64, bool) {
	if n, ok := w.env.eval(v); ok {
		return n, true
	}
	// pointer to array
	if pt, ok := v.Type().Underlying().(*types.Pointer); ok {
		if a, ok := pt.Elem().Underlying().(*types.Array); ok {
			return a.Len(), true
		}
	}
	return 0, false
}

// region: storage and length of a byte-slice (or *[N]byte) operand.
func (s *c25sim) region(w *pathWalker, v ssa.Value) (c25ref, int64, bool) {
	if isNilConst(v) {
		return c25ref{"nil", 0}, 0, true
	}
	r, ok := s.ref(w, v)
	if !ok {
		return r, 0, false
	}
	n, ok := s.lenOf(w, v)
	return r, n, ok
}

func (s *c25sim) setTuple(w *pathWalker, call ssa.Value, rs ...optInt) {
	if w.tuple == nil {
		w.tuple = map[ssa.Value][]optInt{}
	}
	w.tuple[call] = rs
}

// stream returns the keystream object a cipher value denotes.
func (s *c25sim) stream(v ssa.Value) *c25stream {
	v = s.resolve(v)
	key := ""
	if ex, ok := v.(*ssa.Extract); ok {
		key = fmt.Sprintf("C:%p", ex.Tuple)
	} else if k, ok := c25fieldKey(v); ok {
		key = "F:" + k
	} else if c, ok := v.(*ssa.Call); ok {
		key = fmt.Sprintf("C:%p", c)
	}
	if key == "" {
		return nil
	}
	st := s.streams[key]
	if st == nil {
		st = &c25stream{id: key}
		s.streams[key] = st
	}
	return st
}

func (s *c25sim) xor(w *pathWalker, ci ssa.CallInstruction, cipherV, dst, src ssa.Value) {
	st := s.stream(cipherV)
	dr, _, ok1 := s.region(w, dst)
	sr, n, ok2 := s.region(w, src)
	if st == nil || !ok1 || !ok2 {
		s.fault("a keystream application at %s has operands outside the model", ci.Parent().Prog.Fset.Position(ci.Pos()))
		return
	}
	cells := s.snapshot(sr, n)
	for i := range cells {
		c := &cells[i]
		p := st.pos + int64(i)
		switch {
		case c.enc == "":
			c.enc, c.ks = st.id, p
		case (c.enc == st.id || c.enc == "*") && c.ks == p:
			c.enc, c.ks = "", 0
		default:
			c.enc = "mixed"
		}
	}
	st.pos += n
	s.write(dr, cells)
	s.events = append(s.events, c25ev{kind: "xor", at: ci, n: n, data: cells, cipher: st.id})
}

func c25isByteSliceOrArrPtr(t types.Type) bool {
	switch u := t.Underlying().(type) {
	case *types.Slice:
		b, ok := u.Elem().Underlying().(*types.Basic)
		return ok && b.Kind() == types.Uint8
	case *types.Pointer:
		if a, ok := u.Elem().Underlying().(*types.Array); ok {
			b, ok := a.Elem().Underlying().(*types.Basic)
			return ok && b.Kind() == types.Uint8
		}
	}
	return false
}

func c25typeIs(t types.Type, name string) bool {
	return t != nil && (t.String() == name || strings.HasSuffix(t.String(), "/"+name))
}

func (s *c25sim) onLoad(w *pathWalker, u *ssa.UnOp) (int64, bool) {
	switch a := u.X.(type) {
	case *ssa.FieldAddr:
		k, ok := c25fieldKey(a)
		if !ok {
			return 0, false
		}
		if _, isSl := u.Type().Underlying().(*types.Slice); isSl {
			r, has := s.fieldRef[k]
			if !has {
				r = c25ref{"S:" + k, 0}
			}
			s.valRef[u] = r
			if n, ok := s.fieldLen[k]; ok || !s.probe {
				return n, true
			}
			return 12, true // probe run: any stored slice may be the 12-byte nonce
		}
		_, f, _, _ := fieldOf(a)
		if n, ok := s.fields[f]; ok {
			return n, true
		}
	case *ssa.IndexAddr:
		if c25isByteSliceOrArrPtr(u.Type()) {
			if r, ok := s.ref(w, a); ok {
				if sl, ok := s.slots[r]; ok && sl.ok {
					s.valRef[u] = sl.r
					return sl.n, true
				}
			}
			delete(s.valRef, u)
			return 0, false
		}
		if b, isB := u.Type().Underlying().(*types.Basic); !isB || b.Kind() != types.Uint8 {
			return 0, false
		}
		if r, ok := s.ref(w, a); ok {
			c := s.get(r.obj, r.off)
			s.loaded[u] = c // a byte moved by load/store keeps its identity
			if c.known && c.enc == "" {
				return c.v, true
			}
		}
		delete(w.env.vals, u) // no stale value from an earlier loop iteration
	}
	return 0, false
}

func (s *c25sim) onStore(w *pathWalker, st *ssa.Store) string {
	if c25isByteArray(st.Val.Type()) {
		// array value copy: *dst = *src
		dr, ok1 := s.ref(w, st.Addr)
		if arr, ok := st.Val.Type().Underlying().(*types.Array); ok && ok1 {
			if sr, ok2 := s.arrayRef(w, st.Val); ok2 {
				s.write(dr, s.snapshot(sr, arr.Len()))
			} else if _, isConst := st.Val.(*ssa.Const); isConst {
				s.write(dr, make([]c25cell, arr.Len()))
				for i := int64(0); i < arr.Len(); i++ {
					s.put(dr.obj, dr.off+i, c25cell{known: true})
				}
			} else {
				for i := int64(0); i < arr.Len(); i++ {
					s.put(dr.obj, dr.off+i, c25cell{tag: "computed"})
				}
			}
		}
		return ""
	}
	switch a := st.Addr.(type) {
	case *ssa.FieldAddr:
		k, ok := c25fieldKey(a)
		if !ok {
			return ""
		}
		if _, isSl := st.Val.Type().Underlying().(*types.Slice); isSl {
			if n, ok := w.env.eval(st.Val); ok {
				s.fieldLen[k] = n
			} else {
				s.fault("the length of the slice stored to %s does not evaluate", k)
			}
			if r, ok := s.ref(w, st.Val); ok {
				s.fieldRef[k] = r
			} else {
				s.fieldRef[k] = c25ref{fmt.Sprintf("S:%s#%d", k, len(s.events)), 0}
			}
			return ""
		}
		_, f, _, _ := fieldOf(a)
		if _, tracked := s.fields[f]; tracked {
			if n, ok := w.env.eval(st.Val); ok {
				s.fields[f] = n
			} else {
				delete(s.fields, f)
			}
		}
	case *ssa.IndexAddr:
		r, ok := s.ref(w, a)
		if !ok {
			return ""
		}
		if c25isByteSliceOrArrPtr(st.Val.Type()) {
			// an element of a list of byte slices
			sl := c25slot{}
			sl.r, sl.ok = s.ref(w, st.Val)
			if n, ok := w.env.eval(st.Val); ok && sl.ok {
				sl.n = n
			} else {
				sl.ok = false
			}
			s.slots[r] = sl
			return ""
		}
		if b, isB := st.Val.Type().Underlying().(*types.Basic); !isB || b.Kind() != types.Uint8 {
			return ""
		}
		if n, ok := w.env.eval(st.Val); ok {
			s.put(r.obj, r.off, c25cell{v: n & 0xff, known: true})
		} else if c, ok := s.loaded[st.Val]; ok {
			s.put(r.obj, r.off, c)
		} else {
			s.put(r.obj, r.off, c25cell{tag: "computed"})
		}
	}
	return ""
}

func (s *c25sim) onPhi(w *pathWalker, ph *ssa.Phi, in ssa.Value) {
	if !c25isByteSliceOrArrPtr(ph.Type()) {
		return
	}
	if r, ok := s.ref(w, in); ok {
		s.valRef[ph] = r
	} else {
		delete(s.valRef, ph)
	}
}

func (s *c25sim) onInline(parent, child *pathWalker, callee *ssa.Function, args []ssa.Value) {
	for i, p := range callee.Params {
		if i >= len(args) {
			break
		}
		delete(s.valRef, p)
		if c25isByteSliceOrArrPtr(p.Type()) {
			if r, ok := s.ref(parent, args[i]); ok {
				s.valRef[p] = r
			}
			continue
		}
		s.alias[p] = s.resolve(args[i])
	}
	s.bindNil(child.env, callee)
}

func (s *c25sim) onReturn(parent, child *pathWalker, call *ssa.Call, results []ssa.Value) {
	for i, res := range results {
		var r c25ref
		ok := false
		if c25isByteSliceOrArrPtr(res.Type()) {
			r, ok = s.ref(child, res)
		} else if c25isByteArray(res.Type()) {
			r, ok = s.arrayRef(child, res)
		}
		if !ok {
			// other values (cipher objects, ...) keep their identity across the return
			rv := s.resolve(res)
			if len(results) == 1 {
				s.alias[call] = rv
			} else {
				s.tupAlias[c25tupKey{call, i}] = rv
			}
			continue
		}
		if len(results) == 1 {
			s.valRef[call] = r
		} else if i == 0 {
			s.tupRef[call] = r
		} else {
			s.tupRefN[c25tupKey{call, i}] = r
		}
	}
}

type c25tupKey struct {
	call ssa.Value
	idx  int
}

func c25isByteArray(t types.Type) bool {
	a, ok := t.Underlying().(*types.Array)
	if !ok {
		return false
	}
	b, ok := a.Elem().Underlying().(*types.Basic)
	return ok && b.Kind() == types.Uint8
}

// arrayRef: the storage an array VALUE was loaded from (or returned from).
func (s *c25sim) arrayRef(w *pathWalker, v ssa.Value) (c25ref, bool) {
	if r, ok := s.valRef[v]; ok {
		return r, true
	}
	switch x := v.(type) {
	case *ssa.UnOp:
		if x.Op == token.MUL {
			return s.ref(w, x.X)
		}
	case *ssa.Extract:
		if x.Index == 0 {
			r, ok := s.tupRef[x.Tuple]
			return r, ok
		}
		r, ok := s.tupRefN[c25tupKey{x.Tuple, x.Index}]
		return r, ok
	case *ssa.Parameter:
		if a, ok := s.alias[x]; ok {
			return s.arrayRef(w, a)
		}
	}
	return c25ref{}, false
}

// bindNil fixes the nil tests of interface-typed configuration (is a MAC
// configured?) in fn for this case.
func (s *c25sim) bindNil(e *penv, fn *ssa.Function) {
	if s.nilIface == nil {
		return
	}
	for _, v := range []bool{true, false} {
		v := v
		e.bindNilTests(fn, func(x ssa.Value) bool {
			if _, ok := c25fieldKey(x); !ok {
				return false
			}
			isNil, decided := s.nilIface(x.Type())
			return decided && isNil == v
		}, v)
	}
}

func (s *c25sim) binary(w *pathWalker, ci ssa.CallInstruction, name string) bool {
	if !strings.HasPrefix(name, "(encoding/binary.") {
		return false
	}
	cc := ci.Common()
	big := strings.HasPrefix(name, "(encoding/binary.bigEndian)")
	m := name[strings.LastIndex(name, ".")+1:]
	var width int64
	switch {
	case strings.HasSuffix(m, "64"):
		width = 8
	case strings.HasSuffix(m, "32"):
		width = 4
	case strings.HasSuffix(m, "16"):
		width = 2
	default:
		return false
	}
	pos := func(i int64) int64 {
		if big {
			return width - 1 - i
		}
		return i
	}
	switch {
	case strings.HasPrefix(m, "PutUint") && len(cc.Args) == 3:
		r, n, ok := s.region(w, cc.Args[1])
		if !ok {
			s.fault("%s on storage outside the model", m)
			return true
		}
		if n < width {
			w.markOOB(ci)
		}
		v, known := w.env.eval(cc.Args[2])
		for i := int64(0); i < width; i++ {
			c := c25cell{tag: "computed"}
			if known {
				c = c25cell{known: true, v: int64(uint64(v) >> (8 * uint(i)) & 0xff)}
			}
			s.put(r.obj, r.off+pos(i), c)
		}
		return true
	case strings.HasPrefix(m, "AppendUint") && len(cc.Args) == 3:
		r, n, ok := s.region(w, cc.Args[1])
		if !ok {
			s.fault("%s on storage outside the model", m)
			return true
		}
		v, known := w.env.eval(cc.Args[2])
		for i := int64(0); i < width; i++ {
			c := c25cell{tag: "computed"}
			if known {
				c = c25cell{known: true, v: int64(uint64(v) >> (8 * uint(i)) & 0xff)}
			}
			s.put(r.obj, r.off+n+pos(i), c)
		}
		if val, isV := ci.(ssa.Value); isV {
			w.env.bind(val, n+width)
			s.valRef[val] = r
		}
		return true
	case strings.HasPrefix(m, "Uint") && len(cc.Args) == 2:
		r, n, ok := s.region(w, cc.Args[1])
		val, isV := ci.(ssa.Value)
		if !ok || !isV {
			return true
		}
		if n < width {
			w.markOOB(ci)
		}
		var v uint64
		for i := int64(0); i < width; i++ {
			c := s.get(r.obj, r.off+pos(i))
			if !c.known || c.enc != "" {
				delete(w.env.vals, val)
				return true
			}
			v |= uint64(c.v&0xff) << (8 * uint(i))
		}
		w.env.bind(val, int64(v))
		return true
	}
	return false
}

func (s *c25sim) onCall(w *pathWalker, ci ssa.CallInstruction) string {
	cc := ci.Common()
	name := calleeName(cc)
	val, _ := ci.(ssa.Value)
	bind := func(n int64) {
		if val != nil {
			w.env.bind(val, n)
		}
	}
	if s.binary(w, ci, name) {
		return ""
	}
	if cc.IsInvoke() {
		m := cc.Method.Name()
		rt := cc.Value.Type()
		switch {
		case c25typeIs(rt, "hash.Hash"):
			switch m {
			case "Reset":
				s.events = append(s.events, c25ev{kind: "mac.reset", at: ci})
			case "Write":
				r, n, ok := s.region(w, cc.Args[0])
				if !ok {
					s.fault("a MAC input lies outside the model")
					return ""
				}
				s.events = append(s.events, c25ev{kind: "mac.write", at: ci, n: n, data: s.snapshot(r, n)})
			case "Sum":
				r, n, ok := s.region(w, cc.Args[0])
				if !ok {
					s.fault("the MAC output buffer lies outside the model")
					return ""
				}
				for i := int64(0); i < s.macSize; i++ {
					s.put(r.obj, r.off+n+i, c25cell{tag: "mac", idx: i})
				}
				bind(n + s.macSize)
				if val != nil {
					s.valRef[val] = r
				}
				s.events = append(s.events, c25ev{kind: "mac.sum", at: ci, n: n})
			case "Size":
				bind(s.macSize)
			}
			return ""
		case m == "XORKeyStream" || m == "CryptBlocks":
			if len(cc.Args) == 2 {
				s.xor(w, ci, cc.Value, cc.Args[0], cc.Args[1])
			}
			return ""
		case m == "BlockSize":
			bind(s.blockSize)
			return ""
		case m == "Overhead":
			bind(16)
			return ""
		case m == "NonceSize":
			bind(12)
			return ""
		case m == "Seal" && len(cc.Args) == 4:
			dr, dn, ok0 := s.region(w, cc.Args[0])
			nr, nn, ok1 := s.region(w, cc.Args[1])
			pr, pn, ok2 := s.region(w, cc.Args[2])
			ar, an, ok3 := s.region(w, cc.Args[3])
			if !ok0 || !ok1 || !ok2 || !ok3 {
				s.fault("an AEAD Seal operand lies outside the model")
				return ""
			}
			pt := s.snapshot(pr, pn)
			ev := c25ev{kind: "seal", at: ci, n: pn, data: pt, nonce: s.snapshot(nr, nn), aad: s.snapshot(ar, an), ref: nr}
			out := make([]c25cell, 0, pn+16)
			for _, c := range pt {
				if c.enc == "" {
					c.enc, c.ks = "aead", 0
				} else {
					c.enc = "mixed"
				}
				out = append(out, c)
			}
			for i := int64(0); i < 16; i++ {
				out = append(out, c25cell{tag: "aeadtag", idx: i})
			}
			s.write(c25ref{dr.obj, dr.off + dn}, out)
			bind(dn + pn + 16)
			if val != nil {
				s.valRef[val] = dr
			}
			s.events = append(s.events, ev)
			return ""
		case m == "Open" && len(cc.Args) == 4:
			dr, dn, ok0 := s.region(w, cc.Args[0])
			nr, nn, ok1 := s.region(w, cc.Args[1])
			cr, cn, ok2 := s.region(w, cc.Args[2])
			ar, an, ok3 := s.region(w, cc.Args[3])
			if !ok0 || !ok1 || !ok2 || !ok3 {
				s.fault("an AEAD Open operand lies outside the model")
				return ""
			}
			ct := s.snapshot(cr, cn)
			s.events = append(s.events, c25ev{kind: "open", at: ci, n: cn, data: ct, nonce: s.snapshot(nr, nn), aad: s.snapshot(ar, an), ref: nr})
			n := cn - 16
			if n < 0 {
				n = 0
			}
			out := make([]c25cell, 0, n)
			for _, c := range ct[:n] {
				if c.enc == "*" || c.enc == "aead" {
					c.enc, c.ks = "", 0
				} else {
					c.enc = "mixed"
				}
				out = append(out, c)
			}
			if !s.failOpen {
				s.write(c25ref{dr.obj, dr.off + dn}, out)
			}
			if val != nil {
				s.tupRef[val] = dr
				s.setTuple(w, val, optInt{dn + n, true}, optInt{})
				// the error result of this call, for this case
				s.bindErrTests(w, val, 1, s.failOpen)
			}
			return ""
		case m == "Write" || m == "Read":
			if i := s.rootParam(cc.Value); i >= 0 && len(cc.Args) == 1 {
				s.io(w, ci, i, cc.Args[0], m == "Write")
			}
			return ""
		}
		return ""
	}
	switch {
	case name == "builtin:cap" && len(cc.Args) == 1:
		n, ok := w.env.eval(cc.Args[0])
		if ok {
			if s.bigCap && n < 1<<20 {
				n = 1 << 20
			}
			bind(n)
		}
	case name == "builtin:copy" && len(cc.Args) == 2:
		dr, dn, ok1 := s.region(w, cc.Args[0])
		sr, sn, ok2 := s.region(w, cc.Args[1])
		if !ok1 || !ok2 {
			s.fault("a copy has operands outside the model")
			return ""
		}
		s.write(dr, s.snapshot(sr, min(dn, sn)))
	case name == "builtin:append" && len(cc.Args) == 2:
		dr, dn, ok1 := s.region(w, cc.Args[0])
		sr, sn, ok2 := s.region(w, cc.Args[1])
		if !ok1 || !ok2 {
			s.fault("an append has operands outside the model")
			return ""
		}
		s.write(c25ref{dr.obj, dr.off + dn}, s.snapshot(sr, sn))
		bind(dn + sn)
		if val != nil {
			s.valRef[val] = dr
		}
	case name == "io.ReadFull" && len(cc.Args) == 2:
		if i := s.rootParam(cc.Args[0]); i >= 0 {
			s.io(w, ci, i, cc.Args[1], false)
		}
	case strings.HasSuffix(name, "chacha20.NewUnauthenticatedCipher") && len(cc.Args) == 2:
		kr, kn, ok1 := s.region(w, cc.Args[0])
		nr, nn, ok2 := s.region(w, cc.Args[1])
		if !ok1 || !ok2 || val == nil {
			s.fault("a chacha20 key or nonce lies outside the model")
			return ""
		}
		id := fmt.Sprintf("K:%s+%d/%d", kr.obj, kr.off, kn)
		s.streams[fmt.Sprintf("C:%p", val)] = &c25stream{id: id}
		s.setTuple(w, val, optInt{1, true}, optInt{})
		s.events = append(s.events, c25ev{kind: "newcipher", at: ci, n: kn, cipher: id, nonce: s.snapshot(nr, nn)})
	case strings.HasSuffix(name, "chacha20.Cipher).XORKeyStream") && len(cc.Args) == 3:
		s.xor(w, ci, cc.Args[0], cc.Args[1], cc.Args[2])
	case strings.HasSuffix(name, "chacha20.Cipher).SetCounter") && len(cc.Args) == 2:
		if st := s.stream(cc.Args[0]); st != nil {
			if n, ok := w.env.eval(cc.Args[1]); ok {
				st.pos = 64 * n
			} else {
				s.fault("chacha20 block counter set to a value outside the model")
			}
		}
	case strings.HasSuffix(name, "poly1305.Sum") && len(cc.Args) == 3:
		or, _, ok0 := s.region(w, cc.Args[0])
		mr, mn, ok1 := s.region(w, cc.Args[1])
		kr, kn, ok2 := s.region(w, cc.Args[2])
		if !ok0 || !ok1 || !ok2 {
			s.fault("a poly1305 operand lies outside the model")
			return ""
		}
		s.events = append(s.events, c25ev{kind: "poly.sum", at: ci, n: mn, data: s.snapshot(mr, mn), key: s.snapshot(kr, kn)})
		for i := int64(0); i < 16; i++ {
			s.put(or.obj, or.off+i, c25cell{tag: "polytag", idx: i})
		}
	case strings.HasSuffix(name, "poly1305.Verify") && len(cc.Args) == 3:
		tr, tn, ok0 := s.region(w, cc.Args[0])
		mr, mn, ok1 := s.region(w, cc.Args[1])
		kr, kn, ok2 := s.region(w, cc.Args[2])
		if !ok0 || !ok1 || !ok2 {
			s.fault("a poly1305 operand lies outside the model")
			return ""
		}
		s.events = append(s.events, c25ev{kind: "poly.verify", at: ci, n: mn, data: s.snapshot(mr, mn), key: s.snapshot(kr, kn), aad: s.snapshot(tr, tn)})
		bind(1)
	case name == "crypto/subtle.ConstantTimeCompare" || name == "crypto/hmac.Equal" || name == "bytes.Equal":
		if len(cc.Args) == 2 {
			ar, an, ok1 := s.region(w, cc.Args[0])
			br, bn, ok2 := s.region(w, cc.Args[1])
			if ok1 && ok2 {
				s.events = append(s.events, c25ev{kind: "compare", at: ci, n: an, data: s.snapshot(ar, an), aad: s.snapshot(br, bn)})
			} else {
				s.fault("a MAC comparison has operands outside the model")
			}
			bind(1)
		}
	}
	return ""
}

// bindErrTests fixes the comparisons of component idx (an error) of a
// tuple-valued call with nil.
func (s *c25sim) bindErrTests(w *pathWalker, call ssa.Value, idx int, isErr bool) {
	refs := call.Referrers()
	if refs == nil {
		return
	}
	for _, r := range *refs {
		ex, ok := r.(*ssa.Extract)
		if !ok || ex.Index != idx || ex.Referrers() == nil {
			continue
		}
		for _, rr := range *ex.Referrers() {
			bo, ok := rr.(*ssa.BinOp)
			if !ok || (bo.Op != token.EQL && bo.Op != token.NEQ) {
				continue
			}
			res := isErr == (bo.Op == token.NEQ)
			if res {
				w.env.bind(bo, 1)
			} else {
				w.env.bind(bo, 0)
			}
		}
	}
}

// io: a transfer between a byte region and one of the root function's
// io.Reader / io.Writer parameters.
func (s *c25sim) io(w *pathWalker, ci ssa.CallInstruction, param int, buf ssa.Value, isWrite bool) {
	r, n, ok := s.region(w, buf)
	if !ok {
		s.fault("an I/O buffer lies outside the model")
		return
	}
	val, _ := ci.(ssa.Value)
	switch {
	case isWrite && param == s.sinkIdx:
		cells := s.snapshot(r, n)
		s.wire = append(s.wire, cells...)
		s.events = append(s.events, c25ev{kind: "wire", at: ci, n: n})
	case !isWrite && param == s.srcIdx:
		cells := make([]c25cell, n)
		for i := range cells {
			if s.reader {
				cells[i] = s.script(s.rpos)
				s.rpos++
			} else {
				cells[i] = c25cell{tag: "rand", idx: s.randPos}
				s.randPos++
			}
		}
		s.write(r, cells)
		s.events = append(s.events, c25ev{kind: "read", at: ci, n: n})
	default:
		return
	}
	if val != nil {
		s.setTuple(w, val, optInt{n, true}, optInt{})
	}
}

// walker builds the pathWalker that drives this simulation over fn.
func (s *c25sim) walker() *pathWalker {
	pkg := s.root.Pkg
	w := &pathWalker{
		env: newEnv(), lengths: true, maxSteps: 20000, assumeErrNil: true,
		inline:   func(callee *ssa.Function) bool { return callee.Pkg == pkg && len(callee.Blocks) > 0 },
		onCall:   s.onCall,
		onStore:  s.onStore,
		onLoad:   s.onLoad,
		onPhi:    s.onPhi,
		onInline: s.onInline,
		onReturn: s.onReturn,
	}
	s.bindNil(w.env, s.root)
	return w
}

func c25be(cells []c25cell) (int64, bool) {
	var v int64
	for _, c := range cells {
		if !c.known {
			return 0, false
		}
		v = v<<8 | c.v&0xff
	}
	return v, true
}

func c25sameContent(a, b c25cell) bool {
	return a.known == b.known && (!a.known || a.v == b.v) && a.tag == b.tag && a.idx == b.idx
}
