package main

import (
	"fmt"
	"sort"
	"strings"

	"golang.org/x/tools/go/ssa"
)

// SMP dispatch table. The reachable handler calls / state stores / panics for a
// (TLV type, SMP state) pair are collected on processSMP AND the helpers of the
// package it calls that are not SMP steps themselves: in every function of that
// tree the loads of tlv.typ and of smpState.state are bound by ROLE (struct
// type and field, whatever the variable is called), the contradicted branch
// edges are cut, and a helper call in a reachable block is entered.

var c47SMPSteps = map[string]bool{"processSMP1": true, "processSMP2": true, "processSMP3": true, "processSMP4": true, "generateSMP2": true, "generateSMPAbort": true, "resetSMP": true, "processSMP": true}

type c47Reached struct {
	calls  map[string]bool
	stores []int64
	panics int
}

// c47ReachUnder collects what is reachable from the entry of root when bind's
// assignment holds in every function entered.
func c47ReachUnder(root *ssa.Function, bind func(e *penv, g *ssa.Function), steps map[string]bool) *c47Reached {
	out := &c47Reached{calls: map[string]bool{}}
	seen := map[*ssa.Function]bool{}
	var rec func(g *ssa.Function, depth int)
	rec = func(g *ssa.Function, depth int) {
		if seen[g] {
			return
		}
		seen[g] = true
		e := newEnv()
		bind(e, g)
		pans, _, blocks := e.reachableExits(g, nil)
		out.panics += len(pans)
		allInstrs(g, func(in ssa.Instruction) {
			if !blocks[in.Block()] {
				return
			}
			if st, ok := in.(*ssa.Store); ok {
				if t, fld, _, isF := fieldOf(st.Addr); isF && t == "smpState" && fld == "state" {
					if k, isK := constInt(st.Val); isK {
						out.stores = append(out.stores, k)
					} else {
						out.stores = append(out.stores, -1)
					}
				}
			}
			cc := callCommon(in)
			if cc == nil {
				return
			}
			callee := cc.StaticCallee()
			if callee == nil {
				return
			}
			if callee.Pkg == root.Pkg && (steps[callee.Name()] || c47Vocab[callee.Name()]) {
				out.calls[callee.Name()] = true
				return
			}
			if callee.Pkg == root.Pkg && len(callee.Blocks) > 0 && depth < deepDepth {
				rec(callee, depth+1)
			}
		})
	}
	rec(root, 0)
	return out
}

func c47SMP(c *Ctx) {
	f := c.fn("otr", "(*Conversation).processSMP")
	if f == nil {
		return
	}
	cv := func(n string) int64 {
		v, ok := c.pkgConst("otr", n)
		if !ok {
			c.fail("C47.smp-table", "constant "+n, f, "constant not found")
		}
		return v
	}
	types_ := []string{"tlvTypeSMP1", "tlvTypeSMP2", "tlvTypeSMP3", "tlvTypeSMP4", "tlvTypeSMPAbort", "tlvTypeSMP1WithQuestion"}
	states := []string{"smpState1", "smpState2", "smpState3", "smpState4"}
	expectState := map[string]string{"tlvTypeSMP1": "smpState1", "tlvTypeSMP1WithQuestion": "smpState1", "tlvTypeSMP2": "smpState2", "tlvTypeSMP3": "smpState3", "tlvTypeSMP4": "smpState4"}
	handler := map[string]string{"tlvTypeSMP1": "processSMP1", "tlvTypeSMP1WithQuestion": "processSMP1", "tlvTypeSMP2": "processSMP2", "tlvTypeSMP3": "processSMP3", "tlvTypeSMP4": "processSMP4"}
	nextState := map[string]string{"tlvTypeSMP1": "smpState3", "tlvTypeSMP1WithQuestion": "smpState3", "tlvTypeSMP2": "smpState4", "tlvTypeSMP3": "smpState1", "tlvTypeSMP4": "smpState1"}
	// the anchor: the TLV type and the SMP state are read somewhere in the tree
	nTyp, nState := 0, 0
	probe := func(e *penv, g *ssa.Function) {
		nTyp += e.bindField(g, "tlv", "typ", 0)
		nState += e.bindField(g, "smpState", "state", 0)
	}
	for _, g := range deepFuncs(f) {
		if g == f || !(c47SMPSteps[g.Name()] || c47Vocab[g.Name()]) {
			probe(newEnv(), g)
		}
	}
	if nTyp == 0 || nState == 0 {
		c.undecided("C47.smp-table", "processSMP", f, "reads of the TLV type / the SMP state not found in processSMP or its helpers")
		return
	}
	relevant := map[string]bool{"processSMP1": true, "processSMP2": true, "processSMP3": true, "processSMP4": true, "generateSMP2": true, "generateSMPAbort": true, "resetSMP": true}
	for _, tn := range types_ {
		for _, sn := range states {
			r := c47ReachUnder(f, func(e *penv, g *ssa.Function) {
				e.bindField(g, "tlv", "typ", cv(tn))
				e.bindField(g, "smpState", "state", cv(sn))
			}, c47SMPSteps)
			got := map[string]bool{}
			for m := range r.calls {
				if relevant[m] {
					got[m] = true
				}
			}
			stStores := r.stores
			want := map[string]bool{}
			var wantStores []int64
			switch {
			case tn == "tlvTypeSMPAbort":
				want["resetSMP"] = true
			case expectState[tn] == sn:
				want[handler[tn]] = true
				wantStores = append(wantStores, cv(nextState[tn]))
				if handler[tn] == "processSMP1" {
					want["generateSMP2"] = true
				}
				if handler[tn] == "processSMP2" || handler[tn] == "processSMP4" {
					want["generateSMPAbort"] = true // on a failed proof
				}
			default:
				want["resetSMP"] = true
				want["generateSMPAbort"] = true
			}
			keys := func(m map[string]bool) string {
				var ks []string
				for k := range m {
					ks = append(ks, k)
				}
				sort.Strings(ks)
				return strings.Join(ks, ",")
			}
			name := fmt.Sprintf("%s in %s", tn, sn)
			okRow := keys(got) == keys(want) && fmt.Sprint(stStores) == fmt.Sprint(wantStores) && r.panics == 0
			c.check(okRow, "C47.smp-table", name, f, fmt.Sprintf("reachable handlers {%s}, state stores %v, no panic", keys(got), stStores),
				fmt.Sprintf("code reaches {%s} with state stores %v and %d panic(s); the SMP state machine prescribes {%s} with state stores %v", keys(got), stStores, r.panics, keys(want), wantStores))
		}
	}
	// any other TLV type reaches the panic: Receive must never forward one
	recv := c.fn("otr", "(*Conversation).Receive")
	if recv != nil {
		handled := map[int64]bool{}
		for _, tn := range types_ {
			handled[cv(tn)] = true
		}
		nBound := 0
		okFwd, whyFwd := true, ""
		for v := int64(0); v <= 16; v++ {
			r := c47ReachUnder(recv, func(e *penv, g *ssa.Function) {
				nBound += e.bindField(g, "tlv", "typ", v)
			}, c47SMPSteps)
			if r.calls["processSMP"] != handled[v] {
				okFwd = false
				if whyFwd == "" {
					whyFwd = fmt.Sprintf("TLV type %d: forwarded to processSMP = %v, handled by processSMP = %v", v, r.calls["processSMP"], handled[v])
				}
			}
		}
		if nBound == 0 {
			okFwd, whyFwd = false, "no read of a TLV type found in Receive or its helpers"
		}
		c.check(okFwd, "C47.smp-table", "Receive forwards exactly the SMP TLV types", recv, "TLV types 0..16: processSMP is reachable exactly for the six types its switches handle", "Receive forwards a TLV type that processSMP's switch does not handle (its default panics), or drops an SMP type: "+whyFwd)
	}
}
