package main

import (
	"fmt"
	"strings"

	"golang.org/x/tools/go/ssa"
)

// c50Access classifies what a function does with Client.nonces.
type c50Access struct {
	refs    int
	inserts []*ssa.MapUpdate
	ranges  []*ssa.Range
	bad     []ssa.Instruction // the map (or its address) goes somewhere the rule cannot follow
	stale   []ssa.Instruction // the field is overwritten with something that is not a fresh map
}

func c50PoolAccess(f *ssa.Function) *c50Access {
	acc := &c50Access{}
	useMap := func(m ssa.Value) {
		for _, r := range *m.Referrers() {
			switch x := r.(type) {
			case *ssa.DebugRef, *ssa.Lookup:
			case *ssa.MapUpdate:
				if x.Map == m {
					acc.inserts = append(acc.inserts, x)
				} else {
					acc.bad = append(acc.bad, r)
				}
			case *ssa.Range:
				acc.ranges = append(acc.ranges, x)
			case *ssa.BinOp:
			case *ssa.Call:
				switch calleeName(&x.Call) {
				case "builtin:len", "builtin:clear":
				case "builtin:delete":
					if x.Call.Args[0] != m {
						acc.bad = append(acc.bad, r)
					}
				default:
					acc.bad = append(acc.bad, r)
				}
			default:
				acc.bad = append(acc.bad, r)
			}
		}
	}
	for _, ref := range fieldRefs(f, "Client", "nonces") {
		acc.refs++
		switch fa := ref.(type) {
		case *ssa.Field:
			useMap(fa)
		case *ssa.FieldAddr:
			for _, r := range *fa.Referrers() {
				switch x := r.(type) {
				case *ssa.DebugRef:
				case *ssa.Store:
					if x.Addr != ssa.Value(fa) {
						acc.bad = append(acc.bad, r)
					} else if _, fresh := x.Val.(*ssa.MakeMap); !fresh {
						acc.stale = append(acc.stale, r)
					}
				case *ssa.UnOp:
					useMap(x)
				default:
					acc.bad = append(acc.bad, r)
				}
			}
		}
	}
	return acc
}

func runC50(c *Ctx) {
	const pk = "acme"
	fns := c.funcsOfPkg(pk)
	a := &c50an{c: c, sinkSeen: map[ssa.CallInstruction]bool{}}
	pop := c.fn(pk, "(*Client).popNonce")
	isPop := func(g *ssa.Function) bool { return g == pop }

	// ---- who does what with the pool (by kind of access, wherever the code lives)
	nIns, nRange := 0, 0
	for _, f := range fns {
		acc := c50PoolAccess(f)
		if acc.refs == 0 {
			continue
		}
		detail := ""
		var at poser = f
		if len(acc.bad) > 0 {
			detail, at = "the nonce pool (or its address) is handed to code the rule cannot follow", acc.bad[0]
		} else if len(acc.stale) > 0 {
			detail, at = "Client.nonces is overwritten with a map that is not a fresh empty one", acc.stale[0]
		}
		// keys read from the pool go nowhere but into delete(pool, key) and out of popNonce
		for _, rg := range acc.ranges {
			nRange++
			for _, nx := range *rg.Referrers() {
				next, ok := nx.(*ssa.Next)
				if !ok {
					continue
				}
				for _, q := range *next.Referrers() {
					ex, ok := q.(*ssa.Extract)
					if !ok || ex.Index != 1 {
						continue
					}
					u := a.consumers(ex, func(in ssa.Instruction, v ssa.Value) bool {
						call, ok := in.(*ssa.Call)
						return ok && calleeName(&call.Call) == "builtin:delete" && c50IsPool(call.Call.Args[0]) && call.Call.Args[1] == v
					}, isPop)
					if len(u.others) > 0 && detail == "" {
						detail, at = "a nonce read from the pool is used at "+c.posStr(u.others[0].Pos())+" (pooled nonces may only be deleted and handed out by popNonce)", u.others[0]
					}
				}
			}
		}
		c.check(detail == "", "C50.pool-owner", "Client.nonces in "+fnName(f), at, "only sizes, resets, deletes, inserts or takes from the pool; keys read from it go only into delete and out of popNonce", detail)
		// every insertion stores the Replay-Nonce of a received response
		for _, mu := range acc.inserts {
			nIns++
			ok, why := a.fresh(mu.Key, &c50ctx{fn: f}, nil, 0)
			c.check(ok, "C50.nonce-sink", "pool insertion in "+fnName(f), mu, "the stored value is the Replay-Nonce header of a received HTTP response", "the pool can be given a value that is not the Replay-Nonce of a received response: "+why)
		}
	}
	c.check(nIns >= 1 && nRange >= 1, "C50.pool-owner", "pool functions", nil, fmt.Sprintf("%d insertion(s) and %d reader(s) of Client.nonces examined", nIns, nRange), fmt.Sprintf("rule anchor lost: %d insertions, %d readers of Client.nonces found", nIns, nRange))
	c.checkGuarded("C50.lock", fns, guardSpec{"Client", "nonces", ".noncesMu", false}, nil)

	// ---- popNonce: whatever it returns is fresh from the CA or was deleted from the pool first
	if pop != nil {
		root := &c50ctx{fn: pop}
		detail := ""
		var at poser = pop
		nLeaf := 0
		for _, r := range returnsOf(pop) {
			for _, l := range c50Leaves(retVal(r, 0), root, nil) {
				nLeaf++
				if !c50PoolKey(l.val) {
					if ok, why := a.freshLeaf(l, nil, 0); !ok && detail == "" {
						detail = "popNonce can return a value that is neither freshly fetched nor the key just deleted from the pool: " + why
					}
					continue
				}
				key := l
				ex := l.val.(*ssa.Extract)
				hit := c50Walk(c50pos{l.ctx, ex.Block(), instrIndex(ex) + 1}, nil,
					func(in ssa.Instruction, ctx *c50ctx) bool {
						call, ok := in.(*ssa.Call)
						if !ok || calleeName(&call.Call) != "builtin:delete" || !c50IsPool(call.Call.Args[0]) {
							return false
						}
						ks := c50Leaves(call.Call.Args[1], ctx, nil)
						return len(ks) == 1 && ks[0].same(key)
					},
					func(in ssa.Instruction, ctx *c50ctx) bool {
						ret, ok := in.(*ssa.Return)
						if !ok || ctx.parent != nil {
							return false
						}
						for _, m := range c50Leaves(retVal(ret, 0), ctx, nil) {
							if m.same(key) {
								return true
							}
						}
						return false
					}, nil)
				if hit != nil {
					detail, at = "the pooled nonce is returned without being deleted from the pool first", hit
				}
			}
		}
		if nLeaf == 0 {
			detail = "rule anchor lost: popNonce returns nothing the rule can trace"
		}
		c.check(detail == "", "C50.consume-once", "(*Client).popNonce", at, "every value handed out is the Replay-Nonce of a response just received or a pool key deleted from the pool on every path to the return", detail)
	}

	// ---- nonce provenance at signing sites; single consumer
	isSign := func(in ssa.Instruction, v ssa.Value) bool {
		ci, ok := in.(ssa.CallInstruction)
		if !ok || short(calleeName(ci.Common())) != "acme.jwsEncodeJSON" {
			return false
		}
		n := 0
		for _, arg := range ci.Common().Args {
			if arg == v {
				n++
			}
		}
		return n == 1 && ci.Common().Args[3] == v
	}
	for _, f := range fns {
		for _, ci := range callsNamed(f, "acme.jwsEncodeJSON") {
			ok := true
			what := ""
			for _, l := range a.origins(ci.Common().Args[3], &c50ctx{fn: f}, isPop, 0) {
				if s, isC := constString(l.val); isC && s == "" {
					// the documented exception: the inner key-change JWS, which becomes the payload of a signed POST
					what = "empty nonce (inner JWS that is the payload of an outer signed POST)"
					feeds := false
					if call, isCall := ci.(*ssa.Call); isCall {
						for _, res := range resultN(call, 0) {
							if a.feedsPost(res, 0) {
								feeds = true
							}
						}
					}
					if !feeds {
						ok, what = false, "an empty nonce is signed, and the result is not the payload of an outer signed POST"
					}
					continue
				}
				ex, isE := l.val.(*ssa.Extract)
				call, _ := func() (*ssa.Call, bool) {
					if !isE || ex.Index != 0 {
						return nil, false
					}
					cl, isC := ex.Tuple.(*ssa.Call)
					return cl, isC
				}()
				if call == nil || call.Call.StaticCallee() != pop || pop == nil {
					ok, what = false, "the value at "+c.posStr(l.val.Pos())+" does not come from popNonce"
					continue
				}
				if what == "" {
					what = "popNonce result"
				}
				u := a.consumers(ex, isSign, nil)
				if len(u.others) > 0 {
					ok, what = false, "the popped nonce is also used at "+c.posStr(u.others[0].Pos())+" (a nonce must have exactly one consumer: the signature)"
				} else if len(u.sinks) != 1 {
					ok, what = false, fmt.Sprintf("the popped nonce reaches %d signatures (a nonce must have exactly one consumer)", len(u.sinks))
				}
			}
			if what == "" {
				ok, what = false, "the origin of the nonce argument cannot be traced"
			}
			c.check(ok, "C50.nonce-source", "jwsEncodeJSON in "+fnName(f), ci, what, "the nonce signed is not a fresh popNonce result: "+what)
		}
	}

	// ---- the pool is bounded
	maxN, haveMax := pkgConstInt(c, pk, "maxNonces")
	for _, f := range fns {
		for _, mu := range c50PoolAccess(f).inserts {
			bad := a.boundBad(f, mu, maxN, haveMax, 0)
			okMsg := fmt.Sprintf("at most %d nonces are pooled", maxN)
			if !haveMax {
				okMsg = "the pool stops growing at a finite size"
			}
			c.check(bad == "", "C50.pool-bound", fnName(f), mu, okMsg, bad)
		}
	}

	// ---- retry loops
	boFn := c.fn(pk, "(*retryTimer).backoff")
	for _, name := range []string{"(*Client).post", "(*Client).get"} {
		f := c.fn(pk, name)
		if f == nil || boFn == nil {
			continue
		}
		c50RetryLoop(c, f, boFn, name)
	}

	// ---- a badNonce answer empties the pool before the next nonce is taken
	if f := c.fn(pk, "(*Client).post"); f != nil && pop != nil {
		bn := deepCallsNamed(f, "acme.isBadNonce")
		yes := callSuccess(bn, 0, isTrue)
		ok := len(bn) >= 1 && len(yes) >= 1
		var at poser = f
		for _, e := range yes {
			chains := c50Chains(f, e.from.Parent())
			if len(chains) == 0 {
				ok = false
			}
			for _, ctx := range chains {
				hit := c50Walk(c50pos{ctx, e.to(), 0}, nil,
					func(in ssa.Instruction, _ *c50ctx) bool { return c50IsReset(in) },
					func(in ssa.Instruction, _ *c50ctx) bool {
						call, isCall := in.(*ssa.Call)
						return isCall && call.Call.StaticCallee() == pop
					}, nil)
				if hit != nil {
					ok, at = false, hit
				}
			}
		}
		c.check(ok, "C50.bad-nonce", "(*Client).post", at, "after a badNonce answer every path to the next popNonce empties the pool", "a badNonce answer does not clear the nonce pool")
	}

	// ---- backoff: bounded, cancellable
	if f := boFn; f != nil {
		var sel *ssa.Select
		deepInstrs(f, func(in ssa.Instruction) {
			if s, ok := in.(*ssa.Select); ok && s.Blocking {
				for _, st := range s.States {
					if call, isC := st.Chan.(*ssa.Call); isC && strings.HasSuffix(calleeName(&call.Call), "context.Context).Done") {
						sel = s
					}
				}
			}
		})
		c.check(sel != nil, "C50.ctx", "(*retryTimer).backoff", f, "the wait observes ctx.Done()", "backoff does not observe context cancellation while waiting")
		// the place in backoff itself where the wait happens
		var wait ssa.Instruction
		if sel != nil {
			if sel.Parent() == f {
				wait = sel
			} else {
				allInstrs(f, func(in ssa.Instruction) {
					if call, ok := in.(*ssa.Call); ok {
						if g := samePkgCallee(f, &call.Call); g != nil {
							for _, h := range deepFuncs(g) {
								if h == sel.Parent() {
									wait = call
								}
							}
						}
					}
				})
			}
		}
		// d <= 0 -> error
		var d ssa.Value
		allInstrs(f, func(in ssa.Instruction) {
			if call, ok := in.(*ssa.Call); ok {
				if _, fld, _, okf := fieldOf(call.Call.Value); okf && fld == "backoffFn" {
					d = call
				}
			}
		})
		okD := d != nil && wait != nil
		if okD {
			for _, v := range []int64{-5, 0, 1, 1000} {
				e := newEnv()
				e.bind(d, v)
				e.solve(f)
				if e.reach[wait.Block()] != (v > 0) {
					okD = false
				}
			}
		}
		c.check(okD, "C50.retry-bounded", "(*retryTimer).backoff non-positive delay", f, "a non-positive delay ends the retries with an error", "a non-positive backoff delay does not end the retries")
	}
}

// origins: c50Leaves, continued from a root parameter of an unexported
// function into every static caller.
func (a *c50an) origins(v ssa.Value, ctx *c50ctx, opaque func(*ssa.Function) bool, depth int) []c50leaf {
	var out []c50leaf
	for _, l := range c50Leaves(v, ctx, opaque) {
		if p, isP := l.val.(*ssa.Parameter); isP && depth < 3 {
			if sites, args, known := a.callerArgs(p); known {
				for i, arg := range args {
					out = append(out, a.origins(arg, &c50ctx{fn: sites[i].Parent()}, opaque, depth+1)...)
				}
				continue
			}
		}
		out = append(out, l)
	}
	return out
}

// feedsPost: v (or what a caller receives when v is returned) is part of an
// argument of a call to (*Client).post / postNoRetry.
func (a *c50an) feedsPost(v ssa.Value, depth int) bool {
	in, ok := v.(ssa.Instruction)
	if !ok || depth > 2 {
		return false
	}
	f := in.Parent()
	for _, ci := range calls(f, func(n string) bool { return n == "(*acme.Client).post" || n == "(*acme.Client).postNoRetry" }) {
		for _, arg := range ci.Common().Args {
			if dependsOn(arg, v, 8) {
				return true
			}
		}
	}
	if c50Exported(f) {
		return false
	}
	for _, r := range returnsOf(f) {
		for i, res := range r.Results {
			if !dependsOn(res, v, 8) {
				continue
			}
			for _, ci := range a.c.callersOf(f) {
				call, isCall := ci.(*ssa.Call)
				if !isCall {
					continue
				}
				for _, rv := range resultN(call, i) {
					if a.feedsPost(rv, depth+1) {
						return true
					}
				}
			}
		}
	}
	return false
}

// boundBad: the insertion point (a MapUpdate, or the call that leads to it)
// in g is reached exactly while the pool holds fewer than maxN nonces; when g
// itself never looks at the pool's size, every caller must do so around the
// call. Returns "" when the bound holds.
func (a *c50an) boundBad(g *ssa.Function, point ssa.Instruction, maxN int64, exact bool, depth int) string {
	var lens []*ssa.Call
	allInstrs(g, func(in ssa.Instruction) {
		if call, ok := in.(*ssa.Call); ok && calleeName(&call.Call) == "builtin:len" && c50IsPool(call.Call.Args[0]) {
			lens = append(lens, call)
		}
	})
	if len(lens) == 0 {
		none := "the pool size is not compared with its limit before a nonce is stored (unbounded pool)"
		cs := a.c.callersOf(g)
		if depth >= 2 || c50Exported(g) || len(cs) == 0 {
			return none
		}
		for _, ci := range cs {
			if bad := a.boundBad(ci.Parent(), ci, maxN, exact, depth+1); bad != "" {
				return bad
			}
		}
		return ""
	}
	sizes := []int64{0, 1, maxN - 1, maxN, maxN + 1}
	if !exact {
		sizes = []int64{0, 1 << 40}
	}
	for _, n := range sizes {
		e := newEnv()
		for _, l := range lens {
			e.bind(l, n)
		}
		e.solve(g)
		want := n < maxN
		if !exact {
			want = n == 0
		}
		if e.reach[point.Block()] != want {
			return fmt.Sprintf("pool size %d (limit %d): nonce stored=%v", n, maxN, e.reach[point.Block()])
		}
	}
	return ""
}

// c50RetryLoop: every cycle of the retry loop in f crosses an edge on which
// retryTimer.backoff returned nil, and a refused backoff ends the loop with an
// error. The backoff call may sit in f or in a helper; a helper whose error
// result is nil only behind such an edge (or is the backoff result itself)
// counts as backoff for its caller.
func c50RetryLoop(c *Ctx, f, boFn *ssa.Function, name string) {
	fs := deepFuncs(f)
	wrappers := map[*ssa.Function]bool{}
	isPass := func(call *ssa.Call) bool {
		g := call.Call.StaticCallee()
		return g != nil && !call.Call.IsInvoke() && (g == boFn || wrappers[g])
	}
	passCalls := func(g *ssa.Function) []ssa.CallInstruction {
		var out []ssa.CallInstruction
		allInstrs(g, func(in ssa.Instruction) {
			if call, ok := in.(*ssa.Call); ok && isPass(call) {
				out = append(out, call)
			}
		})
		return out
	}
	for changed := true; changed; {
		changed = false
		for _, g := range fs[1:] {
			res := g.Signature.Results()
			if wrappers[g] || g == boFn || res.Len() == 0 || res.At(res.Len()-1).Type().String() != "error" {
				continue
			}
			pcs := passCalls(g)
			if len(pcs) == 0 {
				continue
			}
			cut := edgeSet{}
			cut.addAll(callSuccess(pcs, -1, isNil))
			unguarded := reach([]*ssa.BasicBlock{g.Blocks[0]}, cut)
			ok := true
			for _, ret := range returnsOf(g) {
				for _, l := range phiLeaves(retVal(ret, res.Len()-1)) {
					from := ret.Block()
					if l.pred != nil {
						from = l.pred
					}
					if call, isCall := l.val.(*ssa.Call); isCall && isPass(call) {
						continue
					}
					if _, isMI := l.val.(*ssa.MakeInterface); isMI {
						continue
					}
					if isNilConst(l.val) && !unguarded[from] {
						continue
					}
					ok = false
				}
			}
			if ok {
				wrappers[g] = true
				changed = true
			}
		}
	}
	var pass []edge
	var local []ssa.CallInstruction
	for _, g := range fs {
		pcs := passCalls(g)
		pass = append(pass, callSuccess(pcs, -1, isNil)...)
		if g == f {
			local = pcs
		}
	}
	back := backEdges(f)
	ok := len(pass) > 0 && len(back) > 0
	var at poser = f
	if ok {
		cut := edgeSet{}
		cut.addAll(pass)
		for be := range back {
			if cut[be] {
				continue
			}
			last := be.from.Instrs[len(be.from.Instrs)-1]
			hit := c50Walk(c50pos{&c50ctx{fn: f}, be.to(), 0}, cut, nil,
				func(in ssa.Instruction, ctx *c50ctx) bool { return in == last && ctx.parent == nil }, nil)
			if hit != nil {
				ok, at = false, hit
			}
		}
	}
	c.check(ok, "C50.retry-bounded", name, at, "every retry cycle waits in backoff, which can end the loop", "the retry loop can cycle without passing retryTimer.backoff() == nil")
	// a refused backoff leaves the loop and returns an error
	refused := callFailure(local, -1, isNil)
	okEnd := len(refused) > 0
	for _, e := range refused {
		r := reach([]*ssa.BasicBlock{e.to()}, nil)
		for be := range back {
			if r[be.from] {
				okEnd = false
			}
		}
		for _, ret := range returnsOf(f) {
			if r[ret.Block()] && isNilConst(retVal(ret, len(ret.Results)-1)) {
				okEnd = false
			}
		}
	}
	c.check(okEnd, "C50.retry-bounded", name+" backoff failure", f, "a refused backoff leaves the loop and returns an error", "a refused backoff does not end the retry loop with an error")
}
