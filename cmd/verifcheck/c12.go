package main

import (
	"fmt"
	"go/types"
	"os"
	"time"

	"golang.org/x/tools/go/ssa"
)

func init() {
	register(&propDef{
		id: "C12", run: runC12, minOblig: 9,
		explanation: "Decides two clauses for the legacy block ciphers by evaluating the SSA of the constructors and of the TEA block functions inside the checker (c12_interp.go: calls are followed into every helper, closure and standard-library function that has a body, so the verdict does not depend on how the code is factored or how locals, receivers and helpers are named). (key lengths) every constructor is evaluated for every key length 0..70 (Blowfish NewSaltedCipher 0..100; TEA 0..40 x every round count -3..70) with the CONTENT of key and salt left unknown — a branch or a panic that depended on content would stop the evaluation as undecided, so the verdict holds for all keys of that length: the error result is nil exactly for the documented lengths (Blowfish NewCipher 1..56; NewSaltedCipher >= 1 with a non-empty salt, and as NewCipher, 1..56, with a nil or empty salt, where for three concrete keys the resulting cipher state is also equal to NewCipher's; Twofish 16, 24, 32; CAST5 16; XTEA 16; TEA 16 with an even round count), no length makes the constructor panic (index and slice bounds that are computed from lengths are checked; an index computed from key content is not), an accepted call returns a non-nil cipher and the key schedule has read every key byte (the first 72 for Blowfish, whose schedule is cyclic over 18 words). (TEA cycle count) for every even round count 0..256 the cipher returned by NewCipherWithRounds(key, rounds) is applied, through its Encrypt and Decrypt methods, to two fixed key/block pairs and the output equals reference TEA (computed in the checker: delta 0x9e3779b9, sum from 0 upward for Encrypt, from delta*(rounds/2) downward for Decrypt) with exactly rounds/2 cycles; a mismatch is diagnosed as the cycle count / initial sum the output does correspond to. NewCipher(key) equals the 64-round (32-cycle) reference in both directions. The cycle-count clause is exhaustive over round counts and a sample over keys and blocks. The internal RC2 constructor performs no key check and documents none. NOT decided: that Blowfish, CAST5, Twofish, XTEA or RC2 are invertible or equal their reference algorithms (S-box and Feistel arithmetic).",
		assumptions: []string{"documented key-size sets transcribed from the package documentation"},
	})
	tech("C12", "partial evaluation of the constructors' SSA over all key lengths with key content unknown (accept/reject, panics, key consumption); evaluation of the variable-round cipher for every even round count against reference TEA computed in the checker")
}

const c12StepLimit = 6000000

func runC12(c *Ctx) {
	it := newC12Interp(c.ld.prog)
	if os.Getenv("C12_TIMING") != "" {
		t0 := time.Now()
		defer func() {
			fmt.Fprintf(os.Stderr, "C12 rules: %.2fs, %d evaluation steps\n", time.Since(t0).Seconds(), it.total)
		}()
	}
	unknownKey := func(k int64) ([]c12v, *c12obj) {
		v, o := it.bytes(int(k), nil)
		return []c12v{v}, o
	}
	type ctor struct {
		pkg, fn string
		accept  func(k int64) bool
	}
	ctors := []ctor{
		{"blowfish", "NewCipher", func(k int64) bool { return k >= 1 && k <= 56 }},
		{"twofish", "NewCipher", func(k int64) bool { return k == 16 || k == 24 || k == 32 }},
		{"cast5", "NewCipher", func(k int64) bool { return k == 16 }},
		{"xtea", "NewCipher", func(k int64) bool { return k == 16 }},
	}
	for _, ct := range ctors {
		f := c.fn(ct.pkg, ct.fn)
		if f == nil {
			continue
		}
		bad, und := c12KeyLen(it, f, unknownKey, ct.accept, 0, 70)
		c12Verdict(c, "C12.key-length", ct.pkg+"."+ct.fn, f, "accept/reject agrees with the documentation for key lengths 0..70 (any key content); accepted keys are consumed by the key schedule", bad, und)
	}
	// Blowfish NewSaltedCipher: two regimes
	if f := c.fn("blowfish", "NewSaltedCipher"); f != nil {
		bad, und := c12KeyLen(it, f, func(k int64) ([]c12v, *c12obj) {
			kv, o := it.bytes(int(k), nil)
			sv, _ := it.bytes(16, nil)
			return []c12v{kv, sv}, o
		}, func(k int64) bool { return k >= 1 }, 0, 100)
		c12Verdict(c, "C12.key-length", "blowfish.NewSaltedCipher (salted)", f, "with a salt every key of at least 1 byte is accepted (bcrypt passes up to 73)", bad, und)
		// nil / empty salt: behaves as NewCipher(key)
		bad, und = "", ""
		for _, nilSalt := range []bool{true, false} {
			if bad != "" || und != "" {
				break
			}
			bad, und = c12KeyLen(it, f, func(k int64) ([]c12v, *c12obj) {
				kv, o := it.bytes(int(k), nil)
				sv := c12v{k: c12Slice}
				if !nilSalt {
					sv, _ = it.bytes(0, nil)
				}
				return []c12v{kv, sv}, o
			}, func(k int64) bool { return k >= 1 && k <= 56 }, 0, 100)
		}
		if nc := c.fn("blowfish", "NewCipher"); nc != nil && bad == "" && und == "" {
			for _, k := range []int{1, 16, 56} {
				key := make([]byte, k)
				for i := range key {
					key[i] = byte(0xa5 + 7*i)
				}
				kv1, _ := it.bytes(k, key)
				kv2, _ := it.bytes(k, key)
				r1, k1, m1 := it.run(nc, c12StepLimit, kv1)
				r2, k2, m2 := it.run(f, c12StepLimit, kv2, c12v{k: c12Slice})
				if k1 != "return" || k2 != "return" {
					und = fmt.Sprintf("key length %d: evaluation stopped (%s %s / %s %s)", k, k1, m1, k2, m2)
					break
				}
				if d := c12SameState(it, f, c12Results(r1)[0], c12Results(r2)[0]); d != "" {
					bad = fmt.Sprintf("key length %d: %s", k, d)
					break
				}
			}
		}
		if bad != "" {
			bad = "with an empty salt NewSaltedCipher does not behave as NewCipher(key): " + bad
		}
		c12Verdict(c, "C12.key-length", "blowfish.NewSaltedCipher (empty salt)", f, "behaves as NewCipher(key): accepts exactly 1..56 bytes and builds the same cipher state", bad, und)
	}
	// TEA
	teaCtor := c.fn("tea", "NewCipherWithRounds")
	if f := teaCtor; f != nil {
		bad, und := "", ""
		for r := int64(-3); r <= 70 && bad == "" && und == ""; r++ {
			rr := r
			b, u := c12KeyLen(it, f, func(k int64) ([]c12v, *c12obj) {
				kv, o := it.bytes(int(k), nil)
				return []c12v{kv, c12int(rr)}, o
			}, func(k int64) bool { return k == 16 && rr%2 == 0 }, 0, 40)
			if b != "" {
				bad = fmt.Sprintf("rounds=%d: %s", r, b)
			}
			if u != "" {
				und = fmt.Sprintf("rounds=%d: %s", r, u)
			}
		}
		c12Verdict(c, "C12.key-length", "tea.NewCipherWithRounds", f, "accepts exactly 16-byte keys with an even round count (rounds -3..70 x lengths 0..40)", bad, und)
		for _, dir := range []string{"Encrypt", "Decrypt"} {
			bad, und, at := "", "", poser(f)
			for r := 0; r <= 256 && bad == "" && und == ""; r += 2 {
				for v := range c12TeaVectors {
					b, u, m := c12TeaCheck(it, f, []c12v{c12int(int64(r))}, v, dir, r/2)
					if m != nil {
						at = m
					}
					if b != "" {
						bad = fmt.Sprintf("rounds=%d: %s", r, b)
					}
					if u != "" {
						und = fmt.Sprintf("rounds=%d: %s", r, u)
					}
					if bad != "" || und != "" {
						break
					}
				}
			}
			c12Verdict(c, "C12.tea-cycles", "tea."+dir+" cycle count", at, "the cipher built for n rounds executes n/2 TEA cycles (output equals reference TEA) for every even round count 0..256", bad, und)
		}
	}
	if f := c.fn("tea", "NewCipher"); f != nil {
		bad, und := "", ""
		for _, dir := range []string{"Encrypt", "Decrypt"} {
			for v := range c12TeaVectors {
				if bad != "" || und != "" {
					break
				}
				bad, und, _ = c12TeaCheck(it, f, nil, v, dir, 32)
			}
		}
		if bad != "" {
			bad = "NewCipher(key) is not standard 64-round TEA: " + bad
		}
		c12Verdict(c, "C12.tea-cycles", "tea.NewCipher", f, "standard TEA = 64 rounds (32 cycles) in both directions", bad, und)
	}
}

func c12Verdict(c *Ctx, rule, construct string, at poser, okDetail, bad, und string) {
	switch {
	case bad != "":
		c.fail(rule, construct, at, bad)
	case und != "":
		c.undecided(rule, construct, at, und)
	default:
		c.ok(rule, construct, at, okDetail)
	}
}

// c12KeyLen evaluates a constructor for every key length lo..hi. mk builds
// the argument list for a key of k bytes and returns the key's storage (whose
// loads are recorded). The constructor's last result is its error.
func c12KeyLen(it *c12interp, f *ssa.Function, mk func(k int64) ([]c12v, *c12obj), accept func(k int64) bool, lo, hi int64) (bad, und string) {
	for k := lo; k <= hi; k++ {
		args, key := mk(k)
		res, kind, msg := it.run(f, c12StepLimit, args...)
		switch kind {
		case "undecided":
			return "", fmt.Sprintf("key length %d: %s", k, c12short(msg))
		case "panic":
			if accept(k) {
				return fmt.Sprintf("a key of %d bytes is documented as valid but makes the constructor panic (%s)", k, msg), ""
			}
			return fmt.Sprintf("a key of %d bytes is documented as invalid; instead of returning an error the constructor panics (%s)", k, msg), ""
		}
		rs := c12Results(res)
		if len(rs) < 2 {
			return "", "the constructor does not return (cipher, error)"
		}
		accepted := c12IsNil(rs[len(rs)-1])
		if accept(k) && !accepted {
			return fmt.Sprintf("a key of %d bytes is documented as valid but can be rejected", k), ""
		}
		if !accept(k) && accepted {
			return fmt.Sprintf("a key of %d bytes is documented as invalid but is accepted", k), ""
		}
		if accepted {
			if c12IsNil(rs[0]) {
				return fmt.Sprintf("key length %d: accepted, but no cipher is returned", k), ""
			}
			// the key schedule consumes the key (Blowfish cycles over 18 words = 72 bytes)
			for i := 0; i < int(k) && i < 72; i++ {
				if !key.reads[i] {
					return fmt.Sprintf("key length %d: accepted, but the key schedule never reads key byte %d", k, i), ""
				}
			}
		}
	}
	return "", ""
}

// c12SameState compares the cipher records two constructor calls returned.
func c12SameState(it *c12interp, f *ssa.Function, a, b c12v) string {
	pt, ok := f.Signature.Results().At(0).Type().Underlying().(*types.Pointer)
	if !ok || a.k != c12Ptr || b.k != c12Ptr || a.o == nil || b.o == nil {
		return "no cipher record returned"
	}
	n := it.nleaf(pt.Elem())
	for i := 0; i < n; i++ {
		x, y := a.o.cells[a.a+i], b.o.cells[b.a+i]
		if x.k != c12Int || y.k != c12Int {
			return "cipher state not computable"
		}
		if x.n != y.n {
			return fmt.Sprintf("the cipher state differs from NewCipher's (word %d: %#x vs %#x)", i, y.n, x.n)
		}
	}
	return ""
}

// ---------------------------------------------------------------------------
// TEA against the reference algorithm

const c12Delta = 0x9e3779b9

var c12TeaVectors = []struct {
	key [16]byte
	blk [8]byte
}{
	{[16]byte{0x01, 0x23, 0x45, 0x67, 0x89, 0xab, 0xcd, 0xef, 0xfe, 0xdc, 0xba, 0x98, 0x76, 0x54, 0x32, 0x10}, [8]byte{0xde, 0xad, 0xbe, 0xef, 0x0b, 0xad, 0xf0, 0x0d}},
	{[16]byte{0xff, 0x00, 0x80, 0x7f, 0x11, 0x22, 0x33, 0x44, 0xc3, 0x5a, 0xa5, 0x3c, 0x99, 0x66, 0xe7, 0x18}, [8]byte{0x00, 0x00, 0x00, 0x01, 0xff, 0xff, 0xff, 0xfe}},
}

func c12be32(b []byte) uint32 {
	return uint32(b[0])<<24 | uint32(b[1])<<16 | uint32(b[2])<<8 | uint32(b[3])
}

// c12TeaRef: reference TEA (Wheeler & Needham 1994). Encryption runs `cycles`
// cycles with sum counting up from 0; decryption runs them with sum counting
// down from startSum.
func c12TeaRef(key [16]byte, blk [8]byte, cycles int, dec bool, startSum uint32) [8]byte {
	v0, v1 := c12be32(blk[0:]), c12be32(blk[4:])
	k0, k1, k2, k3 := c12be32(key[0:]), c12be32(key[4:]), c12be32(key[8:]), c12be32(key[12:])
	if !dec {
		sum := uint32(0)
		for i := 0; i < cycles; i++ {
			sum += c12Delta
			v0 += ((v1 << 4) + k0) ^ (v1 + sum) ^ ((v1 >> 5) + k1)
			v1 += ((v0 << 4) + k2) ^ (v0 + sum) ^ ((v0 >> 5) + k3)
		}
	} else {
		sum := startSum
		for i := 0; i < cycles; i++ {
			v1 -= ((v0 << 4) + k2) ^ (v0 + sum) ^ ((v0 >> 5) + k3)
			v0 -= ((v1 << 4) + k0) ^ (v1 + sum) ^ ((v1 >> 5) + k1)
			sum -= c12Delta
		}
	}
	return [8]byte{byte(v0 >> 24), byte(v0 >> 16), byte(v0 >> 8), byte(v0), byte(v1 >> 24), byte(v1 >> 16), byte(v1 >> 8), byte(v1)}
}

// c12TeaCheck builds a cipher with ctor(key, extra...), applies its method dir
// (found by dynamic dispatch on the returned cipher.Block) to test vector v
// and compares the output with reference TEA of `cycles` cycles.
func c12TeaCheck(it *c12interp, ctor *ssa.Function, extra []c12v, v int, dir string, cycles int) (bad, und string, at poser) {
	vec := c12TeaVectors[v]
	kv, _ := it.bytes(16, vec.key[:])
	res, kind, msg := it.run(ctor, c12StepLimit, append([]c12v{kv}, extra...)...)
	if kind != "return" {
		return "", fmt.Sprintf("constructor: %s (%s)", kind, c12short(msg)), nil
	}
	rs := c12Results(res)
	if len(rs) != 2 {
		return "", "the constructor does not return (cipher, error)", nil
	}
	if !c12IsNil(rs[1]) || c12IsNil(rs[0]) {
		return "the constructor rejects a 16-byte key with this round count", "", nil
	}
	m, recv := it.method(rs[0], ctor.Signature.Results().At(0).Type(), dir)
	if m == nil {
		return "", "the returned cipher has no method " + dir, nil
	}
	dst, dobj := it.bytes(8, make([]byte, 8))
	src, _ := it.bytes(8, vec.blk[:])
	_, kind, msg = it.run(m, c12StepLimit, recv, dst, src)
	if kind == "undecided" {
		return "", dir + ": " + c12short(msg), m
	}
	if kind == "panic" {
		return dir + " panics on an 8-byte block (" + msg + ")", "", m
	}
	var out [8]byte
	for i := range out {
		cell := dobj.cells[i]
		if cell.k != c12Int {
			return "", dir + ": output byte not computable", m
		}
		out[i] = byte(cell.n)
	}
	dec := dir == "Decrypt"
	want := c12TeaRef(vec.key, vec.blk, cycles, dec, c12Delta*uint32(cycles))
	if out == want {
		return "", "", m
	}
	// diagnose: which cycle count / initial sum does the output correspond to?
	const span = 300
	for n := 0; n <= span; n++ {
		if out == c12TeaRef(vec.key, vec.blk, n, dec, c12Delta*uint32(cycles)) {
			if dec {
				return fmt.Sprintf("%s executes %d cycles (its output equals %d-cycle TEA decryption started from sum = delta*%d), TEA requires %d", dir, n, n, cycles, cycles), "", m
			}
			return fmt.Sprintf("%s executes %d cycles (its output equals %d-cycle TEA), TEA requires %d", dir, n, n, cycles), "", m
		}
	}
	if dec {
		for n := 0; n <= span; n++ {
			if out == c12TeaRef(vec.key, vec.blk, n, dec, c12Delta*uint32(n)) {
				return fmt.Sprintf("%s executes %d cycles starting from sum = delta*%d, TEA requires %d cycles from delta*%d", dir, n, n, cycles, cycles), "", m
			}
		}
		for s := 0; s <= span; s++ {
			if out == c12TeaRef(vec.key, vec.blk, cycles, dec, c12Delta*uint32(s)) {
				return fmt.Sprintf("%s starts from sum = delta*%d, expected delta*(rounds/2) = delta*%d", dir, s, cycles), "", m
			}
		}
	}
	return fmt.Sprintf("%s output %x differs from reference TEA with %d cycles (%x) and from every other cycle count 0..%d: the round function, delta or the initial sum differs", dir, out, cycles, want, span), "", m
}
