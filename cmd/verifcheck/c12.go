package main

import (
	"fmt"
	"go/token"

	"golang.org/x/tools/go/ssa"
)

func init() {
	register(&propDef{
		id: "C12", run: runC12, minOblig: 9,
		explanation: "Decides two structural clauses for the legacy block ciphers. (key lengths) for every constructor the accept/reject decision is evaluated on the code as a function of len(key) for every length 0..70 (and, for TEA, every round count -3..70) and equals the documented one: Blowfish NewCipher accepts 1..56; NewSaltedCipher accepts >= 1 with a non-empty salt and behaves as NewCipher for an empty salt; Twofish accepts 16, 24, 32; CAST5 16; TEA 16 with an even round count; XTEA 16 — and the key schedule is reachable exactly on the accepting side. (TEA cycle count) in tea.Encrypt and tea.Decrypt the number of cycles executed — loop trip count (bound expression evaluated for every even round count 0..256) times the number of sum updates per iteration, each accompanied by one update of each half block — equals rounds/2, and Decrypt starts from sum = delta*(rounds/2) with the same delta. The internal RC2 constructor performs no key check and documents none. NOT decided: that any cipher is invertible or equals its reference algorithm (S-box and Feistel arithmetic).",
		assumptions: []string{"documented key-size sets transcribed from the package documentation"},
	})
	tech("C12", "finite-domain evaluation of the constructors' reject predicates over all key lengths; loop trip-count x update-chain-length evaluation for the variable-round cipher")
}

func runC12(c *Ctx) {
	type ctor struct {
		pkg, fn  string
		keyParam int
		accept   func(k int64) bool
		schedule string // callee that must be reachable exactly when accepted ("" = none)
	}
	ctors := []ctor{
		{"blowfish", "NewCipher", 0, func(k int64) bool { return k >= 1 && k <= 56 }, "blowfish.ExpandKey"},
		{"twofish", "NewCipher", 0, func(k int64) bool { return k == 16 || k == 24 || k == 32 }, ""},
		{"cast5", "NewCipher", 0, func(k int64) bool { return k == 16 }, "(*cast5.Cipher).keySchedule"},
		{"xtea", "NewCipher", 0, func(k int64) bool { return k == 16 }, "xtea.initCipher"},
	}
	for _, ct := range ctors {
		f := c.fn(ct.pkg, ct.fn)
		if f == nil {
			continue
		}
		bad := c12Eval(f, func(e *penv, k int64) { e.bindLen(f, f.Params[ct.keyParam], k) }, ct.accept, ct.schedule, 0, 70)
		c.check(bad == "", "C12.key-length", ct.pkg+"."+ct.fn, f, "accept/reject agrees with the documentation for key lengths 0..70", bad)
	}
	// Blowfish NewSaltedCipher: two regimes
	if f := c.fn("blowfish", "NewSaltedCipher"); f != nil {
		bad := c12Eval(f, func(e *penv, k int64) { e.bindLen(f, f.Params[0], k); e.bindLen(f, f.Params[1], 16) }, func(k int64) bool { return k >= 1 }, "blowfish.expandKeyWithSalt", 0, 100)
		c.check(bad == "", "C12.key-length", "blowfish.NewSaltedCipher (salted)", f, "with a salt every key of at least 1 byte is accepted (bcrypt passes up to 73)", bad)
		// empty salt: delegates to NewCipher
		e := newEnv()
		e.bindLen(f, f.Params[1], 0)
		_, rets, blocks := e.reachableExits(f, nil)
		okDel := len(rets) == 1
		for _, ci := range callsNamed(f, "blowfish.NewCipher") {
			okDel = okDel && blocks[ci.Block()] && ci.Common().Args[0] == ssa.Value(f.Params[0])
		}
		for _, ci := range callsNamed(f, "blowfish.expandKeyWithSalt") {
			if blocks[ci.Block()] {
				okDel = false
			}
		}
		c.check(okDel && len(callsNamed(f, "blowfish.NewCipher")) == 1, "C12.key-length", "blowfish.NewSaltedCipher (empty salt)", f, "returns NewCipher(key)", "with an empty salt NewSaltedCipher does not behave as NewCipher(key)")
	}
	// TEA
	if f := c.fn("tea", "NewCipherWithRounds"); f != nil {
		bad := ""
		for r := int64(-3); r <= 70 && bad == ""; r++ {
			rr := r
			b := c12Eval(f, func(e *penv, k int64) { e.bindLen(f, f.Params[0], k); e.bind(f.Params[1], rr) }, func(k int64) bool { return k == 16 && rr%2 == 0 }, "", 0, 40)
			if b != "" {
				bad = fmt.Sprintf("rounds=%d: %s", r, b)
			}
		}
		c.check(bad == "", "C12.key-length", "tea.NewCipherWithRounds", f, "accepts exactly 16-byte keys with an even round count (rounds -3..70 x lengths 0..40)", bad)
		okStore := false
		for _, st := range storesTo(f, "tea", "rounds") {
			if st.Val == ssa.Value(f.Params[1]) {
				okStore = true
			}
		}
		c.check(okStore, "C12.tea-cycles", "round count stored", f, "the cipher records the requested round count", "the requested round count is not what the cipher stores")
	}
	if f := c.fn("tea", "NewCipher"); f != nil {
		ok := false
		for _, ci := range callsNamed(f, "tea.NewCipherWithRounds") {
			if k, isK := constInt(ci.Common().Args[1]); isK && k == 64 && ci.Common().Args[0] == ssa.Value(f.Params[0]) {
				ok = true
			}
		}
		c.check(ok, "C12.tea-cycles", "tea.NewCipher", f, "standard TEA = 64 rounds", "NewCipher does not use the standard 64 rounds")
	}
	for _, n := range []string{"Encrypt", "Decrypt"} {
		if f := c.fn("tea", "(*tea)."+n); f != nil {
			c12TeaCycles(c, f, n)
		}
	}
}

// c12Eval evaluates a constructor for every key length lo..hi.
func c12Eval(f *ssa.Function, bind func(e *penv, k int64), accept func(k int64) bool, schedule string, lo, hi int64) string {
	for k := lo; k <= hi; k++ {
		e := newEnv()
		bind(e, k)
		_, rets, blocks := e.reachableExits(f, nil)
		acc, rej := false, false
		errIdx := f.Signature.Results().Len() - 1
		for _, r := range rets {
			switch errNilness(retVal(r, errIdx), r.Block(), 0) {
			case neverNil:
				rej = true
			case definitelyNil:
				acc = true
			default:
				// delegated result (e.g. return NewCipher(key)): judged by the callee's own obligation
				acc, rej = acc || accept(k), rej || !accept(k)
			}
		}
		if accept(k) && (rej || !acc) {
			return fmt.Sprintf("a key of %d bytes is documented as valid but can be rejected", k)
		}
		if !accept(k) && (acc || !rej) {
			return fmt.Sprintf("a key of %d bytes is documented as invalid but is accepted", k)
		}
		if schedule != "" {
			reached := false
			for _, ci := range callsNamed(f, schedule) {
				if blocks[ci.Block()] {
					reached = true
				}
			}
			if reached != accept(k) {
				return fmt.Sprintf("key length %d: key schedule reachable=%v", k, reached)
			}
		}
	}
	return ""
}

// chainLen: number of BinOps with operator op on the def chain from v back to phi
// (each with the previous chain value as left operand).
func chainLen(v ssa.Value, phi *ssa.Phi, op token.Token) (int, []*ssa.BinOp, bool) {
	n := 0
	var ops []*ssa.BinOp
	for v != ssa.Value(phi) {
		bo, ok := v.(*ssa.BinOp)
		if !ok || bo.Op != op || n > 64 {
			return 0, nil, false
		}
		ops = append(ops, bo)
		n++
		v = bo.X
	}
	return n, ops, true
}

func c12TeaCycles(c *Ctx, f *ssa.Function, name string) {
	op := token.ADD
	if name == "Decrypt" {
		op = token.SUB
	}
	be := backEdges(f)
	backVal := func(ph *ssa.Phi) (ssa.Value, ssa.Value) {
		var back, entry ssa.Value
		for i, e := range ph.Edges {
			pred := ph.Block().Preds[i]
			isBack := false
			for j, s := range pred.Succs {
				if s == ph.Block() && be[edge{pred, j}] {
					isBack = true
				}
			}
			if isBack {
				back = e
			} else {
				entry = e
			}
		}
		return back, entry
	}
	var sumPhi, iPhi, v0Phi, v1Phi *ssa.Phi
	allInstrs(f, func(in ssa.Instruction) {
		if ph, ok := in.(*ssa.Phi); ok {
			switch ph.Comment {
			case "sum":
				sumPhi = ph
			case "i":
				iPhi = ph
			case "v0":
				v0Phi = ph
			case "v1":
				v1Phi = ph
			}
		}
	})
	if sumPhi == nil || iPhi == nil || v0Phi == nil || v1Phi == nil {
		c.undecided("C12.tea-cycles", "tea."+name, f, "loop-carried sum/i/v0/v1 not found")
		return
	}
	sb, sEntry := backVal(sumPhi)
	k, ops, ok := chainLen(sb, sumPhi, op)
	// each sum update uses delta
	okDelta := ok
	for _, bo := range ops {
		if kk, isK := newEnv().eval(bo.Y); !isK || uint32(kk) != 0x9e3779b9 {
			okDelta = false
		}
	}
	v0b, _ := backVal(v0Phi)
	v1b, _ := backVal(v1Phi)
	k0, _, ok0 := chainLen(v0b, v0Phi, op)
	k1, _, ok1 := chainLen(v1b, v1Phi, op)
	ib, iEntry := backVal(iPhi)
	step, stepOK := int64(0), false
	if bo, isB := ib.(*ssa.BinOp); isB && bo.Op == token.ADD && bo.X == ssa.Value(iPhi) {
		step, stepOK = constInt(bo.Y)
	}
	i0, i0OK := constInt(iEntry)
	// loop condition: i < bound
	var bound ssa.Value
	for _, in := range iPhi.Block().Instrs {
		if bo, isB := in.(*ssa.BinOp); isB && bo.Op == token.LSS && bo.X == ssa.Value(iPhi) {
			bound = bo.Y
		}
	}
	if !ok || !ok0 || !ok1 || !okDelta || !stepOK || !i0OK || bound == nil || step != 1 || i0 != 0 {
		c.undecided("C12.tea-cycles", "tea."+name, f, fmt.Sprintf("loop shape not recognised (sum chain ok=%v delta=%v, v0 ok=%v, v1 ok=%v, step=%d, start=%d)", ok, okDelta, ok0, ok1, step, i0))
		return
	}
	bad := ""
	for r := int64(0); r <= 256; r += 2 {
		e := newEnv()
		e.bindField(f, "tea", "rounds", r)
		trips, okT := e.eval(bound)
		if !okT {
			bad = "loop bound does not evaluate from the round count"
			break
		}
		if trips < 0 {
			trips = 0
		}
		if trips*int64(k) != r/2 || k0 != k || k1 != k {
			bad = fmt.Sprintf("rounds=%d: %d iterations x %d sum updates (v0 updates %d, v1 updates %d) = %d cycles, TEA requires %d", r, trips, k, k0, k1, trips*int64(k), r/2)
			break
		}
		if name == "Decrypt" {
			if s0, okS := e.eval(sEntry); !okS || uint32(s0) != uint32(0x9e3779b9*(r/2)) {
				bad = fmt.Sprintf("rounds=%d: Decrypt starts from sum=%#x, expected delta*(rounds/2)=%#x", r, uint32(s0), uint32(0x9e3779b9*(r/2)))
				break
			}
		} else if s0, okS := e.eval(sEntry); !okS || s0 != 0 {
			bad = "Encrypt does not start from sum = 0"
			break
		}
	}
	c.check(bad == "", "C12.tea-cycles", "tea."+name+" cycle count", f, fmt.Sprintf("%d sum update(s) per iteration; iterations x updates = rounds/2 for every even round count 0..256", k), bad)
}
