package main

import (
	"fmt"
	"go/token"
	"go/types"

	"golang.org/x/tools/go/ssa"
)

// Scenario engine of C51: context-sensitive, compositional finite-domain
// evaluation of a root function and the same-package helpers it calls.
//
// A *scenario* fixes the outcome of some semantic tests ("now is before
// leaf.NotBefore", "the host policy returns an error", "the leaf key is an RSA
// key and N differs from the private key's N") and leaves everything else
// unknown. The tests are recognised by ROLE — which parameter / field / call
// result the operands derive from, followed through helper parameters in the
// calling context, spilled parameters, conversions and single-valued helper
// results — never by the name of a local, parameter or receiver and never by
// the function the test happens to be written in. Under the scenario every
// branch whose condition evaluates is folded (fd.go), helpers are evaluated per
// call site with the abstract values of their arguments and their results
// (integer / boolean value, nil-ness) flow back into the caller's conditions.
// What remains reachable (returns of the root with their abstract results,
// blocks, calls) is compared with the specification. Unknown conditions keep
// both edges, so "X is unreachable" verdicts are sound for any factoring of
// the code into helpers, merged or split conditions, if-chains or switches.

const c51Depth = 3

type c51Cx struct {
	parent *c51Cx
	call   *ssa.Call
	fn     *ssa.Function
	depth  int
	kids   map[*ssa.Call]*c51Cx
}

func (cx *c51Cx) kid(call *ssa.Call, callee *ssa.Function) *c51Cx {
	if k, ok := cx.kids[call]; ok {
		return k
	}
	if cx.kids == nil {
		cx.kids = map[*ssa.Call]*c51Cx{}
	}
	k := &c51Cx{parent: cx, call: call, fn: callee, depth: cx.depth + 1}
	cx.kids[call] = k
	return k
}

func (cx *c51Cx) active(f *ssa.Function) bool {
	for x := cx; x != nil; x = x.parent {
		if x.fn == f {
			return true
		}
	}
	return false
}

func (cx *c51Cx) isRoot() bool { return cx != nil && cx.parent == nil }

// c51Val: an SSA value in the calling context it is looked at.
type c51Val struct {
	v  ssa.Value
	cx *c51Cx
}

// c51SoleStore: the value of the only direct store into a local cell (a
// spilled parameter, `x := v` of an address-taken local).
func c51SoleStore(al *ssa.Alloc) ssa.Value {
	refs := al.Referrers()
	if refs == nil {
		return nil
	}
	var val ssa.Value
	n := 0
	for _, r := range *refs {
		if st, ok := r.(*ssa.Store); ok && st.Addr == ssa.Value(al) {
			val = st.Val
			n++
		}
	}
	if n == 1 {
		return val
	}
	return nil
}

// c51ThroughReturn: result #idx of a call of a same-package helper, when the
// helper has exactly one non-nil value for it (the other returns are error
// exits that give nil).
func c51ThroughReturn(call *ssa.Call, idx int, cx *c51Cx) (ssa.Value, *c51Cx, bool) {
	if cx == nil || cx.depth >= c51Depth {
		return nil, nil, false
	}
	H := samePkgCallee(call.Parent(), &call.Call)
	if H == nil || cx.active(H) {
		return nil, nil, false
	}
	var val ssa.Value
	for _, r := range returnsOf(H) {
		v := retVal(r, idx)
		if v == nil {
			return nil, nil, false
		}
		if isNilConst(v) {
			continue
		}
		if val != nil && val != v {
			return nil, nil, false
		}
		val = v
	}
	if val == nil {
		return nil, nil, false
	}
	return val, cx.kid(call, H), true
}

// c51Resolve follows a value to where it comes from: helper parameter ->
// argument in the calling context, conversions, a load of a cell with a single
// store -> the stored value, a single-valued helper result -> the value
// returned inside the helper.
func c51Resolve(v ssa.Value, cx *c51Cx) c51Val {
	for i := 0; i < 32 && v != nil; i++ {
		switch x := v.(type) {
		case *ssa.Parameter:
			if cx == nil || cx.parent == nil || cx.call == nil || x.Parent() != cx.fn {
				return c51Val{v, cx}
			}
			idx := paramIndex(cx.fn, x)
			args := cx.call.Call.Args
			if idx < 0 || idx >= len(args) {
				return c51Val{v, cx}
			}
			v, cx = args[idx], cx.parent
		case *ssa.ChangeType:
			v = x.X
		case *ssa.Convert:
			v = x.X
		case *ssa.ChangeInterface:
			v = x.X
		case *ssa.MakeInterface:
			v = x.X
		case *ssa.UnOp:
			if x.Op != token.MUL {
				return c51Val{v, cx}
			}
			al, ok := x.X.(*ssa.Alloc)
			if !ok {
				return c51Val{v, cx}
			}
			sv := c51SoleStore(al)
			if sv == nil {
				return c51Val{v, cx}
			}
			v = sv
		case *ssa.Extract:
			call, ok := x.Tuple.(*ssa.Call)
			if !ok {
				return c51Val{v, cx}
			}
			nv, ncx, ok := c51ThroughReturn(call, x.Index, cx)
			if !ok {
				return c51Val{v, cx}
			}
			v, cx = nv, ncx
		case *ssa.Call:
			if x.Call.Signature().Results().Len() != 1 {
				return c51Val{v, cx}
			}
			nv, ncx, ok := c51ThroughReturn(x, 0, cx)
			if !ok {
				return c51Val{v, cx}
			}
			v, cx = nv, ncx
		default:
			return c51Val{v, cx}
		}
	}
	return c51Val{v, cx}
}

// c51Chain: the field selections that lead from a root object to v
// ("PublicKey", "N"), and the resolved root. Loads, addresses, embedded
// fields, spilled values and helper boundaries are looked through.
func c51Chain(v ssa.Value, cx *c51Cx) (root c51Val, fields []string) {
	for i := 0; i < 32; i++ {
		r := c51Resolve(v, cx)
		v, cx = r.v, r.cx
		switch x := v.(type) {
		case *ssa.UnOp:
			if x.Op == token.MUL {
				switch x.X.(type) {
				case *ssa.FieldAddr, *ssa.Alloc, *ssa.Parameter, *ssa.UnOp:
					v = x.X
					continue
				}
			}
			return r, fields
		case *ssa.FieldAddr:
			st := derefStruct(x.X.Type())
			if st == nil {
				return r, fields
			}
			fields = append([]string{st.Field(x.Field).Name()}, fields...)
			v = x.X
		case *ssa.Field:
			st, ok := x.X.Type().Underlying().(*types.Struct)
			if !ok {
				return r, fields
			}
			fields = append([]string{st.Field(x.Field).Name()}, fields...)
			v = x.X
		case *ssa.Alloc:
			sv := c51SoleStore(x)
			if sv == nil {
				return r, fields
			}
			v = sv
		default:
			return r, fields
		}
	}
	return c51Val{v, cx}, fields
}

func c51Named(t types.Type) (pkg, name string) {
	if p, ok := t.(*types.Pointer); ok {
		t = p.Elem()
	}
	if n, ok := t.(*types.Named); ok && n.Obj() != nil {
		if n.Obj().Pkg() != nil {
			pkg = n.Obj().Pkg().Path()
		}
		return pkg, n.Obj().Name()
	}
	if a, ok := t.(*types.Alias); ok {
		return c51Named(types.Unalias(a))
	}
	return "", ""
}

// c51RootParam: v is a parameter of the ROOT function whose type is pkg.name.
func c51RootParam(r c51Val, pkg, name string) bool {
	p, ok := r.v.(*ssa.Parameter)
	if !ok || !r.cx.isRoot() || p.Parent() != r.cx.fn {
		return false
	}
	pp, nn := c51Named(p.Type())
	return nn == name && (pp == pkg || short(pp) == pkg)
}

// ---------------------------------------------------------------------------
// abstract values and the evaluator

type c51Abs struct {
	intOK bool
	n     int64
	nilOK bool
	isNil bool
}

func (a c51Abs) String() string {
	s := "?"
	if a.intOK {
		s = fmt.Sprint(a.n)
	}
	if a.nilOK {
		if a.isNil {
			s += "/nil"
		} else {
			s += "/nonnil"
		}
	}
	return s
}

type c51Ret struct {
	ret  *ssa.Return
	vals []c51Abs
}

const (
	c51None   = 0
	c51Value  = 1 // integer / boolean value n
	c51NilSt  = 2 // nil-ness: n == 0 nil, n != 0 non-nil
	c51Opaque = 3 // a call the scenario models itself: never evaluated as a helper
)

type c51Scen struct {
	c *Ctx
	// bind gives the scenario's value for an instruction seen in context cx.
	bind func(in ssa.Instruction, cx *c51Cx) (n int64, kind int)
	// opaque: same-package callees that are not evaluated (targets, oracles).
	opaque  func(callee *ssa.Function) bool
	reached map[*ssa.BasicBlock]bool
	// reachedIn: (instruction, context) pairs of reached calls, for rules that
	// look at the arguments of a reached call in its calling context.
	reachedCalls []c51Val
	evals        int
}

func c51B2I(b bool) int64 {
	if b {
		return 1
	}
	return 0
}

// run evaluates root under the scenario and returns the reachable returns of
// the root with their abstract results.
func (s *c51Scen) run(root *c51Cx) []c51Ret {
	s.reached = map[*ssa.BasicBlock]bool{}
	s.reachedCalls = nil
	return s.eval(root, nil, true)
}

func (s *c51Scen) descend(F *ssa.Function, cx *c51Cx, call *ssa.Call) *ssa.Function {
	H := samePkgCallee(F, &call.Call)
	if H == nil || cx.depth >= c51Depth || cx.active(H) {
		return nil
	}
	if s.opaque != nil && s.opaque(H) {
		return nil
	}
	return H
}

func (s *c51Scen) eval(cx *c51Cx, params []c51Abs, commit bool) []c51Ret {
	F := cx.fn
	s.evals++
	e := newEnv()
	nilSt := map[ssa.Value]bool{}
	for i, p := range F.Params {
		if i < len(params) {
			if params[i].intOK {
				e.bind(p, params[i].n)
			}
			if params[i].nilOK {
				nilSt[p] = params[i].isNil
			}
		}
	}
	allInstrs(F, func(in ssa.Instruction) {
		v, ok := in.(ssa.Value)
		if !ok {
			return
		}
		n, k := s.bind(in, cx)
		switch k {
		case c51Value:
			e.bind(v, n)
		case c51NilSt:
			nilSt[v] = n == 0
		}
	})
	var nilOf func(v ssa.Value, d int) (bool, bool)
	nilOf = func(v ssa.Value, d int) (bool, bool) {
		if v == nil || d > 8 {
			return false, false
		}
		if st, ok := nilSt[v]; ok {
			return st, true
		}
		switch x := v.(type) {
		case *ssa.Const:
			if x.IsNil() {
				return true, true
			}
		case *ssa.MakeInterface, *ssa.Alloc, *ssa.MakeSlice, *ssa.MakeMap, *ssa.MakeClosure, *ssa.Function:
			return false, true
		case *ssa.ChangeInterface:
			return nilOf(x.X, d+1)
		case *ssa.ChangeType:
			return nilOf(x.X, d+1)
		case *ssa.Call:
			switch short(calleeName(&x.Call)) {
			case "errors.New", "fmt.Errorf":
				return false, true
			}
		case *ssa.UnOp:
			if x.Op == token.MUL {
				if g, ok := x.X.(*ssa.Global); ok && types.IsInterface(x.Type()) && g != nil {
					return false, true // sentinel error variable
				}
			}
		case *ssa.Phi:
			seen, val := false, false
			for i, ed := range x.Edges {
				if e.reach != nil {
					pred := x.Block().Preds[i]
					if !e.reach[pred] || !e.edgeFeasible(pred, x.Block()) {
						continue
					}
				}
				if ed == ssa.Value(x) {
					continue
				}
				st, ok := nilOf(ed, d+1)
				if !ok || (seen && st != val) {
					return false, false
				}
				seen, val = true, st
			}
			return val, seen
		}
		return false, false
	}
	abs := func(v ssa.Value) c51Abs {
		var a c51Abs
		if v == nil {
			return a
		}
		a.n, a.intOK = e.eval(v)
		a.isNil, a.nilOK = nilOf(v, 0)
		return a
	}
	type memo struct {
		sig  string
		rets []c51Ret
	}
	cache := map[*ssa.Call]memo{}
	callArgs := func(call *ssa.Call) ([]c51Abs, string) {
		var as []c51Abs
		for _, a := range call.Call.Args {
			as = append(as, abs(a))
		}
		return as, fmt.Sprint(as)
	}
	for round := 0; round < 8; round++ {
		before := len(e.vals) + len(nilSt)
		allInstrs(F, func(in ssa.Instruction) {
			bo, ok := in.(*ssa.BinOp)
			if !ok || (bo.Op != token.EQL && bo.Op != token.NEQ) {
				return
			}
			var other ssa.Value
			switch {
			case isNilConst(bo.Y):
				other = bo.X
			case isNilConst(bo.X):
				other = bo.Y
			default:
				return
			}
			if st, ok := nilOf(other, 0); ok {
				e.bind(bo, c51B2I(st == (bo.Op == token.EQL)))
			}
		})
		e.solve(F)
		for _, b := range F.Blocks {
			if !e.reach[b] {
				continue
			}
			for _, in := range b.Instrs {
				call, ok := in.(*ssa.Call)
				if !ok {
					continue
				}
				H := s.descend(F, cx, call)
				if H == nil {
					continue
				}
				as, sig := callArgs(call)
				m, hit := cache[call]
				if !hit || m.sig != sig {
					m = memo{sig, s.eval(cx.kid(call, H), as, false)}
					cache[call] = m
				}
				if len(m.rets) == 0 {
					continue
				}
				nres := call.Call.Signature().Results().Len()
				for i := 0; i < nres; i++ {
					a := m.rets[0].vals[i]
					for _, r := range m.rets[1:] {
						o := r.vals[i]
						if !o.intOK || o.n != a.n {
							a.intOK = false
						}
						if !o.nilOK || o.isNil != a.isNil {
							a.nilOK = false
						}
					}
					var tgt []ssa.Value
					if nres == 1 {
						tgt = []ssa.Value{call}
					} else if refs := call.Referrers(); refs != nil {
						for _, r := range *refs {
							if ex, ok := r.(*ssa.Extract); ok && ex.Index == i {
								tgt = append(tgt, ex)
							}
						}
					}
					for _, t := range tgt {
						if a.intOK {
							e.bind(t, a.n)
						}
						if a.nilOK {
							nilSt[t] = a.isNil
						}
					}
				}
			}
		}
		if round > 0 && len(e.vals)+len(nilSt) == before {
			break
		}
	}
	if commit {
		for _, b := range F.Blocks {
			if !e.reach[b] {
				continue
			}
			s.reached[b] = true
			for _, in := range b.Instrs {
				call, ok := in.(*ssa.Call)
				if !ok {
					continue
				}
				s.reachedCalls = append(s.reachedCalls, c51Val{call, cx})
				if H := s.descend(F, cx, call); H != nil {
					as, _ := callArgs(call)
					s.eval(cx.kid(call, H), as, true)
				}
			}
		}
	}
	var out []c51Ret
	for _, r := range returnsOf(F) {
		if !e.reach[r.Block()] {
			continue
		}
		cr := c51Ret{ret: r}
		for i := range r.Results {
			v := retVal(r, i)
			a := abs(v)
			if !a.nilOK && v != nil && types.IsInterface(v.Type()) {
				switch errNilness(v, r.Block(), 0) {
				case neverNil:
					a.nilOK, a.isNil = true, false
				case definitelyNil:
					a.nilOK, a.isNil = true, true
				}
			}
			cr.vals = append(cr.vals, a)
		}
		out = append(out, cr)
	}
	return out
}
