package main

import (
	"fmt"
	"go/token"
	"sort"
	"strings"

	"golang.org/x/tools/go/ssa"
)

func init() {
	register(&propDef{
		id: "C36", run: runC36, minOblig: 24,
		explanation: "Decides connection-protocol structure in ssh/mux.go and ssh/channel.go: (reply gating) every delivery of a *Success/*Failure reply into mux.globalResponses / channel.msg from the read loop is a non-blocking select behind the true edge of the …Pending flag, and the flags are stored only by the two SendRequest methods; (open replies) channel state (remoteId, maxRemotePayload, window, channel-list removal) changes on OPEN_CONFIRMATION / OPEN_FAILURE only behind responseMessageReceived() == nil, which errors for inbound and already-decided channels; (unknown channels) channel.handlePacket is reached only for a non-nil channel, otherwise handleUnknownChannelPacket decides, all of whose returns are an error, a sent failure reply, or nil for a no-reply request; (exhaustiveness) for all 256 message codes the codes that onePacket routes to handleGlobalPacket decode (by evaluating decode's switch) to types that handleGlobalPacket's type switch handles, so its default panic is unreachable; the same for forwardList.handleChannels' channel-type switch against the registered types; (identifier roles) chanList.remove/getChan are never given a channel's remoteId and every PeersID / header id written by channel methods is remoteId; (shutdown) after mux.loop's read loop every path to return passes dropAll, and the closes of incomingChannels, incomingRequests and globalResponses; (length guards) the channel-id read is unreachable for packets shorter than 5 bytes. NOT decided: implicit panics on variable indices; blocking of the read loop on queued non-reply messages.",
		assumptions: []string{"packets handed to onePacket are non-empty (C24/C26: connectionState.readPacket rejects empty payloads)"},
	})
	tech("C36", "must-cross CFG rules, who-may-write tables, finite-domain enumeration of all 256 message codes through the routing and decode switches, identifier-role provenance")
}

func runC36(c *Ctx) {
	sweepC36(c)
	// ---- (a) reply gating
	for _, spec := range []struct{ fn, flag, ch string }{
		{"(*mux).handleGlobalPacket", "globalSentPending", "globalResponses"},
		{"(*channel).handlePacket", "sentRequestPending", "msg"},
	} {
		f := c.fn("ssh", spec.fn)
		if f == nil {
			continue
		}
		var loads []ssa.CallInstruction
		for _, ci := range callsNamed(f, "(*sync/atomic.Bool).Load") {
			if _, fld, _, ok := fieldOf(ci.Common().Args[0]); ok && fld == spec.flag {
				loads = append(loads, ci)
			}
		}
		pass := callSuccess(loads, 0, isTrue)
		var sels []ssa.Instruction
		okNB := true
		allInstrs(f, func(in ssa.Instruction) {
			sel, ok := in.(*ssa.Select)
			if !ok {
				return
			}
			for _, st := range sel.States {
				if st.Dir == 1 { // SendOnly
					if _, fld, _, ok := fieldOf(st.Chan); ok && fld == spec.ch {
						sels = append(sels, sel)
						if sel.Blocking {
							okNB = false
						}
					}
				}
			}
		})
		c.check(len(sels) == 1 && okNB, "C36.reply-nonblocking", spec.fn, f, "replies are delivered with a non-blocking select", fmt.Sprintf("expected one non-blocking select sending a reply into %s; found %d (non-blocking=%v)", spec.ch, len(sels), okNB))
		c.mustCross("C36.reply-gated", spec.fn, f, sels, pass, spec.flag+".Load() == true")
		// replies are not delivered by a plain blocking send anywhere else: a Send of the asserted Success/Failure value
		allInstrs(f, func(in ssa.Instruction) {
			snd, ok := in.(*ssa.Send)
			if !ok {
				return
			}
			if _, fld, _, ok := fieldOf(snd.Chan); !ok || fld != spec.ch {
				return
			}
			t := snd.X.Type().String()
			if mi, ok := snd.X.(*ssa.MakeInterface); ok {
				t = mi.X.Type().String()
			}
			if strings.Contains(t, "RequestSuccessMsg") || strings.Contains(t, "RequestFailureMsg") {
				c.fail("C36.reply-nonblocking", spec.fn+" blocking reply", snd, "a reply message is delivered with a blocking channel send from the read loop")
			}
		})
	}
	// flag writers
	for _, f := range c.funcsOfPkg("ssh") {
		for _, ci := range callsNamed(f, "(*sync/atomic.Bool).Store") {
			_, fld, _, ok := fieldOf(ci.Common().Args[0])
			if !ok || (fld != "globalSentPending" && fld != "sentRequestPending") {
				continue
			}
			nm := fnName(f)
			want := "(*mux).SendRequest"
			if fld == "sentRequestPending" {
				want = "(*channel).SendRequest"
			}
			c.check(nm == want || strings.HasPrefix(nm, want+"$"), "C36.flag-writers", fld+" stored in "+nm, ci, "only the matching SendRequest arms/disarms the reply gate", "the reply gate is written outside "+want)
		}
	}
	// ---- (b) open replies
	if f := c.fn("ssh", "(*channel).handlePacket"); f != nil {
		rmr := callsNamed(f, "(*ssh.channel).responseMessageReceived")
		pass := callSuccess(rmr, -1, isNil)
		var targets []ssa.Instruction
		for _, st := range storesTo(f, "channel", "remoteId") {
			targets = append(targets, st)
		}
		for _, st := range storesTo(f, "channel", "maxRemotePayload") {
			targets = append(targets, st)
		}
		for _, ci := range callsNamed(f, "(*ssh.chanList).remove") {
			if t, fld, _, ok := fieldOf(ci.Common().Args[1]); ok && fld == "PeersID" && t == "channelOpenFailureMsg" {
				targets = append(targets, ci)
			}
		}
		c.check(len(rmr) == 2, "C36.open-reply", "handlePacket responseMessageReceived calls", f, "both OPEN_CONFIRMATION and OPEN_FAILURE consult it", fmt.Sprintf("%d calls of responseMessageReceived, expected 2", len(rmr)))
		c.mustCross("C36.open-reply", "handlePacket channel state changes", f, targets, pass, "responseMessageReceived() == nil")
	}
	if f := c.fn("ssh", "(*channel).responseMessageReceived"); f != nil {
		inb, _ := pkgConstInt(c, "ssh", "channelInbound")
		bad := ""
		for _, dir := range []int64{inb, 1 - inb} {
			for dec := int64(0); dec < 2; dec++ {
				e := newEnv()
				e.bindField(f, "channel", "direction", dir)
				e.bindField(f, "channel", "decided", dec)
				e.solve(f)
				got := false
				for _, t := range acceptReturns(f, 0) {
					if e.reach[t.Block()] {
						got = true
					}
				}
				want := dir != inb && dec == 0
				if got != want {
					bad = fmt.Sprintf("direction=%d decided=%d: accepted=%v", dir, dec, got)
				}
			}
		}
		sts := storesTo(f, "channel", "decided")
		c.check(bad == "" && len(sts) == 1, "C36.open-reply", "responseMessageReceived", f, "accepts only the first reply on an outbound channel and records it", bad)
	}
	// ---- (c) unknown channel
	if f := c.fn("ssh", "(*mux).onePacket"); f != nil {
		gc := callsNamed(f, "(*ssh.chanList).getChan")
		hp := callsNamed(f, "(*ssh.channel).handlePacket")
		var nonNil []edge
		for _, ci := range gc {
			_, no := edgesWhere(callValue(ci), isNil)
			nonNil = append(nonNil, no...)
		}
		c.mustCross("C36.unknown-channel", "(*mux).onePacket", f, callInstrs(hp), nonNil, "getChan(id) != nil")
		// nil edge returns handleUnknownChannelPacket's verdict
		okU := false
		for _, r := range returnsOf(f) {
			if call, ok := r.Results[0].(*ssa.Call); ok && short(calleeName(&call.Call)) == "(*ssh.mux).handleUnknownChannelPacket" {
				okU = true
			}
		}
		c.check(okU, "C36.unknown-channel", "(*mux).onePacket unknown id", f, "an unknown id is decided by handleUnknownChannelPacket", "packets for unknown channel ids are not passed to handleUnknownChannelPacket")
		// length guard
		var u32 ssa.CallInstruction
		for _, ci := range calls(f, func(n string) bool { return strings.HasSuffix(n, ").Uint32") }) {
			u32 = ci
		}
		if u32 != nil {
			bad := ""
			for _, n := range []int64{1, 2, 3, 4, 5, 100} {
				e := newEnv()
				e.bindLen(f, f.Params[0], n)
				allInstrs(f, func(in ssa.Instruction) {
					if call, ok := in.(*ssa.Call); ok && calleeName(&call.Call) == "builtin:len" {
						if _, isEx := call.Call.Args[0].(*ssa.Extract); isEx {
							e.bind(call, n)
						}
					}
				})
				e.solve(f)
				if e.reach[u32.Block()] != (n >= 5) {
					bad = fmt.Sprintf("packet of %d bytes: channel id read reachable=%v", n, e.reach[u32.Block()])
				}
			}
			c.check(bad == "", "C36.length-guard", "(*mux).onePacket", u32, "channel id is read only from packets of at least 5 bytes", bad)
		} else {
			c.fail("C36.length-guard", "(*mux).onePacket", f, "channel id decoding not found")
		}
	}
	if f := c.fn("ssh", "(*mux).handleUnknownChannelPacket"); f != nil {
		okAll := true
		for _, r := range returnsOf(f) {
			v := r.Results[0]
			switch {
			case errNilness(v, r.Block(), 0) == neverNil:
			case isNilConst(v):
				// only for requests that want no reply: behind WantReply == false
				var wr []edge
				allInstrs(f, func(in ssa.Instruction) {
					if u, ok := in.(*ssa.UnOp); ok {
						if _, fld, _, ok := fieldOf(u); ok && fld == "WantReply" {
							_, no := boolEdges(u, true)
							wr = append(wr, no...)
						}
					}
				})
				cut := edgeSet{}
				cut.addAll(wr)
				if len(wr) == 0 || pathFromEntry(r, cut) {
					okAll = false
				}
			default:
				call, ok := v.(*ssa.Call)
				if !ok || !(strings.HasSuffix(calleeName(&call.Call), ".sendMessage")) {
					// error from decode
					if ex, ok := v.(*ssa.Extract); !ok || !strings.HasSuffix(calleeName(&ex.Tuple.(*ssa.Call).Call), ".decode") {
						okAll = false
					}
				}
			}
		}
		c.check(okAll, "C36.unknown-channel", "(*mux).handleUnknownChannelPacket", f, "returns an error, a sent failure reply, or nil only for a no-reply request", "a packet for an unknown channel can be silently accepted")
	}
	// ---- (d) exhaustiveness of handleGlobalPacket
	c36Exhaustive(c)
	// ---- identifier roles
	for _, f := range c.funcsOfPkg("ssh") {
		for _, ci := range callsNamed(f, "(*ssh.chanList).remove", "(*ssh.chanList).getChan") {
			arg := ci.Common().Args[1]
			_, fld, _, ok := fieldOf(arg)
			c.check(!(ok && fld == "remoteId"), "C36.id-role", short(calleeName(ci.Common()))+" in "+fnName(f), ci, "indexed by a local identifier", "the channel list (indexed by OUR ids) is accessed with the peer's id (remoteId)")
		}
		if f.Signature.Recv() == nil || typeName(f.Signature.Recv().Type()) != "channel" {
			continue
		}
		allInstrs(f, func(in ssa.Instruction) {
			if st, ok := in.(*ssa.Store); ok {
				if t, fld, _, ok := fieldOf(st.Addr); ok && fld == "PeersID" && t != "channel" {
					_, vf, _, okv := fieldOf(st.Val)
					c.check(okv && vf == "remoteId", "C36.id-role", t+".PeersID in "+fnName(f), st, "outgoing message addressed with the peer's channel id", "an outgoing channel message is addressed with something other than the peer's channel id")
				}
			}
			if call, ok := in.(*ssa.Call); ok && strings.HasSuffix(calleeName(&call.Call), ").PutUint32") {
				if _, vf, _, okv := fieldOf(call.Call.Args[len(call.Call.Args)-1]); okv && (vf == "localId" || vf == "remoteId") {
					c.check(vf == "remoteId", "C36.id-role", "data packet header in "+fnName(f), call, "data packets carry the peer's channel id", "a data packet header carries our local id instead of the peer's id")
				}
			}
		})
	}
	// ---- (e) shutdown
	if f := c.fn("ssh", "(*mux).loop"); f != nil {
		var exitBlocks []*ssa.BasicBlock
		var readCall ssa.CallInstruction
		for _, ci := range callsNamed(f, "(*ssh.mux).onePacket") {
			readCall = ci
		}
		for e := range backEdges(f) {
			h := e.to()
			// only the read loop: the loop that contains the onePacket call
			if readCall == nil || !(reach([]*ssa.BasicBlock{h}, nil)[readCall.Block()] && reach([]*ssa.BasicBlock{readCall.Block()}, nil)[e.from]) || !h.Dominates(readCall.Block()) {
				continue
			}
			// loop exit: successors of the header (or of blocks in the loop) outside the loop
			loop := reach([]*ssa.BasicBlock{h}, nil)
			_ = loop
			if iff, ok := h.Instrs[len(h.Instrs)-1].(*ssa.If); ok {
				_ = iff
				for _, s := range h.Succs {
					if !reach([]*ssa.BasicBlock{s}, nil)[e.from] {
						exitBlocks = append(exitBlocks, s)
					}
				}
			}
		}
		rets := returnsOf(f)
		need := []struct {
			what string
			ins  []ssa.Instruction
		}{
			{"chanList.dropAll()", callInstrs(callsNamed(f, "(*ssh.chanList).dropAll"))},
		}
		for _, chf := range []string{"incomingChannels", "incomingRequests", "globalResponses"} {
			var ins []ssa.Instruction
			for _, ci := range calls(f, nameIs("builtin:close")) {
				if _, fld, _, ok := fieldOf(ci.Common().Args[0]); ok && fld == chf {
					ins = append(ins, ci)
				}
			}
			need = append(need, struct {
				what string
				ins  []ssa.Instruction
			}{"close(" + chf + ")", ins})
		}
		for _, n := range need {
			ok := len(n.ins) == 1 && len(exitBlocks) > 0 && len(rets) > 0
			if ok {
				avoid := map[*ssa.BasicBlock]bool{n.ins[0].Block(): true}
				r := reachAvoiding(exitBlocks, nil, avoid)
				for _, rt := range rets {
					if r[rt.Block()] {
						ok = false
					}
				}
			}
			c.check(ok, "C36.shutdown", "(*mux).loop "+n.what, f, "on every path from the read loop's exit to return", "mux.loop can return after the read loop ends without "+n.what+" (waiters would hang)")
		}
		// each dropped channel is closed
		cl := callsNamed(f, "(*ssh.channel).close")
		c.check(len(cl) >= 1, "C36.shutdown", "(*mux).loop closes dropped channels", f, "every dropped channel is closed", "dropped channels are not closed at shutdown")
	}
}

func c36Exhaustive(c *Ctx) {
	one := c.fn("ssh", "(*mux).onePacket")
	dec := c.fn("ssh", "decode")
	hg := c.fn("ssh", "(*mux).handleGlobalPacket")
	if one == nil || dec == nil || hg == nil {
		return
	}
	hgCalls := callsNamed(one, "(*ssh.mux).handleGlobalPacket")
	if len(hgCalls) != 1 {
		c.fail("C36.exhaustive", "handleGlobalPacket routing", one, "call site not found")
		return
	}
	var pkt ssa.Value
	for _, ci := range calls(one, func(n string) bool { return strings.HasSuffix(n, ".readPacket") }) {
		for _, v := range resultN(ci.(*ssa.Call), 0) {
			pkt = v
		}
	}
	var routed []int64
	for code := int64(0); code < 256; code++ {
		e := newEnv()
		e.bindIndexLoads(one, func(b ssa.Value) bool { return b == pkt }, 0, code)
		e.solve(one)
		if e.reach[hgCalls[0].Block()] {
			routed = append(routed, code)
		}
	}
	// types decode produces for those codes
	handled := map[string]bool{}
	allInstrs(hg, func(in ssa.Instruction) {
		if ta, ok := in.(*ssa.TypeAssert); ok {
			handled[ta.AssertedType.String()] = true
		}
	})
	var missing []string
	var types_ []string
	for _, code := range routed {
		e := newEnv()
		e.bindIndexLoads(dec, func(b ssa.Value) bool { return b == ssa.Value(dec.Params[0]) }, 0, code)
		e.solve(dec)
		found := ""
		allInstrs(dec, func(in ssa.Instruction) {
			mi, ok := in.(*ssa.MakeInterface)
			if !ok || !e.reach[mi.Block()] {
				return
			}
			if al, ok := mi.X.(*ssa.Alloc); ok && al.Heap {
				found = mi.X.Type().String()
			}
		})
		types_ = append(types_, fmt.Sprintf("%d->%s", code, short(found)))
		if found == "" || !handled[found] {
			missing = append(missing, fmt.Sprintf("code %d decodes to %q", code, short(found)))
		}
	}
	sort.Strings(missing)
	c.check(len(routed) == 3 && len(missing) == 0, "C36.exhaustive", "handleGlobalPacket default panic unreachable", hg,
		fmt.Sprintf("routed codes and decoded types %v are all handled", types_), fmt.Sprintf("%d codes routed to handleGlobalPacket; unhandled: %v (its default arm panics)", len(routed), missing))
	// forwardList.handleChannels default panic: registered channel types vs cases
	if f := c.fn("ssh", "(*forwardList).handleChannels"); f != nil {
		cases := map[string]bool{}
		allInstrs(f, func(in ssa.Instruction) {
			if bo, ok := in.(*ssa.BinOp); ok && bo.Op == token.EQL {
				if s, ok := constString(bo.Y); ok {
					cases[s] = true
				}
			}
		})
		// registrations: HandleChannelOpen("…") whose result is passed to handleChannels
		var reg []string
		for _, g := range c.funcsOfPkg("ssh") {
			for _, ci := range callsNamed(g, "(*ssh.Client).HandleChannelOpen", "(*ssh.mux).HandleChannelOpen") {
				if s, ok := constString(ci.Common().Args[1]); ok && strings.HasPrefix(s, "forwarded-") {
					reg = append(reg, s)
				}
			}
		}
		sort.Strings(reg)
		okAll := len(reg) >= 2
		for _, r := range reg {
			if !cases[r] {
				okAll = false
			}
		}
		c.check(okAll, "C36.exhaustive", "forwardList.handleChannels default panic unreachable", f, fmt.Sprintf("registered channel types %v all have a case", reg), fmt.Sprintf("registered channel types %v are not all handled (cases: %v)", reg, cases))
	}
}
