package main

import (
	"fmt"
	"go/token"
	"sort"
	"strings"

	"golang.org/x/tools/go/ssa"
)

func init() {
	register(&propDef{
		id: "C36", run: runC36, minOblig: 24,
		explanation: "Decides connection-protocol structure in ssh/mux.go and ssh/channel.go by abstractly interpreting the body of the read loop, mux.onePacket, path- and context-sensitively with the same-package helpers it reaches expanded in place (values identified by provenance through helper parameters, branch conditions — if-chains, switches, type switches, bool/error helper results — folded into per-path knowledge about dynamic types, nil-ness, flag loads and the contents of channel.direction / channel.decided): (reply gating) on every path, every channel send into mux.globalResponses, and every send into channel.msg of a value whose dynamic type may be *channelRequestSuccessMsg / *channelRequestFailureMsg, is a non-blocking select and follows a Load() == true of the …Pending flag of the same object, wherever gate and send are factored; the flags are written (Store/Swap/CompareAndSwap, also through a pointer passed to a helper) only by the matching SendRequest, its closures, or unexported helpers called from nowhere else; (open replies) stores to remoteId / maxRemotePayload of a looked-up channel and, once the decoded message is known to be an OPEN_CONFIRMATION / OPEN_FAILURE, channel-list removal, window credit and delivery into channel.msg happen only on paths that found direction != channelInbound and decided == false, and such paths store decided = true before onePacket returns; if responseMessageReceived exists as a function it is additionally evaluated over the four (direction, decided) cases; (unknown channels) channel.handlePacket is entered only with a receiver known non-nil, and for getChan(id) == nil onePacket returns handleUnknownChannelPacket's result, all of whose returns (looking through helpers it returns) are an error, a sent reply, or nil behind WantReply == false; (exhaustiveness) for all 256 message codes the codes for which a call of handleGlobalPacket is reachable (in onePacket or a dispatch helper, finite-domain evaluation per function up the call chain) decode (by interpreting decode with packet[0] bound to the code and its package helpers expanded in place, and reading the dynamic type of the message it returns) to types that handleGlobalPacket or its helpers type-assert, so its default panic is unreachable; the same for forwardList.handleChannels' channel-type comparisons against the registered types; (identifier roles) chanList.remove/getChan are never given a value that originates (through any call chain) from a channel's remoteId and every PeersID / header id written by channel methods is remoteId; (shutdown) by interpreting mux.loop, deferred calls included: every path to its return has executed dropAll and the closes of the receiver's incomingChannels, incomingRequests and globalResponses, in loop or in helpers; (length guards) the computation of the id given to getChan is unreachable for packets shorter than 5 bytes and reachable from 5 bytes on. NOT decided: implicit panics on variable indices; blocking of the read loop on queued non-reply messages; that SendRequest disarms the gate again.",
		assumptions: []string{"packets handed to onePacket are non-empty (C24/C26: connectionState.readPacket rejects empty payloads)"},
	})
	tech("C36", "path- and context-sensitive abstract interpretation of the read loop with helpers expanded in place (c36_explore.go), who-may-write tables over all call chains, finite-domain enumeration of all 256 message codes through the routing and decode switches, identifier-role provenance")
}

func runC36(c *Ctx) {
	sweepC36(c)
	// ---- (a) reply gating, (b) open replies, (c) dispatch of unknown channel ids: by interpretation of the read loop body
	c36Protocol(c)
	c36FlagWriters(c)
	c36ResponseMessageReceived(c)
	c36UnknownVerdict(c)
	c36LengthGuard(c)
	// ---- (d) exhaustiveness of handleGlobalPacket
	c36Exhaustive(c)
	// ---- identifier roles
	c36IdRoles(c)
	// ---- (e) shutdown
	c36Shutdown(c)
}

func c36Exhaustive(c *Ctx) {
	one := c.fn("ssh", "(*mux).onePacket")
	dec := c.fn("ssh", "decode")
	hg := c.fn("ssh", "(*mux).handleGlobalPacket")
	if one == nil || dec == nil || hg == nil {
		return
	}
	// the call(s) of handleGlobalPacket, in onePacket or in a helper it dispatches through
	hgCalls := deepCallsNamed(one, "(*ssh.mux).handleGlobalPacket")
	pk := c36PacketOf(c, one)
	if len(hgCalls) == 0 || len(pk.reads) == 0 {
		c.fail("C36.exhaustive", "handleGlobalPacket routing", one, "call site not found: onePacket (with its helpers) does not read a packet and hand it to handleGlobalPacket")
		return
	}
	var routed []int64
	for code := int64(0); code < 256; code++ {
		for _, hc := range hgCalls {
			if pk.reachable(hc, -1, code, 0) {
				routed = append(routed, code)
				break
			}
		}
	}
	// dynamic types handleGlobalPacket (or a helper of it) has a case for: type
	// assertions on a decoded message (not on an error)
	handled := map[string]bool{}
	deepInstrs(hg, func(in ssa.Instruction) {
		if ta, ok := in.(*ssa.TypeAssert); ok && ta.X.Type().String() != "error" {
			handled[ta.AssertedType.String()] = true
		}
	})
	var missing []string
	var types_ []string
	for _, code := range routed {
		// the dynamic type(s) of the message decode returns for this code: decode
		// is interpreted with packet[0] == code, its helpers expanded in place
		got, why := c36DecodedTypes(c, dec, code)
		if why != "" {
			c.undecided("C36.exhaustive", "handleGlobalPacket default panic unreachable", dec, fmt.Sprintf("message code %d: %s", code, why))
			return
		}
		found := strings.Join(got, ",")
		types_ = append(types_, fmt.Sprintf("%d->%s", code, short(found)))
		if len(got) == 0 {
			missing = append(missing, fmt.Sprintf("code %d decodes to %q", code, ""))
		}
		for _, t := range got {
			if !handled[t] {
				missing = append(missing, fmt.Sprintf("code %d decodes to %q", code, short(t)))
			}
		}
	}
	sort.Strings(missing)
	c.check(len(routed) == 3 && len(missing) == 0, "C36.exhaustive", "handleGlobalPacket default panic unreachable", hg,
		fmt.Sprintf("routed codes and decoded types %v are all handled", types_), fmt.Sprintf("%d codes routed to handleGlobalPacket; unhandled: %v (its default arm panics)", len(routed), missing))
	// forwardList.handleChannels default panic: registered channel types vs cases
	if f := c.fn("ssh", "(*forwardList).handleChannels"); f != nil {
		cases := map[string]bool{}
		deepInstrs(f, func(in ssa.Instruction) {
			if bo, ok := in.(*ssa.BinOp); ok && bo.Op == token.EQL {
				if s, ok := constString(bo.Y); ok {
					cases[s] = true
				} else if s, ok := constString(bo.X); ok {
					cases[s] = true
				}
			}
		})
		// registrations: HandleChannelOpen("…") whose result is passed to handleChannels
		var reg []string
		for _, g := range c.funcsOfPkg("ssh") {
			for _, ci := range callsNamed(g, "(*ssh.Client).HandleChannelOpen", "(*ssh.mux).HandleChannelOpen") {
				if s, ok := constString(ci.Common().Args[1]); ok && strings.HasPrefix(s, "forwarded-") {
					reg = append(reg, s)
				}
			}
		}
		sort.Strings(reg)
		okAll := len(reg) >= 2
		for _, r := range reg {
			if !cases[r] {
				okAll = false
			}
		}
		c.check(okAll, "C36.exhaustive", "forwardList.handleChannels default panic unreachable", f, fmt.Sprintf("registered channel types %v all have a case", reg), fmt.Sprintf("registered channel types %v are not all handled (cases: %v)", reg, cases))
	}
}
