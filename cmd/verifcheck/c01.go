package main

import (
	"fmt"
	"strings"

	"golang.org/x/tools/go/ssa"
)

func init() {
	register(&propDef{
		id: "C01", run: runC01, minOblig: 12,
		explanation: "Decides the RFC 8439 section 2.8 construction as implemented by the portable path, and the dispatch to the assembly path (not the ChaCha20 / Poly1305 arithmetic). (construction) sealGeneric and openGeneric are interpreted interprocedurally (helpers inlined, slices represented by lengths) for every additional-data length 0..33 and plaintext length 0..33, with and without spare capacity in dst: the one-time key is 32 bytes of key stream produced on a zeroed array before SetCounter(1); the payload is XORed after that with counter 1; the MAC, keyed with that array, absorbs exactly — in this order and nothing else — the additional data, zero bytes up to a multiple of 16, the ciphertext (Seal: the XOR destination; Open: the received bytes without the tag), zero bytes up to a multiple of 16, the 8-byte little-endian length of the additional data and of the ciphertext; Seal writes the tag right after the ciphertext; Open verifies the last 16 received bytes and decrypts only on success, returning the plaintext region, and on failure zeroes the output region and returns nil with the error; (XChaCha) Seal and Open of the extended-nonce variant derive the key with HChaCha20(key, nonce[0:16]) and use the nonce 4 zero bytes followed by nonce[16:24], identically; (entry points) Seal/Open panic for a wrong nonce length and over-long inputs, Open rejects inputs shorter than the tag; (dispatch) the assembly routines are reachable only under feature assignments that imply the extensions their mnemonics need, and without them the generic routines run; setupState lays out the RFC constants, key, a zero block counter and the nonce. NOT decided: that either implementation computes ChaCha20 or Poly1305 correctly — in particular nothing inside the 5k-line assembly file.",
		assumptions: []string{"chacha20.Cipher position semantics (C03)", "poly1305.MAC Write/Sum/Verify are the MAC over the written bytes", "mnemonic -> extension table of the E9 engine"},
	})
	tech("C01", "interprocedural finite-domain interpretation of the AEAD construction against the RFC 8439 transcript over all small length pairs; argument-provenance sibling rule for XChaCha; assembly mnemonic scan + exhaustive dispatch evaluation")
}

func runC01(c *Ctx) {
	const pkg = "chacha20poly1305"
	n := c.asmGuardCheck("C01.dispatch", pkg)
	c.check(n < 0 || n >= 2, "C01.dispatch", "assembly call sites", nil, fmt.Sprintf("%d guarded call sites", n), "seal/open assembly call sites not found")
	c01Generic(c, pkg, true)
	c01Generic(c, pkg, false)
	c01X(c, pkg)
	c01Entry(c, pkg)
	c01SetupState(c, pkg)
}

type aeadSeg struct {
	class string
	n     int64
}

func c01Generic(c *Ctx, pkg string, seal bool) {
	fname := "(*chacha20poly1305).openGeneric"
	if seal {
		fname = "(*chacha20poly1305).sealGeneric"
	}
	f := c.fn(pkg, fname)
	if f == nil {
		return
	}
	dstP, nonceP, textP, adP := f.Params[1], f.Params[2], f.Params[3], f.Params[4]
	_ = nonceP
	cases, bad := 0, ""
	verdicts := []int64{1}
	if !seal {
		verdicts = []int64{1, 0}
	}
	for a := int64(0); a <= 33 && bad == ""; a++ {
		for n := int64(0); n <= 33 && bad == ""; n++ {
			for _, spare := range []bool{false, true} {
				for _, verdict := range verdicts {
					total := n
					if !seal {
						total = n + 16
					}
					w := &pathWalker{env: newEnv(), lengths: true, maxSteps: 30000, assumeErrNil: true}
					w.env.bind(dstP, 5)
					w.env.bind(textP, total)
					w.env.bind(adP, a)
					// classes of slice values
					class := map[ssa.Value]string{adP: "AD", textP: "TEXT", dstP: "DST"}
					off := map[ssa.Value]int64{adP: 0, textP: 0, dstP: 0}
					content := map[*ssa.Alloc]string{} // local arrays: "" zero, "LE64(n)", "KEYSTREAM"
					var polyKeyAlloc *ssa.Alloc
					var evs []string
					var mac []aeadSeg
					macKeyed := false
					var ctVal ssa.Value
					zeroed := int64(0)
					// byte-granular contents of local arrays written by PutUint64 (any split of
					// the length block into one or two scratch arrays reads the same)
					bytesOf := map[*ssa.Alloc]map[int64]string{}
					baseOff := func(w *pathWalker, v ssa.Value) (*ssa.Alloc, int64) {
						if sl, ok := v.(*ssa.Slice); ok {
							if al, ok := sl.X.(*ssa.Alloc); ok {
								lo := int64(0)
								if sl.Low != nil {
									lo, _ = w.env.eval(sl.Low)
								}
								return al, lo
							}
						}
						return nil, 0
					}
					addMac := func(cl string, l int64) {
						if l <= 0 && cl != "?" {
							return
						}
						if k := len(mac); k > 0 {
							p := &mac[k-1]
							if p.class == cl && cl == "ZERO" {
								p.n += l
								return
							}
							// X@o+n followed by X@(o+n): one contiguous region
							if i := strings.LastIndex(p.class, "@"); i > 0 && strings.HasPrefix(cl, p.class[:i+1]) {
								var o1, o2 int64
								fmt.Sscan(p.class[i+1:], &o1)
								fmt.Sscan(cl[i+1:], &o2)
								if o1+p.n == o2 {
									p.n += l
									return
								}
							}
						}
						mac = append(mac, aeadSeg{cl, l})
					}
					baseAlloc := func(v ssa.Value) *ssa.Alloc {
						if sl, ok := v.(*ssa.Slice); ok {
							if al, ok := sl.X.(*ssa.Alloc); ok {
								return al
							}
						}
						if al, ok := v.(*ssa.Alloc); ok {
							return al
						}
						return nil
					}
					w.inline = func(callee *ssa.Function) bool {
						return callee.Pkg != nil && short(callee.Pkg.Pkg.Path()) == pkg
					}
					w.onInline = func(parent, child *pathWalker, callee *ssa.Function, args []ssa.Value) {
						for i, p := range callee.Params {
							if i < len(args) {
								if cl, ok := class[args[i]]; ok {
									class[p] = cl
									off[p] = off[args[i]]
								} else {
									delete(class, p)
								}
							}
						}
						// fresh locals
						allInstrs(callee, func(in ssa.Instruction) {
							if al, ok := in.(*ssa.Alloc); ok {
								delete(content, al)
							}
						})
					}
					w.onReturn = func(parent, child *pathWalker, call *ssa.Call, results []ssa.Value) {
						if short(calleeName(&call.Call)) == pkg+".sliceForAppend" && len(results) == 2 {
							// head: "RET" (dst followed by the output region), tail: "OUT"
							for _, ref := range *call.Referrers() {
								if ex, ok := ref.(*ssa.Extract); ok {
									if ex.Index == 0 {
										class[ex], off[ex] = "RET", 0
									} else {
										class[ex], off[ex] = "OUT", 0
									}
								}
							}
						}
					}
					w.onSlice = func(w *pathWalker, sl *ssa.Slice) {
						if cl, ok := class[sl.X]; ok {
							lo := int64(0)
							if sl.Low != nil {
								lo, _ = w.env.eval(sl.Low)
							}
							class[sl], off[sl] = cl, off[sl.X]+lo
						}
					}
					w.onPhi = func(w *pathWalker, ph *ssa.Phi, in ssa.Value) {
						if cl, ok := class[in]; ok {
							class[ph], off[ph] = cl, off[in]
						} else {
							delete(class, ph)
						}
					}
					desc := func(w *pathWalker, v ssa.Value) string {
						l, _ := w.env.eval(v)
						if cl, ok := class[v]; ok {
							return fmt.Sprintf("%s@%d+%d", cl, off[v], l)
						}
						if al := baseAlloc(v); al != nil {
							k := content[al]
							if k == "" {
								k = "ZERO"
							}
							return fmt.Sprintf("%s+%d", k, l)
						}
						return fmt.Sprintf("?+%d", l)
					}
					w.onCall = func(w *pathWalker, ci ssa.CallInstruction) string {
						cc := ci.Common()
						name := short(calleeName(cc))
						switch {
						case name == "builtin:cap":
							if v, ok := ci.(ssa.Value); ok {
								if spare {
									w.env.bind(v, 1000)
								} else {
									l, _ := w.env.eval(cc.Args[0])
									w.env.bind(v, l)
								}
							}
						case strings.HasSuffix(name, "alias.InexactOverlap"), strings.HasSuffix(name, "alias.AnyOverlap"):
							w.env.bind(ci.(ssa.Value), 0)
						case name == "chacha20.NewUnauthenticatedCipher":
							evs = append(evs, "cipher(key,nonce)")
							if sl, ok := cc.Args[0].(*ssa.Slice); !ok || !strings.HasSuffix(accessPath(sl.X), ".key") || cc.Args[1] != ssa.Value(nonceP) {
								evs = append(evs, "cipher-args?")
							}
						case strings.HasSuffix(name, "chacha20.Cipher).XORKeyStream"):
							d, s := cc.Args[1], cc.Args[2]
							if al := baseAlloc(d); al != nil && baseAlloc(s) == al && content[al] == "" {
								l, _ := w.env.eval(d)
								content[al] = "KEYSTREAM"
								polyKeyAlloc = al
								evs = append(evs, fmt.Sprintf("xor(zero array,%d)", l))
							} else {
								evs = append(evs, "xor("+desc(w, d)+"<-"+desc(w, s)+")")
								if seal {
									ctVal = d
									class[d], off[d] = "CT", 0
									// later slices of OUT that denote the same region keep class OUT; the MAC must see this very value
								}
							}
						case strings.HasSuffix(name, "chacha20.Cipher).SetCounter"):
							k, _ := w.env.eval(cc.Args[1])
							evs = append(evs, fmt.Sprintf("counter=%d", k))
						case name == "internal/poly1305.New":
							if al := baseAlloc(cc.Args[0]); al != nil && al == polyKeyAlloc && content[al] == "KEYSTREAM" {
								macKeyed = true
								evs = append(evs, "mac(polykey)")
							} else {
								evs = append(evs, "mac(?)")
							}
						case strings.HasSuffix(name, "poly1305.MAC).Write"):
							l, _ := w.env.eval(cc.Args[1])
							cl := "?"
							if k, ok := class[cc.Args[1]]; ok {
								cl = fmt.Sprintf("%s@%d", k, off[cc.Args[1]])
							} else if al, lo := baseOff(w, cc.Args[1]); al != nil {
								// byte by byte: complete little-endian words become one segment each
								for i := lo; i < lo+l; {
									tok := bytesOf[al][i]
									if strings.HasSuffix(tok, "#0") && i+8 <= lo+l {
										whole := true
										for j := int64(1); j < 8; j++ {
											if bytesOf[al][i+j] != fmt.Sprintf("%s#%d", tok[:len(tok)-2], j) {
												whole = false
											}
										}
										if whole {
											addMac(tok[:len(tok)-2], 8)
											i += 8
											continue
										}
									}
									if tok == "" {
										tok = content[al]
									}
									if tok == "" {
										tok = "ZERO"
									}
									addMac(tok, 1)
									i++
								}
								break
							}
							addMac(cl, l)
						case strings.HasPrefix(name, "(encoding/binary.littleEndian).PutUint64"):
							if al, lo := baseOff(w, cc.Args[1]); al != nil {
								k, _ := w.env.eval(cc.Args[2])
								if bytesOf[al] == nil {
									bytesOf[al] = map[int64]string{}
								}
								for j := int64(0); j < 8; j++ {
									bytesOf[al][lo+j] = fmt.Sprintf("LE64(%d)#%d", k, j)
								}
							}
						case name == "builtin:clear":
							if cl, isC := class[cc.Args[0]]; isC && cl == "OUT" {
								l, _ := w.env.eval(cc.Args[0])
								zeroed += l
							}
						case strings.HasSuffix(name, "poly1305.MAC).Sum"):
							evs = append(evs, "tag->"+desc(w, cc.Args[1]))
						case strings.HasSuffix(name, "poly1305.MAC).Verify"):
							evs = append(evs, "verify("+desc(w, cc.Args[1])+")")
							w.env.bind(ci.(ssa.Value), verdict)
						}
						return ""
					}
					w.onStore = func(w *pathWalker, st *ssa.Store) string {
						if ia, ok := st.Addr.(*ssa.IndexAddr); ok {
							if cl, isC := class[ia.X]; isC && cl == "OUT" {
								if k, isK := constInt(st.Val); isK && k == 0 {
									zeroed++
								}
							}
						}
						return ""
					}
					end := w.walk(f.Blocks[0], nil)
					cases++
					id := fmt.Sprintf("len(ad)=%d len(text)=%d spare=%v verify=%d", a, total, spare, verdict)
					if end != "return" {
						bad = id + ": evaluation ended with " + end + " " + w.why
						break
					}
					pad := func(x int64) int64 { return (16 - x%16) % 16 }
					var wantMac []aeadSeg
					ctClass := "TEXT@0"
					if seal {
						ctClass = "CT@0"
					}
					for _, s := range []aeadSeg{{"AD@0", a}, {"ZERO", pad(a)}, {ctClass, n}, {"ZERO", pad(n)}, {fmt.Sprintf("LE64(%d)", a), 8}, {fmt.Sprintf("LE64(%d)", n), 8}} {
						if s.n > 0 {
							wantMac = append(wantMac, s)
						}
					}
					if fmt.Sprint(mac) != fmt.Sprint(wantMac) {
						bad = fmt.Sprintf("%s: the MAC absorbs %v, RFC 8439 2.8 requires %v", id, mac, wantMac)
						break
					}
					got := strings.Join(evs, " ")
					var want string
					ret := w.last.(*ssa.Return)
					if seal {
						want = fmt.Sprintf("cipher(key,nonce) xor(zero array,32) counter=1 xor(OUT@0+%d<-TEXT@0+%d) mac(polykey) tag->OUT@%d+0", n, n, n)
						if got != want {
							bad = fmt.Sprintf("%s: code performs [%s], expected [%s]", id, got, want)
						}
						if cl := class[retVal(ret, 0)]; cl != "RET" {
							bad = id + ": Seal does not return dst followed by the output region"
						}
						_ = ctVal
					} else {
						want = fmt.Sprintf("cipher(key,nonce) xor(zero array,32) counter=1 mac(polykey) verify(TEXT@%d+16)", n)
						if verdict == 1 {
							want += fmt.Sprintf(" xor(OUT@0+%d<-TEXT@0+%d)", n, n)
						}
						if got != want {
							bad = fmt.Sprintf("%s: code performs [%s], expected [%s]", id, got, want)
						}
						if verdict == 1 {
							if class[retVal(ret, 0)] != "RET" || !isNilConst(retVal(ret, 1)) {
								bad = id + ": a verified Open does not return dst followed by the plaintext region with a nil error"
							}
						} else {
							if !isNilConst(retVal(ret, 0)) || !isGlobalLoad(retVal(ret, 1), "errOpen") {
								bad = id + ": a failed Open does not return (nil, errOpen)"
							}
							if zeroed != n {
								bad = fmt.Sprintf("%s: a failed Open zeroes %d of the %d output bytes", id, zeroed, n)
							}
						}
					}
					if !macKeyed {
						bad = id + ": the MAC is not keyed with the key-stream block"
					}
					if w.oob {
						bad = id + ": a slice expression leaves its bounds"
					}
				}
			}
		}
	}
	c.check(bad == "" && cases > 2000, "C01.construction", pkg+"."+fname, f, fmt.Sprintf("%d (len(ad), len(text), capacity, verdict) cases agree with the RFC 8439 section 2.8 transcript", cases), bad)
}

func c01X(c *Ctx, pkg string) {
	for _, m := range []struct{ name, inner string }{{"Seal", "seal"}, {"Open", "open"}} {
		f := c.fn(pkg, "(*xchacha20poly1305)."+m.name)
		if f == nil {
			continue
		}
		nonce := f.Params[2]
		sliceOf := func(v ssa.Value, base ssa.Value, lo, hi int64) bool {
			sl, ok := v.(*ssa.Slice)
			if !ok || sl.X != base {
				return false
			}
			l, h := int64(0), int64(-1)
			if sl.Low != nil {
				l, _ = constInt(sl.Low)
			}
			if sl.High != nil {
				h, _ = constInt(sl.High)
			}
			return l == lo && h == hi
		}
		hc := callsNamed(f, "chacha20.HChaCha20")
		ok := len(hc) == 1
		var inner *ssa.Alloc
		if ok {
			a := hc[0].Common().Args
			ks, isS := a[0].(*ssa.Slice)
			ok = isS && strings.HasSuffix(accessPath(ks.X), ".key") && accessPath(ks.X) == "x.key" && sliceOf(a[1], nonce, 0, 16)
		}
		c.check(ok, "C01.xchacha", m.name+" subkey", f, "HChaCha20(x.key, nonce[0:16])", "the XChaCha subkey is not HChaCha20(key, nonce[0:16])")
		// copy(c.key[:], hKey)
		okKey := false
		var cnonce ssa.Value
		for _, ci := range callsNamed(f, "builtin:copy") {
			a := ci.Common().Args
			if ds, isS := a[0].(*ssa.Slice); isS {
				if fa, isF := ds.X.(*ssa.FieldAddr); isF {
					if al, isA := fa.X.(*ssa.Alloc); isA && len(hc) == 1 {
						if ex, isE := a[1].(*ssa.Extract); isE && ex.Tuple == callValue(hc[0]) && ex.Index == 0 {
							okKey = true
							inner = al
						}
					}
				}
				// copy(cNonce[4:12], nonce[16:24])
				if mk, isM := ds.X.(*ssa.MakeSlice); isM {
					l, _ := constInt(mk.Len)
					if l == 12 && sliceOf(a[0], mk, 4, 12) && sliceOf(a[1], nonce, 16, 24) {
						cnonce = mk
					}
				}
				if sl2, isS2 := ds.X.(*ssa.Slice); isS2 {
					if al, isA := sl2.X.(*ssa.Alloc); isA && al.Comment == "makeslice" {
						if sliceOf(a[0], sl2, 4, 12) && sliceOf(a[1], nonce, 16, 24) {
							cnonce = sl2
						}
					}
				}
			}
		}
		c.check(okKey, "C01.xchacha", m.name+" inner key", f, "the inner AEAD key is the HChaCha20 output", "the inner AEAD is not keyed with the HChaCha20 output")
		c.check(cnonce != nil, "C01.xchacha", m.name+" inner nonce", f, "12-byte nonce = 4 zero bytes | nonce[16:24]", "the inner nonce is not 4 zero bytes followed by nonce[16:24]")
		ic := calls(f, func(n string) bool { return strings.HasSuffix(n, "chacha20poly1305)."+m.inner) })
		okCall := len(ic) == 1 && inner != nil && cnonce != nil
		if okCall {
			a := ic[0].Common().Args
			ns, isS := a[2].(*ssa.Slice)
			okCall = a[0] == ssa.Value(inner) && a[1] == ssa.Value(f.Params[1]) && isS && ns.X == cnonce && ns.Low == nil && ns.High == nil && a[3] == ssa.Value(f.Params[3]) && a[4] == ssa.Value(f.Params[4])
		}
		c.check(okCall, "C01.xchacha", m.name+" delegation", f, "c."+m.inner+"(dst, cNonce, text, additionalData) on the re-keyed AEAD", "the extended-nonce "+m.name+" does not delegate to the inner AEAD with the derived key and nonce")
	}
}

func c01Entry(c *Ctx, pkg string) {
	for _, t := range []struct {
		typ      string
		nonceLen int64
	}{{"chacha20poly1305", 12}, {"xchacha20poly1305", 24}} {
		for _, m := range []string{"Seal", "Open"} {
			f := c.fn(pkg, "(*"+t.typ+")."+m)
			if f == nil {
				continue
			}
			bad := ""
			inner := strings.ToLower(m)
			for _, nl := range []int64{0, 8, 12, 16, 24, 32} {
				for _, tl := range []int64{0, 15, 16, 17, 100, 1<<38 - 64, 1<<38 - 63, 1<<38 - 48, 1<<38 - 47} {
					e := newEnv()
					e.bindLen(f, f.Params[2], nl)
					e.bindLen(f, f.Params[3], tl)
					pans, rets, blocks := e.reachableExits(f, nil)
					reached := false
					for _, ci := range calls(f, func(n string) bool { return strings.HasSuffix(n, "chacha20poly1305)."+inner) }) {
						if blocks[ci.Block()] {
							reached = true
						}
					}
					limit := int64(1<<38 - 64)
					if m == "Open" {
						limit = 1<<38 - 48
					}
					wantPanic := nl != t.nonceLen || tl > limit && !(m == "Open" && tl < 16)
					wantShort := m == "Open" && nl == t.nonceLen && tl < 16
					switch {
					case wantPanic && (len(pans) == 0 || reached):
						bad = fmt.Sprintf("nonce length %d, input length %d: no panic", nl, tl)
					case wantShort && (reached || len(rets) != 1):
						bad = fmt.Sprintf("input length %d shorter than the tag is not rejected", tl)
					case !wantPanic && !wantShort && (!reached || len(pans) > 0):
						bad = fmt.Sprintf("nonce length %d, input length %d: valid call does not reach the implementation", nl, tl)
					}
				}
			}
			c.check(bad == "", "C01.entry", t.typ+"."+m, f, "nonce length, size limit and minimum length guards as documented", bad)
		}
	}
}

func c01SetupState(c *Ctx, pkg string) {
	f := c.fnOpt(pkg, "setupState")
	if f == nil || len(f.Blocks) == 0 {
		return
	}
	got := map[int64]string{}
	allInstrs(f, func(in ssa.Instruction) {
		st, ok := in.(*ssa.Store)
		if !ok {
			return
		}
		ia, ok := st.Addr.(*ssa.IndexAddr)
		if !ok || ia.X != ssa.Value(f.Params[0]) {
			return
		}
		idx, _ := constInt(ia.Index)
		if k, isK := constInt(st.Val); isK {
			got[idx] = fmt.Sprintf("%#x", k)
			return
		}
		if cl, isC := st.Val.(*ssa.Call); isC && strings.HasPrefix(short(calleeName(&cl.Call)), "(encoding/binary.littleEndian).Uint32") {
			if sl, isS := cl.Call.Args[1].(*ssa.Slice); isS {
				lo := int64(0)
				if sl.Low != nil {
					lo, _ = constInt(sl.Low)
				}
				base := "?"
				switch sl.X {
				case ssa.Value(f.Params[1]):
					base = "key"
				case ssa.Value(f.Params[2]):
					base = "nonce"
				}
				got[idx] = fmt.Sprintf("%s@%d", base, lo)
			}
		}
	})
	want := map[int64]string{0: "0x61707865", 1: "0x3320646e", 2: "0x79622d32", 3: "0x6b206574", 12: "0x0", 13: "nonce@0", 14: "nonce@4", 15: "nonce@8"}
	for i := int64(0); i < 8; i++ {
		want[4+i] = fmt.Sprintf("key@%d", 4*i)
	}
	bad := ""
	for i := int64(0); i < 16; i++ {
		if got[i] != want[i] {
			bad += fmt.Sprintf("state[%d]=%s (want %s) ", i, got[i], want[i])
		}
	}
	c.check(bad == "", "C01.dispatch", "setupState layout", f, "constants | key | counter 0 | nonce (RFC 8439 2.3)", "the initial state handed to the assembly is not the RFC 8439 layout: "+bad)
}
