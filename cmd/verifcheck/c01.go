package main

import (
	"fmt"
	"strings"

	"golang.org/x/tools/go/ssa"
)

func init() {
	register(&propDef{
		id: "C01", run: runC01, minOblig: 12,
		explanation: "Decides the RFC 8439 section 2.8 construction as implemented by the portable path, the XChaCha key/nonce derivation, the entry guards, and the dispatch to and the arguments of the assembly path (not the ChaCha20 / Poly1305 arithmetic). All rules interpret the code (helpers of the package inlined, values identified by provenance — which parameter, field or allocation, at which offset — never by the names of locals, parameters or helpers, nor by which function a step sits in). (construction) sealGeneric and openGeneric are interpreted with slices represented by lengths for every additional-data length 0..33 and plaintext length 0..33, with and without spare capacity in dst: the cipher is created from the receiver's 32-byte key array and the whole 12-byte nonce; the one-time key is 32 bytes of key stream produced on a zeroed array before SetCounter(1); the payload is XORed after that with counter 1; the MAC, keyed with that array, absorbs exactly — in this order and nothing else — the additional data, zero bytes up to a multiple of 16, the ciphertext (Seal: the bytes of the output region after the XOR wrote them; Open: the received bytes without the tag), zero bytes up to a multiple of 16, the 8-byte little-endian length of the additional data and of the ciphertext; Seal writes the tag right after the ciphertext and returns a buffer that starts with dst's bytes (dst resliced into its spare capacity, or a fresh buffer dst was copied into — via make+copy, append or slices.Grow, in a helper or not) followed by exactly the output region, and nothing overwrites the output region (which an in-place caller passes as input) before it is read; Open verifies the last 16 received bytes and decrypts only on success, returning dst plus the plaintext region, and on failure zeroes the output region and returns (nil, errOpen); (XChaCha) Seal and Open of the extended-nonce variant are interpreted on a byte-accurate memory in which every key and nonce byte has its own value: at the call that hands over to seal/open of the ChaCha20-Poly1305 type, that receiver's key bytes are the output of HChaCha20(the XChaCha receiver's 32 key bytes, nonce bytes 0..15), the nonce argument is the 12 bytes 0,0,0,0,nonce[16..23], dst, the text and the additional data are passed whole and unchanged, and the call's results are returned; (entry points) Seal/Open of both types, interpreted for a table of nonce and input lengths, panic for a wrong nonce length and over-long inputs before reaching the implementation, Open rejects inputs shorter than the tag with (nil, errOpen), valid calls reach the implementation; (dispatch) the assembly routines are reachable only under feature assignments that imply the extensions their mnemonics need, and without them the generic routines run; seal/open of the AEAD type, interpreted on the byte-accurate memory with the package's feature switches on, hand the assembly routine a 16-word state holding the RFC 8439 constants, the eight little-endian key words, a zero block counter and the three little-endian nonce words (however they are put there), the whole output region right behind dst's bytes, the text (Open: without the tag) and the additional data, and return dst plus that region (Open: (nil, errOpen) and a zeroed region when the routine reports failure); every assembly call site of the package is covered. NOT decided: that either implementation computes ChaCha20 or Poly1305 correctly — in particular nothing inside the 5k-line assembly file; the buffer-overlap panics.",
		assumptions: []string{"chacha20.Cipher position semantics (C03)", "poly1305.MAC Write/Sum/Verify are the MAC over the written bytes", "mnemonic -> extension table of the E9 engine"},
	})
	tech("C01", "interprocedural finite-domain interpretation of the AEAD construction against the RFC 8439 transcript over all small length pairs (provenance classes for slices and scratch storage); byte-accurate concrete-valued interpretation (distinct value per input byte, two assignments) of the XChaCha derivation and of the assembly call's state block and arguments; length-table interpretation of the entry guards; assembly mnemonic scan + exhaustive dispatch evaluation")
}

func runC01(c *Ctx) {
	const pkg = "chacha20poly1305"
	n := c.asmGuardCheck("C01.dispatch", pkg)
	c.check(n < 0 || n >= 2, "C01.dispatch", "assembly call sites", nil, fmt.Sprintf("%d guarded call sites", n), "seal/open assembly call sites not found")
	c01Generic(c, pkg, true)
	c01Generic(c, pkg, false)
	c01X(c, pkg)
	c01Entry(c, pkg)
	c01AsmState(c, pkg, n >= 0)
}

type aeadSeg struct {
	class string
	n     int64
}

func c01Generic(c *Ctx, pkg string, seal bool) {
	fname := "(*chacha20poly1305).openGeneric"
	if seal {
		fname = "(*chacha20poly1305).sealGeneric"
	}
	f := c.fn(pkg, fname)
	if f == nil {
		return
	}
	if len(f.Params) != 5 {
		c.undecided("C01.construction", pkg+"."+fname, f, "unexpected signature")
		return
	}
	recvP, dstP, nonceP, textP, adP := f.Params[0], f.Params[1], f.Params[2], f.Params[3], f.Params[4]
	keyField := c01ArrayField(recvP.Type(), 32)
	const dstLen = 5
	cases, bad := 0, ""
	verdicts := []int64{1}
	if !seal {
		verdicts = []int64{1, 0}
	}
	for a := int64(0); a <= 33 && bad == ""; a++ {
		for n := int64(0); n <= 33 && bad == ""; n++ {
			for _, spare := range []bool{false, true} {
				for _, verdict := range verdicts {
					total := n
					if !seal {
						total = n + 16
					}
					w := &pathWalker{env: newEnv(), lengths: true, maxSteps: 30000, assumeErrNil: true}
					w.env.bind(dstP, dstLen)
					w.env.bind(nonceP, 12)
					w.env.bind(textP, total)
					w.env.bind(adP, a)
					// classes of slice values, by provenance: which parameter's bytes (from
					// which offset) a value denotes. "BUF" is any buffer that starts with
					// dst's bytes — dst itself (resliced into its spare capacity) or a fresh
					// buffer dst was copied to the front of; the bytes behind dst's are the
					// output region, printed as OUT@0.. — however the buffer was obtained
					// (a helper, inline code, make+copy, append, slices.Grow).
					class := map[ssa.Value]string{adP: "AD", textP: "TEXT", dstP: "BUF", nonceP: "NONCE", recvP: "RECV"}
					off := map[ssa.Value]int64{adP: 0, textP: 0, dstP: 0, nonceP: 0, recvP: 0}
					// norm: class and offset as printed (BUF behind dst's bytes = OUT)
					norm := func(v ssa.Value) (string, int64, bool) {
						cl, ok := class[v]
						if !ok {
							return "", 0, false
						}
						if cl == "BUF" && off[v] >= dstLen {
							return "OUT", off[v] - dstLen, true
						}
						return cl, off[v], true
					}
					ctLen := int64(-1) // Seal: OUT@0..ctLen holds the ciphertext once the payload XOR ran
					// fresh local storage (a local array, new(T), make) is identified by the
					// allocating instruction and followed through slice expressions and into
					// the parameters of inlined helpers / out of their results (stor), so a
					// scratch array may be declared in one function and filled in another
					content := map[ssa.Value]string{} // "" zero, "KEYSTREAM"
					var polyKeyAlloc ssa.Value
					type c01Stor struct {
						base ssa.Value
						off  int64
					}
					stor := map[ssa.Value]c01Stor{}
					var evs []string
					var mac []aeadSeg
					macKeyed := false
					zeroed := int64(0)
					// byte-granular contents of local arrays written by PutUint64 (any split of
					// the length block into one or two scratch arrays reads the same)
					bytesOf := map[ssa.Value]map[int64]string{}
					var baseOff func(w *pathWalker, v ssa.Value) (ssa.Value, int64)
					baseOff = func(w *pathWalker, v ssa.Value) (ssa.Value, int64) {
						if s, ok := stor[v]; ok {
							return s.base, s.off
						}
						switch x := v.(type) {
						case *ssa.Alloc:
							return x, 0
						case *ssa.MakeSlice:
							return x, 0
						case *ssa.Slice:
							b, o := baseOff(w, x.X)
							if b == nil {
								return nil, 0
							}
							if x.Low != nil {
								lo, ok := w.env.eval(x.Low)
								if !ok {
									return nil, 0
								}
								o += lo
							}
							return b, o
						}
						return nil, 0
					}
					addMac := func(cl string, l int64) {
						if l <= 0 && cl != "?" {
							return
						}
						if k := len(mac); k > 0 {
							p := &mac[k-1]
							if p.class == cl && cl == "ZERO" {
								p.n += l
								return
							}
							// X@o+n followed by X@(o+n): one contiguous region
							if i := strings.LastIndex(p.class, "@"); i > 0 && strings.HasPrefix(cl, p.class[:i+1]) {
								var o1, o2 int64
								fmt.Sscan(p.class[i+1:], &o1)
								fmt.Sscan(cl[i+1:], &o2)
								if o1+p.n == o2 {
									p.n += l
									return
								}
							}
						}
						mac = append(mac, aeadSeg{cl, l})
					}
					var curW *pathWalker
					baseAlloc := func(v ssa.Value) ssa.Value {
						if _, classed := class[v]; classed {
							return nil
						}
						b, _ := baseOff(curW, v)
						return b
					}
					w.inline = func(callee *ssa.Function) bool {
						return callee.Pkg != nil && short(callee.Pkg.Pkg.Path()) == pkg
					}
					w.onInline = func(parent, child *pathWalker, callee *ssa.Function, args []ssa.Value) {
						for i, p := range callee.Params {
							if i < len(args) {
								if cl, ok := class[args[i]]; ok {
									class[p] = cl
									off[p] = off[args[i]]
								} else {
									delete(class, p)
								}
								// a pointer to the receiver's key array
								if fa, ok := args[i].(*ssa.FieldAddr); ok && class[fa.X] == "RECV" && keyField != "" {
									if st := derefStruct(fa.X.Type()); st != nil && st.Field(fa.Field).Name() == keyField {
										class[p], off[p] = "KEY", 0
									}
								}
								delete(stor, p)
								if b, o := baseOff(parent, args[i]); b != nil {
									stor[p] = c01Stor{b, o}
								}
							}
						}
						// fresh locals
						allInstrs(callee, func(in ssa.Instruction) {
							switch in.(type) {
							case *ssa.Alloc, *ssa.MakeSlice:
								delete(content, in.(ssa.Value))
								delete(bytesOf, in.(ssa.Value))
							}
						})
					}
					// via: the value a phi took on the path walked, and the value an inlined
					// helper returned for a call result — so a returned constant or global
					// reads the same through named results, single-exit code or a helper
					via := map[ssa.Value]ssa.Value{}
					through := func(v ssa.Value) ssa.Value {
						for i := 0; i < 20 && v != nil; i++ {
							n, ok := via[v]
							if !ok {
								break
							}
							v = n
						}
						return v
					}
					macDone := false
					w.onReturn = func(parent, child *pathWalker, call *ssa.Call, results []ssa.Value) {
						// a helper's results denote what the returned values denote
						set := func(dst, r ssa.Value) {
							if cl, ok := class[r]; ok {
								class[dst], off[dst] = cl, off[r]
							} else {
								delete(class, dst)
							}
							delete(stor, dst)
							if b, o := baseOff(child, r); b != nil {
								stor[dst] = c01Stor{b, o}
							}
							via[dst] = r
						}
						if len(results) == 1 {
							set(call, results[0])
							return
						}
						c01Extracts(call, func(ex *ssa.Extract) {
							if ex.Index < len(results) {
								set(ex, results[ex.Index])
							}
						})
					}
					grown := map[ssa.Value]int64{}
					w.onSlice = func(w *pathWalker, sl *ssa.Slice) {
						lo := int64(0)
						if sl.Low != nil {
							lo, _ = w.env.eval(sl.Low)
						}
						if g, ok := grown[sl.X]; ok {
							if l, okl := w.env.eval(sl); okl && lo+l > g {
								w.oob = true
							}
						}
						if cl, ok := class[sl.X]; ok && cl != "RECV" {
							class[sl], off[sl] = cl, off[sl.X]+lo
							return
						}
						delete(class, sl)
						// the receiver's 32-byte key array
						if fa, ok := sl.X.(*ssa.FieldAddr); ok && class[fa.X] == "RECV" && keyField != "" {
							if st := derefStruct(fa.X.Type()); st != nil && st.Field(fa.Field).Name() == keyField {
								class[sl], off[sl] = "KEY", lo
							}
						}
					}
					w.onPhi = func(w *pathWalker, ph *ssa.Phi, in ssa.Value) {
						if cl, ok := class[in]; ok {
							class[ph], off[ph] = cl, off[in]
						} else {
							delete(class, ph)
						}
						delete(stor, ph)
						if b, o := baseOff(w, in); b != nil {
							stor[ph] = c01Stor{b, o}
						}
						via[ph] = in
					}
					desc := func(w *pathWalker, v ssa.Value) string {
						l, _ := w.env.eval(v)
						if cl, o, ok := norm(v); ok {
							return fmt.Sprintf("%s@%d+%d", cl, o, l)
						}
						if al := baseAlloc(v); al != nil {
							k := content[al]
							if k == "" {
								k = "ZERO"
							}
							return fmt.Sprintf("%s+%d", k, l)
						}
						return fmt.Sprintf("?+%d", l)
					}
					w.onCall = func(w *pathWalker, ci ssa.CallInstruction) string {
						cc := ci.Common()
						name := short(calleeName(cc))
						curW = w
						switch {
						case name == "builtin:cap":
							if v, ok := ci.(ssa.Value); ok {
								if spare {
									w.env.bind(v, 1000)
								} else {
									l, _ := w.env.eval(cc.Args[0])
									w.env.bind(v, l)
								}
							}
						case strings.HasSuffix(name, "alias.InexactOverlap"), strings.HasSuffix(name, "alias.AnyOverlap"):
							w.env.bind(ci.(ssa.Value), 0)
						case name == "builtin:copy" && len(cc.Args) == 2 && func() bool {
							al, lo := baseOff(w, cc.Args[1])
							l, _ := w.env.eval(cc.Args[1])
							return al != nil && baseAlloc(cc.Args[1]) != nil && content[al] == "TAG" && lo == 0 && l == 16
						}():
							// the computed tag copied from local storage to its place
							if cl, o, ok := norm(cc.Args[0]); ok {
								if l, _ := w.env.eval(cc.Args[0]); l >= 16 {
									evs = append(evs, fmt.Sprintf("tag->%s@%d+0", cl, o))
									break
								}
							}
							evs = append(evs, "tag->"+desc(w, cc.Args[0]))
						case name == "builtin:copy" && len(cc.Args) == 2:
							// dst copied to the front of a fresh buffer: that buffer now starts with dst's bytes
							if cl, o, ok := norm(cc.Args[1]); ok && cl == "BUF" && o == 0 {
								ls, _ := w.env.eval(cc.Args[1])
								ld, okd := w.env.eval(cc.Args[0])
								if _, has := class[cc.Args[0]]; !has && okd && ls == dstLen && ld >= ls {
									var base ssa.Value = cc.Args[0]
									if sl, isS := base.(*ssa.Slice); isS {
										if lo, _ := w.env.eval(sl.Low); sl.Low == nil || lo == 0 {
											base = sl.X
										}
									}
									if mk, isM := base.(*ssa.MakeSlice); isM {
										class[mk], off[mk] = "BUF", 0
										class[cc.Args[0]], off[cc.Args[0]] = "BUF", 0
									}
								}
							}
						case name == "builtin:append" && len(cc.Args) == 2:
							v, isV := ci.(ssa.Value)
							l0, ok0 := w.env.eval(cc.Args[0])
							l1, ok1 := w.env.eval(cc.Args[1])
							if !isV || !ok0 || !ok1 {
								break
							}
							w.env.bind(v, l0+l1)
							delete(class, v)
							cl0, o0, has0 := norm(cc.Args[0])
							cl1, o1, has1 := norm(cc.Args[1])
							switch {
							case has0 && cl0 == "BUF" && o0 == 0 && l0 >= dstLen:
								// growing the buffer that starts with dst: with spare capacity the
								// appended bytes are WRITTEN into dst's array behind its length —
								// the very bytes an in-place caller passes as input
								class[v], off[v] = "BUF", 0
								if spare && l1 > 0 {
									evs = append(evs, fmt.Sprintf("overwrite(OUT@%d+%d)", l0-dstLen, l1))
								}
							case !has0 && l0 == 0 && has1 && cl1 == "BUF" && o1 == 0 && l1 == dstLen:
								class[v], off[v] = "BUF", 0
							}
						case strings.HasPrefix(name, "slices.Grow") && len(cc.Args) == 2:
							if v, isV := ci.(ssa.Value); isV {
								delete(class, v)
								if cl, ok := class[cc.Args[0]]; ok {
									class[v], off[v] = cl, off[cc.Args[0]]
								}
								if l, ok := w.env.eval(cc.Args[0]); ok {
									w.env.bind(v, l)
									// the only capacity Grow guarantees
									if n, okn := w.env.eval(cc.Args[1]); okn && !spare {
										grown[v] = l + n
									}
								}
							}
						case name == "chacha20.NewUnauthenticatedCipher":
							evs = append(evs, "cipher(key,nonce)")
							kc, ko, _ := norm(cc.Args[0])
							kl, _ := w.env.eval(cc.Args[0])
							nc, no, _ := norm(cc.Args[1])
							nl, _ := w.env.eval(cc.Args[1])
							if kc != "KEY" || ko != 0 || kl != 32 || nc != "NONCE" || no != 0 || nl != 12 {
								evs = append(evs, "cipher-args?")
							}
						case strings.HasSuffix(name, "chacha20.Cipher).XORKeyStream"):
							d, s := cc.Args[1], cc.Args[2]
							if al := baseAlloc(d); al != nil && baseAlloc(s) == al && content[al] == "" {
								l, _ := w.env.eval(d)
								content[al] = "KEYSTREAM"
								polyKeyAlloc = al
								evs = append(evs, fmt.Sprintf("xor(zero array,%d)", l))
							} else {
								evs = append(evs, "xor("+desc(w, d)+"<-"+desc(w, s)+")")
								if cl, o, ok := norm(d); seal && ok && cl == "OUT" && o == 0 {
									// from here on these bytes of the output region are the ciphertext
									ctLen, _ = w.env.eval(d)
								}
							}
						case strings.HasSuffix(name, "chacha20.Cipher).SetCounter"):
							k, _ := w.env.eval(cc.Args[1])
							evs = append(evs, fmt.Sprintf("counter=%d", k))
						case name == "internal/poly1305.New":
							if al := baseAlloc(cc.Args[0]); al != nil && al == polyKeyAlloc && content[al] == "KEYSTREAM" {
								macKeyed = true
								evs = append(evs, "mac(polykey)")
							} else {
								evs = append(evs, "mac(?)")
							}
						case strings.HasSuffix(name, "poly1305.MAC).Write"):
							l, _ := w.env.eval(cc.Args[1])
							cl := "?"
							if macDone {
								// input absorbed after the tag was taken is not part of it
								addMac("AFTER-TAG", l)
								break
							}
							if k, o, ok := norm(cc.Args[1]); ok {
								if k == "OUT" && seal && o+l <= ctLen {
									k = "CT"
								}
								cl = fmt.Sprintf("%s@%d", k, o)
							} else if al, lo := baseOff(w, cc.Args[1]); al != nil {
								// byte by byte: complete little-endian words become one segment each
								for i := lo; i < lo+l; {
									tok := bytesOf[al][i]
									if strings.HasSuffix(tok, "#0") && i+8 <= lo+l {
										whole := true
										for j := int64(1); j < 8; j++ {
											if bytesOf[al][i+j] != fmt.Sprintf("%s#%d", tok[:len(tok)-2], j) {
												whole = false
											}
										}
										if whole {
											addMac(tok[:len(tok)-2], 8)
											i += 8
											continue
										}
									}
									if tok == "" {
										tok = content[al]
									}
									if tok == "" {
										tok = "ZERO"
									}
									addMac(tok, 1)
									i++
								}
								break
							}
							addMac(cl, l)
						case strings.HasPrefix(name, "(encoding/binary.littleEndian).PutUint64"):
							if al, lo := baseOff(w, cc.Args[1]); al != nil {
								k, _ := w.env.eval(cc.Args[2])
								if bytesOf[al] == nil {
									bytesOf[al] = map[int64]string{}
								}
								for j := int64(0); j < 8; j++ {
									bytesOf[al][lo+j] = fmt.Sprintf("LE64(%d)#%d", k, j)
								}
							}
						case name == "builtin:clear":
							if cl, _, isC := norm(cc.Args[0]); isC && cl == "OUT" {
								l, _ := w.env.eval(cc.Args[0])
								zeroed += l
							}
						case strings.HasSuffix(name, "poly1305.MAC).Sum"):
							macDone = true
							// the tag appended to an empty slice at the start of fresh local
							// storage: that storage now holds the computed tag (to be compared
							// with the received one, or copied to the output)
							if al, lo := baseOff(w, cc.Args[1]); al != nil && baseAlloc(cc.Args[1]) != nil && lo == 0 && content[al] == "" {
								if l, ok := w.env.eval(cc.Args[1]); ok && l == 0 {
									content[al] = "TAG"
									if v, isV := ci.(ssa.Value); isV {
										w.env.bind(v, 16)
										stor[v] = c01Stor{al, 0}
									}
									break
								}
							}
							evs = append(evs, "tag->"+desc(w, cc.Args[1]))
						case strings.HasSuffix(name, "poly1305.MAC).Verify"):
							macDone = true
							evs = append(evs, "verify("+desc(w, cc.Args[1])+")")
							w.env.bind(ci.(ssa.Value), verdict)
						case (strings.HasSuffix(name, "subtle.ConstantTimeCompare") || name == "bytes.Equal" || strings.HasSuffix(name, "hmac.Equal")) && len(cc.Args) == 2:
							// MAC.Verify written out: the computed tag compared with received bytes
							isTag := func(v ssa.Value) bool {
								al, lo := baseOff(w, v)
								l, _ := w.env.eval(v)
								return al != nil && baseAlloc(v) != nil && content[al] == "TAG" && lo == 0 && l == 16
							}
							var other ssa.Value
							switch {
							case isTag(cc.Args[0]):
								other = cc.Args[1]
							case isTag(cc.Args[1]):
								other = cc.Args[0]
							}
							if other != nil {
								evs = append(evs, "verify("+desc(w, other)+")")
								w.env.bind(ci.(ssa.Value), verdict)
								break
							}
							for _, a := range cc.Args {
								if al, _ := baseOff(w, a); al != nil && baseAlloc(a) != nil && content[al] == "TAG" {
									// only part of the computed tag takes part in the comparison
									evs = append(evs, "verify-part-of-tag("+desc(w, cc.Args[0])+","+desc(w, cc.Args[1])+")")
									w.env.bind(ci.(ssa.Value), verdict)
									break
								}
							}
						}
						return ""
					}
					w.onStore = func(w *pathWalker, st *ssa.Store) string {
						if ia, ok := st.Addr.(*ssa.IndexAddr); ok {
							if cl, o, isC := norm(ia.X); isC && (cl == "OUT" || cl == "BUF") {
								i, okI := w.env.eval(ia.Index)
								if k, isK := w.env.eval(st.Val); isK && k == 0 && okI && (cl == "OUT" || o+i >= dstLen) {
									zeroed++
								}
							}
						}
						return ""
					}
					end := w.walk(f.Blocks[0], nil)
					cases++
					id := fmt.Sprintf("len(ad)=%d len(text)=%d spare=%v verify=%d", a, total, spare, verdict)
					if end != "return" {
						bad = id + ": evaluation ended with " + end + " " + w.why
						break
					}
					pad := func(x int64) int64 { return (16 - x%16) % 16 }
					var wantMac []aeadSeg
					ctClass := "TEXT@0"
					if seal {
						ctClass = "CT@0"
					}
					for _, s := range []aeadSeg{{"AD@0", a}, {"ZERO", pad(a)}, {ctClass, n}, {"ZERO", pad(n)}, {fmt.Sprintf("LE64(%d)", a), 8}, {fmt.Sprintf("LE64(%d)", n), 8}} {
						if s.n > 0 {
							wantMac = append(wantMac, s)
						}
					}
					if fmt.Sprint(mac) != fmt.Sprint(wantMac) {
						bad = fmt.Sprintf("%s: the MAC absorbs %v, RFC 8439 2.8 requires %v", id, mac, wantMac)
						break
					}
					got := strings.Join(evs, " ")
					var want string
					ret := w.last.(*ssa.Return)
					if seal {
						want = fmt.Sprintf("cipher(key,nonce) xor(zero array,32) counter=1 xor(OUT@0+%d<-TEXT@0+%d) mac(polykey) tag->OUT@%d+0", n, n, n)
						if got != want {
							bad = fmt.Sprintf("%s: code performs [%s], expected [%s]", id, got, want)
						}
						if rl, _ := w.env.eval(retVal(ret, 0)); class[retVal(ret, 0)] != "BUF" || off[retVal(ret, 0)] != 0 || rl != dstLen+n+16 {
							bad = id + ": Seal does not return dst followed by the output region"
						}
					} else {
						want = fmt.Sprintf("cipher(key,nonce) xor(zero array,32) counter=1 mac(polykey) verify(TEXT@%d+16)", n)
						if verdict == 1 {
							want += fmt.Sprintf(" xor(OUT@0+%d<-TEXT@0+%d)", n, n)
						}
						if got != want {
							bad = fmt.Sprintf("%s: code performs [%s], expected [%s]", id, got, want)
						}
						if verdict == 1 {
							if rl, _ := w.env.eval(retVal(ret, 0)); class[retVal(ret, 0)] != "BUF" || off[retVal(ret, 0)] != 0 || rl != dstLen+n || !isNilConst(through(retVal(ret, 1))) {
								bad = id + ": a verified Open does not return dst followed by the plaintext region with a nil error"
							}
						} else {
							if !isNilConst(through(retVal(ret, 0))) || !isGlobalLoad(through(retVal(ret, 1)), "errOpen") {
								bad = id + ": a failed Open does not return (nil, errOpen)"
							}
							if zeroed != n {
								bad = fmt.Sprintf("%s: a failed Open zeroes %d of the %d output bytes", id, zeroed, n)
							}
						}
					}
					if !macKeyed {
						bad = id + ": the MAC is not keyed with the key-stream block"
					}
					if w.oob {
						bad = id + ": a slice expression leaves its bounds"
					}
				}
			}
		}
	}
	c.check(bad == "" && cases > 2000, "C01.construction", pkg+"."+fname, f, fmt.Sprintf("%d (len(ad), len(text), capacity, verdict) cases agree with the RFC 8439 section 2.8 transcript", cases), bad)
}
