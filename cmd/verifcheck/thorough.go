package main

import (
	"fmt"
	"io/fs"
	"os"
	"os/exec"
	"path/filepath"
	"runtime/debug"
	"sort"
	"strings"
)

// Thorough tier = the quick rule set, plus
//
//  1. the same rule set on the other build configurations that select
//     different source files for the property's packages (GOARCH=arm64,
//     GOARCH=386, tag purego): per-architecture Go files (buffer sizes,
//     dispatch wrappers, generic fallbacks) are otherwise never analysed;
//  2. positive controls: each of the property's known-bad variants under
//     /verif/mutants (one-line breaking edits written while the rules were
//     armed) is applied to a scratch copy of /repo's CURRENT working tree,
//     outside /repo and /verif, and the property's rule set must report a
//     violation there — a rule that has silently gone blind fails the check.
//     A variant that no longer applies to the tree (the tree was edited) is
//     recorded as not applicable, it does not fail the check. The scratch copy
//     is removed before the command exits.
type buildCfg struct {
	name string
	env  []string
}

var (
	cfgArm64  = buildCfg{"arm64", []string{"GOARCH=arm64"}}
	cfg386    = buildCfg{"386", []string{"GOARCH=386"}}
	cfgPurego = buildCfg{"purego", []string{"GOFLAGS=-mod=mod -tags=purego"}}
)

// extra build configurations per property: only where other files are selected
var extraConfigs = map[string][]buildCfg{
	"C01": {cfgArm64, cfgPurego},
	"C02": {cfgArm64, cfgPurego},
	"C03": {cfgArm64, cfg386, cfgPurego},
	"C04": {cfgArm64, cfgPurego},
	"C05": {cfgArm64, cfg386, cfgPurego},
	"C06": {cfgArm64},
	"C09": {cfgArm64, cfgPurego},
	"C13": {cfgPurego},
	"C11": {cfgArm64},
	"C14": {cfg386},
	"C15": {cfgArm64, cfgPurego},
	"C53": {cfgArm64, cfg386, cfgPurego},
}

func runRules(pd *propDef, c *Ctx) {
	defer func() {
		if r := recover(); r != nil {
			c.fail("checker-panic", fmt.Sprint(r), nil, string(debug.Stack()))
		}
	}()
	pd.run(c)
}

func (c *Ctx) thoroughExtras(pd *propDef, seed int) {
	for _, cfg := range extraConfigs[c.prop] {
		ld, err := loadRepo(c.repo, cfg.env)
		if err != nil {
			c.fail("thorough.config", "load "+cfg.name, nil, "the tree does not load/type-check under "+cfg.name+": "+err.Error())
			continue
		}
		c2 := &Ctx{ld: ld, prop: c.prop, tier: c.tier, repo: c.repo, verif: c.verif, known: c.known, cfg: cfg.name}
		runRules(pd, c2)
		for _, o := range c2.obligs {
			o.Construct = "[" + cfg.name + "] " + o.Construct
			c.obligs = append(c.obligs, o)
		}
		for k := range c2.funcsSeen {
			if c.funcsSeen == nil {
				c.funcsSeen = map[string]bool{}
			}
			c.funcsSeen[k] = true
		}
		c.ok("thorough.config", cfg.name, nil, fmt.Sprintf("%d obligations under build configuration %s (%d packages)", len(c2.obligs), cfg.name, len(ld.pkgs)))
	}
	c.positiveControls(pd, seed)
}

func (c *Ctx) positiveControls(pd *propDef, seed int) {
	pats, _ := filepath.Glob(filepath.Join(c.verif, "mutants", strings.ToLower(c.prop)+"-*.patch"))
	sort.Strings(pats)
	if len(pats) == 0 {
		return
	}
	const maxControls = 4
	if len(pats) > maxControls {
		// rotate by seed so that repeated runs cover all of them
		k := seed % len(pats)
		if k < 0 {
			k = -k
		}
		pats = append(pats[k:], pats[:k]...)[:maxControls]
	}
	tmp, err := os.MkdirTemp("", "verif-pc-")
	if err != nil {
		c.undecided("thorough.positive-control", "scratch directory", nil, err.Error())
		return
	}
	defer os.RemoveAll(tmp)
	for _, pat := range pats {
		name := strings.TrimSuffix(filepath.Base(pat), ".patch")
		dst := filepath.Join(tmp, name)
		if err := copyTree(c.repo, dst); err != nil {
			c.undecided("thorough.positive-control", name, nil, "copy failed: "+err.Error())
			continue
		}
		cmd := exec.Command("patch", "-p1", "-s", "-f", "--no-backup-if-mismatch", "-i", pat)
		cmd.Dir = dst
		if out, err := cmd.CombinedOutput(); err != nil {
			c.ok("thorough.positive-control", name, nil, "not applicable to this tree (the variant's patch no longer applies: "+firstLine(string(out))+")")
			os.RemoveAll(dst)
			continue
		}
		ld, err := loadRepo(dst, nil)
		if err != nil {
			c.ok("thorough.positive-control", name, nil, "not applicable to this tree (patched copy does not type-check)")
			os.RemoveAll(dst)
			continue
		}
		c2 := &Ctx{ld: ld, prop: c.prop, tier: "quick", repo: dst, verif: c.verif, known: c.known}
		runRules(pd, c2)
		fired := ""
		for _, o := range c2.obligs {
			if o.Verdict == "violated" || o.Verdict == "undecided" {
				fired = o.Rule + " @ " + o.Construct
				break
			}
		}
		if fired != "" {
			c.ok("thorough.positive-control", name, nil, "known-bad variant reported by "+fired)
		} else {
			c.undecided("thorough.positive-control", name, nil, "the known-bad variant is NOT reported on this tree: the rule that used to catch it has gone blind")
		}
		os.RemoveAll(dst)
	}
}

func firstLine(s string) string {
	s = strings.TrimSpace(s)
	if i := strings.IndexByte(s, '\n'); i >= 0 {
		s = s[:i]
	}
	if len(s) > 120 {
		s = s[:120]
	}
	return s
}

func copyTree(src, dst string) error {
	return filepath.WalkDir(src, func(p string, d fs.DirEntry, err error) error {
		if err != nil {
			return err
		}
		rel, _ := filepath.Rel(src, p)
		if rel == ".git" || strings.HasPrefix(rel, ".git"+string(filepath.Separator)) {
			if d.IsDir() {
				return filepath.SkipDir
			}
			return nil
		}
		t := filepath.Join(dst, rel)
		if d.IsDir() {
			return os.MkdirAll(t, 0o755)
		}
		if !d.Type().IsRegular() {
			return nil
		}
		b, err := os.ReadFile(p)
		if err != nil {
			return err
		}
		return os.WriteFile(t, b, 0o644)
	})
}
