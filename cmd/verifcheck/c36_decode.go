package main

import (
	"go/token"
	"go/types"
	"sort"

	"golang.org/x/tools/go/ssa"
)

// c36DecodedTypes: the dynamic types of the message `decode` can return for a
// packet whose first byte is `code`. decode is interpreted by the C36 explorer
// with packet[0] bound to the code and the helpers of its package expanded in
// place (Unmarshal, which only fills the message in, is not entered), so the
// code -> type table is found whether it is a switch in decode itself, a
// helper returning the empty message, an if-chain, or early returns. why is
// non-empty when some returning path yields a message of undetermined type.
func c36DecodedTypes(c *Ctx, dec *ssa.Function, code int64) (typs []string, why string) {
	var pkt *ssa.Parameter
	for _, p := range dec.Params {
		if sl, ok := p.Type().Underlying().(*types.Slice); ok {
			if b, ok := sl.Elem().Underlying().(*types.Basic); ok && b.Kind() == types.Uint8 && pkt == nil {
				pkt = p
			}
		}
	}
	msgIdx := -1
	res := dec.Signature.Results()
	for i := 0; i < res.Len(); i++ {
		if c36IsIface(res.At(i).Type()) && res.At(i).Type().String() != "error" && msgIdx < 0 {
			msgIdx = i
		}
	}
	if pkt == nil || msgIdx < 0 {
		return nil, "decode has no []byte parameter or no message result: the rule cannot bind the packet"
	}
	isFirstByte := func(x *c36X, in ssa.Instruction, fr *c36Frame, st *c36State) bool {
		u, ok := in.(*ssa.UnOp)
		if !ok || u.Op != token.MUL {
			return false
		}
		ia, ok := u.X.(*ssa.IndexAddr)
		if !ok {
			return false
		}
		if i, ok := constInt(ia.Index); !ok || i != 0 {
			return false
		}
		return x == nil || x.resolve(ia.X, fr, st) == c36Key{pkt, x.rootFr}
	}
	found := map[string]bool{}
	x := &c36X{c: c, root: dec, opaque: map[string]bool{"Unmarshal": true}}
	x.relevant = func(in ssa.Instruction) bool {
		if _, ok := in.(*ssa.MakeInterface); ok {
			return true
		}
		return isFirstByte(nil, in, nil, nil)
	}
	x.onInstr = func(x *c36X, in ssa.Instruction, fr *c36Frame, st *c36State) *c36State {
		if !isFirstByte(x, in, fr, st) {
			return nil
		}
		ns := st.clone()
		ns.know[c36Key{in.(*ssa.UnOp), fr}] = c36Know{hasInt: true, ival: code}
		return ns
	}
	x.onRootReturn = func(x *c36X, r *ssa.Return, st *c36State) {
		if msgIdx >= len(r.Results) {
			return
		}
		kn := x.kn(x.resolve(retVal(r, msgIdx), x.rootFr, st), st)
		switch {
		case kn.nilness == c36Nil:
		case kn.exact == nil:
			why = "the dynamic type of the message decode returns is not determined on the path to " + c.posStr(r.Pos())
		default:
			found[kn.exact.String()] = true
		}
	}
	x.explore()
	if x.exceeded {
		return nil, "interpretation of decode exceeded its step budget"
	}
	for t := range found {
		typs = append(typs, t)
	}
	sort.Strings(typs)
	return typs, why
}
