package main

import (
	"fmt"
	"sort"
	"strings"

	"golang.org/x/tools/go/ssa"
)

func init() {
	register(&propDef{
		id: "C16", run: runC16, minOblig: 6,
		explanation: "Decides the 'error, never a panic' clause of C16 for scrypt.Key: (1) the explicit panic sites statically reachable from scrypt.Key inside the module are enumerated and must be exactly the tabled one (x/crypto/pbkdf2.Key's panic(err)); (2) for a grid of boundary parameter values (N, r, p, keyLen around 0, 1, powers of two, the 2^30 / maxInt limits and the RFC 7914 dkLen limit) the guard conditions of scrypt.Key are partially evaluated with Go's fixed-width arithmetic and each reachable call of pbkdf2.Key must receive a key length that evaluates to a value in 1..(2^32-1)*32 — the precondition under which crypto/pbkdf2.Key returns no error; (3) every return with a non-nil error returns a nil slice. NOT decided: RFC 7914 output values, memory exhaustion, implicit runtime panics in smix.",
		assumptions: []string{"crypto/pbkdf2.Key errors only for keyLength <= 0 or > (2^32-1)*hLen outside FIPS-140-only mode (stdlib contract)", "static call graph (no interface calls on this path)"},
	})
	tech("C16", "call-graph enumeration of explicit panics + finite-domain partial evaluation of parameter guards and callee-precondition arguments")
}

// staticReach returns the functions of this module reachable from root through
// static callees (closures included).
func staticReach(root *ssa.Function) []*ssa.Function {
	seen := map[*ssa.Function]bool{}
	var order []*ssa.Function
	var walk func(f *ssa.Function)
	walk = func(f *ssa.Function) {
		if f == nil || seen[f] {
			return
		}
		seen[f] = true
		if f.Pkg == nil || !strings.HasPrefix(f.Pkg.Pkg.Path(), modPath) {
			if f.Origin() == nil || f.Origin().Pkg == nil || !strings.HasPrefix(f.Origin().Pkg.Pkg.Path(), modPath) {
				return
			}
		}
		order = append(order, f)
		for _, a := range f.AnonFuncs {
			walk(a)
		}
		allInstrs(f, func(in ssa.Instruction) {
			if cc := callCommon(in); cc != nil {
				if cal := cc.StaticCallee(); cal != nil {
					walk(cal)
				}
			}
			// function values taken
			for _, op := range in.Operands(nil) {
				if fv, ok := (*op).(*ssa.Function); ok {
					walk(fv)
				}
				if mc, ok := (*op).(*ssa.MakeClosure); ok {
					if fv, ok := mc.Fn.(*ssa.Function); ok {
						walk(fv)
					}
				}
			}
		})
	}
	walk(root)
	return order
}

func runC16(c *Ctx) {
	key := c.fn("scrypt", "Key")
	if key == nil {
		return
	}
	// (1) explicit panics reachable
	var sites []string
	for _, f := range staticReach(key) {
		for _, p := range panicsOf(f) {
			sites = append(sites, short(f.String())+": "+panicText(p))
		}
	}
	sort.Strings(sites)
	allowed := map[string]bool{"pbkdf2.Key: ": true}
	for _, s := range sites {
		if allowed[s] {
			c.ok("C16.panic-site", s, nil, "tabled: discharged by the argument-range rule on every call from scrypt.Key")
		} else {
			c.fail("C16.panic-site", s, nil, "explicit panic reachable from scrypt.Key that is not in the checker's table")
		}
	}
	if len(sites) == 0 {
		c.fail("C16.panic-site", "pbkdf2.Key", nil, "expected panic site in x/crypto/pbkdf2.Key not found (anchor lost)")
	}

	// (2) pbkdf2.Key argument range on a grid of boundary values
	callsP := callsNamed(key, "pbkdf2.Key")
	if len(callsP) != 2 {
		c.fail("C16.calls", "scrypt.Key -> pbkdf2.Key", key, fmt.Sprintf("expected 2 calls of pbkdf2.Key, found %d", len(callsP)))
	}
	const maxInt = int64(^uint64(0) >> 1)
	const maxDK = (1<<32 - 1) * 32
	Ns := []int64{-2, 0, 1, 2, 3, 4, 1 << 15, 1 << 40, maxInt}
	rs := []int64{-1, 0, 1, 8, 1 << 15, 1 << 29, 1 << 30, 1 << 40, maxInt / 128, maxInt/256 + 1, maxInt}
	ps := []int64{-1, 0, 1, 2, 1 << 15, 1 << 29, 1 << 30, 1 << 40, maxInt}
	ks := []int64{-1 << 40, -1, 0, 1, 32, 64, maxDK, maxDK + 1, maxInt}
	pN, pr, pp, pk := param(key, "N"), param(key, "r"), param(key, "p"), param(key, "keyLen")
	if pN == nil || pr == nil || pp == nil || pk == nil {
		c.fail("anchor", "scrypt.Key parameters", key, "parameters N, r, p, keyLen not found")
		return
	}
	evals, reached := 0, 0
	bad := map[int]string{}
	errRetBad := ""
	for _, N := range Ns {
		for _, r := range rs {
			for _, p := range ps {
				for _, k := range ks {
					e := newEnv()
					e.bind(pN, N)
					e.bind(pr, r)
					e.bind(pp, p)
					e.bind(pk, k)
					_, _, blocks := e.reachableExits(key, nil)
					evals++
					for i, ci := range callsP {
						if !blocks[ci.Block()] {
							continue
						}
						reached++
						arg := ci.Common().Args[3]
						v, ok := e.eval(arg)
						if !ok {
							if bad[i] == "" {
								bad[i] = fmt.Sprintf("key-length argument not evaluable from N,r,p,keyLen (N=%d r=%d p=%d keyLen=%d)", N, r, p, k)
							}
							continue
						}
						if v <= 0 || v > maxDK {
							if bad[i] == "" {
								bad[i] = fmt.Sprintf("with N=%d r=%d p=%d keyLen=%d the call is reachable and its key length evaluates to %d (outside 1..%d): pbkdf2.Key panics", N, r, p, k, v, int64(maxDK))
							}
						}
					}
				}
			}
		}
	}
	for i, ci := range callsP {
		name := fmt.Sprintf("scrypt.Key call#%d of pbkdf2.Key", i)
		c.check(bad[i] == "", "C16.keylen-range", name, ci,
			fmt.Sprintf("key length in 1..(2^32-1)*32 for every reachable combination (%d parameter combinations evaluated)", evals), bad[i])
	}
	c.check(reached > 0, "C16.grid", "scrypt.Key grid", key, fmt.Sprintf("%d reachable call evaluations", reached), "no grid point reaches pbkdf2.Key: the evaluation is vacuous")

	// (3) error returns carry a nil slice
	for _, r := range returnsOf(key) {
		if len(r.Results) != 2 {
			continue
		}
		if errNilness(r.Results[1], r.Block(), 0) == neverNil {
			if !isNilConst(r.Results[0]) {
				errRetBad = "a return with a non-nil error returns a non-nil slice"
				c.fail("C16.err-nil-slice", "scrypt.Key error return", r, errRetBad)
			} else {
				c.ok("C16.err-nil-slice", "scrypt.Key error return @"+c.posStr(r.Pos()), r, "nil slice with error")
			}
		}
	}
}
