package main

import (
	"fmt"
	"strings"

	"golang.org/x/tools/go/ssa"
)

func init() {
	register(&propDef{
		id: "C16", run: runC16, minOblig: 6,
		explanation: "Decides the 'error, never a panic' clause of C16 for scrypt.Key by evaluating Key, for each of 8019 boundary parameter combinations (N, r, p, keyLen around 0, 1, powers of two, the 2^30 / maxInt limits and the RFC 7914 dkLen limit; parameters taken by position), with Go's fixed-width arithmetic, interprocedurally: module callees (guard helpers returning error/bool/tuples, PBKDF2 wrappers, read-only closures, x/crypto/pbkdf2.Key itself) are evaluated in their own frame with the evaluated arguments, error values are tracked as nil/non-nil, math/bits is folded, and only the blocks feasible for the point count. Facts decided, independent of how the code is factored: (1) every explicit panic statically reachable from Key is confined to a failed crypto/pbkdf2.Key call (behind its err != nil, also through an error parameter fed only by that result) and is infeasible on every grid point; (2) every feasible call of crypto/pbkdf2.Key gets a key length in 1..(2^32-1)*32 — the precondition under which it returns no error — and on accepted points of the documented domain exactly the RFC 7914 lengths p*128*r (B) and keyLen (output) occur, both at least once; (3) no feasible integer division has divisor 0 and no feasible make() a negative length in Key and the helpers evaluated; (4) every grid point outside the documented domain (N not a power of two > 1; r or p <= 0; r*p >= 2^30 or a buffer size beyond maxInt, computed exactly; keyLen outside 1..(2^32-1)*32) has no feasible return with a nil or undecided error; (5) every feasible return with a non-nil error returns a nil slice (per rejection class, plus statically for every return whose error is never nil). A guard the evaluator cannot fold leaves both edges feasible and is reported, never passed. NOT decided: RFC 7914 output values, that the returned slice is the final PBKDF2 output, memory exhaustion, index/slice-bounds panics in smix and its helpers, loops (not unrolled).",
		assumptions: []string{"crypto/pbkdf2.Key errors only for keyLength <= 0 or > (2^32-1)*hLen outside FIPS-140-only mode (stdlib contract)", "static call graph (no interface calls on this path)", "package-level error variables are non-nil sentinels"},
	})
	tech("C16", "call-graph enumeration of explicit panics + interprocedural finite-domain evaluation of scrypt.Key on a boundary grid (guards, callee-precondition arguments, error nil-ness, division/make operands) compared with the RFC 7914 parameter domain")
}

// staticReach returns the functions of this module reachable from root through
// static callees (closures included).
func staticReach(root *ssa.Function) []*ssa.Function {
	seen := map[*ssa.Function]bool{}
	var order []*ssa.Function
	var walk func(f *ssa.Function)
	walk = func(f *ssa.Function) {
		if f == nil || seen[f] {
			return
		}
		seen[f] = true
		if f.Pkg == nil || !strings.HasPrefix(f.Pkg.Pkg.Path(), modPath) {
			if f.Origin() == nil || f.Origin().Pkg == nil || !strings.HasPrefix(f.Origin().Pkg.Pkg.Path(), modPath) {
				return
			}
		}
		order = append(order, f)
		for _, a := range f.AnonFuncs {
			walk(a)
		}
		allInstrs(f, func(in ssa.Instruction) {
			if cc := callCommon(in); cc != nil {
				if cal := cc.StaticCallee(); cal != nil {
					walk(cal)
				}
			}
			// function values taken
			for _, op := range in.Operands(nil) {
				if fv, ok := (*op).(*ssa.Function); ok {
					walk(fv)
				}
				if mc, ok := (*op).(*ssa.MakeClosure); ok {
					if fv, ok := mc.Fn.(*ssa.Function); ok {
						walk(fv)
					}
				}
			}
		})
	}
	walk(root)
	return order
}

// c16Sink: the standard-library PBKDF2 whose error the module turns into a
// panic; keyLength is its argument #4.
func c16Sink(cc *ssa.CallCommon) (int, bool) {
	if cc == nil || cc.IsInvoke() {
		return 0, false
	}
	if calleeName(cc) == "crypto/pbkdf2.Key" {
		return 4, true
	}
	return 0, false
}

// c16SinkGuarded decides whether an explicit panic is reached only when a
// crypto/pbkdf2.Key call has returned a non-nil error: either the call sits
// in the panicking function and every path to the panic crosses an
// "err != nil" edge of its error result, or the panic is behind "e != nil" of
// an error parameter e and every static call site (within fns) passes the
// error result of such a call for e.
func c16SinkGuarded(p *ssa.Panic, fns []*ssa.Function) bool {
	f := p.Parent()
	behind := func(no []edge) bool {
		if len(no) == 0 {
			return false
		}
		cut := edgeSet{}
		cut.addAll(no)
		return !pathFromEntry(p, cut)
	}
	isSinkErr := func(v ssa.Value) bool {
		ex, ok := v.(*ssa.Extract)
		if !ok {
			return false
		}
		call, ok := ex.Tuple.(*ssa.Call)
		if !ok {
			return false
		}
		_, isS := c16Sink(&call.Call)
		return isS && ex.Index == call.Call.Signature().Results().Len()-1
	}
	for _, ci := range calls(f, func(string) bool { return true }) {
		call, ok := ci.(*ssa.Call)
		if !ok {
			continue
		}
		if _, isS := c16Sink(&call.Call); !isS {
			continue
		}
		if _, no := errSuccessEdges(call); behind(no) {
			return true
		}
	}
	for i, prm := range f.Params {
		if !c16IsInterface(prm.Type()) {
			continue
		}
		if _, no := edgesWhere(prm, isNil); !behind(no) {
			continue
		}
		sites, good := 0, true
		for _, g := range fns {
			allInstrs(g, func(in ssa.Instruction) {
				cc := callCommon(in)
				if cc == nil || cc.StaticCallee() != f {
					return
				}
				sites++
				if i >= len(cc.Args) || !isSinkErr(cc.Args[i]) {
					good = false
				}
			})
		}
		if sites > 0 && good {
			return true
		}
	}
	return false
}

type c16Class struct {
	name string
	in   func(N, r, p, k int64) bool
}

func runC16(c *Ctx) {
	key := c.fn("scrypt", "Key")
	if key == nil {
		return
	}
	const maxInt = int64(^uint64(0) >> 1)
	const maxDK = (1<<32 - 1) * 32
	inRange := func(n int64) bool { return n > 0 && n <= maxDK }

	// the four integer parameters, by position in the exported signature
	var ips []*ssa.Parameter
	for _, p := range key.Params {
		if c16IntType(p.Type()) {
			ips = append(ips, p)
		}
	}
	if len(ips) != 4 || len(key.Params) != 6 {
		c.fail("anchor", "scrypt.Key parameters", key, "scrypt.Key no longer has the signature (password, salt []byte, N, r, p, keyLen int)")
		return
	}
	var ipIdx [4]int
	for j, ip := range ips {
		for i, p := range key.Params {
			if p == ip {
				ipIdx[j] = i
			}
		}
	}

	// ---- grid evaluation -------------------------------------------------
	Ns := []int64{-2, 0, 1, 2, 3, 4, 1 << 15, 1 << 40, maxInt}
	rs := []int64{-1, 0, 1, 8, 1 << 15, 1 << 29, 1 << 30, 1 << 40, maxInt / 128, maxInt/256 + 1, maxInt}
	ps := []int64{-1, 0, 1, 2, 1 << 15, 1 << 29, 1 << 30, 1 << 40, maxInt}
	ks := []int64{-1 << 40, -1, 0, 1, 32, 64, maxDK, maxDK + 1, maxInt}

	// The documented domain of scrypt.Key (RFC 7914 section 2 and the doc comment),
	// with exact integers: a point outside it must be answered with an error.
	mulFits := func(lim int64, fs ...int64) bool { // product of positive factors <= lim
		acc := int64(1)
		for _, f := range fs {
			if f <= 0 {
				return true
			}
			if acc > lim/f {
				return false
			}
			acc *= f
		}
		return acc <= lim
	}
	classes := []c16Class{
		{"N not a power of two greater than 1", func(N, r, p, k int64) bool { return N <= 1 || N&(N-1) != 0 }},
		{"r or p not positive", func(N, r, p, k int64) bool { return r <= 0 || p <= 0 }},
		{"r*p >= 2^30 or a buffer size (128*r*p, 256*r, 128*r*N) beyond maxInt", func(N, r, p, k int64) bool {
			if r <= 0 || p <= 0 {
				return false
			}
			return !mulFits(1<<30-1, r, p) || !mulFits(maxInt, 128, r, p) || !mulFits(maxInt, 256, r) || (N > 0 && !mulFits(maxInt, 128, r, N))
		}},
		{"keyLen outside 1..(2^32-1)*32", func(N, r, p, k int64) bool { return k <= 0 || k > maxDK }},
	}

	it := &c16Interp{isSink: c16Sink, sinkOK: inRange}
	it.interesting = c16Interesting(key, c16Sink)

	evals, reached, acceptedValid := 0, 0, 0
	sinkBad := [2]string{}
	var sinkAt [2]ssa.Instruction
	panicBad := map[*ssa.Panic]string{}
	arithBad, gridBad := "", ""
	var arithAt ssa.Instruction
	acceptBad := make([]string, len(classes))
	nilBad := make([]string, len(classes))
	errRets := make([]int, len(classes))

	for _, N := range Ns {
		for _, r := range rs {
			for _, p := range ps {
				for _, k := range ks {
					pt := fmt.Sprintf("N=%d r=%d p=%d keyLen=%d", N, r, p, k)
					args := make([]optInt, len(key.Params))
					for j, v := range []int64{N, r, p, k} {
						args[ipIdx[j]] = optInt{v, true}
					}
					it.events = it.events[:0]
					fr := it.run(key, c16Args{params: args}, 0, true, nil)
					evals++

					// the documented domain: which clauses does this point violate?
					var member []int
					for ci, cl := range classes {
						if cl.in(N, r, p, k) {
							member = append(member, ci)
						}
					}
					valid := len(member) == 0
					want := [2]int64{128 * r * p, k} // RFC 7914 lengths (meaningful on valid points only)
					seen := [2]int{}

					// effects on the feasible blocks
					nsink := 0
					for _, ev := range it.events {
						switch ev.kind {
						case "sink":
							slot := nsink
							if slot > 1 {
								slot = 1
							}
							nsink++
							reached++
							if sinkAt[slot] == nil {
								sinkAt[slot] = ev.outer
							}
							if valid && ev.ok && ev.val == want[0] {
								seen[0]++
								continue
							}
							if valid && ev.ok && ev.val == want[1] {
								seen[1]++
								continue
							}
							if sinkBad[slot] != "" {
								continue
							}
							if !ev.ok {
								sinkBad[slot] = fmt.Sprintf("with %s the call is reachable and its key-length argument is not evaluable from N, r, p, keyLen", pt)
							} else if valid {
								sinkBad[slot] = fmt.Sprintf("with %s the call is reachable and its key length evaluates to %d; RFC 7914 asks for p*128*r = %d bytes of B and dkLen = %d bytes of output", pt, ev.val, want[0], want[1])
								sinkAt[slot] = ev.outer
							} else if !inRange(ev.val) {
								sinkBad[slot] = fmt.Sprintf("with %s the call is reachable and its key length evaluates to %d (outside 1..%d): pbkdf2.Key panics", pt, ev.val, int64(maxDK))
								sinkAt[slot] = ev.outer
							}
						case "panic":
							pn := ev.at.(*ssa.Panic)
							if panicBad[pn] == "" {
								panicBad[pn] = fmt.Sprintf("with %s this panic is reachable", pt)
							}
						case "div0":
							if arithBad == "" {
								arithBad = fmt.Sprintf("with %s an integer division in %s is reachable with divisor 0 (runtime panic)", pt, c16Where(ev))
								arithAt = ev.at
							}
						case "makeneg":
							if arithBad == "" {
								arithBad = fmt.Sprintf("with %s make() in %s is reachable with length %d (runtime panic)", pt, c16Where(ev), ev.val)
								arithAt = ev.at
							}
						case "depth":
							if gridBad == "" {
								gridBad = fmt.Sprintf("call depth bound reached in %s: effects below are not evaluated", c16Where(ev))
							}
						}
					}

					// returns of Key that are feasible for this point
					accepting, acceptWhy := false, ""
					for _, ret := range returnsOf(key) {
						if !fr.e.reach[ret.Block()] || len(ret.Results) != 2 {
							continue
						}
						st := maybeNil
						if n, ok := fr.e.eval(ret.Results[1]); ok {
							if n == 0 {
								st = definitelyNil
							} else {
								st = neverNil
							}
						} else {
							st = errNilness(ret.Results[1], ret.Block(), 0)
						}
						switch st {
						case neverNil:
							for _, ci := range member {
								errRets[ci]++
								if nilBad[ci] == "" && !c16NilSlice(fr.e, ret.Results[0], 0) {
									nilBad[ci] = fmt.Sprintf("with %s the return at %s carries a non-nil error and a slice that is not nil", pt, c.posStr(ret.Pos()))
								}
							}
						case definitelyNil:
							accepting, acceptWhy = true, "returns a nil error"
						default:
							accepting = true
							if acceptWhy == "" {
								acceptWhy = "may return a nil error (error result at " + c.posStr(ret.Pos()) + " not decided)"
							}
						}
					}
					if valid {
						if accepting {
							acceptedValid++
							if (seen[0] == 0 || seen[1] == 0) && gridBad == "" {
								gridBad = fmt.Sprintf("with %s scrypt.Key succeeds but of the two PBKDF2 invocations of RFC 7914 (B: %d bytes, output: %d bytes) %d resp. %d are visible among the %d on the static call paths: anchor lost", pt, want[0], want[1], seen[0], seen[1], nsink)
							}
						}
						continue
					}
					for _, ci := range member {
						if accepting && acceptBad[ci] == "" {
							acceptBad[ci] = fmt.Sprintf("with %s scrypt.Key %s", pt, acceptWhy)
						}
					}
				}
			}
		}
	}

	// (2) key length handed to crypto/pbkdf2.Key, by role of the invocation
	roles := []string{"first PBKDF2 invocation reached from scrypt.Key (B = PBKDF2(P, S, 1, p*128*r))", "final PBKDF2 invocation reached from scrypt.Key (DK = PBKDF2(P, B, 1, dkLen))"}
	for i, role := range roles {
		var at poser = key
		if sinkAt[i] != nil {
			at = sinkAt[i]
		}
		bad := sinkBad[i]
		if bad == "" && sinkAt[i] == nil {
			bad = "no grid point reaches this invocation: anchor lost"
		}
		c.check(bad == "", "C16.keylen-range", role, at,
			fmt.Sprintf("key length is the RFC 7914 value on every accepted point of the documented domain and lies in 1..(2^32-1)*32 wherever the call is reachable (%d parameter combinations evaluated)", evals), bad)
	}
	if gridBad == "" && (reached == 0 || acceptedValid == 0) {
		gridBad = "no grid point reaches crypto/pbkdf2.Key: the evaluation is vacuous"
	}
	c.check(gridBad == "", "C16.grid", "scrypt.Key grid", key, fmt.Sprintf("%d reachable PBKDF2 invocations over %d accepted points, %d frames evaluated", reached, acceptedValid, it.frames), gridBad)

	// (1) explicit panics statically reachable from Key
	fns := staticReach(key)
	nsites := 0
	for _, f := range fns {
		for _, p := range panicsOf(f) {
			nsites++
			site := short(f.String()) + ": " + panicText(p)
			switch {
			case !c16SinkGuarded(p, fns):
				c.fail("C16.panic-site", site, p, "explicit panic reachable from scrypt.Key that is not confined to a failed crypto/pbkdf2.Key call")
			case panicBad[p] != "":
				c.fail("C16.panic-site", site, p, panicBad[p]+": crypto/pbkdf2.Key is called with a key length for which it returns an error")
			default:
				c.ok("C16.panic-site", site, p, "reached only when crypto/pbkdf2.Key fails; infeasible for every grid point")
			}
		}
	}
	if nsites == 0 {
		c.fail("C16.panic-site", "pbkdf2.Key", nil, "expected panic site behind crypto/pbkdf2.Key's error not found (anchor lost)")
	}

	// (4) implicit arithmetic panics in the evaluated frames
	c.check(arithBad == "", "C16.arith-panic", "scrypt.Key and its helpers", orPoser(arithAt, key), "no feasible division by zero or negative make length on the grid", arithBad)

	// (5) parameters outside the documented domain are answered with an error
	for ci, cl := range classes {
		c.check(acceptBad[ci] == "", "C16.rejects-invalid", cl.name, key, "every such grid point ends in an error return", acceptBad[ci]+" although "+cl.name)
	}

	// (3) error returns carry a nil slice
	for ci, cl := range classes {
		bad := nilBad[ci]
		if bad == "" && errRets[ci] == 0 {
			bad = "no grid point of this class reaches an error return"
		}
		c.check(bad == "", "C16.err-nil-slice", "error returns for "+cl.name, key, fmt.Sprintf("nil slice with the error (%d feasible error returns)", errRets[ci]), bad)
	}
	static := ""
	var staticAt poser = key
	for _, r := range returnsOf(key) {
		if len(r.Results) == 2 && errNilness(r.Results[1], r.Block(), 0) == neverNil && !c16NilSlice(nil, r.Results[0], 0) {
			static = "a return with a non-nil error returns a non-nil slice"
			staticAt = r
		}
	}
	c.check(static == "", "C16.err-nil-slice", "scrypt.Key returns whose error is never nil", staticAt, "nil slice with error", static)
}

func orPoser(in ssa.Instruction, def poser) poser {
	if in == nil {
		return def
	}
	return in
}
