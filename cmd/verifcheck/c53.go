package main

import (
	"fmt"
	"sort"
	"strings"

	"golang.org/x/tools/go/ssa"
)

func init() {
	register(&propDef{
		id: "C53", run: runC53, minOblig: 30,
		explanation: "Decides the buffer-overlap guard discipline of every documented in-place API (chacha20.XORKeyStream, salsa20.XORKeyStream, chacha20poly1305 seal/open in the generic and the amd64 file, xts Encrypt/Decrypt, secretbox Seal/Open, sign Sign/Open): each function evaluates alias.InexactOverlap (stream/AEAD/XTS family) or alias.AnyOverlap (NaCl, which forbids any overlap) on the OUTPUT REGION THAT IS ACTUALLY WRITTEN and the INPUT parameter; the predicate's true edge panics; and EVERY instruction that can write through the output buffer — a store through an index of it, or a call that receives a slice of it (XORKeyStream, the assembly routines, copy, Sum …) — is unreachable from function entry except over the predicate's false edge, so nothing is written before the check; the two AEADs additionally guard AnyOverlap(out, additionalData) the same way; alias.InexactOverlap / AnyOverlap themselves compare first/last element addresses. The number of guard sites is frozen (16). NOT decided: equality of in-place and separate-buffer results.",
		assumptions: []string{"an instruction writes the output only via stores through it or calls receiving it (no hidden aliases)"},
	})
	tech("C53", "per-site must-cross CFG rule: all writers of the guarded buffer lie behind the overlap predicate's false edge; argument-role provenance")
}

// rootOf returns the base value a slice expression is carved from.
func rootOf(v ssa.Value) ssa.Value {
	seen := map[ssa.Value]bool{}
	for !seen[v] {
		seen[v] = true
		switch x := v.(type) {
		case *ssa.Slice:
			v = x.X
		case *ssa.ChangeType:
			v = x.X
		case *ssa.Convert:
			v = x.X
		case *ssa.Phi:
			// a loop-carried reslice (out = out[n:]): follow a non-self edge
			var next ssa.Value
			for _, e := range x.Edges {
				if rootOf2(e, x) != ssa.Value(x) {
					next = e
					break
				}
			}
			if next == nil {
				return v
			}
			v = next
		default:
			return v
		}
	}
	return v
}

func rootOf2(v ssa.Value, stop *ssa.Phi) ssa.Value {
	for i := 0; i < 8; i++ {
		switch x := v.(type) {
		case *ssa.Slice:
			v = x.X
		case *ssa.Phi:
			if x == stop {
				return x
			}
			return v
		default:
			return v
		}
	}
	return v
}

type guardSite struct {
	pkg, fn string
	pred    string // InexactOverlap | AnyOverlap
	inName  string // expected input parameter name ("" = any parameter other than the output)
}

func runC53(c *Ctx) {
	sites := []guardSite{
		{"chacha20", "(*Cipher).XORKeyStream", "InexactOverlap", "src"},
		{"salsa20", "XORKeyStream", "InexactOverlap", "in"},
		{"chacha20poly1305", "(*chacha20poly1305).sealGeneric", "InexactOverlap", "plaintext"},
		{"chacha20poly1305", "(*chacha20poly1305).sealGeneric", "AnyOverlap", "additionalData"},
		{"chacha20poly1305", "(*chacha20poly1305).openGeneric", "InexactOverlap", "ciphertext"},
		{"chacha20poly1305", "(*chacha20poly1305).openGeneric", "AnyOverlap", "additionalData"},
		{"chacha20poly1305", "(*chacha20poly1305).seal", "InexactOverlap", "plaintext"},
		{"chacha20poly1305", "(*chacha20poly1305).seal", "AnyOverlap", "additionalData"},
		{"chacha20poly1305", "(*chacha20poly1305).open", "InexactOverlap", "ciphertext"},
		{"chacha20poly1305", "(*chacha20poly1305).open", "AnyOverlap", "additionalData"},
		{"xts", "(*Cipher).Encrypt", "InexactOverlap", "plaintext"},
		{"xts", "(*Cipher).Decrypt", "InexactOverlap", "ciphertext"},
		{"nacl/secretbox", "Seal", "AnyOverlap", "message"},
		{"nacl/secretbox", "Open", "AnyOverlap", "box"},
		{"nacl/sign", "Sign", "AnyOverlap", "message"},
		{"nacl/sign", "Open", "AnyOverlap", "signedMessage"},
	}
	if c.cfg != "" {
		// other build configurations: seal/open are thin wrappers around the
		// generic routines (chacha20poly1305_noasm.go) and carry no guard of their own
		var keep []guardSite
		for _, s := range sites {
			if s.pkg == "chacha20poly1305" && (s.fn == "(*chacha20poly1305).seal" || s.fn == "(*chacha20poly1305).open") {
				continue
			}
			keep = append(keep, s)
		}
		sites = keep
	}
	// all guard call sites in the module (to notice sites added or removed)
	found := 0
	for _, p := range c.ld.pkgs {
		rel := strings.TrimPrefix(strings.TrimPrefix(p.PkgPath, modPath), "/")
		if rel == "internal/alias" {
			continue
		}
		for _, f := range c.funcsOfPkg(rel) {
			found += len(callsNamed(f, "internal/alias.InexactOverlap", "internal/alias.AnyOverlap"))
		}
	}
	c.check(found == len(sites), "C53.sites", "overlap guard sites in the module", nil, fmt.Sprintf("%d guard sites, all tabled", found), fmt.Sprintf("%d overlap guard call sites found, the frozen table has %d", found, len(sites)))
	for _, s := range sites {
		f := c.fn(s.pkg, s.fn)
		if f == nil {
			continue
		}
		name := s.pkg + "." + s.fn + " " + s.pred + "(out, " + s.inName + ")"
		var g *ssa.Call
		for _, ci := range callsNamed(f, "internal/alias."+s.pred) {
			call := ci.(*ssa.Call)
			in := rootOf(call.Call.Args[1])
			if p, ok := in.(*ssa.Parameter); ok && p.Name() == s.inName {
				g = call
			}
		}
		if g == nil {
			c.fail("C53.guard", name, f, "no "+s.pred+" call with the input parameter "+s.inName+" as second operand")
			continue
		}
		out := rootOf(g.Call.Args[0])
		// (a) true edge panics
		yes, no := successEdges(g, 0, isTrue)
		okPanic := len(yes) > 0
		for _, e := range yes {
			blk := e.to()
			if _, isP := blk.Instrs[len(blk.Instrs)-1].(*ssa.Panic); !isP {
				okPanic = false
			}
		}
		// (b) writers of the output buffer
		var writers []ssa.Instruction
		allInstrs(f, func(in ssa.Instruction) {
			switch x := in.(type) {
			case *ssa.Store:
				if ia, ok := x.Addr.(*ssa.IndexAddr); ok && rootOf(ia.X) == out {
					writers = append(writers, x)
				}
			case *ssa.Call:
				if x == g {
					return
				}
				n := calleeName(&x.Call)
				if strings.HasPrefix(n, "builtin:len") || strings.HasPrefix(n, "builtin:cap") || strings.Contains(n, "internal/alias.") {
					return
				}
				args := x.Call.Args
				if x.Call.IsInvoke() {
					// receiver is not the buffer
				}
				for _, a := range args {
					if _, isSl := a.Type().Underlying().(interface{ Elem() interface{} }); isSl {
						continue
					}
					if strings.HasPrefix(a.Type().String(), "[]") && rootOf(a) == out {
						// the producer of the buffer itself (sliceForAppend(dst, n)) is not a writer of 'out'
						writers = append(writers, x)
						return
					}
				}
			}
		})
		// the buffer's own producer call (out is an Extract of it) is excluded automatically: its args root at dst, not out
		cut := edgeSet{}
		cut.addAll(no)
		var early ssa.Instruction
		r := reach([]*ssa.BasicBlock{f.Blocks[0]}, cut)
		for _, w := range writers {
			if r[w.Block()] {
				// same block as the guard but after it is fine only if the block is after the branch: the guard's own block precedes the branch
				if w.Block() == g.Block() && instrIndex(w) > instrIndex(g) {
					early = w
					break
				}
				early = w
				break
			}
		}
		var ws []string
		for _, w := range writers {
			ws = append(ws, c.posStr(w.Pos()))
		}
		sort.Strings(ws)
		switch {
		case !okPanic:
			c.fail("C53.guard", name, g, "the overlap predicate's true edge does not panic")
		case len(writers) == 0:
			c.fail("C53.guard", name, g, "no instruction writing the guarded output buffer found (the predicate is not evaluated on the region that is written)")
		case early != nil:
			c.fail("C53.guard", name, early, "the output buffer can be written before the overlap check has passed (a write is reachable without crossing the predicate's false edge)")
		default:
			c.ok("C53.guard", name, g, fmt.Sprintf("all %d writers of the output region lie behind the predicate's false edge", len(writers)))
		}
		// (c) the predicate's output operand is the region written: its root is the buffer the writers use (by construction) and it is not the input
		in := rootOf(g.Call.Args[1])
		okExtent := in != out
		detail := "the predicate compares a buffer with itself"
		// when the output operand is carved out of a caller-supplied buffer
		// (dst[:len(src)]), its extent must be the input's length from offset 0
		if sl, isS := g.Call.Args[0].(*ssa.Slice); isS {
			if _, isParam := out.(*ssa.Parameter); isParam {
				if sl.Low != nil {
					if k, isC := constInt(sl.Low); !isC || k != 0 {
						okExtent, detail = false, "the guarded output region does not start at the beginning of the output buffer"
					}
				}
				lc, isC := sl.High.(*ssa.Call)
				if sl.High == nil || !isC || calleeName(&lc.Call) != "builtin:len" || rootOf(lc.Call.Args[0]) != in {
					okExtent, detail = false, "the guarded output region is not out[:len(input)], the region that is written"
				}
			}
		}
		c.check(okExtent, "C53.operands", name, g, "output region (full extent) vs input parameter", detail)
	}
	// alias package: both predicates compare element addresses
	for _, fn := range []string{"AnyOverlap", "InexactOverlap"} {
		f := c.fn("internal/alias", fn)
		if f == nil {
			continue
		}
		ptrCmp := 0
		allInstrs(f, func(in ssa.Instruction) {
			if bo, ok := in.(*ssa.BinOp); ok {
				if strings.Contains(bo.X.Type().String(), "uintptr") || strings.Contains(bo.X.Type().String(), "*byte") || strings.Contains(bo.X.Type().String(), "*uint8") {
					ptrCmp++
				}
			}
		})
		calls := len(callsNamed(f, "internal/alias.AnyOverlap"))
		c.check(ptrCmp > 0 || calls > 0, "C53.alias", "alias."+fn, f, "compares element addresses (or builds on AnyOverlap)", "alias."+fn+" no longer compares element addresses")
	}
}
