package main

import (
	"fmt"
	"sort"
	"strings"

	"golang.org/x/tools/go/ssa"
)

func init() {
	register(&propDef{
		id: "C53", run: runC53, minOblig: 30,
		explanation: "Decides the buffer-overlap guard discipline of every documented in-place API (chacha20.XORKeyStream, salsa20.XORKeyStream, chacha20poly1305 seal/open in the generic and the amd64 file, xts Encrypt/Decrypt, secretbox Seal/Open, sign Sign/Open): each function evaluates alias.InexactOverlap (stream/AEAD/XTS family) or alias.AnyOverlap (NaCl, which forbids any overlap) on the OUTPUT REGION THAT IS ACTUALLY WRITTEN and the INPUT parameter; the predicate's true edge panics; and EVERY instruction that can write through the output buffer — a store through an index of it, or a call that receives a slice of it (XORKeyStream, the assembly routines, copy, Sum …) — is unreachable from function entry except over the predicate's false edge, so nothing is written before the check; the two AEADs additionally guard AnyOverlap(out, additionalData) the same way; alias.InexactOverlap / AnyOverlap themselves compare first/last element addresses. The number of guard sites is frozen (16). NOT decided: equality of in-place and separate-buffer results.",
		assumptions: []string{"an instruction writes the output only via stores through it or calls receiving it (no hidden aliases)"},
	})
	tech("C53", "per-site must-cross CFG rule: all writers of the guarded buffer lie behind the overlap predicate's false edge; argument-role provenance")
}

// rootOf returns the base value a slice expression is carved from.
func rootOf(v ssa.Value) ssa.Value {
	seen := map[ssa.Value]bool{}
	for !seen[v] {
		seen[v] = true
		switch x := v.(type) {
		case *ssa.Slice:
			v = x.X
		case *ssa.ChangeType:
			v = x.X
		case *ssa.Convert:
			v = x.X
		case *ssa.Phi:
			// a loop-carried reslice (out = out[n:]): follow a non-self edge
			var next ssa.Value
			for _, e := range x.Edges {
				if rootOf2(e, x) != ssa.Value(x) {
					next = e
					break
				}
			}
			if next == nil {
				return v
			}
			v = next
		case *ssa.Extract:
			// result k of a helper that hands back a reslice of one of its
			// parameters (splitTag(sealed) -> sealed[:cut], sealed[cut:], ok)
			if call, ok := x.Tuple.(*ssa.Call); ok {
				if a := resliceOfArg(call, x.Index); a != nil {
					v = a
					continue
				}
			}
			return v
		case *ssa.Call:
			if a := resliceOfArg(x, 0); a != nil && x.Call.Signature().Results().Len() == 1 {
				v = a
				continue
			}
			return v
		default:
			return v
		}
	}
	return v
}

// strictRoot: the value every incoming edge of every phi on the way is carved
// from (a buffer that is EITHER a reslice of a parameter OR freshly made, like
// sliceForAppend's, has no single root and is its own root).
func strictRoot(v ssa.Value, depth int) ssa.Value {
	for i := 0; i < 16; i++ {
		switch x := v.(type) {
		case *ssa.Slice:
			v = x.X
		case *ssa.ChangeType:
			v = x.X
		case *ssa.Convert:
			v = x.X
		case *ssa.Phi:
			if depth > 4 {
				return x
			}
			var root ssa.Value
			for _, e := range x.Edges {
				r := strictRoot(e, depth+1)
				if r == ssa.Value(x) {
					continue
				}
				if root != nil && r != root {
					return x
				}
				root = r
			}
			if root == nil {
				return x
			}
			return root
		default:
			return v
		}
	}
	return v
}

// resliceOfArg: when result k of a static same-module callee is, on every
// return, nil or carved from one and the same parameter, the argument passed
// for that parameter (else nil).
func resliceOfArg(call *ssa.Call, k int) ssa.Value {
	callee := call.Call.StaticCallee()
	if callee == nil || len(callee.Blocks) == 0 || callee.Pkg == nil || !strings.HasPrefix(callee.Pkg.Pkg.Path(), modPath) {
		return nil
	}
	idx := -1
	for _, r := range returnsOf(callee) {
		if k >= len(r.Results) {
			return nil
		}
		rv := r.Results[k]
		if isNilConst(rv) {
			continue
		}
		p, ok := strictRoot(rv, 0).(*ssa.Parameter)
		if !ok {
			return nil
		}
		pi := paramIndex(callee, p)
		if pi < 0 || idx >= 0 && idx != pi {
			return nil
		}
		idx = pi
	}
	if idx < 0 || idx >= len(call.Call.Args) {
		return nil
	}
	return call.Call.Args[idx]
}

func rootOf2(v ssa.Value, stop *ssa.Phi) ssa.Value {
	for i := 0; i < 8; i++ {
		switch x := v.(type) {
		case *ssa.Slice:
			v = x.X
		case *ssa.Phi:
			if x == stop {
				return x
			}
			return v
		default:
			return v
		}
	}
	return v
}

type guardSite struct {
	pkg, fn string
	pred    string // InexactOverlap | AnyOverlap
	in      int    // index of the input parameter in f.Params (receiver included)
}

// overlapFact: inside a helper, pred(param out, param in) whose true edge
// panics and whose false edge every return lies behind — calling the helper
// establishes the guard for the caller's arguments.
type overlapFact struct {
	pred    string
	out, in int
}

func overlapWrappers(c *Ctx) map[*ssa.Function][]overlapFact {
	res := map[*ssa.Function][]overlapFact{}
	for _, p := range c.ld.pkgs {
		rel := strings.TrimPrefix(strings.TrimPrefix(p.PkgPath, modPath), "/")
		if rel == "internal/alias" {
			continue
		}
		for _, f := range c.funcsOfPkg(rel) {
			for _, ci := range callsNamed(f, "internal/alias.InexactOverlap", "internal/alias.AnyOverlap") {
				call, ok := ci.(*ssa.Call)
				if !ok {
					continue
				}
				po, ok1 := call.Call.Args[0].(*ssa.Parameter)
				pi, ok2 := call.Call.Args[1].(*ssa.Parameter)
				if !ok1 || !ok2 {
					continue
				}
				yes, no := successEdges(call, 0, isTrue)
				okPanic := len(yes) > 0
				for _, e := range yes {
					blk := e.to()
					if _, isP := blk.Instrs[len(blk.Instrs)-1].(*ssa.Panic); !isP {
						okPanic = false
					}
				}
				if !okPanic {
					continue
				}
				cut := edgeSet{}
				cut.addAll(no)
				r := reach([]*ssa.BasicBlock{f.Blocks[0]}, cut)
				behind := true
				for _, b := range f.Blocks {
					if _, isR := b.Instrs[len(b.Instrs)-1].(*ssa.Return); isR && r[b] {
						behind = false
					}
				}
				if !behind {
					continue
				}
				// the helper itself writes nothing through the output before returning
				pure := true
				allInstrs(f, func(in ssa.Instruction) {
					if st, isS := in.(*ssa.Store); isS {
						if ia, isI := st.Addr.(*ssa.IndexAddr); isI && rootOf(ia.X) == ssa.Value(po) {
							pure = false
						}
					}
				})
				if !pure {
					continue
				}
				n := calleeName(&call.Call)
				res[f] = append(res[f], overlapFact{n[strings.LastIndex(n, ".")+1:], paramIndex(f, po), paramIndex(f, pi)})
			}
		}
	}
	return res
}

func paramIndex(f *ssa.Function, p *ssa.Parameter) int {
	for i, q := range f.Params {
		if q == p {
			return i
		}
	}
	return -1
}

func runC53(c *Ctx) {
	sites := []guardSite{
		{"chacha20", "(*Cipher).XORKeyStream", "InexactOverlap", 2},
		{"salsa20", "XORKeyStream", "InexactOverlap", 1},
		{"chacha20poly1305", "(*chacha20poly1305).sealGeneric", "InexactOverlap", 3},
		{"chacha20poly1305", "(*chacha20poly1305).sealGeneric", "AnyOverlap", 4},
		{"chacha20poly1305", "(*chacha20poly1305).openGeneric", "InexactOverlap", 3},
		{"chacha20poly1305", "(*chacha20poly1305).openGeneric", "AnyOverlap", 4},
		{"chacha20poly1305", "(*chacha20poly1305).seal", "InexactOverlap", 3},
		{"chacha20poly1305", "(*chacha20poly1305).seal", "AnyOverlap", 4},
		{"chacha20poly1305", "(*chacha20poly1305).open", "InexactOverlap", 3},
		{"chacha20poly1305", "(*chacha20poly1305).open", "AnyOverlap", 4},
		{"xts", "(*Cipher).Encrypt", "InexactOverlap", 2},
		{"xts", "(*Cipher).Decrypt", "InexactOverlap", 2},
		{"nacl/secretbox", "Seal", "AnyOverlap", 1},
		{"nacl/secretbox", "Open", "AnyOverlap", 1},
		{"nacl/sign", "Sign", "AnyOverlap", 1},
		{"nacl/sign", "Open", "AnyOverlap", 1},
	}
	if c.cfg != "" {
		// other build configurations: seal/open are thin wrappers around the
		// generic routines (chacha20poly1305_noasm.go) and carry no guard of their own
		var keep []guardSite
		for _, s := range sites {
			if s.pkg == "chacha20poly1305" && (s.fn == "(*chacha20poly1305).seal" || s.fn == "(*chacha20poly1305).open") {
				continue
			}
			keep = append(keep, s)
		}
		sites = keep
	}
	wrappers := overlapWrappers(c)
	// guard facts established anywhere in the module, directly or by calling a
	// guard helper (inventory: the table below must not be larger than this)
	found := 0
	for _, p := range c.ld.pkgs {
		rel := strings.TrimPrefix(strings.TrimPrefix(p.PkgPath, modPath), "/")
		if rel == "internal/alias" {
			continue
		}
		for _, f := range c.funcsOfPkg(rel) {
			if _, isW := wrappers[f]; !isW {
				found += len(callsNamed(f, "internal/alias.InexactOverlap", "internal/alias.AnyOverlap"))
			}
			allInstrs(f, func(in ssa.Instruction) {
				if call, ok := in.(*ssa.Call); ok {
					if h := call.Call.StaticCallee(); h != nil {
						found += len(wrappers[h])
					}
				}
			})
		}
	}
	c.check(found >= len(sites), "C53.sites", "overlap guard sites in the module", nil, fmt.Sprintf("%d guard facts (direct or through a guard helper), %d tabled", found, len(sites)), fmt.Sprintf("%d overlap guards found in the module, the table of in-place APIs has %d", found, len(sites)))
	for _, s := range sites {
		f := c.fn(s.pkg, s.fn)
		if f == nil {
			continue
		}
		if s.in >= len(f.Params) {
			c.fail("C53.guard", s.pkg+"."+s.fn+" "+s.pred, f, "the function no longer has the tabled input parameter")
			continue
		}
		inP := f.Params[s.in]
		name := s.pkg + "." + s.fn + " " + s.pred + "(out, " + inP.Name() + ")"
		// g: the instruction that establishes the guard; outArg/inArg its operands
		var g *ssa.Call
		var outArg, inArg ssa.Value
		direct := false
		for _, ci := range callsNamed(f, "internal/alias."+s.pred) {
			call := ci.(*ssa.Call)
			if rootOf(call.Call.Args[1]) == ssa.Value(inP) {
				g, outArg, inArg, direct = call, call.Call.Args[0], call.Call.Args[1], true
			}
		}
		if g == nil {
			allInstrs(f, func(in ssa.Instruction) {
				call, ok := in.(*ssa.Call)
				if !ok || call.Call.StaticCallee() == nil {
					return
				}
				for _, fact := range wrappers[call.Call.StaticCallee()] {
					if fact.pred == s.pred && fact.in < len(call.Call.Args) && fact.out < len(call.Call.Args) && rootOf(call.Call.Args[fact.in]) == ssa.Value(inP) {
						g, outArg, inArg = call, call.Call.Args[fact.out], call.Call.Args[fact.in]
					}
				}
			})
		}
		if g == nil {
			c.fail("C53.guard", name, f, "no "+s.pred+" check (direct, or through a helper that panics on overlap) with the input parameter "+inP.Name()+" as second operand")
			continue
		}
		out := rootOf(outArg)
		// (a) true edge panics; crossing = taking the false edge (direct) or
		// returning from the helper (its returns all lie behind the false edge)
		okPanic := true
		cut := edgeSet{}
		if direct {
			yes, no := successEdges(g, 0, isTrue)
			okPanic = len(yes) > 0
			for _, e := range yes {
				blk := e.to()
				if _, isP := blk.Instrs[len(blk.Instrs)-1].(*ssa.Panic); !isP {
					okPanic = false
				}
			}
			cut.addAll(no)
		} else {
			for i, sc := range g.Block().Succs {
				cut[edge{g.Block(), i}] = true
				_ = sc
			}
		}
		// (b) writers of the output buffer
		var writers []ssa.Instruction
		allInstrs(f, func(in ssa.Instruction) {
			switch x := in.(type) {
			case *ssa.Store:
				if ia, ok := x.Addr.(*ssa.IndexAddr); ok && rootOf(ia.X) == out {
					writers = append(writers, x)
				}
			case *ssa.Call:
				if x == g {
					return
				}
				n := calleeName(&x.Call)
				if strings.HasPrefix(n, "builtin:len") || strings.HasPrefix(n, "builtin:cap") || strings.Contains(n, "internal/alias.") {
					return
				}
				if h := x.Call.StaticCallee(); h != nil && len(wrappers[h]) > 0 {
					return
				}
				for _, a := range x.Call.Args {
					if strings.HasPrefix(a.Type().String(), "[]") && rootOf(a) == out {
						// the producer of the buffer itself (sliceForAppend(dst, n)) is not a writer of 'out'
						writers = append(writers, x)
						return
					}
				}
			}
		})
		// the buffer's own producer call (out is an Extract of it) is excluded automatically: its args root at dst, not out
		var early ssa.Instruction
		r := reach([]*ssa.BasicBlock{f.Blocks[0]}, cut)
		for _, w := range writers {
			if !r[w.Block()] {
				continue
			}
			// a helper call establishes the guard for the rest of its own block
			if !direct && w.Block() == g.Block() && instrIndex(w) > instrIndex(g) {
				continue
			}
			early = w
			break
		}
		var ws []string
		for _, w := range writers {
			ws = append(ws, c.posStr(w.Pos()))
		}
		sort.Strings(ws)
		switch {
		case !okPanic:
			c.fail("C53.guard", name, g, "the overlap predicate's true edge does not panic")
		case len(writers) == 0:
			c.fail("C53.guard", name, g, "no instruction writing the guarded output buffer found (the predicate is not evaluated on the region that is written)")
		case early != nil:
			c.fail("C53.guard", name, early, "the output buffer can be written before the overlap check has passed (a write is reachable without crossing the predicate's false edge)")
		default:
			c.ok("C53.guard", name, g, fmt.Sprintf("all %d writers of the output region lie behind the predicate's false edge", len(writers)))
		}
		// (c) the predicate's output operand is the region written: its root is the buffer the writers use (by construction) and it is not the input
		in := rootOf(inArg)
		okExtent := in != out
		detail := "the predicate compares a buffer with itself"
		// when the output operand is carved out of a caller-supplied buffer
		// (dst[:len(src)]), its extent must be the input's length from offset 0
		if sl, isS := outArg.(*ssa.Slice); isS {
			if _, isParam := out.(*ssa.Parameter); isParam {
				if sl.Low != nil {
					if k, isC := constInt(sl.Low); !isC || k != 0 {
						okExtent, detail = false, "the guarded output region does not start at the beginning of the output buffer"
					}
				}
				lc, isC := sl.High.(*ssa.Call)
				if sl.High == nil || !isC || calleeName(&lc.Call) != "builtin:len" || rootOf(lc.Call.Args[0]) != in {
					okExtent, detail = false, "the guarded output region is not out[:len(input)], the region that is written"
				}
			}
		}
		c.check(okExtent, "C53.operands", name, g, "output region (full extent) vs input parameter", detail)
	}
	// alias package: both predicates compare element addresses
	for _, fn := range []string{"AnyOverlap", "InexactOverlap"} {
		f := c.fn("internal/alias", fn)
		if f == nil {
			continue
		}
		ptrCmp := 0
		allInstrs(f, func(in ssa.Instruction) {
			if bo, ok := in.(*ssa.BinOp); ok {
				if strings.Contains(bo.X.Type().String(), "uintptr") || strings.Contains(bo.X.Type().String(), "*byte") || strings.Contains(bo.X.Type().String(), "*uint8") {
					ptrCmp++
				}
			}
		})
		calls := len(callsNamed(f, "internal/alias.AnyOverlap"))
		c.check(ptrCmp > 0 || calls > 0, "C53.alias", "alias."+fn, f, "compares element addresses (or builds on AnyOverlap)", "alias."+fn+" no longer compares element addresses")
	}
}
