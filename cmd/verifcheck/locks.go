package main

import (
	"sort"
	"strings"

	"golang.org/x/tools/go/ssa"
)

// Lock engine (E4): intra-procedural must-hold locksets over the SSA CFG.
// Locks are identified by the access path of the mutex operand ("ch.windowMu",
// "w.Cond.L", "t.mu", "l.Mutex"). A deferred Unlock keeps the lock held to the
// end of the function. sync.Cond.Wait leaves the lockset unchanged.

type lockset map[string]bool

func (s lockset) clone() lockset {
	o := lockset{}
	for k := range s {
		o[k] = true
	}
	return o
}

func intersect(a, b lockset) lockset {
	o := lockset{}
	for k := range a {
		if b[k] {
			o[k] = true
		}
	}
	return o
}

func (s lockset) String() string {
	var ks []string
	for k := range s {
		ks = append(ks, k)
	}
	sort.Strings(ks)
	return "{" + strings.Join(ks, ",") + "}"
}

// lockOp classifies a call as acquire (+1) / release (-1) of a lock path.
func lockOp(in ssa.Instruction) (path string, delta int) {
	if _, isDefer := in.(*ssa.Defer); isDefer {
		return "", 0
	}
	cc := callCommon(in)
	if cc == nil {
		return "", 0
	}
	n := calleeName(cc)
	var recv ssa.Value
	switch {
	case n == "(*sync.Mutex).Lock" || n == "(*sync.RWMutex).Lock" || n == "(*sync.RWMutex).RLock":
		recv, delta = cc.Args[0], 1
	case n == "(*sync.Mutex).Unlock" || n == "(*sync.RWMutex).Unlock" || n == "(*sync.RWMutex).RUnlock":
		recv, delta = cc.Args[0], -1
	case n == "invoke:(sync.Locker).Lock":
		recv, delta = cc.Value, 1
	case n == "invoke:(sync.Locker).Unlock":
		recv, delta = cc.Value, -1
	default:
		return "", 0
	}
	p := accessPath(recv)
	if p == "" {
		return "", 0
	}
	return p, delta
}

type lockInfo struct {
	fn  *ssa.Function
	in  map[*ssa.BasicBlock]lockset
	all lockset
}

func computeLocks(fn *ssa.Function) *lockInfo {
	li := &lockInfo{fn: fn, in: map[*ssa.BasicBlock]lockset{}, all: lockset{}}
	if len(fn.Blocks) == 0 {
		return li
	}
	for _, b := range fn.Blocks {
		for _, in := range b.Instrs {
			if p, d := lockOp(in); d != 0 {
				li.all[p] = true
			}
		}
	}
	// initialise: entry empty, others "all" (top)
	for _, b := range fn.Blocks {
		if b == fn.Blocks[0] {
			li.in[b] = lockset{}
		} else {
			li.in[b] = li.all.clone()
		}
	}
	out := func(b *ssa.BasicBlock) lockset {
		s := li.in[b].clone()
		for _, in := range b.Instrs {
			if p, d := lockOp(in); d > 0 {
				s[p] = true
			} else if d < 0 {
				delete(s, p)
			}
		}
		return s
	}
	for changed := true; changed; {
		changed = false
		for _, b := range fn.Blocks {
			if b == fn.Blocks[0] {
				continue
			}
			var acc lockset
			for _, p := range b.Preds {
				o := out(p)
				if acc == nil {
					acc = o
				} else {
					acc = intersect(acc, o)
				}
			}
			if acc == nil {
				acc = lockset{}
			}
			if len(acc) != len(li.in[b]) {
				li.in[b] = acc
				changed = true
			} else {
				for k := range acc {
					if !li.in[b][k] {
						li.in[b] = acc
						changed = true
						break
					}
				}
			}
		}
	}
	return li
}

// at returns the must-hold lockset just before instruction x.
func (li *lockInfo) at(x ssa.Instruction) lockset {
	b := x.Block()
	s := li.in[b].clone()
	for _, in := range b.Instrs {
		if in == x {
			break
		}
		if p, d := lockOp(in); d > 0 {
			s[p] = true
		} else if d < 0 {
			delete(s, p)
		}
	}
	return s
}

// holdsSuffix reports whether some held lock path ends with suffix and starts
// with the given base (base may be "" to ignore).
func (s lockset) holds(base, suffix string) bool {
	for k := range s {
		if strings.HasSuffix(k, suffix) && (base == "" || strings.HasPrefix(k, base)) {
			return true
		}
	}
	return false
}

// guardedAccesses checks that every access to field typ.field in the functions
// fns happens with the lock <base>.<lockSuffix> held, where base is the access
// path of the struct the field belongs to. exempt lists functions (by
// fnName) in which the object is not yet shared or the caller holds the lock.
type guardSpec struct {
	typ, field string
	lockSuffix string // e.g. ".windowMu", ".Cond.L"
	writesOnly bool
}

func (c *Ctx) checkGuarded(rule string, fns []*ssa.Function, gs guardSpec, exempt map[string]string) int {
	n := 0
	for _, f := range fns {
		refs := fieldRefs(f, gs.typ, gs.field)
		if len(refs) == 0 {
			continue
		}
		name := fnName(f)
		if why, ok := exempt[name]; ok {
			c.ok(rule, gs.typ+"."+gs.field+" in "+name, f, "exempt: "+why)
			n++
			continue
		}
		li := computeLocks(f)
		bad := ""
		var at ssa.Instruction
		for _, r := range refs {
			if gs.writesOnly {
				isW := false
				if fa, ok := r.(*ssa.FieldAddr); ok {
					for _, rr := range *fa.Referrers() {
						if st, ok := rr.(*ssa.Store); ok && st.Addr == ssa.Value(fa) {
							isW = true
						}
					}
				}
				if !isW {
					continue
				}
			}
			base := ""
			switch x := r.(type) {
			case *ssa.FieldAddr:
				base = accessPath(x.X)
				if al, ok := x.X.(*ssa.Alloc); ok && al.Heap && base == "" {
					continue // fresh object under construction
				}
				if _, ok := x.X.(*ssa.Alloc); ok {
					continue // composite literal under construction
				}
			case *ssa.Field:
				base = accessPath(x.X)
			}
			ls := li.at(r)
			if !ls.holds(base, gs.lockSuffix) {
				// an unexported helper inherits the locks held at every one of its
				// static call sites (a "...Locked" helper extracted from a critical
				// section)
				releases := false
				allInstrs(f, func(in ssa.Instruction) {
					if p, d := lockOp(in); d < 0 && strings.HasSuffix(p, gs.lockSuffix) {
						releases = true
					}
				})
				if up, ok := c.entryLocks(f, 0); ok && !releases && up.holds(base, gs.lockSuffix) {
					continue
				}
				bad = "accessed with lockset " + ls.String() + ", requires " + base + gs.lockSuffix
				at = r
				break
			}
		}
		n++
		if bad != "" {
			c.fail(rule, gs.typ+"."+gs.field+" in "+name, at, bad)
		} else {
			c.ok(rule, gs.typ+"."+gs.field+" in "+name, f, "every access holds "+gs.lockSuffix)
		}
	}
	return n
}

// blockingUnder reports blocking channel operations (send, receive, blocking
// select) executed while a lock whose path ends with suffix is held.
func blockingUnder(f *ssa.Function, suffix string) []ssa.Instruction {
	li := computeLocks(f)
	var out []ssa.Instruction
	allInstrs(f, func(in ssa.Instruction) {
		blocking := false
		switch x := in.(type) {
		case *ssa.Send:
			blocking = true
		case *ssa.UnOp:
			if x.Op.String() == "<-" {
				blocking = true
			}
		case *ssa.Select:
			blocking = x.Blocking
		}
		if blocking && li.at(in).holds("", suffix) {
			out = append(out, in)
		}
	})
	return out
}
