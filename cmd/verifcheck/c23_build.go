package main

import (
	"bytes"
	encoding_asn1 "encoding/asn1"
	"fmt"
	"go/types"
	"math"
	"math/big"
	"strings"
	"time"

	"golang.org/x/tools/go/ssa"
)

// Builders: every AddASN1X is evaluated (c23_vm.go) on a Builder made by the
// module's own NewBuilder, the result is read back through Bytes, and the
// octets are compared with what encoding/asn1.Marshal — run here, in the
// checker — emits for the same value. Which helper writes the identifier
// octet, how the length is patched in, and how the content octets are
// produced is irrelevant.

// ---------------------------------------------------------------------------
// library model: values of math/big and time are carried as host values and
// the handful of their methods the package uses are answered by the checker's
// own standard library; errors.New / fmt.Errorf yield some non-nil error.

func c23hostBig(v c23val) (*big.Int, bool) {
	p, ok := v.(c23ptr)
	if !ok || p.cell == nil {
		return nil, false
	}
	switch x := p.cell.v.(type) {
	case c23host:
		b, isB := x.v.(*big.Int)
		return b, isB
	case *c23struct:
		// new(big.Int): the zero value is 0
		if len(x.f) == 2 {
			if neg, isB := x.f[0].(bool); isB && !neg {
				if sl, isS := x.f[1].(c23slice); isS && sl.len == 0 {
					return new(big.Int), true
				}
			}
		}
	}
	return nil, false
}

func c23setBig(z c23val, v *big.Int) (c23val, bool) {
	p, ok := z.(c23ptr)
	if !ok || p.cell == nil {
		return nil, false
	}
	p.cell.v = c23host{v}
	return z, true
}

func c23bytesOf(v c23val, limit int64) ([]byte, bool) {
	sl, ok := v.(c23slice)
	if !ok || sl.len > limit {
		return nil, false
	}
	out := make([]byte, sl.len)
	for i := range out {
		e, isI := sl.m.get(sl.off + int64(i)).(int64)
		if !isI {
			return nil, false
		}
		out[i] = byte(e)
	}
	return out, true
}

func c23sliceOf(b []byte) c23slice {
	if b == nil {
		return c23slice{}
	}
	m := &c23mem{n: int64(len(b)), fill: int64(0)}
	for _, x := range b {
		m.elems = append(m.elems, int64(x))
	}
	return c23slice{m: m, len: m.n, cap: m.n}
}

func c23libModel(vm *c23vm, callee string, args []c23val) (c23val, bool) {
	if r, ok := c23timeModel(vm, callee, args); ok {
		return r, true
	}
	someError := c23iface{t: types.Typ[types.String], v: "error"}
	switch callee {
	case "errors.New", "fmt.Errorf":
		return someError, true
	case "internal/bytealg.IndexByte", "internal/bytealg.IndexByteString", "internal/bytealg.Count", "internal/bytealg.CountString":
		// assembly-backed primitives under bytes.IndexByte, bytes.Contains, ...
		var hay []byte
		if s, isS := args[0].(string); isS {
			hay = []byte(s)
		} else if b, ok := c23bytesOf(args[0], 1<<16); ok {
			hay = b
		} else {
			return nil, false
		}
		ch, ok := args[1].(int64)
		if !ok {
			return nil, false
		}
		if strings.Contains(callee, "Count") {
			return int64(bytes.Count(hay, []byte{byte(ch)})), true
		}
		return int64(bytes.IndexByte(hay, byte(ch))), true
	case "math/big.NewInt":
		if n, ok := args[0].(int64); ok {
			p, _ := c23newCell(c23host{big.NewInt(n)})
			return p, true
		}
		return nil, false
	}
	const pre = "(*math/big.Int)."
	if !strings.HasPrefix(callee, pre) || len(args) == 0 {
		return nil, false
	}
	op := func(i int) (*big.Int, bool) {
		if i >= len(args) {
			return nil, false
		}
		return c23hostBig(args[i])
	}
	switch name := callee[len(pre):]; name {
	case "Sign", "BitLen", "Int64", "Uint64", "IsInt64", "IsUint64", "Bytes":
		x, ok := op(0)
		if !ok {
			return nil, false
		}
		switch name {
		case "Sign":
			return int64(x.Sign()), true
		case "BitLen":
			return int64(x.BitLen()), true
		case "Int64":
			return x.Int64(), true
		case "Uint64":
			return int64(x.Uint64()), true
		case "IsInt64":
			return x.IsInt64(), true
		case "IsUint64":
			return x.IsUint64(), true
		}
		return c23sliceOf(x.Bytes()), true
	case "Cmp", "CmpAbs":
		x, ok1 := op(0)
		y, ok2 := op(1)
		if !ok1 || !ok2 {
			return nil, false
		}
		if name == "Cmp" {
			return int64(x.Cmp(y)), true
		}
		return int64(x.CmpAbs(y)), true
	case "Neg", "Set", "Not", "Abs":
		x, ok := op(1)
		if !ok {
			return nil, false
		}
		r := new(big.Int)
		switch name {
		case "Neg":
			r.Neg(x)
		case "Set":
			r.Set(x)
		case "Not":
			r.Not(x)
		case "Abs":
			r.Abs(x)
		}
		return c23setBig(args[0], r)
	case "Add", "Sub", "And", "Or", "Xor", "AndNot", "Mul":
		x, ok1 := op(1)
		y, ok2 := op(2)
		if !ok1 || !ok2 {
			return nil, false
		}
		r := new(big.Int)
		switch name {
		case "Add":
			r.Add(x, y)
		case "Sub":
			r.Sub(x, y)
		case "And":
			r.And(x, y)
		case "Or":
			r.Or(x, y)
		case "Xor":
			r.Xor(x, y)
		case "AndNot":
			r.AndNot(x, y)
		case "Mul":
			r.Mul(x, y)
		}
		return c23setBig(args[0], r)
	case "Lsh", "Rsh":
		x, ok1 := op(1)
		n, ok2 := args[2].(int64)
		if !ok1 || !ok2 || n < 0 || n > 1<<12 {
			return nil, false
		}
		r := new(big.Int)
		if name == "Lsh" {
			r.Lsh(x, uint(n))
		} else {
			r.Rsh(x, uint(n))
		}
		return c23setBig(args[0], r)
	case "SetBytes":
		b, ok := c23bytesOf(args[1], 1<<12)
		if !ok {
			return nil, false
		}
		return c23setBig(args[0], new(big.Int).SetBytes(b))
	case "SetInt64", "SetUint64":
		n, ok := args[1].(int64)
		if !ok {
			return nil, false
		}
		if name == "SetInt64" {
			return c23setBig(args[0], big.NewInt(n))
		}
		return c23setBig(args[0], new(big.Int).SetUint64(uint64(n)))
	case "FillBytes":
		x, ok1 := op(0)
		sl, ok2 := args[1].(c23slice)
		if !ok1 || !ok2 || sl.len > 1<<12 || int64(len(x.Bytes())) > sl.len {
			return nil, false
		}
		buf := x.FillBytes(make([]byte, sl.len))
		for i, b := range buf {
			vm.storeTo(c23ptr{m: sl.m, idx: sl.off + int64(i)}, int64(b), nil)
		}
		return sl, true
	}
	return nil, false
}

// ---------------------------------------------------------------------------
// package-level variables: the package initialiser of cryptobyte is evaluated
// once (bigOne = big.NewInt(1), ...); initialisers of packages outside the
// module are not entered.

var c23globalCache = map[*ssa.Package]map[*ssa.Global]*c23cell{}

func c23Globals(c *Ctx) map[*ssa.Global]*c23cell {
	sp := c.ssaPkg(c23pk)
	if sp == nil {
		return nil
	}
	if g, ok := c23globalCache[sp]; ok {
		return g
	}
	vm := &c23vm{model: c23libModel, globals: map[*ssa.Global]*c23cell{}, prog: sp.Prog}
	if ini := sp.Func("init"); ini != nil && len(ini.Blocks) > 0 {
		vm.run(ini, nil)
	}
	c23globalCache[sp] = vm.globals
	return vm.globals
}

// ---------------------------------------------------------------------------

type c23buildCase struct {
	what string
	args []c23val
	want []byte // nil: the builder must report an error
}

func c23mustMarshal(v interface{}, params string) []byte {
	b, err := encoding_asn1.MarshalWithParams(v, params)
	if err != nil {
		panic(err)
	}
	return b
}

func c23retag(b []byte, tag byte) []byte {
	out := append([]byte(nil), b...)
	out[0] = tag
	return out
}

func c23intSlice(xs []int) c23slice {
	if xs == nil {
		return c23slice{}
	}
	m := &c23mem{n: int64(len(xs)), fill: int64(0)}
	for _, x := range xs {
		m.elems = append(m.elems, int64(x))
	}
	return c23slice{m: m, len: m.n, cap: m.n}
}

func c23Builders(c *Ctx) {
	newB := c.fn(c23pk, "NewBuilder")
	bytesF := c.fn(c23pk, "(*Builder).Bytes")
	if newB == nil || bytesF == nil {
		return
	}
	globals := c23Globals(c)
	int64s := []int64{0, 1, -1, 127, 128, -128, -129, 255, 256, 32767, 32768, -32768, -32769, 1<<23 - 1, 1 << 23, -(1 << 23), -(1 << 23) - 1,
		1<<31 - 1, 1 << 31, 1<<55 - 1, 1 << 55, -(1 << 55) - 1, math.MaxInt64, math.MinInt64}
	bigs := []*big.Int{}
	for _, v := range int64s {
		bigs = append(bigs, big.NewInt(v))
	}
	for _, s := range []string{"9223372036854775808", "18446744073709551615", "18446744073709551616", "-9223372036854775809", "-18446744073709551616",
		"1267650600228229401496703205376", "-1267650600228229401496703205376", "-340282366920938463463374607431768211456", "340282366920938463463374607431768211455"} {
		n, _ := new(big.Int).SetString(s, 10)
		bigs = append(bigs, n)
	}
	octets := func(n int) []byte {
		b := make([]byte, n)
		for i := range b {
			b[i] = byte(i*7 + 1)
		}
		return b
	}
	utc := func(y int, mo time.Month, d, h, mi, s int) time.Time {
		return time.Date(y, mo, d, h, mi, s, 0, time.UTC)
	}

	specs := []struct {
		name  string
		cases []c23buildCase
	}{
		{"(*Builder).AddASN1Int64", func() (cs []c23buildCase) {
			for _, v := range int64s {
				cs = append(cs, c23buildCase{fmt.Sprintf("INTEGER %d", v), []c23val{v}, c23mustMarshal(v, "")})
			}
			return
		}()},
		{"(*Builder).AddASN1Int64WithTag", func() (cs []c23buildCase) {
			for _, v := range int64s {
				cs = append(cs, c23buildCase{fmt.Sprintf("[7] INTEGER %d", v), []c23val{v, int64(0x87)}, c23retag(c23mustMarshal(v, ""), 0x87)})
			}
			return
		}()},
		{"(*Builder).AddASN1Enum", func() (cs []c23buildCase) {
			for _, v := range int64s {
				if int64(int32(v)) == v { // encoding/asn1.Enumerated is an int
					cs = append(cs, c23buildCase{fmt.Sprintf("ENUMERATED %d", v), []c23val{v}, c23mustMarshal(encoding_asn1.Enumerated(v), "")})
				} else {
					cs = append(cs, c23buildCase{fmt.Sprintf("ENUMERATED %d", v), []c23val{v}, c23retag(c23mustMarshal(v, ""), 0x0a)})
				}
			}
			return
		}()},
		{"(*Builder).AddASN1Uint64", func() (cs []c23buildCase) {
			for _, v := range []uint64{0, 1, 127, 128, 255, 256, 65535, 65536, 1<<63 - 1, 1 << 63, math.MaxUint64} {
				cs = append(cs, c23buildCase{fmt.Sprintf("INTEGER %d", v), []c23val{int64(v)}, c23mustMarshal(new(big.Int).SetUint64(v), "")})
			}
			return
		}()},
		{"(*Builder).AddASN1BigInt", func() (cs []c23buildCase) {
			for _, v := range bigs {
				p, _ := c23newCell(c23host{new(big.Int).Set(v)})
				cs = append(cs, c23buildCase{"INTEGER " + v.String(), []c23val{p}, c23mustMarshal(v, "")})
			}
			return
		}()},
		{"(*Builder).AddASN1OctetString", func() (cs []c23buildCase) {
			for _, n := range []int{0, 1, 127, 128, 255, 256, 65535, 65536} {
				b := octets(n)
				cs = append(cs, c23buildCase{fmt.Sprintf("OCTET STRING of %d octets", n), []c23val{c23sliceOf(b)}, c23mustMarshal(b, "")})
			}
			return
		}()},
		{"(*Builder).AddASN1BitString", func() (cs []c23buildCase) {
			for _, n := range []int{0, 1, 126, 127, 128, 300} {
				b := octets(n)
				cs = append(cs, c23buildCase{fmt.Sprintf("BIT STRING of %d octets", n), []c23val{c23sliceOf(b)}, c23mustMarshal(encoding_asn1.BitString{Bytes: b, BitLength: 8 * n}, "")})
			}
			return
		}()},
		{"(*Builder).AddASN1Boolean", []c23buildCase{
			{"BOOLEAN true", []c23val{true}, c23mustMarshal(true, "")},
			{"BOOLEAN false", []c23val{false}, c23mustMarshal(false, "")},
		}},
		{"(*Builder).AddASN1NULL", []c23buildCase{{"NULL", nil, c23mustMarshal(encoding_asn1.NullRawValue, "")}}},
		{"(*Builder).AddASN1ObjectIdentifier", func() (cs []c23buildCase) {
			for _, oid := range [][]int{{1, 2, 840, 113549, 1, 1, 11}, {2, 5, 4, 3}, {0, 0}, {0, 39}, {1, 39}, {2, 40}, {2, 47}, {2, 48}, {2, 999999, 3}, {1, 2, 0, 127, 128, 16383, 16384, 1<<31 - 1}} {
				cs = append(cs, c23buildCase{fmt.Sprintf("OBJECT IDENTIFIER %v", oid), []c23val{c23intSlice(oid)}, c23mustMarshal(encoding_asn1.ObjectIdentifier(oid), "")})
			}
			for _, oid := range [][]int{nil, {1}, {3, 1}, {0, 40}, {1, 40}, {1, 2, -1}, {-1, 2}} {
				cs = append(cs, c23buildCase{fmt.Sprintf("invalid OBJECT IDENTIFIER %v", oid), []c23val{c23intSlice(oid)}, nil})
			}
			return
		}()},
		{"(*Builder).AddASN1GeneralizedTime", func() (cs []c23buildCase) {
			for _, t := range []time.Time{utc(2024, 1, 2, 3, 4, 5), utc(1950, 12, 31, 23, 59, 59), utc(2050, 1, 1, 0, 0, 0), utc(9999, 12, 31, 23, 59, 59), utc(0, 1, 1, 0, 0, 0)} {
				cs = append(cs, c23buildCase{"GeneralizedTime " + t.Format(time.RFC3339), []c23val{c23host{t}}, c23mustMarshal(t, "generalized")})
			}
			cs = append(cs, c23buildCase{"GeneralizedTime in year 10000", []c23val{c23host{utc(10000, 1, 1, 0, 0, 0)}}, nil})
			cs = append(cs, c23buildCase{"GeneralizedTime in year -1", []c23val{c23host{utc(-1, 1, 1, 0, 0, 0)}}, nil})
			return
		}()},
		{"(*Builder).AddASN1UTCTime", func() (cs []c23buildCase) {
			for _, t := range []time.Time{utc(2024, 1, 2, 3, 4, 5), utc(1950, 1, 1, 0, 0, 0), utc(1999, 12, 31, 23, 59, 59), utc(2000, 1, 1, 0, 0, 0), utc(2049, 12, 31, 23, 59, 59)} {
				cs = append(cs, c23buildCase{"UTCTime " + t.Format(time.RFC3339), []c23val{c23host{t}}, c23mustMarshal(t, "utc")})
			}
			cs = append(cs, c23buildCase{"UTCTime in year 2050", []c23val{c23host{utc(2050, 1, 1, 0, 0, 0)}}, nil})
			cs = append(cs, c23buildCase{"UTCTime in year 1949", []c23val{c23host{utc(1949, 12, 31, 23, 59, 59)}}, nil})
			return
		}()},
	}
	for _, sp := range specs {
		f := c.fn(c23pk, sp.name)
		if f == nil {
			continue
		}
		bad, tagBad, tagged := "", "", 0
		for _, cs := range sp.cases {
			vm := &c23vm{model: c23libModel, globals: globals, maxSteps: 4000000, prog: f.Prog}
			fail := func(stage, end, why string) string {
				if end == "panic" {
					return fmt.Sprintf("%s: %s panics (%s)", cs.what, stage, why)
				}
				return fmt.Sprintf("%s: evaluation of %s undecided: %s", cs.what, stage, why)
			}
			b, end, why := vm.run(newB, []c23val{c23slice{}})
			if end != "return" {
				bad = fail("NewBuilder", end, why)
				break
			}
			if _, end, why = vm.run(f, append([]c23val{b}, cs.args...)); end != "return" {
				bad = fail(f.Name(), end, why)
				break
			}
			res, end, why := vm.run(bytesF, []c23val{b})
			if end != "return" {
				bad = fail("Bytes", end, why)
				break
			}
			tp, ok := res.([]c23val)
			if !ok || len(tp) != 2 {
				bad = cs.what + ": Bytes did not return (bytes, error)"
				break
			}
			errv, isE := tp[1].(c23iface)
			if !isE {
				bad = cs.what + ": the error result of Bytes is not known"
				break
			}
			if cs.want == nil {
				if errv.t == nil {
					out, _ := c23bytesOf(tp[0], 1<<20)
					bad = fmt.Sprintf("%s: no error reported, %s emitted — the value has no DER encoding of this type", cs.what, c23hex(out))
				}
			} else if errv.t != nil {
				bad = fmt.Sprintf("%s: the builder reports an error, encoding/asn1 emits %s", cs.what, c23hex(cs.want))
			} else if out, okb := c23bytesOf(tp[0], 1<<20); !okb || !bytes.Equal(out, cs.want) {
				if okb && len(out) > 0 && out[0] != cs.want[0] {
					if tagBad == "" {
						tagBad = fmt.Sprintf("%s: identifier octet %#02x emitted (tag %d), X.690 assigns %#02x (tag %d)", cs.what, out[0], out[0]&0x1f, cs.want[0], cs.want[0]&0x1f)
					}
					if bytes.Equal(out[1:], cs.want[1:]) {
						continue
					}
				}
				bad = fmt.Sprintf("%s: emitted %s, the DER encoding (encoding/asn1) is %s", cs.what, c23hex(out), c23hex(cs.want))
			}
			if len(cs.want) > 0 {
				tagged++
			}
			if bad != "" {
				break
			}
		}
		if tagBad == "" && tagged == 0 {
			tagBad = "no emitted element could be evaluated — " + bad
		}
		c.check(tagBad == "", "C23.tags", sp.name, f, fmt.Sprintf("identifier octet %#02x on the %d emitted elements", sp.cases[0].want[0], tagged), tagBad)
		c.check(bad == "", "C23.builders", sp.name, f, fmt.Sprintf("emits the DER encoding that encoding/asn1 emits (%d values; minimal length, content)", len(sp.cases)), bad)
	}
}
