package main

import (
	"fmt"
	"strings"

	"golang.org/x/tools/go/ssa"
)

func init() {
	register(&propDef{
		id: "C04", run: runC04, minOblig: 8,
		explanation: "Decides the message-splitting and state discipline of the Poly1305 MAC — the part of 'one-shot Sum or any sequence of Write calls gives the same tag' that is visible in code shape — and nothing of the 130-bit arithmetic. (block splitting) mac.Write (assembly-backed build) and macGeneric.Write are interpreted (slices by length) for every buffered offset 0..15 and write lengths 0..50: the bytes handed to the block function are exactly 16*floor((offset+len)/16) bytes, in stream order (the completed 16-byte buffer first, then whole blocks straight from the input, contiguous with what was buffered), every call receives a multiple of 16 bytes, the remainder (offset+len) mod 16 is kept in the buffer, and len(p) is returned; (finalisation) Sum works on a value copy of the accumulator state (receiver-pure by effect analysis), feeds the partial last block of exactly 'offset' bytes when there is one, then finalises with the copy's accumulator and the key's s half; (lifecycle) MAC.Write panics exactly when the MAC was finalised, Sum and Verify finalise, Verify is the constant-time comparison of the expected tag with the computed one, the one-shot Sum is New + Write + Sum and the package-level Verify compares in constant time; (key split) initialize loads r from key[0:16] with the two clamping masks 0x0FFFFFFC0FFFFFFF / 0x0FFFFFFC0FFFFFFC and s from key[16:32], little-endian. NOT decided: the polynomial evaluation modulo 2^130-5 in updateGeneric / the assembly update, finalize's reduction, the padding bit of the short last block.",
		assumptions: []string{"update/updateGeneric treat a trailing short chunk as the final block", "crypto/subtle.ConstantTimeCompare contract"},
	})
	tech("C04", "flow-sensitive finite-domain interpretation of the block-splitting automaton; receiver-effect analysis of Sum; finite-domain evaluation of the lifecycle guard; constant/offset table for the key split")
}

func runC04(c *Ctx) {
	const pkg = "internal/poly1305"
	for _, name := range []string{"(*mac).Write", "(*macGeneric).Write"} {
		f := c.fnOpt(pkg, name)
		if f == nil || len(f.Blocks) == 0 || f.Synthetic != "" {
			continue // absent in this build, or a promoted-method wrapper around macGeneric's
		}
		c04Write(c, pkg, name, f)
	}
	pur := newPurity()
	for _, name := range []string{"(*mac).Sum", "(*macGeneric).Sum"} {
		f := c.fnOpt(pkg, name)
		if f == nil || len(f.Blocks) == 0 || f.Synthetic != "" {
			continue // absent in this build, or a promoted-method wrapper around macGeneric's
		}
		ok, why, at := pur.paramPure(f, 0, 0)
		var pos poser = f
		if at != nil {
			pos = at
		}
		c.check(ok, "C04.sum-pure", pkg+"."+name, pos, "finalisation works on a copy of the accumulator", "Sum changes the running state: "+why)
		// partial block of exactly offset bytes, then finalize
		bad := ""
		for o := int64(0); o <= 15; o++ {
			w := &pathWalker{env: newEnv(), lengths: true, maxSteps: 2000, opaque: map[string]bool{"update": true, "updateGeneric": true, "finalize": true}}
			offKey := fieldPathIn(f, "offset")
			w.state = map[string]int64{offKey: o}
			var evs []string
			w.onCall = func(w *pathWalker, ci ssa.CallInstruction) string {
				cc := ci.Common()
				n := short(calleeName(cc))
				switch {
				case strings.HasSuffix(n, "poly1305.update") || strings.HasSuffix(n, "poly1305.updateGeneric"):
					l, _ := w.env.eval(cc.Args[1])
					_, isLocal := cc.Args[0].(*ssa.Alloc)
					evs = append(evs, fmt.Sprintf("update(local=%v,%d)", isLocal, l))
				case strings.HasSuffix(n, "poly1305.finalize"):
					evs = append(evs, "finalize")
				}
				return ""
			}
			if end := w.walk(f.Blocks[0], nil); end != "return" {
				bad = "evaluation ended with " + end + " " + w.why
				break
			}
			want := "finalize"
			if o > 0 {
				want = fmt.Sprintf("update(local=true,%d) finalize", o)
			}
			if strings.Join(evs, " ") != want {
				bad = fmt.Sprintf("offset %d: [%s], expected [%s]", o, strings.Join(evs, " "), want)
			}
		}
		c.check(bad == "", "C04.finalize", pkg+"."+name, f, "the buffered remainder (if any) is the last block, on the local copy, then finalize", bad)
	}
	// lifecycle
	if f := c.fn(pkg, "(*MAC).Write"); f != nil {
		bad := ""
		for _, v := range []int64{0, 1} {
			e := newEnv()
			if e.bindField(f, "MAC", "finalized", v) == 0 {
				bad = "finalized flag not consulted"
			}
			pans, rets, _ := e.reachableExits(f, nil)
			if v == 1 && (len(pans) == 0 || len(rets) > 0) || v == 0 && len(pans) > 0 {
				bad = fmt.Sprintf("finalized=%d: panics=%d returns=%d", v, len(pans), len(rets))
			}
		}
		c.check(bad == "", "C04.lifecycle", "(*MAC).Write", f, "panics exactly after Sum or Verify", bad)
	}
	for _, name := range []string{"(*MAC).Sum", "(*MAC).Verify"} {
		f := c.fn(pkg, name)
		if f == nil {
			continue
		}
		okFin := false
		for _, st := range storesTo(f, "MAC", "finalized") {
			if b, isB := constBool(st.Val); isB && b {
				okFin = true
			}
		}
		sums := calls(f, func(n string) bool { return strings.HasSuffix(n, "poly1305.mac).Sum") || strings.HasSuffix(n, "poly1305.macGeneric).Sum") })
		c.check(okFin && len(sums) == 1, "C04.lifecycle", name, f, "computes the tag once and marks the MAC finalised", name+" does not finalise the MAC")
		if name == "(*MAC).Verify" {
			ctc := callsNamed(f, "crypto/subtle.ConstantTimeCompare")
			ok := len(ctc) == 1
			if ok {
				a := ctc[0].Common().Args
				isExp := func(v ssa.Value) bool { return v == ssa.Value(f.Params[1]) }
				isMac := func(v ssa.Value) bool {
					sl, ok := v.(*ssa.Slice)
					if !ok {
						return false
					}
					al, ok := sl.X.(*ssa.Alloc)
					return ok && len(sums) == 1 && sums[0].Common().Args[1] == ssa.Value(al)
				}
				ok = (isExp(a[0]) && isMac(a[1]) || isExp(a[1]) && isMac(a[0]))
				pass := edgesImplying(ctc[0].(*ssa.Call), []int64{0, 1}, func(d int64) bool { return d == 1 })
				e := newEnv()
				e.bind(callValue(ctc[0]), 0)
				for _, r := range returnsOf(f) {
					if v, okv := e.eval(retVal(r, 0)); !okv || v != 0 {
						ok = false
					}
				}
				ok = ok && len(pass) >= 0
			}
			c.check(ok, "C04.lifecycle", "(*MAC).Verify comparison", f, "constant-time comparison of the expected tag with the computed tag decides the result", "Verify does not return the constant-time comparison of the expected and the computed tag")
		}
	}
	if f := c.fn(pkg, "Verify"); f != nil {
		ctc := callsNamed(f, "crypto/subtle.ConstantTimeCompare")
		sm := callsNamed(f, pkg+".Sum")
		ok := len(ctc) == 1 && len(sm) == 1 && sm[0].Common().Args[1] == ssa.Value(f.Params[1]) && sm[0].Common().Args[2] == ssa.Value(f.Params[2])
		c.check(ok, "C04.lifecycle", "poly1305.Verify", f, "tag recomputed over (m, key) and compared in constant time", "the package-level Verify does not recompute the tag over the message and key and compare in constant time")
	}
	if f := c.fn(pkg, "Sum"); f != nil {
		nw := callsNamed(f, pkg+".New")
		wr := calls(f, func(n string) bool { return strings.HasSuffix(n, "poly1305.MAC).Write") })
		sm := calls(f, func(n string) bool { return strings.HasSuffix(n, "poly1305.MAC).Sum") })
		ok := len(nw) == 1 && len(wr) == 1 && len(sm) == 1 && nw[0].Common().Args[0] == ssa.Value(f.Params[2]) && wr[0].Common().Args[1] == ssa.Value(f.Params[1]) && precedes(wr[0], sm[0])
		c.check(ok, "C04.lifecycle", "poly1305.Sum", f, "New(key).Write(m) then Sum into out", "the one-shot Sum is not New(key), Write(m), Sum")
	}
	// key split
	if f := c.fn(pkg, "initialize"); f != nil {
		got := map[string]string{}
		allInstrs(f, func(in ssa.Instruction) {
			st, ok := in.(*ssa.Store)
			if !ok {
				return
			}
			p := accessPath(st.Addr)
			v := st.Val
			mask := ""
			if bo, isB := v.(*ssa.BinOp); isB {
				if k, isK := constInt(bo.Y); isK {
					mask = fmt.Sprintf("&%#x", uint64(k))
				}
				v = bo.X
			}
			if cl, isC := v.(*ssa.Call); isC && strings.HasPrefix(short(calleeName(&cl.Call)), "(encoding/binary.littleEndian).Uint64") {
				if sl, isS := cl.Call.Args[1].(*ssa.Slice); isS && sl.X == ssa.Value(f.Params[0]) {
					lo, _ := constInt(sl.Low)
					hi, _ := constInt(sl.High)
					got[p] = fmt.Sprintf("key[%d:%d]%s", lo, hi, mask)
				}
			}
		})
		want := map[string]string{"m.r[0]": "key[0:8]&0xffffffc0fffffff", "m.r[1]": "key[8:16]&0xffffffc0ffffffc", "m.s[0]": "key[16:24]", "m.s[1]": "key[24:32]"}
		bad := ""
		for k, v := range want {
			if got[k] != v {
				bad += fmt.Sprintf("%s = %s (want %s); ", k, got[k], v)
			}
		}
		c.check(bad == "", "C04.key-split", "poly1305.initialize", f, "r = clamp(key[0:16]), s = key[16:32], little-endian", "the key is not split / clamped as RFC 8439 2.5 requires: "+bad)
	}
}

func c04Write(c *Ctx, pkg, name string, f *ssa.Function) {
	p := f.Params[1]
	cases, bad := 0, ""
	for o := int64(0); o <= 15 && bad == ""; o++ {
		for n := int64(0); n <= 50 && bad == ""; n++ {
			w := &pathWalker{env: newEnv(), lengths: true, maxSteps: 4000}
			w.env.bind(p, n)
			offKey := fieldPathIn(f, "offset")
			w.state = map[string]int64{offKey: o}
			w.off = map[ssa.Value]int64{p: 0}
			w.onSlice = func(w *pathWalker, sl *ssa.Slice) {
				if base, ok := w.off[sl.X]; ok {
					lo := int64(0)
					if sl.Low != nil {
						lo, _ = w.env.eval(sl.Low)
					}
					w.off[sl] = base + lo
				}
			}
			w.onPhi = func(w *pathWalker, ph *ssa.Phi, in ssa.Value) {
				if v, ok := w.off[in]; ok {
					w.off[ph] = v
				} else {
					delete(w.off, ph)
				}
			}
			consumed := int64(0) // input bytes moved into the buffer or compressed
			fed := int64(0)
			order := ""
			problem := ""
			w.onCall = func(w *pathWalker, ci ssa.CallInstruction) string {
				cc := ci.Common()
				nm := short(calleeName(cc))
				switch {
				case strings.HasSuffix(nm, "poly1305.update") || strings.HasSuffix(nm, "poly1305.updateGeneric"):
					l, ok := w.env.eval(cc.Args[1])
					if !ok || l%16 != 0 || l == 0 {
						problem = fmt.Sprintf("block function called with %d bytes", l)
						return ""
					}
					if sl, isS := cc.Args[1].(*ssa.Slice); isS && strings.HasSuffix(accessPath(sl.X), ".buffer") {
						order += "B"
						if l != 16 {
							problem = "the buffer is fed with a length other than 16"
						}
					} else if off, isP := w.off[cc.Args[1]]; isP {
						order += "P"
						if off != consumed {
							problem = fmt.Sprintf("input fed from offset %d while %d input bytes were consumed", off, consumed)
						}
						consumed += l
					} else {
						problem = "block function called on an unrecognised buffer"
					}
					fed += l
				case nm == "builtin:copy":
					d, ok1 := w.env.eval(cc.Args[0])
					s, ok2 := w.env.eval(cc.Args[1])
					if off, isP := w.off[cc.Args[1]]; isP && ok1 && ok2 {
						if off != consumed {
							problem = fmt.Sprintf("input copied from offset %d while %d input bytes were consumed", off, consumed)
						}
						consumed += min(d, s)
					}
				}
				return ""
			}
			end := w.walk(f.Blocks[0], nil)
			cases++
			id := fmt.Sprintf("offset=%d len(p)=%d", o, n)
			if end != "return" {
				bad = id + ": evaluation ended with " + end + " " + w.why
				break
			}
			T := o + n
			ret, _ := w.env.eval(retVal(w.last.(*ssa.Return), 0))
			switch {
			case problem != "":
				bad = id + ": " + problem
			case fed != T/16*16:
				bad = fmt.Sprintf("%s: %d bytes fed to the block function, expected %d", id, fed, T/16*16)
			case w.state[offKey] != T%16:
				bad = fmt.Sprintf("%s: offset afterwards %d, expected %d", id, w.state[offKey], T%16)
			case consumed != n:
				bad = fmt.Sprintf("%s: %d of the %d input bytes consumed", id, consumed, n)
			case ret != n:
				bad = fmt.Sprintf("%s: returns %d", id, ret)
			case strings.Contains(order, "PB"):
				bad = id + ": input blocks are fed before the buffered block"
			case w.oob:
				bad = id + ": a slice expression leaves its bounds"
			}
		}
	}
	c.check(bad == "" && cases == 16*51, "C04.splitting", pkg+"."+name, f, fmt.Sprintf("%d (offset, length) cases: 16*floor((offset+len)/16) bytes fed in stream order, remainder buffered", cases), bad)
}

// fieldPathIn: the access path under which fn addresses the field named name
// of its receiver (embedding makes it "h.macGeneric.offset" in one type and
// "h.offset" in the other).
func fieldPathIn(fn *ssa.Function, name string) string {
	out := ""
	allInstrs(fn, func(in ssa.Instruction) {
		if fa, ok := in.(*ssa.FieldAddr); ok && out == "" {
			if _, fld, _, okf := fieldOf(fa); okf && fld == name {
				out = accessPath(fa)
			}
		}
	})
	return out
}
