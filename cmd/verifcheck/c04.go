package main

import (
	"fmt"
	"go/types"
	"strings"

	"golang.org/x/tools/go/ssa"
)

func init() {
	register(&propDef{
		id: "C04", run: runC04, minOblig: 8,
		explanation: "Decides the message-splitting and state discipline of the Poly1305 MAC — the part of 'one-shot Sum or any sequence of Write calls gives the same tag' that does not need the 130-bit arithmetic — by interpreting the code, with helpers of the package interpreted in place and memory identified by object and struct field (never by the names of locals, parameters or receivers, nor by which function a statement sits in). (block splitting) mac.Write (assembly-backed build) and macGeneric.Write are interpreted (slices by length) for every buffered offset 0..15 and write lengths 0..50: the bytes handed to the block function are exactly 16*floor((offset+len)/16) bytes, in stream order (the completed 16-byte buffer first, then whole blocks straight from the input, contiguous with what was buffered), applied to the receiver's own state, every call receives a multiple of 16 bytes, input bytes are copied into the buffer exactly behind the bytes it already holds, the remainder (offset+len) mod 16 is kept in the buffer, and len(p) is returned; (finalisation) Sum works on a value copy of the accumulator state (receiver-pure by effect analysis), feeds the partial last block buffer[:offset] to that copy when there is one, then finalises into out with the copy's accumulator and its s half; (lifecycle) the API layer is interpreted down to the primitives initialize / implementation Write / implementation Sum / constant-time compare, on symbolic contents: MAC.Write panics exactly when the MAC was finalised and otherwise hands p once to the implementation and returns (len(p), nil); MAC.Sum returns b followed by the tag of the current state, MAC.Verify returns exactly the result of a crypto/subtle.ConstantTimeCompare (or hmac.Equal) of the expected tag with the tag of the current state, both mark the MAC finalised and change nothing else; the one-shot Sum (and sumGeneric) stores into out the tag of a fresh state after initialize(key) and Write(m); the package-level Verify returns exactly the constant-time comparison of *mac with that tag — whether it goes through Sum, through MAC.Verify or through its own copy of the steps; (key split) New(key) is interpreted on concrete key bytes (each single byte set, all ones, a counting pattern): r is key[0:16] little-endian under the clamping masks 0x0FFFFFFC0FFFFFFF / 0x0FFFFFFC0FFFFFFC, s is key[16:32] little-endian, accumulator, buffer offset and finalised flag start at zero. NOT decided: the polynomial evaluation modulo 2^130-5 in updateGeneric / the assembly update, finalize's reduction, the padding bit of the short last block.",
		assumptions: []string{"update/updateGeneric treat a trailing short chunk as the final block", "crypto/subtle.ConstantTimeCompare contract", "the implementation's Write returns a nil error"},
	})
	tech("C04", "flow-sensitive finite-domain interpretation of the block-splitting automaton with object-based memory references; receiver-effect analysis of Sum; interprocedural symbolic interpretation of the API layer (state histories, tag provenance, comparison operands); concrete interpretation of the key split on test keys")
}

func runC04(c *Ctx) {
	const pkg = "internal/poly1305"
	nWrite, nSum := 0, 0
	for _, name := range []string{"(*mac).Write", "(*macGeneric).Write"} {
		f := c.fnOpt(pkg, name)
		if f == nil || len(f.Blocks) == 0 || f.Synthetic != "" {
			continue // absent in this build, or a promoted-method wrapper around macGeneric's
		}
		nWrite++
		c04Write(c, pkg, name, f)
	}
	pur := newPurity()
	for _, name := range []string{"(*mac).Sum", "(*macGeneric).Sum"} {
		f := c.fnOpt(pkg, name)
		if f == nil || len(f.Blocks) == 0 || f.Synthetic != "" {
			continue // absent in this build, or a promoted-method wrapper around macGeneric's
		}
		nSum++
		ok, why, at := pur.paramPure(f, 0, 0)
		var pos poser = f
		if at != nil {
			pos = at
		}
		c.check(ok, "C04.sum-pure", pkg+"."+name, pos, "finalisation works on a copy of the accumulator", "Sum changes the running state: "+why)
		c04Finalize(c, pkg, name, f)
	}
	if nWrite == 0 || nSum == 0 {
		c.fail("anchor", pkg+".(*macGeneric).Write / Sum", nil, "no implementation of Write / Sum found in the current tree; the rules cannot be evaluated")
	}
	c04Lifecycle(c, pkg)
	c04KeySplit(c, pkg)
}

func c04IsBlockFn(nm string) bool {
	return strings.HasSuffix(nm, "poly1305.update") || strings.HasSuffix(nm, "poly1305.updateGeneric")
}

// c04Finalize: for every buffered offset, Sum feeds buffer[:offset] (when
// there is a remainder) to a COPY of the receiver's state and finalises into
// out with that copy's h and s. The copy is followed as a value (load of the
// receiver's state, store into a local), the arguments by the memory they
// denote, wherever the statements live.
func c04Finalize(c *Ctx, pkg, name string, f *ssa.Function) {
	bad := ""
	recv := f.Params[0]
	offKey := c04FieldKey(recv, "offset")
	sp, isMAC := c04StatePath(recv.Type())
	if offKey == "" || !isMAC || len(f.Params) < 2 {
		c.check(false, "C04.finalize", pkg+"."+name, f, "", "the receiver has no offset field / embedded state, or Sum has no output parameter")
		return
	}
	for o := int64(0); o <= 15 && bad == ""; o++ {
		m := newC04Mem(f)
		m.role[recv], m.role[f.Params[1]] = "h", "out"
		m.hist["h"+sp] = []string{c04S0}
		w := &pathWalker{env: newEnv(), lengths: true, maxSteps: 2000, opaque: map[string]bool{"update": true, "updateGeneric": true, "finalize": true}}
		w.state = map[string]int64{offKey: o}
		m.install(w)
		var evs []string
		w.onCall = func(w *pathWalker, ci ssa.CallInstruction) string {
			cc := ci.Common()
			n := short(calleeName(cc))
			switch {
			case c04IsBlockFn(n):
				l, _ := w.env.eval(cc.Args[1])
				k, okState := m.stateKey(w, cc.Args[0])
				d := m.ref(w, cc.Args[1])
				tok := "?"
				if d.ok && d.obj == ssa.Value(recv) && c04LastField(d.path) == "buffer" && d.off == 0 {
					tok = fmt.Sprintf("buffer[:%d]", l)
				}
				if !okState {
					evs = append(evs, "update of a state the rule cannot name")
					return ""
				}
				m.hist[k] = append(m.histAt(k), "update("+tok+")")
			case strings.HasSuffix(n, "poly1305.finalize"):
				out, hp, sr := m.ref(w, cc.Args[0]), m.ref(w, cc.Args[1]), m.ref(w, cc.Args[2])
				parent := func(r c04Ref, fld string) string {
					if !r.ok || c04LastField(r.path) != fld {
						return "?"
					}
					return strings.Join(m.histAt(m.name(r.obj)+r.path[:strings.LastIndex(r.path, ".")]), " ")
				}
				dst := "?"
				if out.ok && out.off == 0 {
					dst = m.key(out)
				}
				evs = append(evs, fmt.Sprintf("finalize(%s, h of [%s], s of [%s])", dst, parent(hp, "h"), parent(sr, "s")))
			default:
				if !m.modelBuiltin(w, ci) {
					if _, isB := cc.Value.(*ssa.Builtin); !isB {
						m.clobber(w, ci)
					}
				}
			}
			return ""
		}
		if end := w.walk(f.Blocks[0], nil); end != "return" {
			bad = "evaluation ended with " + end + " " + w.why
			break
		}
		st := c04S0
		if o > 0 {
			st = fmt.Sprintf("%s update(buffer[:%d])", c04S0, o)
		}
		want := fmt.Sprintf("finalize(out, h of [%s], s of [%s])", st, st)
		switch {
		case len(m.notes) > 0:
			bad = strings.Join(m.notes, "; ")
		case strings.Join(m.histAt("h"+sp), " ") != c04S0:
			bad = fmt.Sprintf("offset %d: the receiver's own state becomes [%s]", o, strings.Join(m.histAt("h"+sp), " "))
		case strings.Join(evs, " ") != want:
			bad = fmt.Sprintf("offset %d: [%s], expected [%s]", o, strings.Join(evs, " "), want)
		}
	}
	c.check(bad == "", "C04.finalize", pkg+"."+name, f, "the buffered remainder (if any) is the last block, on a copy of the state, then finalize(out, copy.h, copy.s)", bad)
}

// c04Write: the block-splitting automaton, for every (buffered offset, input
// length) case. The rule keeps its own count of the bytes the buffer holds and
// of the input bytes consumed; every copy and every call of the block function
// is checked against them by the MEMORY its operands denote (the receiver's
// buffer field at an offset, the input parameter at an offset, the receiver's
// embedded state), resolved through helpers by c04Mem.
func c04Write(c *Ctx, pkg, name string, f *ssa.Function) {
	recv, p := f.Params[0], f.Params[1]
	offKey := c04FieldKey(recv, "offset")
	if offKey == "" {
		c.check(false, "C04.splitting", pkg+"."+name, f, "", "the receiver has no offset field")
		return
	}
	cases, bad := 0, ""
	for o := int64(0); o <= 15 && bad == ""; o++ {
		for n := int64(0); n <= 50 && bad == ""; n++ {
			m := newC04Mem(f)
			m.role[recv], m.role[p] = "h", "p"
			w := &pathWalker{env: newEnv(), lengths: true, maxSteps: 4000}
			w.env.bind(p, n)
			w.state = map[string]int64{offKey: o}
			w.onPhi, w.onInline, w.onReturn, w.onExtract = m.onPhi, m.onInline, m.onReturn, m.onExtract
			consumed := int64(0) // input bytes moved into the buffer or compressed
			buffered := o        // bytes the buffer holds
			fed := int64(0)
			order := ""
			problem := ""
			fail := func(s string) {
				if problem == "" {
					problem = s
				}
			}
			isBuf := func(r c04Ref) bool {
				return r.ok && r.obj == ssa.Value(recv) && c04LastField(r.path) == "buffer"
			}
			isIn := func(r c04Ref) bool { return r.ok && r.obj == ssa.Value(p) && r.path == "" }
			w.onCall = func(w *pathWalker, ci ssa.CallInstruction) string {
				cc := ci.Common()
				nm := short(calleeName(cc))
				switch {
				case c04IsBlockFn(nm):
					l, ok := w.env.eval(cc.Args[1])
					if !ok || l%16 != 0 || l == 0 {
						fail(fmt.Sprintf("block function called with %d bytes", l))
						return ""
					}
					if st := m.ref(w, cc.Args[0]); !(st.ok && st.obj == ssa.Value(recv) && st.off == 0 && c04AllEmbedded(st.path)) {
						fail("the block function is applied to something other than the receiver's own state")
					}
					switch d := m.ref(w, cc.Args[1]); {
					case isBuf(d):
						order += "B"
						if l != 16 || d.off != 0 {
							fail("the buffer is fed with a length other than 16")
						} else if buffered != 16 {
							fail(fmt.Sprintf("the buffer is fed while it holds %d bytes", buffered))
						}
						buffered = 0
					case isIn(d):
						order += "P"
						if d.off != consumed {
							fail(fmt.Sprintf("input fed from offset %d while %d input bytes were consumed", d.off, consumed))
						}
						consumed += l
					default:
						fail("block function called on an unrecognised buffer")
					}
					fed += l
				case nm == "builtin:copy":
					dl, ok1 := w.env.eval(cc.Args[0])
					sl, ok2 := w.env.eval(cc.Args[1])
					d, s := m.ref(w, cc.Args[0]), m.ref(w, cc.Args[1])
					switch {
					case isIn(s) && ok1 && ok2:
						k := min(dl, sl)
						if s.off != consumed {
							fail(fmt.Sprintf("input copied from offset %d while %d input bytes were consumed", s.off, consumed))
						}
						if k > 0 && !isBuf(d) {
							fail("input bytes are copied to something other than the buffer")
						}
						if k > 0 && isBuf(d) && d.off != buffered {
							fail(fmt.Sprintf("input copied to buffer[%d:] while the buffer holds %d bytes", d.off, buffered))
						}
						consumed += k
						if isBuf(d) {
							buffered += k
						}
					case isBuf(d) && !(ok1 && ok2 && min(dl, sl) == 0):
						fail("the buffer is overwritten from something other than the input")
					}
				}
				return ""
			}
			end := w.walk(f.Blocks[0], nil)
			cases++
			id := fmt.Sprintf("offset=%d len(p)=%d", o, n)
			if end != "return" {
				bad = id + ": evaluation ended with " + end + " " + w.why
				break
			}
			T := o + n
			ret, _ := w.env.eval(retVal(w.last.(*ssa.Return), 0))
			switch {
			case problem != "":
				bad = id + ": " + problem
			case fed != T/16*16:
				bad = fmt.Sprintf("%s: %d bytes fed to the block function, expected %d", id, fed, T/16*16)
			case w.state[offKey] != T%16:
				bad = fmt.Sprintf("%s: offset afterwards %d, expected %d", id, w.state[offKey], T%16)
			case consumed != n:
				bad = fmt.Sprintf("%s: %d of the %d input bytes consumed", id, consumed, n)
			case buffered != T%16:
				bad = fmt.Sprintf("%s: the buffer holds %d bytes afterwards, expected %d", id, buffered, T%16)
			case ret != n:
				bad = fmt.Sprintf("%s: returns %d", id, ret)
			case strings.Contains(order, "PB"):
				bad = id + ": input blocks are fed before the buffered block"
			case w.oob:
				bad = id + ": a slice expression leaves its bounds"
			}
		}
	}
	c.check(bad == "" && cases == 16*51, "C04.splitting", pkg+"."+name, f, fmt.Sprintf("%d (offset, length) cases: 16*floor((offset+len)/16) bytes fed in stream order, remainder buffered", cases), bad)
}

// c04FieldPath: the chain of embedded structs from (pointer to) struct type t
// down to the struct that declares the field, then the field: embedded steps
// are written sep+emb+name. ok is false when no such field is reachable.
func c04FieldPath(t types.Type, field, emb string) (string, bool) {
	if p, ok := t.Underlying().(*types.Pointer); ok {
		t = p.Elem()
	}
	path := ""
	for depth := 0; depth < 8; depth++ {
		st, ok := t.Underlying().(*types.Struct)
		if !ok {
			return "", false
		}
		next := -1
		for i := 0; i < st.NumFields(); i++ {
			if st.Field(i).Name() == field {
				return path + "." + field, true
			}
			if next < 0 && st.Field(i).Embedded() {
				if _, isS := st.Field(i).Type().Underlying().(*types.Struct); isS {
					next = i
				}
			}
		}
		if next < 0 {
			return "", false
		}
		path += "." + emb + st.Field(next).Name()
		t = st.Field(next).Type()
	}
	return "", false
}

// c04FieldKey: the path-walker state key of a field of the receiver, from the
// receiver's TYPE (embedding makes it "h.macGeneric.offset" in one type and
// "h.offset" in the other) and its actual name — whether or not the function
// itself touches the field.
func c04FieldKey(recv *ssa.Parameter, field string) string {
	p, ok := c04FieldPath(recv.Type(), field, "")
	if !ok {
		return ""
	}
	return recv.Name() + p
}

// c04KeySplit: New(key) is interpreted on concrete key bytes; the r, s limbs
// of the state it returns are compared with RFC 8439 section 2.5 computed
// here. Reads of the key may be binary.LittleEndian loads or byte arithmetic,
// in New, in initialize, or in any helper.
func c04KeySplit(c *Ctx, pkg string) {
	f := c.fn(pkg, "New")
	if f == nil {
		return
	}
	var at poser = f
	if g := c.fnOpt(pkg, "initialize"); g != nil {
		at = g
	}
	var ones, count [32]byte
	for i := range ones {
		ones[i] = 0xff
		count[i] = byte(17*i + 3)
	}
	keys := [][32]byte{ones, count} // the all-ones key first: it shows the masks as they are
	names := []string{"an all-ones key", "a counting-pattern key"}
	for i := 0; i < 32; i++ {
		var k [32]byte
		k[i] = 0xff
		keys = append(keys, k)
		names = append(names, fmt.Sprintf("key byte %d = 0xff, others 0", i))
	}
	le := func(b []byte) uint64 {
		var v uint64
		for i := 0; i < 8; i++ {
			v |= uint64(b[i]) << (8 * uint(i))
		}
		return v
	}
	bad := ""
	for ki, k := range keys {
		k := k
		r := c04Interp(f, []string{"key"}, nil, func(m *c04Mem) {
			for i := 0; i < 32; i++ {
				m.scalar["key["+itoa(int64(i))+"]"] = optInt{int64(k[i]), true}
			}
		}, 0, "openInit")
		if p := r.problems(); p != "" || r.end != "return" || r.retVal(0) == nil {
			bad = "New: " + p + " (ends with " + r.end + ")"
			break
		}
		ref := r.mem.ref(r.w, r.retVal(0))
		sp, isMAC := c04StatePath(r.retVal(0).Type())
		if !ref.ok || !isMAC {
			bad = "New does not return a MAC the rule can follow"
			break
		}
		obj := r.mem.key(ref)
		want := map[string]uint64{
			"r[0]": le(k[0:8]) & 0x0FFFFFFC0FFFFFFF, "r[1]": le(k[8:16]) & 0x0FFFFFFC0FFFFFFC,
			"s[0]": le(k[16:24]), "s[1]": le(k[24:32]), "h[0]": 0, "h[1]": 0, "h[2]": 0,
		}
		for _, fld := range []string{"r[0]", "r[1]", "s[0]", "s[1]", "h[0]", "h[1]", "h[2]"} {
			got, ok := r.mem.scalarAt(obj + sp + "." + fld)
			if !ok {
				bad += fmt.Sprintf("%s is not determined by the key (%s); ", fld, names[ki])
			} else if uint64(got) != want[fld] {
				bad += fmt.Sprintf("%s = %#016x, expected %#016x, for %s; ", fld, uint64(got), want[fld], names[ki])
			}
		}
		for _, fld := range []string{"offset", "finalized"} {
			if fp, ok := c04FieldPath(r.retVal(0).Type(), fld, "^"); ok {
				if got, okv := r.mem.scalarAt(obj + fp); !okv || got != 0 {
					bad += fmt.Sprintf("a new MAC starts with %s = %d; ", fld, got)
				}
			}
		}
		if bad != "" {
			break
		}
	}
	c.check(bad == "", "C04.key-split", "poly1305.New / initialize", at, fmt.Sprintf("r = clamp(key[0:16]), s = key[16:32], little-endian, h = 0 (%d test keys)", len(keys)), "the key is not split / clamped as RFC 8439 2.5 requires: "+bad)
}
