package main

import (
	"fmt"
	"go/token"
	"strings"

	"golang.org/x/tools/go/ssa"
)

func init() {
	register(&propDef{
		id: "C08", run: runC08, minOblig: 25,
		explanation: "Decides the state discipline and the constructor tables of the sha3 package. (delegation) New224/256/384/512, Sum224/256/384/512 and the SHAKE/cSHAKE constructors return the like-named crypto/sha3 function applied to the same arguments, with default output sizes 32/64 and — for cSHAKE — a re-creation closure that uses the SAME (N, S); (Sum never changes the running state) legacy state.Sum and shakeWrapper.Sum are receiver-pure by interprocedural effect analysis (both squeeze a clone; the legacy state struct has no reference field so the clone is deep; shakeWrapper.Clone builds a fresh SHAKE and transfers the state by Marshal/Unmarshal, its result never aliases the receiver's embedded pointer); (panics as documented) legacy Write and Sum panic exactly when the sponge is squeezing, shakeWrapper.Sum exactly when its squeezing flag is set, Read sets that flag before delegating and Clone copies it (evaluated on both flag values); (legacy sponge) Read pads exactly once — padAndPermute is reachable exactly in the absorbing state and switches to squeezing; both padding constants (the domain-separation byte at position n and 0x80 at position rate-1) are merged into the state by XOR read-modify-write on the state array, so they combine when n = rate-1; the legacy constructors use rate 136 / output 32 and rate 72 / output 64 with domain byte 0x01; Write permutes exactly when the block is full. NOT decided: Keccak-f[1600] values, the standard library's SHA-3/SHAKE, digest values.",
		assumptions: []string{"crypto/sha3 implements FIPS 202", "hash.Hash / encoding.BinaryMarshaler contracts"},
	})
	tech("C08", "interprocedural receiver-effect analysis; finite-domain evaluation of the state-flag guards; read-modify-write (XOR) store-shape rule for the padding; constructor/delegation tables")
}

func runC08(c *Ctx) {
	c08Sponge(c)
	// --- delegation table
	for _, n := range []string{"224", "256", "384", "512"} {
		for _, pre := range []string{"New", "Sum"} {
			f := c.fn("sha3", pre+n)
			if f == nil {
				continue
			}
			want := "crypto/sha3." + pre + n
			cs := callsNamed(f, want)
			ok := len(cs) == 1
			if ok && pre == "Sum" {
				ok = cs[0].Common().Args[0] == ssa.Value(f.Params[0])
			}
			if ok {
				for _, r := range returnsOf(f) {
					if stripConv(retVal(r, 0)) != callValue(cs[0]) {
						ok = false
					}
				}
			}
			c.check(ok, "C08.delegation", "sha3."+pre+n, f, "returns "+want+" of the same argument", "sha3."+pre+n+" does not delegate to "+want)
		}
	}
	type shk struct {
		fn, std string
		out     int64
		nArgs   int
	}
	for _, s := range []shk{{"NewShake128", "NewSHAKE128", 32, 0}, {"NewShake256", "NewSHAKE256", 64, 0}, {"NewCShake128", "NewCSHAKE128", 32, 2}, {"NewCShake256", "NewCSHAKE256", 64, 2}} {
		f := c.fn("sha3", s.fn)
		if f == nil {
			continue
		}
		cs := callsNamed(f, "crypto/sha3."+s.std)
		ok := len(cs) == 1
		if ok {
			for i := 0; i < s.nArgs; i++ {
				if !isParamVal(cs[0].Common().Args[i], f, i) {
					ok = false
				}
			}
		}
		var lit map[string]ssa.Value
		for _, r := range returnsOf(f) {
			lit = litFields(stripConv(retVal(r, 0)))
		}
		okLit := lit != nil
		if okLit {
			k, isK := constInt(lit["outputLen"])
			sq, isB := constBool(lit["squeezing"])
			okLit = ok && lit["SHAKE"] == callValue(cs[0]) && isK && k == s.out && (lit["squeezing"] == nil || isB && !sq)
			// factory
			switch fv := lit["newSHAKE"].(type) {
			case *ssa.Function:
				okLit = okLit && s.nArgs == 0 && short(fv.String()) == "crypto/sha3."+s.std
			case *ssa.MakeClosure:
				cl := fv.Fn.(*ssa.Function)
				ics := callsNamed(cl, "crypto/sha3."+s.std)
				okCl := len(ics) == 1 && len(fv.Bindings) == s.nArgs
				if okCl {
					for i := 0; i < s.nArgs; i++ {
						// closure free var i is bound to parameter i (possibly via the spilled alloc)
						a := ics[0].Common().Args[i]
						fvIdx := -1
						if u, isU := a.(*ssa.UnOp); isU {
							a = u.X
						}
						for j, fvv := range cl.FreeVars {
							if ssa.Value(fvv) == a {
								fvIdx = j
							}
						}
						if fvIdx < 0 {
							okCl = false
							continue
						}
						b := fv.Bindings[fvIdx]
						if b != ssa.Value(f.Params[i]) {
							if al, isA := b.(*ssa.Alloc); !isA || al.Comment != f.Params[i].Name() {
								okCl = false
							}
						}
					}
				}
				okLit = okLit && okCl
			default:
				okLit = false
			}
		}
		c.check(ok && okLit, "C08.delegation", "sha3."+s.fn, f, fmt.Sprintf("wraps crypto/sha3.%s, default output %d, not squeezing, factory re-creates the same function", s.std, s.out), "sha3."+s.fn+" does not wrap crypto/sha3."+s.std+" with the documented default output size and a matching re-creation function")
	}
	// --- purity
	pur := newPurity()
	for _, n := range []string{"(*state).Sum", "(*shakeWrapper).Sum"} {
		f := c.fn("sha3", n)
		if f == nil {
			continue
		}
		ok, why, at := pur.paramPure(f, 0, 0)
		var pos poser = f
		if at != nil {
			pos = at
		}
		c.check(ok, "C08.sum-pure", "sha3."+n, pos, "Sum cannot write to the receiver's state", "Sum writes to the running state: "+why)
	}
	if t := c.namedType("sha3", "state"); t != nil {
		c.check(!hasRefs(t, 0), "C08.sum-pure", "sha3.state is reference-free", nil, "value copy of the legacy sponge is deep", "the legacy sponge struct has a reference field; clone() shares storage")
	}
	if f := c.fn("sha3", "(*state).clone"); f != nil {
		ok := false
		for _, r := range returnsOf(f) {
			if al, isA := retVal(r, 0).(*ssa.Alloc); isA && al.Heap {
				// *ret = *d
				for _, ref := range *al.Referrers() {
					if st, isS := ref.(*ssa.Store); isS && st.Addr == ssa.Value(al) {
						if u, isU := st.Val.(*ssa.UnOp); isU && u.X == ssa.Value(f.Params[0]) {
							ok = true
						}
					}
				}
			}
		}
		c.check(ok, "C08.sum-pure", "sha3.(*state).clone", f, "returns a fresh copy of the receiver's value", "clone does not return a fresh value copy")
	}
	if f := c.fn("sha3", "(*shakeWrapper).Clone"); f != nil {
		ok := false
		for _, r := range returnsOf(f) {
			lit := litFields(stripConv(retVal(r, 0)))
			if lit == nil {
				continue
			}
			s, isC := lit["SHAKE"].(*ssa.Call)
			if !isC || s.Call.StaticCallee() != nil || s.Call.IsInvoke() {
				continue
			}
			// s := w.newSHAKE(); s.UnmarshalBinary(w.MarshalBinary())
			if !strings.HasSuffix(accessPath(s.Call.Value), ".newSHAKE") {
				continue
			}
			var um, mb *ssa.Call
			for _, ref := range *s.Referrers() {
				if cl, isCl := ref.(*ssa.Call); isCl && strings.HasSuffix(short(calleeName(&cl.Call)), "sha3.SHAKE).UnmarshalBinary") {
					um = cl
				}
			}
			for _, ci := range calls(f, func(n string) bool { return strings.HasSuffix(n, "sha3.SHAKE).MarshalBinary") }) {
				mb = ci.(*ssa.Call)
			}
			if um == nil || mb == nil {
				continue
			}
			ex, isE := um.Call.Args[1].(*ssa.Extract)
			if !isE || ex.Tuple != ssa.Value(mb) || ex.Index != 0 {
				continue
			}
			// both errors are checked (panic on failure)
			y1, _ := errSuccessEdges(um)
			y2, _ := errSuccessEdges(mb)
			cut := edgeSet{}
			cut.addAll(y1)
			if pathFromEntry(r, cut) {
				continue
			}
			cut2 := edgeSet{}
			cut2.addAll(y2)
			if pathFromEntry(r, cut2) {
				continue
			}
			sq := lit["squeezing"]
			ol := lit["outputLen"]
			if strings.HasSuffix(accessPath(sq), ".squeezing") && strings.HasSuffix(accessPath(ol), ".outputLen") && strings.HasSuffix(accessPath(lit["newSHAKE"]), ".newSHAKE") {
				ok = true
			}
		}
		c.check(ok, "C08.clone", "sha3.(*shakeWrapper).Clone", f, "fresh SHAKE from the factory, state transferred by checked Marshal/Unmarshal, output size, squeezing flag and factory copied", "Clone does not produce an independent wrapper carrying the same sponge state and squeezing flag")
	}
	// --- flag guards
	guard := func(fn, typ, field string, panicWhen func(v int64) bool, vals []int64, what string) {
		f := c.fn("sha3", fn)
		if f == nil {
			return
		}
		bad := ""
		for _, v := range vals {
			e := newEnv()
			if e.bindField(f, typ, field, v) == 0 {
				bad = "guard field not read"
				break
			}
			pans, rets, _ := e.reachableExits(f, nil)
			if panicWhen(v) && (len(pans) == 0 || len(rets) > 0) {
				bad = fmt.Sprintf("%s=%d: no panic although %s", field, v, what)
			}
			if !panicWhen(v) && len(pans) > 0 {
				bad = fmt.Sprintf("%s=%d: panics although the sponge is still absorbing", field, v)
			}
		}
		c.check(bad == "", "C08.guards", "sha3."+fn, f, "panics exactly when output has already been read", bad)
	}
	guard("(*state).Write", "state", "state", func(v int64) bool { return v != 0 }, []int64{0, 1}, "Write after Read")
	guard("(*state).Sum", "state", "state", func(v int64) bool { return v != 0 }, []int64{0, 1}, "Sum after Read")
	guard("(*shakeWrapper).Sum", "shakeWrapper", "squeezing", func(v int64) bool { return v != 0 }, []int64{0, 1}, "Sum after Read")
	if f := c.fn("sha3", "(*shakeWrapper).Read"); f != nil {
		ok := false
		sts := storesTo(f, "shakeWrapper", "squeezing")
		rd := calls(f, func(n string) bool { return strings.HasSuffix(n, "sha3.SHAKE).Read") })
		if len(sts) == 1 && len(rd) == 1 {
			v, isB := constBool(sts[0].Val)
			ok = isB && v && (sts[0].Block() == rd[0].Block() && precedes(sts[0], rd[0]) || sts[0].Block().Dominates(rd[0].Block()))
		}
		c.check(ok, "C08.guards", "sha3.(*shakeWrapper).Read", f, "marks the wrapper as squeezing before producing output", "Read does not record that output has been produced")
	}
	// who-may-write squeezing: only Read sets it true
	for _, fn := range c.funcsOfPkg("sha3") {
		for _, st := range storesTo(fn, "shakeWrapper", "squeezing") {
			if v, isB := constBool(st.Val); isB && v && fnName(fn) != "(*shakeWrapper).Read" {
				c.fail("C08.guards", "squeezing set outside Read: "+fnName(fn), st, "the squeezing flag is set by a function other than Read")
			}
		}
	}
	// --- legacy sponge
	if f := c.fn("sha3", "(*state).Read"); f != nil {
		pp := calls(f, func(n string) bool { return strings.HasSuffix(n, "state).padAndPermute") })
		ok := len(pp) == 1
		if ok {
			for _, v := range []int64{0, 1} {
				e := newEnv()
				e.bindField(f, "state", "state", v)
				_, _, blocks := e.reachableExits(f, nil)
				if blocks[pp[0].Block()] != (v == 0) {
					ok = false
				}
			}
		}
		c.check(ok, "C08.pad", "sha3.(*state).Read pads once", f, "padAndPermute is reachable exactly in the absorbing state", "Read pads when already squeezing, or squeezes without padding")
	}
	if f := c.fn("sha3", "(*state).padAndPermute"); f != nil {
		okSq := false
		for _, st := range storesTo(f, "state", "state") {
			if k, isK := constInt(st.Val); isK && k == 1 {
				okSq = true
			}
		}
		c.check(okSq, "C08.pad", "padAndPermute switches to squeezing", f, "state = spongeSqueezing", "padAndPermute leaves the sponge in the absorbing state")
		// the two padding constants: XOR read-modify-write on d.a
		type rmw struct {
			idx ssa.Value
			val ssa.Value
		}
		var rmws []rmw
		var plain []*ssa.Store
		allInstrs(f, func(in ssa.Instruction) {
			st, isS := in.(*ssa.Store)
			if !isS {
				return
			}
			ia, isI := st.Addr.(*ssa.IndexAddr)
			if !isI {
				return
			}
			isState := strings.HasSuffix(accessPath(ia.X), ".a")
			if bo, isB := st.Val.(*ssa.BinOp); isB && isState && (bo.Op == token.XOR || bo.Op == token.OR) {
				if ld, isL := bo.X.(*ssa.UnOp); isL && sameIndexAddr(ld.X, ia) {
					rmws = append(rmws, rmw{ia.Index, bo.Y})
					return
				}
			}
			// a plain store of a padding constant anywhere (state or scratch buffer)
			if k, isK := constInt(st.Val); isK && k == 0x80 {
				plain = append(plain, st)
			}
			if strings.HasSuffix(accessPath(st.Val), ".dsbyte") {
				plain = append(plain, st)
			}
		})
		okDS, okFinal := false, false
		for _, r := range rmws {
			if strings.HasSuffix(accessPath(r.val), ".dsbyte") && strings.HasSuffix(accessPath(r.idx), ".n") {
				okDS = true
			}
			if k, isK := constInt(r.val); isK && k == 0x80 {
				if bo, isB := r.idx.(*ssa.BinOp); isB && bo.Op == token.SUB && strings.HasSuffix(accessPath(bo.X), ".rate") {
					if one, isO := constInt(bo.Y); isO && one == 1 {
						okFinal = true
					}
				}
			}
		}
		c.check(okDS && okFinal && len(plain) == 0, "C08.pad", "padding bytes merged by XOR", f, "a[n] ^= dsbyte and a[rate-1] ^= 0x80: the two markers combine when only one byte is free", fmt.Sprintf("the padding markers are not both XOR-merged into the state (dsbyte at n: %v, 0x80 at rate-1: %v, plain stores of a marker: %d) — with one free byte the second marker overwrites the first", okDS, okFinal, len(plain)))
		// permute follows
		okPerm := false
		for _, ci := range calls(f, func(n string) bool { return strings.HasSuffix(n, "state).permute") }) {
			okPerm = true
			_ = ci
		}
		c.check(okPerm, "C08.pad", "padAndPermute permutes", f, "the padded block is permuted", "the padded block is not permuted")
	}
	for _, lc := range []struct {
		fn        string
		rate, out int64
	}{{"NewLegacyKeccak256", 136, 32}, {"NewLegacyKeccak512", 72, 64}} {
		f := c.fn("sha3", lc.fn)
		if f == nil {
			continue
		}
		var lit map[string]ssa.Value
		for _, r := range returnsOf(f) {
			lit = litFields(stripConv(retVal(r, 0)))
		}
		ok := lit != nil
		if ok {
			r, ok1 := constInt(lit["rate"])
			o, ok2 := constInt(lit["outputLen"])
			d, ok3 := constInt(lit["dsbyte"])
			ok = ok1 && ok2 && ok3 && r == lc.rate && o == lc.out && d == 1 && r == 200-2*o
		}
		c.check(ok, "C08.pad", "sha3."+lc.fn, f, fmt.Sprintf("rate %d = 200 - 2*%d, domain byte 0x01", lc.rate, lc.out), "legacy Keccak parameters differ from rate = 200 - 2*outputLen with domain byte 0x01")
	}
	if f := c.fn("sha3", "(*state).Write"); f != nil {
		// permute exactly when n == rate after absorbing
		ok := false
		for _, ci := range calls(f, func(n string) bool { return strings.HasSuffix(n, "state).permute") }) {
			for _, p := range ci.Block().Preds {
				if iff, isIf := p.Instrs[len(p.Instrs)-1].(*ssa.If); isIf && p.Succs[0] == ci.Block() {
					if bo, isB := iff.Cond.(*ssa.BinOp); isB && bo.Op == token.EQL {
						a, b := accessPath(bo.X), accessPath(bo.Y)
						if strings.HasSuffix(a, ".n") && strings.HasSuffix(b, ".rate") || strings.HasSuffix(b, ".n") && strings.HasSuffix(a, ".rate") {
							ok = true
						}
					}
				}
			}
		}
		c.check(ok, "C08.pad", "sha3.(*state).Write permutes full blocks", f, "permute exactly when n == rate", "Write does not permute exactly when the rate bytes are full")
	}
}
