package main

func init() {
	register(&propDef{
		id: "C08", run: runC08, minOblig: 25,
		explanation: "Decides the state discipline, the sponge bookkeeping and the constructor tables of the sha3 package by ABSTRACT INTERPRETATION of its public functions: every rule runs the function over a small finite domain (slices by length, scalar fields of the receiver as tracked state, pointers as abstract identities), with every helper of the package interpreted in place, and compares the observed effect transcript with the specification; the records and their fields are found by type (the struct holding the [200]byte state array, the struct holding a *crypto/sha3.SHAKE), so the verdicts do not depend on how the code is split into helpers or on any name of a local, parameter, receiver, helper or unexported type. (delegation) New224/256/384/512 and Sum224/256/384/512 return the result of the one call of the like-named crypto/sha3 function on the same argument; each SHAKE/cSHAKE constructor returns a fresh wrapper holding the result of the one call of crypto/sha3.NewSHAKE128/256 or NewCSHAKE128/256(N, S), default output size 32/64, not squeezing, and a re-creation function which — called by the rule — performs that same call with the SAME (N, S) again and returns a fresh SHAKE. (legacy sponge, for both rates, fill levels 0, 1, rate-2, rate-1, rate and lengths around 0, 1 and 2 blocks) Write XORs input byte j into state byte (n+j) mod rate and runs the Keccak-f core exactly after every rate-th byte (at once when a write fills the block); the first Read — and Sum — XOR exactly the domain byte into byte n and 0x80 into byte rate-1 (both into one byte when n = rate-1; a plain store, an OR, a scratch buffer whose bytes overwrite each other are all seen as what they do to the state bytes), permute the padded block and switch to squeezing; no padding when already squeezing; output byte j is state byte (n+j) mod rate after the right number of permutations, the core running exactly when the rate part is dry and more output is wanted; fill level, direction and results (len, nil) as required; the legacy constructors build rate 136 / output 32 and rate 72 / output 64, domain byte 0x01, empty, absorbing. (Sum never changes the running state) legacy Sum pads, permutes and squeezes outputLen bytes on a whole-value copy of the sponge (state array, fill level, rate, domain byte copied; the record has no reference field so the copy is deep), every field of the receiver is as before, the result is the argument followed by the digest; additionally legacy Sum is receiver-pure by interprocedural effect analysis; the wrapper's Sum reads outputLen bytes from a FRESH SHAKE built by the receiver's re-creation function into which the marshalled state of the receiver's SHAKE was unmarshalled, MarshalBinary being the only operation that reaches the receiver's SHAKE, no field of the receiver changing. (Clone is independent) shakeWrapper.Clone returns a new wrapper holding such a fresh SHAKE with the receiver's output size, squeezing flag (both values) and re-creation function; a failing Marshal/Unmarshal panics. (panics as documented) legacy Write and Sum panic, before any effect, exactly when the sponge is squeezing; the wrapper's Sum exactly when its flag is set; the wrapper's Read sets the flag, reads len(p) bytes from the wrapped SHAKE into p once and returns that result; no other exported method of the wrapper changes the flag. NOT decided: Keccak-f[1600] values (the core is summarised as 'permutes this state array'), the standard library's SHA-3/SHAKE, digest values, Reset and the (un)marshalling of the legacy sponge.",
		assumptions: []string{"crypto/sha3 implements FIPS 202", "hash.Hash / encoding.BinaryMarshaler contracts"},
	})
	tech("C08", "abstract interpretation (path walker) of every public function with in-place interpretation of helpers, closures and devirtualised interface calls; byte-granular XOR/copy transcript of the sponge compared with the construction; abstract pointer identities for the SHAKE wrapper; interprocedural receiver-effect analysis")
}

func runC08(c *Ctx) {
	m := c08NewModel(c)
	if m.pkg == nil {
		c.fail("anchor", "sha3", nil, "package not found")
		return
	}
	if !m.resolveTypes() {
		return
	}
	c08Legacy(c, m)
	c08Ctors(c, m)
	wrapSum := c08Wrapper(c, m)
	// --- Sum never changes the running state: interprocedural effect analysis
	// (independent of the interpretation above: it also sees writes through
	// aliases the walks do not model)
	pur := newPurity()
	if f := c.fn("sha3", "(*"+m.sponge.Obj().Name()+").Sum"); f != nil {
		ok, why, at := pur.paramPure(f, 0, 0)
		var pos poser = f
		if at != nil {
			pos = at
		}
		c.check(ok, "C08.sum-pure", "sha3."+fnName(f), pos, "Sum cannot write to the receiver's state", "Sum writes to the running state: "+why)
	}
	// the wrapper holds its sponge behind a pointer, so "Sum does not touch the
	// running state" is a statement about which *SHAKE each operation reaches.
	// The interpretation decides it exactly (every call into crypto/sha3 is a
	// token carrying the identity of its receiver: only MarshalBinary may reach
	// the receiver's SHAKE, no field of the receiver may change, no other call
	// is allowed); the flow-insensitive effect analysis is run as well and its
	// verdict is reported, but it cannot separate the clone's SHAKE from the
	// receiver's when the clone starts as a value copy of the wrapper.
	if f := c.fn("sha3", "(*"+m.wrap.Obj().Name()+").Sum"); f != nil {
		okP, why, _ := pur.paramPure(f, 0, 0)
		detail := "by interpretation: only MarshalBinary reaches the receiver's SHAKE, the digest is read from the fresh one, no field of the receiver changes"
		if okP {
			detail += "; the interprocedural effect analysis agrees"
		} else {
			detail += "; (the flow-insensitive effect analysis cannot tell the clone's SHAKE from the receiver's here: " + why + ")"
		}
		c.check(wrapSum == "", "C08.sum-pure", "sha3."+fnName(f), f, detail, "Sum writes to the running state: "+wrapSum)
	}
	c.check(!hasRefs(m.sponge, 0), "C08.sum-pure", "sha3."+m.sponge.Obj().Name()+" is reference-free", nil, "a value copy of the legacy sponge is deep", "the legacy sponge struct has a reference field; a value copy shares storage with the running state")
}
