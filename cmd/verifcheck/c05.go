package main

import (
	"fmt"
	"strings"

	"golang.org/x/tools/go/ssa"
)

func init() {
	register(&propDef{
		id: "C05", run: runC05, minOblig: 20,
		explanation: "Decides the dispatch and state discipline of blake2b and blake2s (not the compression function). (dispatch) every Go call site of an assembly routine (hashBlocksAVX2/AVX/SSE4, hashBlocksSSE4/SSSE3/SSE2) is evaluated under every assignment of the cpu.X86 feature fields the package reads: when the call is reachable, the features implied by the assignment cover the instruction-set extensions the routine's mnemonics need, and with no feature set the generic routine is what runs. (Sum does not alter the running state) digest.Sum and digest.finalize are receiver-pure by interprocedural effect analysis (they work on value copies of h and c and on a local block); (block buffering) digest.Write is interpreted for every buffered offset 0..BlockSize and input lengths around 0, 1, one, two and three blocks: a full block is never compressed while it might be the last (the last 1..BlockSize bytes stay buffered), the bytes compressed are — in order — the completed buffer block and then whole blocks straight from the input, every compression uses flag 0, the new offset is total-compressed and n = len(p) is returned; (finalisation) finalize compresses one zero-padded block with the all-ones last-block flag after decrementing the 128-bit (64-bit for BLAKE2s) counter by the padding length with a correct borrow (evaluated for counter words around 0 and the padding lengths 0..BlockSize); (keyed initial state) Reset xors size | keyLen<<8 | 1<<16 | 1<<24 into h[0] of the IV, clears offset and counter, and with a key re-installs the key block with offset = BlockSize; newDigest rejects out-of-range sizes and keys. NOT decided: the compression function on any path (assembly bodies are outside static reach: a register-level mistake inside hashBlocksAVX is not detected), digest values, equality of the variants.",
		assumptions: []string{"mnemonic -> extension table; raw BYTE encodings are counted but not classified", "architectural lattice AVX2 => AVX => SSE4.2 => SSE4.1 => SSSE3 => SSE3 => SSE2"},
	})
	tech("C05", "assembly mnemonic scan + exhaustive evaluation of the feature-flag dispatch; interprocedural receiver-effect analysis; finite-domain interpretation of the block-buffering automaton and of the counter borrow arithmetic")
}

func runC05(c *Ctx) {
	for _, pk := range []struct {
		pkg         string
		block, size int64
		wordBits    int
	}{{"blake2b", 128, 64, 64}, {"blake2s", 64, 32, 32}} {
		n := c.asmGuardCheck("C05.dispatch", pk.pkg)
		c.check(n < 0 || n >= 3, "C05.dispatch", pk.pkg+" assembly call sites", nil, fmt.Sprintf("%d guarded call sites", n), "fewer assembly call sites than the three dispatch arms")
		pur := newPurity()
		for _, m := range []string{"(*digest).Sum", "(*digest).finalize"} {
			f := c.fn(pk.pkg, m)
			if f == nil {
				continue
			}
			ok, why, at := pur.paramPure(f, 0, 0)
			var pos poser = f
			if at != nil {
				pos = at
			}
			c.check(ok, "C05.sum-pure", pk.pkg+"."+m, pos, "cannot write to the receiver's state", "writes to the running state: "+why)
		}
		c05Write(c, pk.pkg, pk.block)
		c05GenericBlocks(c, pk.pkg, pk.block, pk.wordBits)
		c05Finalize(c, pk.pkg, pk.block, pk.wordBits)
		c05Reset(c, pk.pkg, pk.block, pk.size)
	}
}

func c05Write(c *Ctx, pkg string, B int64) {
	f := c.fn(pkg, "(*digest).Write")
	if f == nil {
		return
	}
	p := f.Params[1]
	cases, bad := 0, ""
	for o := int64(0); o <= B && bad == ""; o++ {
		for _, n := range []int64{0, 1, B - o - 1, B - o, B - o + 1, B - 1, B, B + 1, 2*B - 1, 2 * B, 2*B + 1, 3 * B, 3*B + 5} {
			if n < 0 {
				continue
			}
			w := &pathWalker{env: newEnv(), lengths: true, maxSteps: 4000, opaque: map[string]bool{"hashBlocks": true, "hashBlocksGeneric": true}}
			w.env.bind(p, n)
			w.state = map[string]int64{"d.offset": o}
			compressed := int64(0)
			order := ""
			problem := ""
			pOff := map[ssa.Value]int64{p: 0} // offset of a slice of p within the original input
			w.onSlice = func(w *pathWalker, sl *ssa.Slice) {
				if base, ok := pOff[sl.X]; ok {
					lo := int64(0)
					if sl.Low != nil {
						lo, _ = w.env.eval(sl.Low)
					}
					pOff[sl] = base + lo
				}
			}
			w.onPhi = func(w *pathWalker, ph *ssa.Phi, in ssa.Value) {
				if off, ok := pOff[in]; ok {
					pOff[ph] = off
				} else {
					delete(pOff, ph)
				}
			}
			consumedFromP := int64(0) // input bytes moved into the buffer or compressed so far
			w.onCall = func(w *pathWalker, ci ssa.CallInstruction) string {
				cc := ci.Common()
				name := short(calleeName(cc))
				switch {
				case name == pkg+".hashBlocks":
					l, ok := w.env.eval(cc.Args[3])
					fl, okf := w.env.eval(cc.Args[2])
					if !ok || !okf || fl != 0 || l%B != 0 || l == 0 {
						problem = fmt.Sprintf("hashBlocks called with length %d flag %d", l, fl)
						return ""
					}
					if sl, isS := cc.Args[3].(*ssa.Slice); isS && accessPath(sl.X) == "d.block" {
						order += "B"
						if l != B {
							problem = "buffer compressed with a length other than one block"
						}
					} else if off, isP := pOff[cc.Args[3]]; isP {
						order += "P"
						if off != consumedFromP {
							problem = fmt.Sprintf("input compressed from offset %d, but %d input bytes were consumed before", off, consumedFromP)
						}
						consumedFromP += l
					} else {
						problem = "hashBlocks called on an unrecognised buffer"
					}
					compressed += l
				case name == "builtin:copy":
					d, ok1 := w.env.eval(cc.Args[0])
					s, ok2 := w.env.eval(cc.Args[1])
					if !ok1 || !ok2 {
						problem = "copy with unevaluated lengths"
						return ""
					}
					if off, isP := pOff[cc.Args[1]]; isP {
						if off != consumedFromP {
							problem = fmt.Sprintf("input copied from offset %d, but %d input bytes were consumed before", off, consumedFromP)
						}
						consumedFromP += min(d, s)
					}
				}
				return ""
			}
			end := w.walk(f.Blocks[0], nil)
			cases++
			id := fmt.Sprintf("offset=%d len(p)=%d", o, n)
			if end != "return" {
				bad = id + ": evaluation ended with " + end + " " + w.why
				break
			}
			T := o + n
			want := int64(0)
			if T > B {
				want = (T - 1) / B * B
			}
			ret, _ := w.env.eval(retVal(w.last.(*ssa.Return), 0))
			switch {
			case problem != "":
				bad = id + ": " + problem
			case compressed != want:
				bad = fmt.Sprintf("%s: %d bytes compressed, expected %d (the last 1..%d bytes must stay buffered until Sum)", id, compressed, want, B)
			case w.state["d.offset"] != T-want:
				bad = fmt.Sprintf("%s: offset afterwards %d, expected %d", id, w.state["d.offset"], T-want)
			case consumedFromP != n:
				bad = fmt.Sprintf("%s: %d input bytes consumed", id, consumedFromP)
			case ret != n:
				bad = fmt.Sprintf("%s: returns n=%d", id, ret)
			case strings.Contains(order, "PB"):
				bad = id + ": input blocks are compressed before the buffered block"
			case w.oob:
				bad = id + ": a slice expression leaves its bounds"
			}
		}
	}
	c.check(bad == "" && cases > 200, "C05.buffering", pkg+".(*digest).Write", f, fmt.Sprintf("%d (offset, length) cases: compressed = BlockSize*floor((pending-1)/BlockSize), in stream order, flag 0", cases), bad)
}

func c05Finalize(c *Ctx, pkg string, B int64, bits int) {
	f := c.fn(pkg, "(*digest).finalize")
	if f == nil {
		return
	}
	mask := ^uint64(0)
	if bits == 32 {
		mask = 1<<32 - 1
	}
	bad := ""
	var flagOK, padOK bool
	for _, c0 := range []int64{0, 1, B - 1, B, B + 1, 1000} {
		for _, c1 := range []int64{0, 7} {
			for o := int64(0); o <= B; o += max(1, B/16) {
				w := &pathWalker{env: newEnv(), lengths: true, maxSteps: 20000, opaque: map[string]bool{"hashBlocks": true}}
				// the digest's own counter; finalize works on a local copy of it,
				// identified as the array handed to hashBlocks (whatever its name)
				recv := f.Params[0].Name()
				w.state = map[string]int64{recv + ".offset": o, recv + ".c[0]": c0, recv + ".c[1]": c1}
				var gotFlag int64 = -1
				var blkLen int64 = -1
				var copied int64 = -1
				var atCall [2]int64
				w.onCall = func(w *pathWalker, ci ssa.CallInstruction) string {
					cc := ci.Common()
					switch short(calleeName(cc)) {
					case pkg + ".hashBlocks":
						gotFlag, _ = w.env.eval(cc.Args[2])
						blkLen, _ = w.env.eval(cc.Args[3])
						cp := w.path(cc.Args[1])
						atCall = [2]int64{w.state[cp+"[0]"], w.state[cp+"[1]"]}
						if _, isAlloc := allocOf(cc.Args[1]); !isAlloc {
							bad = "finalize hands the digest's own counter to hashBlocks"
						}
						if _, isAlloc := allocOf(cc.Args[0]); !isAlloc {
							bad = "finalize hands the digest's own chaining value to hashBlocks"
						}
					case "builtin:copy":
						if copied < 0 {
							d, _ := w.env.eval(cc.Args[0])
							s, _ := w.env.eval(cc.Args[1])
							copied = min(d, s)
						}
					}
					return ""
				}
				end := w.walk(f.Blocks[0], nil)
				if end != "return" {
					bad = "finalize does not evaluate: " + w.why
					break
				}
				rem := uint64(B - o)
				w0 := (uint64(c0) - rem) & mask
				w1 := uint64(c1)
				if uint64(c0) < rem {
					w1 = (w1 - 1) & mask
				}
				if uint64(atCall[0])&mask != w0 || uint64(atCall[1])&mask != w1 {
					bad = fmt.Sprintf("counter (%d,%d) minus padding %d gives (%d,%d), expected (%d,%d)", c0, c1, rem, uint64(atCall[0])&mask, uint64(atCall[1])&mask, w0, w1)
				}
				flagOK = uint64(gotFlag)&mask == mask
				padOK = blkLen == B && copied == o
				if !flagOK || !padOK {
					bad = fmt.Sprintf("offset %d: final compression with flag %#x over %d bytes after copying %d buffered bytes", o, uint64(gotFlag)&mask, blkLen, copied)
				}
			}
		}
	}
	c.check(bad == "", "C05.finalize", pkg+".(*digest).finalize", f, "one zero-padded block, all-ones flag, counter decremented by the padding with borrow, on local copies", bad)
}

func allocOf(v ssa.Value) (*ssa.Alloc, bool) {
	a, ok := v.(*ssa.Alloc)
	return a, ok
}

func c05Reset(c *Ctx, pkg string, B, size int64) {
	f := c.fn(pkg, "(*digest).Reset")
	if f != nil {
		bad := ""
		for _, sz := range []int64{1, 20, size} {
			for _, kl := range []int64{0, 1, size} {
				w := &pathWalker{env: newEnv(), maxSteps: 2000}
				w.state = map[string]int64{"d.size": sz, "d.keyLen": kl, "d.offset": 77, "d.c[0]": 5, "d.c[1]": 6, "d.h[0]": 0}
				sawKeyCopy := false
				w.onStore = func(w *pathWalker, st *ssa.Store) string {
					if accessPath(st.Addr) == "d.block" && accessPath(st.Val) == "d.key" {
						sawKeyCopy = true
					}
					if accessPath(st.Addr) == "d.h" {
						w.state["d.h[0]"] = 0 // IV word, taken as 0 so that the parameter mask is what remains
					}
					return ""
				}
				if end := w.walk(f.Blocks[0], nil); end != "return" {
					bad = "Reset does not evaluate: " + w.why
					break
				}
				wantOff := int64(0)
				if kl > 0 {
					wantOff = B
				}
				mask := sz | kl<<8 | 1<<16 | 1<<24
				switch {
				case w.state["d.h[0]"] != mask:
					bad = fmt.Sprintf("size=%d keyLen=%d: parameter word %#x, expected %#x", sz, kl, w.state["d.h[0]"], mask)
				case w.state["d.offset"] != wantOff || w.state["d.c[0]"] != 0 || w.state["d.c[1]"] != 0:
					bad = fmt.Sprintf("size=%d keyLen=%d: offset=%d counter=(%d,%d) after Reset", sz, kl, w.state["d.offset"], w.state["d.c[0]"], w.state["d.c[1]"])
				case sawKeyCopy != (kl > 0):
					bad = fmt.Sprintf("keyLen=%d: key block re-installed=%v", kl, sawKeyCopy)
				}
			}
		}
		c.check(bad == "", "C05.reset", pkg+".(*digest).Reset", f, "h[0] = IV ^ (size | keyLen<<8 | 1<<16 | 1<<24); counter and offset cleared; key block re-installed with offset = BlockSize", bad)
	}
	if g := c.fn(pkg, "newDigest"); g != nil {
		bad := ""
		hasSizeParam := pkg == "blake2b"
		for _, sz := range []int64{0, 1, size, size + 1} {
			for _, kl := range []int64{0, size, size + 1} {
				e := newEnv()
				e.bind(g.Params[0], sz)
				e.bindLen(g, g.Params[1], kl)
				e.solve(g)
				acc := false
				for _, r := range returnsOf(g) {
					if e.reach[r.Block()] && errNilness(retVal(r, 1), r.Block(), 0) != neverNil {
						acc = true
					}
				}
				want := kl <= size && (!hasSizeParam || sz >= 1 && sz <= size)
				if acc != want {
					bad = fmt.Sprintf("size=%d key length=%d: accepted=%v", sz, kl, acc)
				}
			}
		}
		c.check(bad == "", "C05.reset", pkg+".newDigest", g, "rejects out-of-range digest sizes and over-long keys", bad)
	}
}
