package main

import (
	"fmt"
	"go/token"
	"strings"

	"golang.org/x/tools/go/ssa"
)

func init() {
	register(&propDef{
		id: "C43", run: runC43, minOblig: 20,
		explanation: "Decides state discipline and framing guards of the in-memory SSH agent, independently of how the code is factored (helpers of the package are expanded in place, gates are recognised through negation, &&/||, guard clauses, boolean helpers and 'err == nil' tests on checking helpers; values are identified by provenance, never by the names of locals): (locking) keyring.keys, locked and passphrase are accessed only with the keyring mutex held, in a helper: held at every one of its call sites; (locked agent) every Agent method that reads or changes the key list reaches the key list only behind 'locked == false'; while locked List returns an empty list and no error and the others a non-nil error (errLocked); Lock refuses a second Lock; Unlock clears the lock only behind subtle.ConstantTimeCompare(given, stored passphrase) == 1; (expiry) List, SignWithFlags and Signers run the expiry sweep (the function that removes keys behind a time comparison with their expiry) before they touch the key list, and the sweep removes a key only when its expiry is set and has passed; (scan) a loop that deletes slot i of the key list in place does not advance past the entry moved into slot i; (lifetime on every stored entry) in Add no store into the key list (append OR in-place replacement) is reached unless 'LifetimeSecs > 0' was refuted or the entry's expiry has been written; unsupported constraints (ConfirmBeforeUse, ConstraintExtensions) are refused before anything is stored; Add overwrites an existing entry exactly where its marshalled public key equals the new key's (a loop with an equality test on the same index, slices.IndexFunc with an equality predicate, or an index-returning helper) instead of appending; (framing) ServeAgent rejects request length 0 and lengths above the maximum before allocating, so processRequest's data[0] has a byte to read, and refuses over-long replies (evaluated). NOT decided: equivalence with an abstract agent over histories; which entry a swap-delete moves (order of the remaining keys).",
		assumptions: []string{"time.Now monotonic behaviour", "subtle.ConstantTimeCompare contract"},
	})
	tech("C43", "lockset analysis (guarded-field table, lock inheritance into helpers), interprocedural must-cross rules on role-defined gates (locked flag, expiry, lifetime, constraints, public-key equality) with implication lifted through boolean/ error-returning helpers, provenance slices for index/element correspondence, finite-domain evaluation of framing limits")
}

const c43pk = "ssh/agent"

func runC43(c *Ctx) {
	sweepC43(c)
	fns := c.funcsOfPkg(c43pk)
	c43Locking(c, fns)
	c43Locked(c)
	sweeps := c43Expiry(c, fns)
	c43ExpiryOrder(c, sweeps)
	c43Scan(c, fns)
	if f := c.fn(c43pk, "(*keyring).Add"); f != nil {
		c43Lifetime(c, f)
		c43AddReplace(c, f)
		c43Constraints(c, f)
	}
	if f := c.fn(c43pk, "ServeAgent"); f != nil {
		c43Framing(c, f)
	}
}

// ---------------------------------------------------------------------------
// locking

// c43SyncClosures: closures that a standard-library search/sort routine calls
// synchronously (the closure is created as the argument of a slices./sort.
// call) while the keyring mutex is held; they run inside the critical section.
func c43SyncClosures(fns []*ssa.Function) map[string]string {
	out := map[string]string{}
	for _, f := range fns {
		if f.Parent() != nil {
			continue
		}
		var li *lockInfo
		allInstrs(f, func(in ssa.Instruction) {
			call, ok := in.(*ssa.Call)
			if !ok {
				return
			}
			n := calleeName(&call.Call)
			if !strings.HasPrefix(n, "slices.") && !strings.HasPrefix(n, "sort.") {
				return
			}
			for _, a := range call.Call.Args {
				mc, ok := a.(*ssa.MakeClosure)
				if !ok {
					continue
				}
				// the closure value has no other use than this call
				if refs := mc.Referrers(); refs == nil || len(*refs) != 1 {
					continue
				}
				if li == nil {
					li = computeLocks(f)
				}
				if li.at(call).holds("", ".mu") {
					out[fnName(mc.Fn.(*ssa.Function))] = "runs synchronously inside " + n + " called with the mutex held in " + fnName(f)
				}
			}
		})
	}
	return out
}

func c43Locking(c *Ctx, fns []*ssa.Function) {
	exempt := c43SyncClosures(fns)
	// "...Locked" helpers by role: unexported keyring methods that work on the
	// guarded state without ever touching the mutex themselves, and that are only
	// ever called synchronously (never go'ed or deferred). Their accesses are
	// covered by the obligation that the mutex is held at every call site.
	var helpers []*ssa.Function
	isHelper := map[*ssa.Function]bool{}
	for _, f := range fns {
		if f.Parent() != nil || f.Object() == nil || f.Object().Exported() || len(f.Params) == 0 || typeName(f.Params[0].Type()) != "keyring" {
			continue
		}
		touches := false
		for _, fld := range []string{"keys", "locked", "passphrase"} {
			if len(fieldRefs(f, "keyring", fld)) > 0 {
				touches = true
			}
		}
		mutex := false
		allInstrs(f, func(in ssa.Instruction) {
			if cc := callCommon(in); cc != nil && strings.HasPrefix(calleeName(cc), "(*sync.") {
				mutex = true
			}
		})
		cs := c.callersOf(f)
		plain := len(cs) > 0
		for _, ci := range cs {
			if _, isCall := ci.(*ssa.Call); !isCall {
				plain = false
			}
		}
		if touches && !mutex && plain {
			helpers = append(helpers, f)
			isHelper[f] = true
			exempt[fnName(f)] = "works on the state for its callers; the mutex is held at every call site (checked there)"
		}
	}
	for _, fld := range []string{"keys", "locked", "passphrase"} {
		n := c.checkGuarded("C43.lock", fns, guardSpec{"keyring", fld, ".mu", false}, exempt)
		c.check(n > 0, "C43.lock", "keyring."+fld, nil, fmt.Sprintf("%d accessing functions", n), "no access found")
	}
	for _, f := range helpers {
		for _, ci := range c.callersOf(f) {
			caller := ci.Parent()
			what := strings.TrimPrefix(fnName(f), "(*keyring).") + " from " + fnName(caller)
			if isHelper[caller] {
				c.ok("C43.lock", what, ci, "called from another helper that runs with the mutex held")
				continue
			}
			held := computeLocks(caller).at(ci).holds("", ".mu")
			if !held {
				if up, ok := c.entryLocks(caller, 0); ok && up.holds("", ".mu") {
					held = true
				}
			}
			c.check(held, "C43.lock", what, ci, "the keyring mutex is held at the call", "a helper that works on the guarded keyring state is called without the keyring mutex")
		}
	}
}

// ---------------------------------------------------------------------------
// locked agent

func c43UnlockedFact(c *Ctx) *c43Fact {
	return c.c43NewFact("locked == false", func(v ssa.Value) (bool, bool) {
		if c43FieldLoad(v, "keyring", "locked") {
			return false, true
		}
		return false, false
	})
}

// c43LockedClass classifies what a value is on the paths a locked agent takes:
// "nil", "err" (certainly non-nil error) or "?".
func c43LockedClass(v ssa.Value, rets map[*ssa.Function][]*ssa.Return, blocks map[*ssa.BasicBlock]bool, d int) string {
	if v == nil || d > 6 {
		return "?"
	}
	if isNilConst(v) {
		return "nil"
	}
	if c43NonNilErr(v) {
		return "err"
	}
	join := func(cur, next string) string {
		if cur == "" || cur == next {
			return next
		}
		return "?"
	}
	switch x := v.(type) {
	case *ssa.Phi:
		cls := ""
		for i, e := range x.Edges {
			if i < len(x.Block().Preds) && !blocks[x.Block().Preds[i]] {
				continue
			}
			cls = join(cls, c43LockedClass(e, rets, blocks, d+1))
		}
		if cls != "" {
			return cls
		}
	case *ssa.Call, *ssa.Extract:
		_, h, idx := c43LocalCallee(v)
		if h == nil {
			return "?"
		}
		cls := ""
		for _, r := range rets[h] {
			if idx >= len(r.Results) {
				return "?"
			}
			cls = join(cls, c43LockedClass(retVal(r, idx), rets, blocks, d+1))
		}
		if cls != "" {
			return cls
		}
	}
	return "?"
}

func c43Locked(c *Ctx) {
	unlocked := c43UnlockedFact(c)
	for _, m := range []string{"RemoveAll", "Remove", "List", "Add", "SignWithFlags", "Signers"} {
		f := c.fn(c43pk, "(*keyring)."+m)
		if f == nil {
			continue
		}
		cut := unlocked.cutFor(f)
		nTargets := 0
		deepInstrs(f, func(in ssa.Instruction) {
			if c43KeysRef(in) {
				nTargets++
			}
		})
		var hit ssa.Instruction
		rets := map[*ssa.Function][]*ssa.Return{}
		blocks := map[*ssa.BasicBlock]bool{}
		c43Walk(f, cut, func(in ssa.Instruction) c43Act {
			blocks[in.Block()] = true
			if c43KeysRef(in) && hit == nil {
				hit = in
			}
			if r, ok := in.(*ssa.Return); ok {
				rets[in.Parent()] = append(rets[in.Parent()], r)
			}
			return c43Go
		})
		cn := "(*keyring)." + m
		switch {
		case len(cut) == 0:
			c.fail("C43.locked", cn, f, "gate not found: locked == false (no branch on the locked flag exists in "+fnName(f)+" or its helpers)")
		case nTargets == 0:
			c.fail("C43.locked", cn, f, "no access to the key list found (rule anchor lost)")
		case hit != nil:
			c.fail("C43.locked", cn, hit, "the key list is reachable without passing locked == false")
		default:
			c.ok("C43.locked", cn, f, fmt.Sprintf("every path to the %d key-list accesses (helpers expanded in place) passes locked == false (%d pass edge(s))", nTargets, len(cut)))
		}
		// what a locked agent answers: List -> (nil, nil); others a non-nil error
		ok := len(rets[f]) > 0
		for _, r := range rets[f] {
			last := c43LockedClass(retVal(r, len(r.Results)-1), rets, blocks, 0)
			if m == "List" {
				if last != "nil" || c43LockedClass(retVal(r, 0), rets, blocks, 0) != "nil" {
					ok = false
				}
			} else if last != "err" {
				ok = false
			}
		}
		want := "an error (errLocked)"
		if m == "List" {
			want = "an empty list and no error"
		}
		c.check(ok, "C43.locked", cn+" result when locked", f, "returns "+want, "a locked agent does not answer "+m+" with "+want)
	}
	if f := c.fn(c43pk, "(*keyring).Lock"); f != nil {
		var sts []ssa.Instruction
		deepInstrs(f, func(in ssa.Instruction) {
			if st, ok := in.(*ssa.Store); ok && c43IsFieldRef(st.Addr, "keyring", "locked") {
				sts = append(sts, st)
			}
		})
		c43MustCross(c, "C43.locked", "(*keyring).Lock", f, sts, unlocked, "not already locked")
	}
	if f := c.fn(c43pk, "(*keyring).Unlock"); f != nil {
		var clr []ssa.Instruction
		deepInstrs(f, func(in ssa.Instruction) {
			if st, ok := in.(*ssa.Store); ok && c43IsFieldRef(st.Addr, "keyring", "locked") {
				if b, isB := constBool(st.Val); isB && !b {
					clr = append(clr, st)
				}
			}
		})
		// the comparison of the GIVEN passphrase (parameter 1) with the STORED one
		nCmp := 0
		match := c.c43NewFact("ConstantTimeCompare(passphrase, stored) == 1", func(v ssa.Value) (bool, bool) {
			x, y, pol, ok := c43EqTest(v)
			if !ok {
				return false, false
			}
			bo, isBo := v.(*ssa.BinOp)
			if !isBo {
				return false, false
			}
			isCTC := false
			for _, op := range []ssa.Value{bo.X, bo.Y} {
				if cc, isCall := op.(*ssa.Call); isCall && calleeName(&cc.Call) == "crypto/subtle.ConstantTimeCompare" {
					isCTC = true
				}
			}
			if !isCTC {
				return false, false
			}
			given := func(s map[ssa.Value]bool) bool { return s[f.Params[1]] }
			stored := func(s map[ssa.Value]bool) bool {
				return c43SliceHas(s, func(w ssa.Value) bool { return c43IsFieldRef(w, "keyring", "passphrase") })
			}
			sx, sy := c.c43Slice(x), c.c43Slice(y)
			if given(sx) && stored(sy) || given(sy) && stored(sx) {
				nCmp++
				return pol, true
			}
			return false, false
		})
		c43MustCross(c, "C43.unlock", "(*keyring).Unlock", f, clr, match, "ConstantTimeCompare(passphrase, stored) == 1")
		c.check(nCmp > 0, "C43.unlock", "(*keyring).Unlock comparison", f, "compares the given passphrase with the stored one", "Unlock does not compare the given passphrase with the one stored by Lock")
	}
}

// c43MustCross: every path from fn's entry (helpers expanded in place) to a
// target passes an edge on which fact holds.
func c43MustCross(c *Ctx, rule, construct string, fn *ssa.Function, targets []ssa.Instruction, fact *c43Fact, what string) bool {
	cut := fact.cutFor(fn)
	if len(cut) == 0 {
		c.fail(rule, construct, fn, "gate not found: "+what+" (no branch on it exists in "+fnName(fn)+" or its helpers)")
		return false
	}
	if len(targets) == 0 {
		c.fail(rule, construct, fn, "no target instruction found for "+what+" (rule anchor lost)")
		return false
	}
	tset := map[ssa.Instruction]bool{}
	for _, t := range targets {
		tset[t] = true
	}
	var hit ssa.Instruction
	c43Walk(fn, cut, func(in ssa.Instruction) c43Act {
		if tset[in] && hit == nil {
			hit = in
		}
		return c43Go
	})
	if hit != nil {
		c.fail(rule, construct, hit, "reachable without passing "+what)
		return false
	}
	c.ok(rule, construct, targets[0], fmt.Sprintf("every path to the %d target(s) passes %s (%d pass edge(s), helpers expanded in place)", len(targets), what, len(cut)))
	return true
}

// ---------------------------------------------------------------------------
// expiry

func c43HasExpire(s map[ssa.Value]bool) bool {
	return c43SliceHas(s, func(w ssa.Value) bool { return c43IsFieldRef(w, "privKey", "expire") })
}

// c43ExpiredAtom: v says "the key's expiry lies in the past".
func c43ExpiredAtom(c *Ctx, v ssa.Value) (bool, bool) {
	switch x := v.(type) {
	case *ssa.Call:
		if len(x.Call.Args) != 2 {
			return false, false
		}
		a0, a1 := c.c43Slice(x.Call.Args[0]), c.c43Slice(x.Call.Args[1])
		switch calleeName(&x.Call) {
		case "(time.Time).After": // now.After(expire)
			if c43HasExpire(a1) && !c43HasExpire(a0) {
				return true, true
			}
		case "(time.Time).Before": // expire.Before(now)
			if c43HasExpire(a0) && !c43HasExpire(a1) {
				return true, true
			}
		}
	case *ssa.BinOp:
		// time.Since(expire) > 0, time.Until(expire) < 0, now.Compare(expire) > 0
		sign := func(w ssa.Value) int {
			cc, ok := w.(*ssa.Call)
			if !ok {
				return 0
			}
			switch calleeName(&cc.Call) {
			case "time.Since":
				if c43HasExpire(c.c43Slice(cc.Call.Args[0])) {
					return 1
				}
			case "time.Until":
				if c43HasExpire(c.c43Slice(cc.Call.Args[0])) {
					return -1
				}
			case "(time.Time).Compare":
				a0, a1 := c.c43Slice(cc.Call.Args[0]), c.c43Slice(cc.Call.Args[1])
				if c43HasExpire(a1) && !c43HasExpire(a0) {
					return 1
				}
				if c43HasExpire(a0) && !c43HasExpire(a1) {
					return -1
				}
			}
			return 0
		}
		for _, s := range []int{1, -1} {
			s := int64(s)
			pol, ok := c43CmpAtom(v, func(w ssa.Value) bool { return int64(sign(w)) == s }, []int64{-5, -1, 0, 1, 5}, func(d int64) bool { return d*s > 0 })
			if ok {
				return pol, true
			}
		}
	}
	return false, false
}

func c43ExpireSetAtom(v ssa.Value) (bool, bool) {
	bo, ok := v.(*ssa.BinOp)
	if !ok || bo.Op != token.EQL && bo.Op != token.NEQ {
		return false, false
	}
	other := bo.X
	if isNilConst(bo.X) {
		other = bo.Y
	} else if !isNilConst(bo.Y) {
		return false, false
	}
	if c43FieldLoad(other, "privKey", "expire") {
		return bo.Op == token.NEQ, true
	}
	return false, false
}

// c43Expiry finds the expiry sweep by role — the innermost function that both
// compares a key's expiry with the clock and (itself or through helpers)
// removes entries from the key list — and checks that it removes only behind
// "expiry set" and "expiry passed".
func c43Expiry(c *Ctx, fns []*ssa.Function) []*ssa.Function {
	has := func(f *ssa.Function, pred func(in ssa.Instruction) bool) bool {
		found := false
		deepInstrs(f, func(in ssa.Instruction) {
			if !found && pred(in) {
				found = true
			}
		})
		return found
	}
	// any comparison of a key's expiry with a time (whatever its direction: a
	// wrong direction must fail the gate rule below, not hide the sweep)
	isCmp := func(in ssa.Instruction) bool {
		call, ok := in.(*ssa.Call)
		if !ok {
			return false
		}
		switch calleeName(&call.Call) {
		case "(time.Time).After", "(time.Time).Before", "(time.Time).Compare", "time.Since", "time.Until", "(time.Time).Sub":
			for _, a := range call.Call.Args {
				if c43HasExpire(c.c43Slice(a)) {
					return true
				}
			}
		}
		return false
	}
	both := map[*ssa.Function]bool{}
	for _, f := range fns {
		if f.Parent() == nil && has(f, isCmp) && has(f, c43Shrinks) {
			both[f] = true
		}
	}
	var sweeps []*ssa.Function
	for _, f := range fns {
		if !both[f] {
			continue
		}
		inner := false
		for _, g := range deepFuncs(f)[1:] {
			if both[g] {
				inner = true
			}
		}
		if !inner {
			sweeps = append(sweeps, f)
		}
	}
	if len(sweeps) == 0 {
		c.fail("C43.expiry", "expiry sweep", nil, "no function of ssh/agent removes keys from the key list behind a comparison of their expiry with the clock: expired keys are never dropped")
		return nil
	}
	set := c.c43NewFact("expire != nil", c43ExpireSetAtom)
	passed := c.c43NewFact("time.Now().After(*expire)", func(v ssa.Value) (bool, bool) { return c43ExpiredAtom(c, v) })
	for _, f := range sweeps {
		var rm []ssa.Instruction
		deepInstrs(f, func(in ssa.Instruction) {
			if isSt, _ := c.c43KeysStore(in); isSt {
				rm = append(rm, in)
			}
		})
		nm := strings.TrimPrefix(fnName(f), "(*keyring).")
		c43MustCross(c, "C43.expiry", nm+" expiry set", f, rm, set, "expire != nil")
		c43MustCross(c, "C43.expiry", nm+" expiry passed", f, rm, passed, "time.Now().After(*expire)")
	}
	return sweeps
}

func c43ExpiryOrder(c *Ctx, sweeps []*ssa.Function) {
	isSweep := map[*ssa.Function]bool{}
	for _, s := range sweeps {
		isSweep[s] = true
	}
	for _, m := range []string{"List", "SignWithFlags", "Signers"} {
		f := c.fn(c43pk, "(*keyring)."+m)
		if f == nil {
			continue
		}
		if len(sweeps) == 0 {
			c.fail("C43.expiry", "(*keyring)."+m, f, "the key list is read without first removing expired keys (no expiry sweep exists)")
			continue
		}
		var hit ssa.Instruction
		swept := 0
		c43Walk(f, nil, func(in ssa.Instruction) c43Act {
			if call, ok := in.(*ssa.Call); ok && isSweep[call.Call.StaticCallee()] {
				swept++
				return c43Stop // from here on expired keys are gone
			}
			if c43KeysRef(in) && hit == nil {
				hit = in
			}
			return c43Go
		})
		c.check(hit == nil && swept > 0, "C43.expiry", "(*keyring)."+m, f, "expired keys are dropped before the key list is read", "the key list is read without first removing expired keys")
	}
}

// c43Scan: a loop that deletes slot i of the key list in place (the list
// shrinks inside the loop) must look at slot i again, because another entry
// has been moved into it: on the way from the deletion back to the loop head
// the index does not grow.
func c43Scan(c *Ctx, fns []*ssa.Function) {
	loops := 0
	for _, f := range fns {
		var shr []ssa.Instruction
		allInstrs(f, func(in ssa.Instruction) {
			if c43Shrinks(in) {
				shr = append(shr, in)
			}
		})
		if len(shr) == 0 {
			continue
		}
		// loop indices: phis used to index the key list
		var idx []*ssa.Phi
		isIdx := map[*ssa.Phi]bool{}
		allInstrs(f, func(in ssa.Instruction) {
			if ia, ok := in.(*ssa.IndexAddr); ok && c.c43IsKeys(ia.X, nil) {
				if ph, isPhi := ia.Index.(*ssa.Phi); isPhi && !isIdx[ph] {
					isIdx[ph] = true
					idx = append(idx, ph)
				}
			}
		})
		for _, s := range shr {
			if c43LibraryDelete(s) {
				loops++
				c.ok("C43.scan", fnName(f)+" deletion", s, "slices.DeleteFunc examines every entry itself")
				continue
			}
			for _, ph := range idx {
				head := ph.Block()
				// blocks reachable from the deletion without going through the loop head
				from := reachAvoiding([]*ssa.BasicBlock{s.Block()}, nil, map[*ssa.BasicBlock]bool{head: true})
				from[s.Block()] = true
				inLoop := false
				bad := false
				for k, p := range head.Preds {
					if !from[p] || k >= len(ph.Edges) {
						continue
					}
					inLoop = true
					if c43Grows(ph.Edges[k], ph, from, 0) {
						bad = true
					}
				}
				if !inLoop {
					continue
				}
				loops++
				c.check(!bad, "C43.scan", fnName(f)+" in-place deletion", s, "after deleting slot i the scan looks at slot i again", "after an in-place deletion at slot i the scan advances to i+1: the entry moved into slot i is never examined (a matching / expired key survives)")
			}
		}
	}
	c.check(loops > 0, "C43.scan", "in-place deletion loops", nil, fmt.Sprintf("%d deletion loop(s) over the key list", loops), "no loop that deletes entries of the key list was found (rule anchor lost)")
}

// c43Grows: v can be base + (a positive amount) on a path through blocks `from`.
func c43Grows(v ssa.Value, base *ssa.Phi, from map[*ssa.BasicBlock]bool, d int) bool {
	offs := map[int64]bool{}
	var rec func(v ssa.Value, acc int64, d int)
	rec = func(v ssa.Value, acc int64, d int) {
		if d > 6 {
			return
		}
		if v == ssa.Value(base) {
			offs[acc] = true
			return
		}
		switch x := v.(type) {
		case *ssa.BinOp:
			if k, ok := constInt(x.Y); ok && x.Op == token.ADD {
				rec(x.X, acc+k, d+1)
			} else if ok && x.Op == token.SUB {
				rec(x.X, acc-k, d+1)
			} else if k, ok := constInt(x.X); ok && x.Op == token.ADD {
				rec(x.Y, acc+k, d+1)
			}
		case *ssa.Phi:
			for i, e := range x.Edges {
				if i < len(x.Block().Preds) && from[x.Block().Preds[i]] {
					rec(e, acc, d+1)
				}
			}
		}
	}
	rec(v, 0, d)
	for o := range offs {
		if o > 0 {
			return true
		}
	}
	return false
}

// ---------------------------------------------------------------------------
// Add

func c43Stores(c *Ctx, f *ssa.Function) (all, elem []ssa.Instruction) {
	deepInstrs(f, func(in ssa.Instruction) {
		if isSt, isElem := c.c43KeysStore(in); isSt {
			all = append(all, in)
			if isElem {
				elem = append(elem, in)
			}
		}
	})
	return
}

// c43Lifetime: no store into the key list is reached unless LifetimeSecs > 0
// has been refuted or the expiry of a privKey has been written.
func c43Lifetime(c *Ctx, f *ssa.Function) {
	isLT := func(w ssa.Value) bool { return c43FieldLoad(c.origin(stripConv(w)), "", "LifetimeSecs") }
	noLife := c.c43NewFact("LifetimeSecs == 0", func(v ssa.Value) (bool, bool) {
		return c43CmpAtom(v, isLT, []int64{0, 1, 5, 1 << 31}, func(d int64) bool { return d <= 0 })
	})
	isExpStore := func(in ssa.Instruction) bool {
		st, ok := in.(*ssa.Store)
		return ok && c43IsFieldRef(st.Addr, "privKey", "expire")
	}
	pubs, _ := c43Stores(c, f)
	var expStore ssa.Instruction
	deepInstrs(f, func(in ssa.Instruction) {
		if isExpStore(in) && expStore == nil {
			expStore = in
		}
	})
	cut := noLife.cutFor(f)
	var hit ssa.Instruction
	hitElem := false
	c43Walk(f, cut, func(in ssa.Instruction) c43Act {
		if isExpStore(in) {
			return c43Stop
		}
		if isSt, isElem := c.c43KeysStore(in); isSt && hit == nil {
			hit, hitElem = in, isElem
		}
		return c43Go
	})
	ok := true
	detail := ""
	var at poser = f
	switch {
	case expStore == nil:
		ok, detail = false, "no store of an expiry into a key entry found in Add or its helpers: the lifetime constraint is never applied"
	case len(pubs) == 0:
		ok, detail = false, "no store into the key list found (rule anchor lost)"
	case hit != nil && hitElem:
		ok, detail, at = false, "the entry can be stored before its lifetime constraint is evaluated (the replacement path drops the expiry)", hit
	case hit != nil:
		ok, detail, at = false, "with LifetimeSecs > 0 the entry can be appended to the key list without its expiry", hit
	default:
		at = expStore
	}
	c.check(ok, "C43.lifetime", "(*keyring).Add", at, fmt.Sprintf("the lifetime constraint is applied to the entry before any of the %d stores into the key list (replace and append paths)", len(pubs)), detail)
}

// c43Constraints: unsupported constraints are refused before anything is stored.
func c43Constraints(c *Ctx, f *ssa.Function) {
	pubs, _ := c43Stores(c, f)
	noConfirm := c.c43NewFact("ConfirmBeforeUse == false", func(v ssa.Value) (bool, bool) {
		if c43FieldLoad(c.origin(v), "", "ConfirmBeforeUse") {
			return false, true
		}
		return false, false
	})
	c43MustCross(c, "C43.constraints", "(*keyring).Add ConfirmBeforeUse", f, pubs, noConfirm, "ConfirmBeforeUse == false")
	isExtLen := func(w ssa.Value) bool {
		call, ok := w.(*ssa.Call)
		if !ok || calleeName(&call.Call) != "builtin:len" {
			return false
		}
		return c43FieldLoad(c.origin(call.Call.Args[0]), "", "ConstraintExtensions")
	}
	noExt := c.c43NewFact("len(ConstraintExtensions) == 0", func(v ssa.Value) (bool, bool) {
		return c43CmpAtom(v, isExtLen, []int64{0, 1, 2, 9}, func(d int64) bool { return d == 0 })
	})
	c43MustCross(c, "C43.constraints", "(*keyring).Add ConstraintExtensions", f, pubs, noExt, "len(ConstraintExtensions) == 0")
}

// c43rep decides "Add overwrites an entry exactly where the public keys are equal".
type c43rep struct {
	c    *Ctx
	add  *ssa.Function
	news map[ssa.Value]bool // helper parameters that carry (part of) the new key
	keys map[ssa.Value]bool // helper parameters that carry the key list
}

func (r *c43rep) isNew(s map[ssa.Value]bool) bool {
	if len(r.add.Params) > 1 && s[r.add.Params[1]] {
		return true
	}
	return c43SliceHas(s, func(w ssa.Value) bool { return r.news[w] })
}

func c43Blob(s map[ssa.Value]bool) bool {
	return c43SliceHas(s, func(w ssa.Value) bool { return c43MethodCall(w, "Marshal") })
}

// eqFact: "the stored key selected by isElem has the same marshalled public key
// as the new key".
func (r *c43rep) eqFact(isElem func(s map[ssa.Value]bool) bool) *c43Fact {
	return r.c.c43NewFact("public keys equal", func(v ssa.Value) (bool, bool) {
		x, y, pol, ok := c43EqTest(v)
		if !ok {
			return false, false
		}
		sx, sy := r.c.c43Slice(x), r.c.c43Slice(y)
		if !c43Blob(sx) || !c43Blob(sy) {
			return false, false
		}
		if isElem(sx) && r.isNew(sy) && !r.isNew(sx) || isElem(sy) && r.isNew(sx) && !r.isNew(sy) {
			return pol, true
		}
		return false, false
	})
}

func (r *c43rep) elemAt(i ssa.Value) func(s map[ssa.Value]bool) bool {
	return func(s map[ssa.Value]bool) bool {
		return c43SliceHas(s, func(w ssa.Value) bool {
			ia, ok := w.(*ssa.IndexAddr)
			return ok && ia.Index == i && r.c.c43IsKeys(ia.X, r.keys)
		})
	}
}

// bindArgs: entering helper h through call, note which parameters carry the new
// key and which the key list.
func (r *c43rep) bindArgs(call *ssa.Call, h *ssa.Function) {
	for k, a := range call.Call.Args {
		if k >= len(h.Params) {
			break
		}
		if r.c.c43IsKeys(a, r.keys) {
			r.keys[h.Params[k]] = true
		} else if r.isNew(r.c.c43Slice(a)) {
			r.news[h.Params[k]] = true
		}
	}
}

// eqPred: fnVal is a predicate on one stored key that is true only when its
// public key equals the new key's.
func (r *c43rep) eqPred(fnVal ssa.Value) bool {
	var p *ssa.Function
	switch x := fnVal.(type) {
	case *ssa.MakeClosure:
		p, _ = x.Fn.(*ssa.Function)
	case *ssa.Function:
		p = x
	}
	if p == nil || len(p.Params) != 1 || len(p.Blocks) == 0 {
		return false
	}
	fact := r.eqFact(func(s map[ssa.Value]bool) bool { return s[p.Params[0]] })
	rets := returnsOf(p)
	for _, ret := range rets {
		if len(ret.Results) != 1 {
			return false
		}
		if fact.guarded(ret.Block()) || fact.implies(retVal(ret, 0), true, 0) {
			continue
		}
		return false
	}
	return len(rets) > 0
}

// indexFact: the fact under which keys[i] has the new key's public key, as
// gate for code that uses i. nil when i is not recognisably such an index.
func (r *c43rep) indexFact(i ssa.Value, d int) *c43Fact {
	if d > 3 {
		return nil
	}
	nonNeg := func() *c43Fact {
		return r.c.c43NewFact("index found", func(v ssa.Value) (bool, bool) {
			return c43CmpAtom(v, func(w ssa.Value) bool { return w == i }, []int64{-1, 0, 1, 7}, func(d int64) bool { return d >= 0 })
		})
	}
	if call, ok := i.(*ssa.Call); ok {
		n := calleeName(&call.Call)
		if n == "slices.IndexFunc" && len(call.Call.Args) == 2 {
			if r.c.c43IsKeys(call.Call.Args[0], r.keys) && r.eqPred(call.Call.Args[1]) {
				return nonNeg()
			}
			return nil
		}
		if _, h, _ := c43LocalCallee(call); h != nil {
			r.bindArgs(call, h)
			rets := returnsOf(h)
			for _, ret := range rets {
				if len(ret.Results) != 1 {
					return nil
				}
				rv := retVal(ret, 0)
				if k, isK := constInt(rv); isK && k < 0 {
					continue
				}
				if _, isCall := rv.(*ssa.Call); isCall {
					if r.indexFact(rv, d+1) != nil {
						continue // "result >= 0 => equal" carries over
					}
					return nil
				}
				fact := r.eqFact(r.elemAt(rv))
				if !fact.guarded(ret.Block()) {
					return nil
				}
			}
			if len(rets) > 0 {
				return nonNeg()
			}
		}
		return nil
	}
	return r.eqFact(r.elemAt(i))
}

func c43AddReplace(c *Ctx, f *ssa.Function) {
	r := &c43rep{c: c, add: f, news: map[ssa.Value]bool{}, keys: map[ssa.Value]bool{}}
	// helpers entered from Add: which of their parameters carry the new key / the list
	for round := 0; round < 3; round++ {
		deepInstrs(f, func(in ssa.Instruction) {
			if call, ok := in.(*ssa.Call); ok {
				if _, h, _ := c43LocalCallee(call); h != nil {
					r.bindArgs(call, h)
				}
			}
		})
	}
	// in-place replacements: stores of (a value built from) the new key into a slot of the key list
	var reps []*ssa.Store
	deepInstrs(f, func(in ssa.Instruction) {
		st, ok := in.(*ssa.Store)
		if !ok {
			return
		}
		ia, ok := st.Addr.(*ssa.IndexAddr)
		if ok && c.c43IsKeys(ia.X, r.keys) && r.isNew(c.c43Slice(st.Val)) {
			reps = append(reps, st)
		}
	})
	const bad = "Add does not replace an existing entry with the same public key"
	if len(reps) == 0 {
		c.fail("C43.add-replace", "(*keyring).Add", f, bad+" (the new entry is never stored into an existing slot of the key list)")
		return
	}
	for _, st := range reps {
		i := st.Addr.(*ssa.IndexAddr).Index
		fact := r.indexFact(i, 0)
		if fact == nil {
			c.fail("C43.add-replace", "(*keyring).Add", st, bad+" (the slot that is overwritten is not chosen by comparing public keys)")
			continue
		}
		cut := fact.cutFor(f)
		reached := false
		c43Walk(f, cut, func(in ssa.Instruction) c43Act {
			if in == ssa.Instruction(st) {
				reached = true
			}
			return c43Go
		})
		c.check(len(cut) > 0 && !reached, "C43.add-replace", "(*keyring).Add", st, "an entry is overwritten in place only where its marshalled public key equals the new key's", bad+" (a slot can be overwritten without its public key having compared equal to the new key's)")
	}
}

// loadsOfPathSuffix: loads of a field named `field` (of any struct). Also used by c45.go.
func loadsOfPathSuffix(f *ssa.Function, field string) []ssa.Value {
	var out []ssa.Value
	allInstrs(f, func(in ssa.Instruction) {
		switch x := in.(type) {
		case *ssa.UnOp:
			if _, fld, _, ok := fieldOf(x); ok && fld == field && x.Op == token.MUL {
				out = append(out, x)
			}
		case *ssa.Field:
			if _, fld, _, ok := fieldOf(x); ok && fld == field {
				out = append(out, x)
			}
		}
	})
	return out
}

// ---------------------------------------------------------------------------
// framing

func c43Framing(c *Ctx, root *ssa.Function) {
	maxB, _ := pkgConstInt(c, c43pk, "maxAgentResponseBytes")
	// the request buffer: a []byte allocated with a length that is not a
	// constant — the decoded 32-bit length field (possibly converted)
	type alloc struct {
		mk *ssa.MakeSlice
		lv ssa.Value
	}
	var allocs []alloc
	deepInstrs(root, func(in ssa.Instruction) {
		m, ok := in.(*ssa.MakeSlice)
		if !ok {
			return
		}
		if _, isC := constInt(m.Len); isC {
			return
		}
		lv := stripConv(m.Len)
		if _, isIn := lv.(ssa.Instruction); isIn && typeName(lv.Type()) == "uint32" {
			allocs = append(allocs, alloc{m, lv})
		}
	})
	bad := ""
	if len(allocs) == 0 || maxB == 0 {
		bad = "length decode / request allocation / limit not found"
	}
	for _, a := range allocs {
		g := a.mk.Parent()
		for _, n := range []int64{0, 1, 2, maxB - 1, maxB, maxB + 1, 1<<32 - 1} {
			e := newEnv()
			e.bind(a.lv, n)
			cut := e.cuts(g)
			got := reachAfter(a.lv.(ssa.Instruction), cut)[a.mk.Block()] || a.lv.(ssa.Instruction).Block() == a.mk.Block()
			if got != (n >= 1 && n <= maxB) {
				bad = fmt.Sprintf("request length %d: buffer allocated=%v (limit %d)", n, got, maxB)
			}
		}
	}
	c.check(bad == "", "C43.framing", "ServeAgent request length", root, fmt.Sprintf("requests of length 0 or above %d are refused before allocation", maxB), bad)
	// reply bound: after the reply bytes are produced, nothing is written to the
	// connection when they exceed the limit
	var pr ssa.Value
	for _, ci := range deepCallsNamed(root, "(*ssh/agent.server).processRequestBytes") {
		if v := callValue(ci); v != nil {
			pr = v
		}
	}
	// the places that hold the reply: the call result, and the parameter of every
	// same-package helper it is handed to (a "write reply" helper)
	type holder struct {
		g    *ssa.Function
		v    ssa.Value
		from ssa.Instruction // nil: from the entry of g
	}
	var holders []holder
	if pr != nil {
		holders = append(holders, holder{pr.(ssa.Instruction).Parent(), pr, pr.(ssa.Instruction)})
	}
	// by role as well: a byte slice whose len() is compared with the size limit
	deepInstrs(root, func(in ssa.Instruction) {
		bo, ok := in.(*ssa.BinOp)
		if !ok {
			return
		}
		for _, side := range [][2]ssa.Value{{bo.X, bo.Y}, {bo.Y, bo.X}} {
			k, isK := constInt(side[1])
			call, isCall := stripConv(side[0]).(*ssa.Call)
			if !isK || k != maxB || !isCall || calleeName(&call.Call) != "builtin:len" {
				continue
			}
			v := call.Call.Args[0]
			if v == pr {
				continue
			}
			switch x := v.(type) {
			case *ssa.Parameter:
				holders = append(holders, holder{x.Parent(), v, nil})
			case ssa.Instruction:
				holders = append(holders, holder{x.Parent(), v, x})
			}
		}
	})
	pr = nil
	if len(holders) > 0 {
		pr = holders[0].v
	}
	for i := 0; i < len(holders) && i < 8; i++ {
		refs := holders[i].v.Referrers()
		if refs == nil {
			continue
		}
		for _, r := range *refs {
			call, ok := r.(*ssa.Call)
			if !ok {
				continue
			}
			h := samePkgCallee(root, &call.Call)
			if h == nil {
				continue
			}
			for k, a := range call.Call.Args {
				if a == holders[i].v && k < len(h.Params) {
					holders = append(holders, holder{h, h.Params[k], nil})
				}
			}
		}
	}
	isWrite := func(n string) bool { return strings.HasPrefix(n, "invoke:") && strings.HasSuffix(n, ".Write") }
	nWrites := 0
	okR := pr != nil
	for _, n := range []int64{1, maxB, maxB + 1} {
		got := false
		for _, h := range holders {
			e := newEnv()
			e.bindLen(h.g, h.v, n)
			var after map[*ssa.BasicBlock]bool
			if h.from != nil {
				after = reachAfter(h.from, e.cuts(h.g))
			} else {
				after = reach([]*ssa.BasicBlock{h.g.Blocks[0]}, e.cuts(h.g))
			}
			for _, w := range calls(h.g, isWrite) {
				nWrites++
				if after[w.Block()] {
					got = true
				}
			}
		}
		if got != (n <= maxB) {
			okR = false
		}
	}
	c.check(okR && nWrites > 0, "C43.framing", "ServeAgent reply length", root, "over-long replies are not written", "replies above the size limit are written")
}
