package main

import (
	"fmt"
	"go/token"
	"strings"

	"golang.org/x/tools/go/ssa"
)

func init() {
	register(&propDef{
		id: "C43", run: runC43, minOblig: 20,
		explanation: "Decides state discipline and framing guards of the in-memory SSH agent: (locking) keyring.keys, locked and passphrase are accessed only with r.mu held; the *Locked helpers are called only with it held; (locked agent) every Agent method that reads or changes the key list does so only behind the 'locked == false' edge, List returns an empty list and the others errLocked; Lock refuses a second Lock; Unlock clears the lock only behind subtle.ConstantTimeCompare(given, stored passphrase) == 1; (expiry) List, SignWithFlags and Signers call expireKeysLocked before they read the key list, and expireKeysLocked removes exactly keys whose expiry is set and passed; (lifetime on every stored entry) in Add the lifetime test dominates every point where the new entry is stored into the key list (append AND in-place replacement) and on the 'LifetimeSecs > 0' edge the expiry is written before the entry is stored; unsupported constraints are refused before anything is stored; Add replaces an entry with equal public-key bytes instead of appending; (framing) ServeAgent rejects request length 0 and lengths above the maximum before allocating, so processRequest's data[0] has a byte to read, and refuses over-long replies (evaluated). NOT decided: equivalence with an abstract agent over histories; swap-delete order of Remove.",
		assumptions: []string{"time.Now monotonic behaviour", "subtle.ConstantTimeCompare contract"},
	})
	tech("C43", "lockset analysis (guarded-field table), must-cross CFG rules on the locked flag, dominance/ordering rules for expiry and lifetime, finite-domain evaluation of framing limits")
}

func runC43(c *Ctx) {
	sweepC43(c)
	const pk = "ssh/agent"
	fns := c.funcsOfPkg(pk)
	exempt := map[string]string{
		"(*keyring).removeLocked":     "caller holds r.mu (checked at call sites)",
		"(*keyring).expireKeysLocked": "caller holds r.mu (checked at call sites)",
	}
	for _, fld := range []string{"keys", "locked", "passphrase"} {
		n := c.checkGuarded("C43.lock", fns, guardSpec{"keyring", fld, ".mu", false}, exempt)
		c.check(n > 0, "C43.lock", "keyring."+fld, nil, fmt.Sprintf("%d accessing functions", n), "no access found")
	}
	for _, f := range fns {
		for _, ci := range callsNamed(f, "(*ssh/agent.keyring).removeLocked", "(*ssh/agent.keyring).expireKeysLocked") {
			nm := fnName(f)
			if exempt[nm] != "" {
				c.ok("C43.lock", short(calleeName(ci.Common()))+" from "+nm, ci, "called from another *Locked helper")
				continue
			}
			li := computeLocks(f)
			c.check(li.at(ci).holds("", ".mu"), "C43.lock", short(calleeName(ci.Common()))+" from "+nm, ci, "r.mu held at the call", "a *Locked helper is called without r.mu")
		}
	}
	// ---- locked agent
	for _, m := range []string{"RemoveAll", "Remove", "List", "Add", "SignWithFlags", "Signers"} {
		f := c.fn(pk, "(*keyring)."+m)
		if f == nil {
			continue
		}
		var unlockedEdges []edge
		for _, v := range loadsOfField(f, "keyring", "locked") {
			_, no := boolEdges(v, true)
			unlockedEdges = append(unlockedEdges, no...)
		}
		var targets []ssa.Instruction
		targets = append(targets, fieldRefs(f, "keyring", "keys")...)
		for _, ci := range callsNamed(f, "(*ssh/agent.keyring).removeLocked", "(*ssh/agent.keyring).expireKeysLocked") {
			targets = append(targets, ci)
		}
		c.mustCross("C43.locked", "(*keyring)."+m, f, targets, unlockedEdges, "locked == false")
		// on the locked edge: List -> (nil, nil); others errLocked
		e := newEnv()
		e.bindField(f, "keyring", "locked", 1)
		e.solve(f)
		ok := true
		for _, r := range returnsOf(f) {
			if !e.reach[r.Block()] {
				continue
			}
			ev := retVal(r, len(r.Results)-1)
			if m == "List" {
				if !isNilConst(ev) || !isNilConst(retVal(r, 0)) {
					ok = false
				}
			} else if accessPath(ev) != "errLocked" {
				ok = false
			}
		}
		want := "errLocked"
		if m == "List" {
			want = "an empty list and no error"
		}
		c.check(ok, "C43.locked", "(*keyring)."+m+" result when locked", f, "returns "+want, "a locked agent does not answer "+m+" with "+want)
	}
	if f := c.fn(pk, "(*keyring).Lock"); f != nil {
		sts := storesTo(f, "keyring", "locked")
		var pass []edge
		for _, v := range loadsOfField(f, "keyring", "locked") {
			_, no := boolEdges(v, true)
			pass = append(pass, no...)
		}
		c.mustCross("C43.locked", "(*keyring).Lock", f, instrsOf(sts), pass, "not already locked")
	}
	if f := c.fn(pk, "(*keyring).Unlock"); f != nil {
		var clr []ssa.Instruction
		for _, st := range storesTo(f, "keyring", "locked") {
			if b, ok := constBool(st.Val); ok && !b {
				clr = append(clr, st)
			}
		}
		ctc := callsNamed(f, "crypto/subtle.ConstantTimeCompare")
		c.mustCross("C43.unlock", "(*keyring).Unlock", f, clr, callSuccess(ctc, 0, isOne), "ConstantTimeCompare(passphrase, stored) == 1")
		okArgs := len(ctc) == 1
		if okArgs {
			a := ctc[0].Common().Args
			isStored := func(v ssa.Value) bool { _, fld, _, ok := fieldOf(v); return ok && fld == "passphrase" }
			okArgs = (a[0] == ssa.Value(f.Params[1]) && isStored(a[1])) || (a[1] == ssa.Value(f.Params[1]) && isStored(a[0]))
		}
		c.check(okArgs, "C43.unlock", "(*keyring).Unlock comparison", f, "compares the given passphrase with the stored one", "Unlock does not compare the given passphrase with the one stored by Lock")
	}
	// ---- expiry
	for _, m := range []string{"List", "SignWithFlags", "Signers"} {
		f := c.fn(pk, "(*keyring)."+m)
		if f == nil {
			continue
		}
		ex := callsNamed(f, "(*ssh/agent.keyring).expireKeysLocked")
		ok := len(ex) == 1
		if ok {
			for _, r := range fieldRefs(f, "keyring", "keys") {
				if !precedes(ex[0], r) {
					ok = false
				}
			}
		}
		c.check(ok, "C43.expiry", "(*keyring)."+m, f, "expired keys are dropped before the key list is read", "the key list is read without first removing expired keys")
	}
	if f := c.fn(pk, "(*keyring).expireKeysLocked"); f != nil {
		rm := callsNamed(f, "(*ssh/agent.keyring).removeLocked")
		var notNil, after []edge
		allInstrs(f, func(in ssa.Instruction) {
			if u, ok := in.(*ssa.UnOp); ok && u.Op == token.MUL {
				if _, fld, _, okf := fieldOf(u); okf && fld == "expire" {
					_, no := edgesWhere(u, isNil)
					notNil = append(notNil, no...)
				}
			}
			if fv, ok := in.(*ssa.Field); ok {
				if _, fld, _, okf := fieldOf(fv); okf && fld == "expire" {
					_, no := edgesWhere(fv, isNil)
					notNil = append(notNil, no...)
				}
			}
		})
		after = callSuccess(callsNamed(f, "(time.Time).After"), 0, isTrue)
		c.mustCross("C43.expiry", "expireKeysLocked expiry set", f, callInstrs(rm), notNil, "expire != nil")
		c.mustCross("C43.expiry", "expireKeysLocked expiry passed", f, callInstrs(rm), after, "time.Now().After(*expire)")
	}
	// ---- Add
	if f := c.fn(pk, "(*keyring).Add"); f != nil {
		// the new entry: local privKey alloc; publish points: loads of the whole struct
		var entry *ssa.Alloc
		allInstrs(f, func(in ssa.Instruction) {
			if al, ok := in.(*ssa.Alloc); ok && typeName(al.Type()) == "privKey" && !al.Heap {
				if entry == nil {
					entry = al
				}
			}
			if al, ok := in.(*ssa.Alloc); ok && typeName(al.Type()) == "privKey" {
				// prefer the alloc that has a store to .expire
				for _, r := range *al.Referrers() {
					if fa, isFA := r.(*ssa.FieldAddr); isFA {
						if _, fld, _, okf := fieldOf(fa); okf && fld == "expire" {
							entry = al
						}
					}
				}
			}
		})
		var lt *ssa.BinOp
		allInstrs(f, func(in ssa.Instruction) {
			if bo, ok := in.(*ssa.BinOp); ok {
				if _, fld, _, okf := fieldOf(bo.X); okf && fld == "LifetimeSecs" {
					lt = bo
				}
			}
		})
		if entry == nil || lt == nil {
			c.fail("C43.lifetime", "(*keyring).Add", f, "new entry or lifetime test not found")
		} else {
			var publish []ssa.Instruction
			var expStore *ssa.Store
			for _, r := range *entry.Referrers() {
				switch x := r.(type) {
				case *ssa.UnOp:
					publish = append(publish, x)
				case *ssa.FieldAddr:
					if _, fld, _, okf := fieldOf(x); okf && fld == "expire" {
						for _, rr := range *x.Referrers() {
							if st, isS := rr.(*ssa.Store); isS {
								expStore = st
							}
						}
					}
				}
			}
			ok := expStore != nil && len(publish) >= 2
			detail := fmt.Sprintf("expiry store=%v, %d places store the entry into the key list (want >= 2: replace and append)", expStore != nil, len(publish))
			if ok {
				pos := edgesImplying(lt.X, []int64{0, 1, 5}, func(d int64) bool { return d > 0 })
				for _, p := range publish {
					if !lt.Block().Dominates(p.Block()) {
						ok = false
						detail = "the entry can be stored before its lifetime constraint is evaluated (the replacement path drops the expiry)"
					}
				}
				// on the >0 edge the expiry store precedes every publish
				var starts []*ssa.BasicBlock
				for _, e := range pos {
					starts = append(starts, e.to())
				}
				r := reachAvoiding(starts, nil, map[*ssa.BasicBlock]bool{expStore.Block(): true})
				for _, p := range publish {
					if r[p.Block()] {
						ok = false
						detail = "with LifetimeSecs > 0 the entry can be stored without its expiry"
					}
				}
				if len(pos) == 0 {
					ok = false
					detail = "no LifetimeSecs > 0 branch"
				}
			}
			c.check(ok, "C43.lifetime", "(*keyring).Add", expStore, "the lifetime constraint is applied to the entry before it is stored, on the replace and the append path", detail)
			// replacement on equal key bytes
			eq := callsNamed(f, "bytes.Equal")
			okRep := len(eq) == 1
			if okRep {
				yes := callSuccess(eq, 0, isTrue)
				okRep = false
				for _, e := range yes {
					for _, in := range e.to().Instrs {
						if st, isS := in.(*ssa.Store); isS {
							if ia, isIA := st.Addr.(*ssa.IndexAddr); isIA && isField(ia.X, "keyring", "keys") {
								okRep = true
							}
						}
					}
				}
			}
			c.check(okRep, "C43.add-replace", "(*keyring).Add", f, "an entry with equal public key bytes is replaced in place", "Add does not replace an existing entry with the same public key")
		}
		// unsupported constraints refused before storing
		var refuse []edge
		for _, v := range loadsOfPathSuffix(f, "ConfirmBeforeUse") {
			_, no := boolEdges(v, true)
			refuse = append(refuse, no...)
		}
		var st []ssa.Instruction
		for _, s := range storesTo(f, "keyring", "keys") {
			st = append(st, s)
		}
		c.mustCross("C43.constraints", "(*keyring).Add ConfirmBeforeUse", f, st, refuse, "ConfirmBeforeUse == false")
	}
	// ---- framing
	if f := c.fn(pk, "ServeAgent"); f != nil {
		maxB, _ := pkgConstInt(c, pk, "maxAgentResponseBytes")
		var lv ssa.Value
		for _, ci := range calls(f, func(n string) bool { return strings.HasSuffix(n, ").Uint32") }) {
			lv = callValue(ci)
		}
		var mk *ssa.MakeSlice
		allInstrs(f, func(in ssa.Instruction) {
			if m, ok := in.(*ssa.MakeSlice); ok && m.Len == lv || (ok && stripConv(m.Len) == lv) {
				mk = m
			}
		})
		bad := ""
		if lv == nil || mk == nil || maxB == 0 {
			bad = "length decode / request allocation / limit not found"
		} else {
			for _, n := range []int64{0, 1, 2, maxB - 1, maxB, maxB + 1, 1<<32 - 1} {
				e := newEnv()
				e.bind(lv, n)
				cut := e.cuts(f)
				got := reachAfter(lv.(ssa.Instruction), cut)[mk.Block()] || lv.(ssa.Instruction).Block() == mk.Block()
				if got != (n >= 1 && n <= maxB) {
					bad = fmt.Sprintf("request length %d: buffer allocated=%v (limit %d)", n, got, maxB)
				}
			}
		}
		c.check(bad == "", "C43.framing", "ServeAgent request length", f, fmt.Sprintf("requests of length 0 or above %d are refused before allocation", maxB), bad)
		// reply bound
		var wr []ssa.Instruction
		for _, ci := range calls(f, nameIs("invoke:(io.Writer).Write")) {
			wr = append(wr, ci)
		}
		var pr ssa.Value
		for _, ci := range callsNamed(f, "(*ssh/agent.server).processRequestBytes") {
			pr = callValue(ci)
		}
		okR := pr != nil && len(wr) >= 2
		if okR {
			for _, n := range []int64{1, maxB, maxB + 1} {
				e := newEnv()
				e.bindLen(f, pr, n)
				cut := e.cuts(f)
				got := reachAfter(pr.(ssa.Instruction), cut)[wr[0].Block()]
				if got != (n <= maxB) {
					okR = false
				}
			}
		}
		c.check(okR, "C43.framing", "ServeAgent reply length", f, "over-long replies are not written", "replies above the size limit are written")
	}
}

func loadsOfPathSuffix(f *ssa.Function, field string) []ssa.Value {
	var out []ssa.Value
	allInstrs(f, func(in ssa.Instruction) {
		switch x := in.(type) {
		case *ssa.UnOp:
			if _, fld, _, ok := fieldOf(x); ok && fld == field && x.Op == token.MUL {
				out = append(out, x)
			}
		case *ssa.Field:
			if _, fld, _, ok := fieldOf(x); ok && fld == field {
				out = append(out, x)
			}
		}
	})
	return out
}
