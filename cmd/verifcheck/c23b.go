package main

import (
	"fmt"
	"go/types"
	"math/big"
	"time"

	"golang.org/x/tools/go/ssa"
)

// INTEGER / ENUMERATED readers, decided at the reader's own boundary: the
// reader is evaluated (c23_vm.go) on a DER element whose content runs over a
// grid, and its verdict, the value it stores and the input it leaves are
// compared with two's-complement arithmetic done here. Whether the minimality
// test, the size test, the sign test and the accumulation live in the reader,
// in checkASN1Integer / asn1Signed / asn1Unsigned, in other helpers, or in a
// sibling reader that this one delegates to makes no difference.

type c23host struct{ v interface{} } // a library value carried opaquely (time.Time)

// c23timeModel: the four pure functions of package time that the time readers
// use are answered by the checker's own standard library.
func c23timeModel(vm *c23vm, callee string, args []c23val) (c23val, bool) {
	hostTime := func(v c23val) (time.Time, bool) {
		h, ok := v.(c23host)
		if !ok {
			return time.Time{}, false
		}
		t, isT := h.v.(time.Time)
		return t, isT
	}
	switch callee {
	case "time.Parse":
		layout, ok1 := args[0].(string)
		value, ok2 := args[1].(string)
		if !ok1 || !ok2 {
			return nil, false
		}
		t, err := time.Parse(layout, value)
		ev := c23iface{}
		if err != nil {
			ev = c23iface{t: types.Typ[types.String], v: err.Error()}
		}
		return []c23val{c23host{t}, ev}, true
	case "(time.Time).Format":
		t, ok1 := hostTime(args[0])
		layout, ok2 := args[1].(string)
		if !ok1 || !ok2 {
			return nil, false
		}
		return t.Format(layout), true
	case "(time.Time).Year":
		if t, ok := hostTime(args[0]); ok {
			return int64(t.Year()), true
		}
	case "(time.Time).AddDate":
		t, ok := hostTime(args[0])
		y, ok1 := args[1].(int64)
		m, ok2 := args[2].(int64)
		d, ok3 := args[3].(int64)
		if ok && ok1 && ok2 && ok3 {
			return c23host{t.AddDate(int(y), int(m), int(d))}, true
		}
	}
	return nil, false
}

func c23intContents() [][]byte {
	lead := []byte{0x00, 0x01, 0x7f, 0x80, 0xfe, 0xff}
	out := [][]byte{{}}
	for _, b0 := range lead {
		out = append(out, []byte{b0})
	}
	for ln := 2; ln <= 10; ln++ {
		for _, b0 := range lead {
			for _, b1 := range lead {
				fills := []byte{0x00, 0xff, 0xa5}
				if ln == 2 {
					fills = fills[:1]
				}
				for _, fl := range fills {
					ct := make([]byte, ln)
					for i := range ct {
						ct[i] = fl
					}
					ct[0], ct[1] = b0, b1
					out = append(out, ct)
				}
			}
		}
	}
	return out
}

func c23intValue(ct []byte) *big.Int {
	v := new(big.Int).SetBytes(ct)
	if len(ct) > 0 && ct[0]&0x80 != 0 {
		v.Sub(v, new(big.Int).Lsh(big.NewInt(1), uint(8*len(ct))))
	}
	return v
}

func c23Integers(c *Ctx) {
	contents := c23intContents()
	for _, rd := range []struct {
		name string
		tag  byte
		kind string // destination: "int64", "int", "uint64", "bytes", "big"
	}{
		{"(*String).readASN1Int64", 0x02, "int64"},
		{"(*String).readASN1Uint64", 0x02, "uint64"},
		{"(*String).ReadASN1Int64WithTag", 0x87, "int64"},
		{"(*String).ReadASN1Enum", 0x0a, "int"},
		{"(*String).readASN1Bytes", 0x02, "bytes"},
		{"(*String).readASN1BigInt", 0x02, "big"},
	} {
		f := c.fn(c23pk, rd.name)
		if f == nil {
			continue
		}
		var badInt, badSib, badRange, stale string
		undecided := ""
		run := func(in []byte, init c23val) *c23call {
			var oi []c23val
			if init != nil {
				oi = []c23val{init}
			}
			return c23invoke(f, c23input(in, int64(len(in)), 0), oi, int64(rd.tag), false)
		}
		outValue := func(r *c23call) (*big.Int, bool) {
			if rd.kind == "big" {
				return c23hostBig(c23ptr{cell: r.outs[0]})
			}
			v, ok := r.outs[0].v.(int64)
			if !ok {
				return nil, false
			}
			if rd.kind == "uint64" {
				return new(big.Int).SetUint64(uint64(v)), true
			}
			return big.NewInt(v), true
		}
		for _, ct := range contents {
			in := c23tlv(rd.tag, ct, 0xde, 0xad)
			desc := fmt.Sprintf("INTEGER content %s", c23hex(ct))
			valid, why := true, ""
			switch {
			case len(ct) == 0:
				valid, why = false, "an INTEGER has at least one content octet"
			case len(ct) > 1 && (ct[0] == 0 && ct[1]&0x80 == 0 || ct[0] == 0xff && ct[1]&0x80 != 0):
				valid, why = false, "the first nine bits are all equal: not the minimal two's-complement encoding"
			}
			val := c23intValue(ct)
			repr := true
			switch rd.kind {
			case "int64", "int":
				repr = val.IsInt64()
			case "uint64":
				repr = val.Sign() >= 0 && val.IsUint64()
			case "bytes":
				repr = val.Sign() >= 0
			}
			r0 := run(in, nil)
			got, dec := r0.ok()
			if !dec && r0.end == "panic" {
				// readers report malformed input by returning false; a panic on
				// input octets is a defect of the content checks
				if badInt == "" {
					badInt = desc + ": " + r0.failure() + " — the content is used without the checks DER decoding requires"
				}
				continue
			}
			if !dec {
				undecided = desc + ": " + r0.failure()
				break
			}
			switch {
			case !valid && got:
				if badInt == "" {
					badInt = fmt.Sprintf("%s: accepted, DER requires rejection — %s", desc, why)
				}
			case valid && got && !repr:
				if badRange == "" {
					badRange = fmt.Sprintf("%s (%d octets, value %s): accepted, but the destination type (%s) cannot represent it", desc, len(ct), val, rd.kind)
				}
			case valid && !got && repr:
				if badRange == "" {
					badRange = fmt.Sprintf("%s (value %s): rejected, but it is a DER INTEGER that the destination type (%s) represents", desc, val, rd.kind)
				}
			case got:
				switch rd.kind {
				case "int64", "int", "uint64", "big":
					if v, ok := outValue(r0); !ok || v.Cmp(val) != 0 {
						if badRange == "" {
							badRange = fmt.Sprintf("%s: decoded as %v, the encoded value is %s", desc, v, val)
						}
					}
				case "bytes":
					wo, wn := int64(2), int64(len(ct))
					if len(ct) > 1 && ct[0] == 0 {
						wo, wn = 3, wn-1
					}
					if o, n, ok := r0.outSlice(0); !ok || o != wo || n != wn {
						if badRange == "" {
							badRange = fmt.Sprintf("%s: returned input[%d:%d], the magnitude without leading zero octets is input[%d:%d]", desc, o, o+n, wo, wo+wn)
						}
					}
				}
				if o, n, ok := r0.rest(); !ok || n != 2 || o != int64(len(in))-2 {
					if badSib == "" {
						badSib = fmt.Sprintf("%s: %d octets remain after the read, 2 follow the element", desc, n)
					}
				}
			}
			// independence of the destination's previous content
			var init c23val = int64(-1)
			switch rd.kind {
			case "bytes":
				init = c23input([]byte{1, 2, 3}, 3, 0)
			case "big":
				init = c23host{big.NewInt(-1)}
			}
			r1 := run(in, init)
			got1, dec1 := r1.ok()
			if !dec1 {
				undecided = desc + ": " + r1.failure()
				break
			}
			if stale == "" {
				if got1 != got {
					stale = fmt.Sprintf("%s: accepted=%v when the destination held zero, %v when it held all-ones — the verdict depends on what the variable contained before", desc, got, got1)
				} else if got && rd.kind != "bytes" {
					v0, _ := outValue(r0)
					v1, ok1 := outValue(r1)
					if !ok1 || v0 == nil || v0.Cmp(v1) != 0 {
						stale = fmt.Sprintf("%s: result %v when the destination held 0, %v when it held all-ones; the encoded value is %s — the result depends on what the variable contained before", desc, v0, v1, val)
					}
				} else if got {
					o0, n0, _ := r0.outSlice(0)
					o1, n1, ok1 := r1.outSlice(0)
					if !ok1 || o0 != o1 || n0 != n1 {
						stale = desc + ": the returned octets depend on what the destination contained before"
					}
				}
			}
		}
		// the element read itself fails: no success
		if undecided == "" {
			good := []byte{0x05}
			for _, e := range []struct {
				in   []byte
				what string
			}{
				{nil, "empty input"},
				{[]byte{rd.tag}, "identifier octet only"},
				{c23tlv(rd.tag^0x01, good), "another identifier octet"},
				{c23tlv(rd.tag^0x20, good), "the constructed/primitive bit flipped"},
				{[]byte{rd.tag, 0x03, 0x01, 0x02}, "content truncated (length 3, 2 octets present)"},
				{[]byte{rd.tag, 0x81, 0x01, 0x05}, "long-form length for a 1-octet content"},
				{[]byte{rd.tag, 0x80, 0x05, 0x00, 0x00}, "indefinite length"},
			} {
				r := run(e.in, nil)
				got, dec := r.ok()
				if !dec {
					undecided = e.what + ": " + r.failure()
					break
				}
				if got && badSib == "" {
					badSib = fmt.Sprintf("input %s (%s): success reported although no DER element with the expected tag can be read", c23hex(e.in), e.what)
				}
			}
		}
		if undecided != "" {
			c.undecided("C23.integer", rd.name, f, undecided)
			continue
		}
		c.check(badInt == "", "C23.integer", rd.name, f, fmt.Sprintf("accepts only non-empty minimal two's-complement contents (%d contents)", len(contents)), badInt)
		c.check(badSib == "", "C23.integer-siblings", rd.name, f, "no success unless a DER element with the expected tag was read; the input advances past exactly that element", badSib)
		c.check(badRange == "", "C23.int-range", rd.name, f, fmt.Sprintf("accepts exactly the values %s represents and returns the encoded value", rd.kind), badRange)
		switch {
		case stale == "":
			c.ok("C23.int-no-stale", rd.name, f, "verdict and value are the same whether the destination held zero or all-ones before")
		case f.Object() != nil && f.Object().Exported():
			c.fail("C23.int-no-stale", rd.name, f, stale)
		default:
			// an unexported reader may accumulate into *out if every caller hands
			// it a fresh zero variable
			n, why := c23FreshZeroCallers(c, f)
			c.check(why == "" && n >= 1, "C23.int-no-stale", rd.name, f,
				fmt.Sprintf("accumulates into the destination; all %d static caller(s) pass a new zero local", n),
				stale+"; and "+why)
		}
	}
}

// c23FreshZeroCallers: every static call of f in the module passes, for f's
// destination (first pointer parameter after the receiver), the address of a
// local variable that still holds its zero value: no store of anything but a
// zero constant and no other use of its address can reach the call, and the
// call cannot be reached again without the variable being re-created.
func c23FreshZeroCallers(c *Ctx, f *ssa.Function) (n int, why string) {
	idx := -1
	for i, p := range f.Params {
		if i == 0 {
			continue
		}
		if _, isP := p.Type().Underlying().(*types.Pointer); isP {
			idx = i
			break
		}
	}
	if idx < 0 {
		return 0, "no destination parameter"
	}
	return c23freshZeroParam(c, f, idx, 0)
}

// c23freshZeroParam: the contract for parameter idx of f. A caller that merely
// forwards its own pointer parameter (an unexported helper in between) is
// accepted when the same contract holds for that parameter at ITS callers.
func c23freshZeroParam(c *Ctx, f *ssa.Function, idx int, depth int) (n int, why string) {
	if depth > 3 {
		return 0, "forwarding chain too deep"
	}
	sites := c.callersOf(f)
	if len(sites) == 0 {
		return 0, "no static caller of " + f.Name() + " found"
	}
	for _, ci := range sites {
		n++
		where := ci.Parent().Name()
		if idx >= len(ci.Common().Args) {
			return n, "caller " + where + " passes no destination"
		}
		var al interface {
			ssa.Value
			Referrers() *[]ssa.Instruction
		}
		var alBlock *ssa.BasicBlock
		switch a := ci.Common().Args[idx].(type) {
		case *ssa.Alloc:
			al, alBlock = a, a.Block()
		case *ssa.Parameter:
			g := ci.Parent()
			if g.Object() == nil || g.Object().Exported() {
				return n, "caller " + where + " forwards a destination it received from callers outside the package"
			}
			pi := -1
			for i, p := range g.Params {
				if p == a {
					pi = i
				}
			}
			if _, w := c23freshZeroParam(c, g, pi, depth+1); pi < 0 || w != "" {
				return n, "caller " + where + " forwards its own parameter: " + w
			}
			al, alBlock = a, g.Blocks[0]
		default:
			return n, "caller " + where + " passes a destination that is not a new local variable"
		}
		for _, ref := range *al.Referrers() {
			if ref == ssa.Instruction(ci) {
				continue
			}
			before := ref.Block() == ci.Block() && precedes(ref, ci) || ref.Block() != ci.Block() && reach([]*ssa.BasicBlock{ref.Block()}, nil)[ci.Block()]
			if !before {
				continue
			}
			switch x := ref.(type) {
			case *ssa.Store:
				if x.Addr == ssa.Value(al) {
					if k, isK := constInt(x.Val); !isK || k != 0 {
						return n, "caller " + where + " stores into the destination before the call"
					}
				}
			case *ssa.UnOp, *ssa.DebugRef:
			default:
				return n, "caller " + where + " hands the destination's address elsewhere before the call"
			}
		}
		// a loop around the call that does not re-create the variable
		if alBlock != ci.Block() {
			seen := map[*ssa.BasicBlock]bool{alBlock: true}
			work := append([]*ssa.BasicBlock(nil), ci.Block().Succs...)
			for len(work) > 0 {
				b := work[len(work)-1]
				work = work[:len(work)-1]
				if b == ci.Block() {
					return n, "caller " + where + " can repeat the call with the same variable"
				}
				if seen[b] {
					continue
				}
				seen[b] = true
				work = append(work, b.Succs...)
			}
		}
	}
	return n, ""
}
