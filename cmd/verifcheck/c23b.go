package main

import (
	"fmt"

	"golang.org/x/tools/go/ssa"
)

// c23IntNoStale: the INTEGER decoders return the encoded value whatever the
// destination variable held before. asn1Signed writes through the caller's
// pointer (ReadASN1Int64WithTag hands it over directly), so its final value
// must not depend on the initial *out: the function is evaluated in Go's
// fixed-width arithmetic for every length 0..8, content bytes 0x00 / 0x7f /
// 0x80 / 0xff, and the initial values 0 and -1 (every bit both ways; all
// operations involved are bit-wise or shifts) — both runs must end with the
// sign-extended big-endian value. asn1Unsigned accumulates into *out without
// clearing it, which is correct only because every caller passes a fresh zero
// variable; that caller contract is checked.
func c23IntNoStale(c *Ctx) {
	f := c.fn("cryptobyte", "asn1Signed")
	if f != nil {
		outP, nP := f.Params[0], f.Params[1]
		bad := ""
		for L := int64(0); L <= 9 && bad == ""; L++ {
			for _, fill := range []int64{0x00, 0x7f, 0x80, 0xff} {
				var finals []int64
				var accepted []bool
				for _, init := range []int64{0, -1} {
					w := &pathWalker{env: newEnv(), lengths: true, maxSteps: 4000}
					w.env.bind(nP, L)
					w.state = map[string]int64{outP.Name(): init}
					w.onLoad = func(w *pathWalker, u *ssa.UnOp) (int64, bool) {
						if ia, ok := u.X.(*ssa.IndexAddr); ok && ia.X == ssa.Value(nP) {
							return fill, true
						}
						return 0, false
					}
					end := w.walk(f.Blocks[0], nil)
					if end != "return" {
						bad = fmt.Sprintf("length %d: evaluation ended with %s %s", L, end, w.why)
						break
					}
					okv, _ := w.env.eval(retVal(w.last.(*ssa.Return), 0))
					accepted = append(accepted, okv != 0)
					finals = append(finals, w.state[outP.Name()])
				}
				if bad != "" {
					break
				}
				if accepted[0] != (L <= 8) || accepted[1] != accepted[0] {
					bad = fmt.Sprintf("length %d: accepted=%v", L, accepted)
					break
				}
				if !accepted[0] {
					continue
				}
				// expected value: sign-extended big-endian
				var want int64
				for i := int64(0); i < L; i++ {
					want = want<<8 | fill
				}
				if L > 0 && L < 8 && fill&0x80 != 0 {
					want |= -1 << uint(8*L)
				}
				if finals[0] != finals[1] || finals[0] != want {
					bad = fmt.Sprintf("%d content bytes of %#02x: result %d when the destination held 0, %d when it held -1; the encoded value is %d — the result depends on what the variable contained before", L, fill, finals[0], finals[1], want)
				}
			}
		}
		c.check(bad == "", "C23.int-no-stale", "asn1Signed result is independent of the destination's previous content", f, "lengths 0..9 x content {00,7f,80,ff} x initial {0,-1}: always the sign-extended value", bad)
	}
	// asn1Unsigned: callers pass a fresh zero variable
	if g := c.fn("cryptobyte", "(*String).readASN1Uint64"); g != nil {
		okFwd := false
		for _, ci := range callsNamed(g, "cryptobyte.asn1Unsigned") {
			if ci.Common().Args[0] == ssa.Value(g.Params[1]) {
				okFwd = true
			}
		}
		okCallers := true
		n := 0
		for _, fn := range c.funcsOfPkg("cryptobyte") {
			for _, ci := range callsNamed(fn, "(*cryptobyte.String).readASN1Uint64") {
				n++
				al, isA := ci.Common().Args[1].(*ssa.Alloc)
				if !isA {
					okCallers = false
					continue
				}
				// no store into the local before the call
				for _, ref := range *al.Referrers() {
					if st, isS := ref.(*ssa.Store); isS && st.Addr == ssa.Value(al) {
						if st.Block() == ci.Block() && precedes(st, ci) || st.Block() != ci.Block() && st.Block().Dominates(ci.Block()) {
							if k, isK := constInt(st.Val); !isK || k != 0 {
								okCallers = false
							}
						}
					}
				}
			}
		}
		c.check(okFwd && okCallers && n >= 1, "C23.int-no-stale", "asn1Unsigned accumulates into a fresh zero variable", g, fmt.Sprintf("%d caller(s) pass a new local", n), "asn1Unsigned ORs into *out without clearing it and a caller can pass a variable that is not a fresh zero local")
	}
}
