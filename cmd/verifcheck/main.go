// verifcheck decides structural clauses of the golang/crypto property list by
// static analysis of /repo's current source (type-checked packages, go/ssa,
// CFG reachability, struct/const tables, Go-assembly text). Nothing in /repo
// is executed. See /verif/DESIGN.md.
package main

import (
	"encoding/json"
	"flag"
	"fmt"
	"os"
	"path/filepath"
	"sort"
	"strconv"
	"strings"
	"time"
)

// A rule set for one property.
type propDef struct {
	id          string
	run         func(c *Ctx)
	minOblig    int      // frozen lower bound on obligations (vacuity guard)
	explanation string   // what is decided / not decided
	assumptions []string // trusted base and undecided parts
	needSSA     bool
}

var registry = map[string]*propDef{}

func register(p *propDef) { registry[p.id] = p }

func main() {
	prop := flag.String("prop", "", "property id (Cnn) or 'all'")
	tier := flag.String("tier", "quick", "quick|thorough")
	repo := flag.String("repo", "/repo", "repository root to analyse")
	verifDir := flag.String("verif", "", "verif dir (default: dir above the binary, or /verif)")
	explain := flag.String("explain", "", "print the violation record at this path")
	noEvidence := flag.Bool("no-evidence", false, "do not write evidence files (used for scratch trees)")
	list := flag.Bool("list", false, "list registered properties")
	manifest := flag.String("manifest", "", "write MANIFEST.json to this path and exit")
	asbuilt := flag.String("asbuilt", "", "write the as-built description (markdown) to this path and exit")
	flag.Parse()

	if *asbuilt != "" {
		if err := writeAsBuilt(*asbuilt); err != nil {
			fmt.Println(err)
			os.Exit(2)
		}
		return
	}
	if *manifest != "" {
		if err := writeManifest(*manifest); err != nil {
			fmt.Println(err)
			os.Exit(2)
		}
		return
	}

	if *explain != "" {
		b, err := os.ReadFile(*explain)
		if err != nil {
			fmt.Println(err)
			os.Exit(2)
		}
		os.Stdout.Write(b)
		return
	}
	if *list {
		ids := sortedProps()
		for _, id := range ids {
			fmt.Println(id)
		}
		return
	}
	if t := os.Getenv("VERIF_TIER"); t != "" && !flagSet("tier") {
		*tier = t
	}
	if *tier != "quick" && *tier != "thorough" {
		fmt.Println("bad tier")
		os.Exit(2)
	}
	vdir := *verifDir
	if vdir == "" {
		vdir = "/verif"
		if exe, err := os.Executable(); err == nil {
			d := filepath.Dir(filepath.Dir(exe))
			if _, err := os.Stat(filepath.Join(d, "known_findings.json")); err == nil {
				vdir = d
			}
		}
	}
	seed := 0
	if s := os.Getenv("VERIF_SEED"); s != "" {
		seed, _ = strconv.Atoi(s)
	}

	var ids []string
	if *prop == "all" {
		ids = sortedProps()
	} else {
		for _, p := range strings.Split(*prop, ",") {
			if _, ok := registry[p]; !ok {
				fmt.Printf("unknown property %q\n", p)
				os.Exit(2)
			}
			ids = append(ids, p)
		}
	}
	if len(ids) == 0 {
		fmt.Println("no property given")
		os.Exit(2)
	}

	start := time.Now()
	ld, err := loadRepo(*repo, nil)
	if err != nil {
		// A tree that does not load/type-check cannot be judged; this is a
		// failed check, not a pass.
		for _, id := range ids {
			fmt.Printf("VIOLATION property=%s replay=%s (load failure: %v)\n", id, "-", err)
		}
		os.Exit(1)
	}
	loadS := time.Since(start).Seconds()

	known := loadKnown(filepath.Join(vdir, "known_findings.json"))
	exit := 0
	for _, id := range ids {
		pd := registry[id]
		t0 := time.Now()
		c := &Ctx{ld: ld, prop: id, tier: *tier, repo: *repo, verif: vdir, known: known}
		runRules(pd, c)
		base := len(c.obligs)
		if *tier == "thorough" {
			c.thoroughExtras(pd, seed)
		}
		if base < pd.minOblig {
			c.fail("vacuity", fmt.Sprintf("obligations=%d below frozen minimum %d", base, pd.minOblig), nil,
				"a rule matched fewer constructs than were confirmed by hand on the pinned tree")
		}
		wall := time.Since(t0).Seconds()
		if len(ids) == 1 {
			wall += loadS
		}
		nviol := c.report(pd, *tier, seed, wall, !*noEvidence)
		if nviol > 0 {
			exit = 1
		}
	}
	os.Exit(exit)
}

func flagSet(name string) bool {
	set := false
	flag.Visit(func(f *flag.Flag) {
		if f.Name == name {
			set = true
		}
	})
	return set
}

func sortedProps() []string {
	var ids []string
	for id := range registry {
		ids = append(ids, id)
	}
	sort.Strings(ids)
	return ids
}

// ---------------------------------------------------------------------------
// known findings

type knownFile struct {
	Known []knownEntry `json:"known_findings"`
	Fixed []string     `json:"fixed"`
}
type knownEntry struct {
	Property  string `json:"property"`
	Rule      string `json:"rule"`
	Construct string `json:"construct"`
	What      string `json:"what"`
}

func loadKnown(path string) []knownEntry {
	b, err := os.ReadFile(path)
	if err != nil {
		return nil
	}
	var kf knownFile
	if err := json.Unmarshal(b, &kf); err != nil {
		fmt.Fprintf(os.Stderr, "known_findings.json: %v\n", err)
		os.Exit(2)
	}
	return kf.Known
}

// ---------------------------------------------------------------------------
// reporting

func (c *Ctx) report(pd *propDef, tier string, seed int, wall float64, writeEvidence bool) int {
	var viol, knownN, ok int
	var violRecs []*Oblig
	for _, o := range c.obligs {
		switch o.Verdict {
		case "discharged":
			ok++
		case "known-finding":
			knownN++
			d := o.Detail
			if len(d) > 260 {
				d = d[:260] + "… (full text in known_findings.json)"
			}
			fmt.Printf("KNOWN-FINDING: property=%s %s: %s [%s]\n", c.prop, o.Construct, d, o.Rule)
		default:
			viol++
			violRecs = append(violRecs, o)
		}
	}
	fmt.Printf("%s tier=%s obligations=%d discharged=%d known=%d violations=%d wall=%.1fs\n",
		c.prop, tier, len(c.obligs), ok, knownN, viol, wall)
	evDir := filepath.Join(c.verif, "evidence")
	replay := filepath.Join(evDir, c.prop+".violation.json")
	if viol > 0 {
		for _, o := range violRecs {
			fmt.Printf("  %s %s: %s at %s — %s\n", o.Verdict, o.Rule, o.Construct, o.Pos, o.Detail)
		}
		if writeEvidence {
			os.MkdirAll(evDir, 0o755)
			b, _ := json.MarshalIndent(map[string]any{"property": c.prop, "tier": tier, "violations": violRecs}, "", " ")
			os.WriteFile(replay, b, 0o644)
		} else {
			replay = "-"
		}
		fmt.Printf("VIOLATION property=%s replay=%s\n", c.prop, replay)
	} else if writeEvidence {
		os.Remove(replay)
	}
	if writeEvidence {
		os.MkdirAll(evDir, 0o755)
		samples := make([]any, 0, len(c.obligs))
		for _, o := range c.obligs {
			samples = append(samples, o)
		}
		rules := map[string]int{}
		for _, o := range c.obligs {
			rules[o.Rule]++
		}
		cov := map[string]any{
			"obligations":        len(c.obligs),
			"discharged":         ok,
			"known_findings":     knownN,
			"checker_cmd":        fmt.Sprintf("./bin/verifcheck -prop %s -tier %s", c.prop, tier),
			"trusted_base":       []string{"go/types type checker", "golang.org/x/tools go/ssa v0.50.0", "transcription of the specification tables in the rule source"},
			"explanation":        pd.explanation,
			"samples":            samples,
			"rules":              rules,
			"packages_loaded":    len(c.ld.pkgs),
			"functions_in_ssa":   c.ld.nfuncs,
			"functions_analysed": sortedKeys(c.funcsSeen),
			"exhaustive":         true,
		}
		ev := map[string]any{
			"property_id": c.prop,
			"tier":        tier,
			"seed":        seed,
			"level":       "other",
			"coverage":    cov,
			"assumptions": pd.assumptions,
			"wall_s":      wall,
			"violations":  viol,
		}
		b, _ := json.MarshalIndent(ev, "", " ")
		os.WriteFile(filepath.Join(evDir, c.prop+".json"), b, 0o644)
	}
	return viol
}

func sortedKeys(m map[string]bool) []string {
	var ks []string
	for k := range m {
		ks = append(ks, k)
	}
	sort.Strings(ks)
	return ks
}
