package main

import (
	"fmt"
	"go/constant"
	"go/token"
	"go/types"
	"strconv"
	"strings"

	"golang.org/x/tools/go/ssa"
)

// Symbolic interpreter for the curve25519 wrapper (property C11).
//
// pathWalker folds over int64 and cannot compare an error value with nil on
// both outcomes, nor carry byte CONTENT through key objects; the C11 facts are
// exactly about that (which bytes reach which crypto/ecdh call, what dst holds
// at every exit, when an error is returned). So this file interprets the SSA of
// the package with symbolic values: memory objects with one cell per element,
// pointers/slices into them, opaque terms for crypto/ecdh objects
// (priv(S), pub(P), out(priv(S),pub(P))[i] ...). Calls into the same package
// (helpers, closures, the package initializer) are interpreted in place, so the
// outcome does not depend on how the wrapper is factored or what anything is
// called. crypto/ecdh is modelled by its documented contract for X25519:
// NewPrivateKey/NewPublicKey fail iff the input is not 32 bytes long and copy
// their input; ECDH may fail (all-zero secret) — both outcomes are explored.
// Nothing is executed. A construct outside the model ends the run "undecided",
// never silently.

type c11Kind int

const (
	c11Int c11Kind = iota
	c11Nil
	c11Ptr   // obj, n = offset, m = extent (elements)
	c11Slice // obj, n = lo, m = hi (absolute cell indices)
	c11Sym   // opaque term
	c11Tuple
	c11Arr // array VALUE
	c11Func
)

type c11Obj struct {
	name  string
	cells []c11Val
}

type c11Val struct {
	k   c11Kind
	n   int64
	m   int64
	obj *c11Obj
	tag string
	el  []c11Val
	fn  *ssa.Function
}

func c11I(n int64) c11Val    { return c11Val{k: c11Int, n: n} }
func c11S(tag string) c11Val { return c11Val{k: c11Sym, tag: tag} }
func (v c11Val) isNil() bool { return v.k == c11Nil }
func (v c11Val) same(o c11Val) bool {
	if v.k != o.k {
		return false
	}
	switch v.k {
	case c11Int:
		return v.n == o.n
	case c11Sym:
		return v.tag == o.tag
	case c11Nil:
		return true
	case c11Ptr, c11Slice:
		return v.obj == o.obj && v.n == o.n && v.m == o.m
	}
	return false
}

func (v c11Val) String() string {
	switch v.k {
	case c11Int:
		return strconv.FormatInt(v.n, 10)
	case c11Nil:
		return "nil"
	case c11Sym:
		return v.tag
	case c11Ptr:
		return "&" + v.obj.name
	case c11Slice:
		return c11Fp(v.bytes())
	}
	return "?"
}

// bytes returns the cells a slice value denotes (nil slice: none).
func (v c11Val) bytes() []c11Val {
	if v.k == c11Slice {
		return v.obj.cells[v.n:v.m]
	}
	if v.k == c11Arr {
		return v.el
	}
	return nil
}

func (v c11Val) length() (int64, bool) {
	switch v.k {
	case c11Nil:
		return 0, true
	case c11Slice:
		return v.m - v.n, true
	case c11Arr:
		return int64(len(v.el)), true
	case c11Ptr:
		return v.m, true
	}
	return 0, false
}

// c11Fp is a canonical, readable description of byte content: "S" for the 32
// untouched bytes S[0..31], "S[:31]" for a prefix, "zero" for all-zero, "base"
// for 9 followed by zeros, otherwise the cell list.
func c11Fp(cells []c11Val) string {
	if len(cells) == 0 {
		return "empty"
	}
	name, seq := "", true
	for i, c := range cells {
		if c.k != c11Sym || !strings.HasSuffix(c.tag, "["+strconv.Itoa(i)+"]") {
			seq = false
			break
		}
		nm := strings.TrimSuffix(c.tag, "["+strconv.Itoa(i)+"]")
		if i > 0 && nm != name {
			seq = false
			break
		}
		name = nm
	}
	if seq {
		if len(cells) == 32 {
			return name
		}
		return name + "[:" + strconv.Itoa(len(cells)) + "]"
	}
	zero, base := true, len(cells) == 32
	for i, c := range cells {
		if c.k != c11Int || c.n != 0 {
			zero = false
			if !(i == 0 && c.k == c11Int && c.n == 9) {
				base = false
			}
		} else if i == 0 {
			base = false
		}
	}
	if zero {
		if len(cells) == 32 {
			return "zero"
		}
		return "zero[:" + strconv.Itoa(len(cells)) + "]"
	}
	if base {
		return "base"
	}
	var sb strings.Builder
	sb.WriteString("{")
	for i, c := range cells {
		if i > 0 {
			sb.WriteString(",")
		}
		sb.WriteString(c.String())
	}
	sb.WriteString("}")
	return sb.String()
}

type c11Event struct {
	kind   string // "priv", "pub", "ecdh"
	a, b   string // content / operands
	failed bool
	at     ssa.Instruction
}

type c11Run struct {
	pkg      *ssa.Package
	dec      []bool // decisions at fork points (false = ECDH succeeds)
	used     int
	globals  map[*ssa.Global]*c11Obj
	events   []c11Event
	steps    int
	why      string
	whyAt    ssa.Instruction
	nobj     int
	deferred bool
	// harness: the caller-side objects of this run and their content at entry
	hobj map[string]*c11Obj
	hfp  map[string]string
}

// input creates a caller-side byte object with fully unknown content.
func (r *c11Run) input(role, name string, n int) *c11Obj {
	if r.hobj == nil {
		r.hobj, r.hfp = map[string]*c11Obj{}, map[string]string{}
	}
	o := r.newObj(name, n, c11I(0))
	copy(o.cells, c11SymCells(name, n))
	r.alias(role, o)
	return o
}

func (r *c11Run) alias(role string, o *c11Obj) {
	r.hobj[role] = o
	r.hfp[role] = c11Fp(o.cells)
}

func (r *c11Run) unchanged(role string) bool {
	return c11Fp(r.hobj[role].cells) == r.hfp[role]
}

type c11Frame struct {
	env map[ssa.Value]c11Val
}

func (r *c11Run) newObj(name string, n int, zero c11Val) *c11Obj {
	r.nobj++
	o := &c11Obj{name: name, cells: make([]c11Val, n)}
	for i := range o.cells {
		o.cells[i] = zero
	}
	return o
}

// zeroOf: the zero value of a cell of type t; ok=false for aggregates the
// model does not represent as one cell.
func c11ZeroOf(t types.Type) (c11Val, bool) {
	switch u := t.Underlying().(type) {
	case *types.Basic:
		if u.Info()&types.IsString != 0 {
			return c11S("str:"), true
		}
		if u.Info()&(types.IsInteger|types.IsBoolean) != 0 {
			return c11I(0), true
		}
		return c11Val{}, false
	case *types.Pointer, *types.Slice, *types.Interface, *types.Map, *types.Chan, *types.Signature:
		return c11Val{k: c11Nil}, true
	}
	return c11Val{}, false
}

// allocFor creates storage for a variable of type t and returns the pointer.
func (r *c11Run) allocFor(name string, t types.Type) (c11Val, bool) {
	if a, ok := t.Underlying().(*types.Array); ok {
		z, ok := c11ZeroOf(a.Elem())
		if !ok {
			return c11Val{}, false
		}
		o := r.newObj(name, int(a.Len()), z)
		return c11Val{k: c11Ptr, obj: o, n: 0, m: a.Len()}, true
	}
	z, ok := c11ZeroOf(t)
	if !ok {
		return c11Val{}, false
	}
	o := r.newObj(name, 1, z)
	return c11Val{k: c11Ptr, obj: o, n: 0, m: 1}, true
}

func (r *c11Run) undecided(at ssa.Instruction, format string, a ...any) string {
	if r.why == "" {
		r.why = fmt.Sprintf(format, a...)
		r.whyAt = at
	}
	return "undecided"
}

func (r *c11Run) panicEnd(at ssa.Instruction, format string, a ...any) string {
	r.why = fmt.Sprintf(format, a...)
	r.whyAt = at
	return "panic"
}

func (r *c11Run) global(g *ssa.Global) (c11Val, bool) {
	if o, ok := r.globals[g]; ok {
		return c11Val{k: c11Ptr, obj: o, n: 0, m: int64(len(o.cells))}, true
	}
	elem := g.Type().Underlying().(*types.Pointer).Elem()
	p, ok := r.allocFor(g.Name(), elem)
	if !ok {
		return c11Val{}, false
	}
	r.globals[g] = p.obj
	return p, true
}

func (r *c11Run) val(fr *c11Frame, v ssa.Value) (c11Val, bool) {
	switch x := v.(type) {
	case *ssa.Const:
		if x.Value == nil {
			if a, ok := x.Type().Underlying().(*types.Array); ok {
				z, ok := c11ZeroOf(a.Elem())
				if !ok {
					return c11Val{}, false
				}
				el := make([]c11Val, a.Len())
				for i := range el {
					el[i] = z
				}
				return c11Val{k: c11Arr, el: el}, true
			}
			if _, ok := x.Type().Underlying().(*types.Struct); ok {
				return c11Val{}, false
			}
			if z, ok := c11ZeroOf(x.Type()); ok {
				return z, true
			}
			return c11Val{k: c11Nil}, true
		}
		switch x.Value.Kind() {
		case constant.Int:
			if n, ok := constant.Int64Val(x.Value); ok {
				return c11I(n), true
			}
			if u, ok := constant.Uint64Val(x.Value); ok {
				return c11I(int64(u)), true
			}
		case constant.Bool:
			if constant.BoolVal(x.Value) {
				return c11I(1), true
			}
			return c11I(0), true
		case constant.String:
			return c11S("str:" + constant.StringVal(x.Value)), true
		}
		return c11Val{}, false
	case *ssa.Global:
		return r.global(x)
	case *ssa.Function:
		return c11Val{k: c11Func, fn: x}, true
	}
	val, ok := fr.env[v]
	return val, ok
}

func c11Bool(b bool) c11Val {
	if b {
		return c11I(1)
	}
	return c11I(0)
}

func (r *c11Run) binop(x *ssa.BinOp, a, b c11Val) (c11Val, bool) {
	if x.Op == token.EQL || x.Op == token.NEQ {
		var eq bool
		switch {
		case a.k == c11Nil || b.k == c11Nil:
			eq = a.k == c11Nil && b.k == c11Nil
		case a.k == c11Int && b.k == c11Int:
			eq = a.n == b.n
		case a.k == c11Sym && b.k == c11Sym && a.tag == b.tag:
			eq = true
		case a.k == c11Sym && b.k == c11Sym && strings.HasPrefix(a.tag, "str:") && strings.HasPrefix(b.tag, "str:") && !strings.Contains(a.tag+b.tag, "?"):
			eq = a.tag == b.tag
		case (a.k == c11Ptr || a.k == c11Func) && a.k == b.k:
			eq = a.same(b) && a.fn == b.fn
		default:
			return c11Val{}, false
		}
		return c11Bool(eq == (x.Op == token.EQL)), true
	}
	if a.k == c11Sym && b.k == c11Sym && x.Op == token.ADD && strings.HasPrefix(a.tag, "str:") && strings.HasPrefix(b.tag, "str:") {
		return c11S(a.tag + b.tag[4:]), true
	}
	if a.k != c11Int || b.k != c11Int {
		return c11Val{}, false
	}
	_, uns, isInt := intBits(x.X.Type())
	if !isInt {
		return c11Val{}, false
	}
	switch x.Op {
	case token.LSS, token.LEQ, token.GTR, token.GEQ:
		lt, eq := a.n < b.n, a.n == b.n
		if uns {
			lt = uint64(a.n) < uint64(b.n)
		}
		switch x.Op {
		case token.LSS:
			return c11Bool(lt), true
		case token.LEQ:
			return c11Bool(lt || eq), true
		case token.GTR:
			return c11Bool(!lt && !eq), true
		}
		return c11Bool(!lt), true
	case token.ADD:
		return c11I(wrapTo(a.n+b.n, x.Type())), true
	case token.SUB:
		return c11I(wrapTo(a.n-b.n, x.Type())), true
	case token.MUL:
		return c11I(wrapTo(a.n*b.n, x.Type())), true
	case token.AND:
		return c11I(a.n & b.n), true
	case token.OR:
		return c11I(a.n | b.n), true
	case token.XOR:
		return c11I(wrapTo(a.n^b.n, x.Type())), true
	case token.AND_NOT:
		return c11I(a.n &^ b.n), true
	case token.SHL:
		if b.n >= 0 && b.n < 64 {
			return c11I(wrapTo(a.n<<uint(b.n), x.Type())), true
		}
	case token.SHR:
		if b.n >= 0 && b.n < 64 && (a.n >= 0 || !uns) {
			return c11I(a.n >> uint(b.n)), true
		}
	case token.QUO:
		if b.n != 0 && a.n >= 0 && b.n > 0 {
			return c11I(a.n / b.n), true
		}
	case token.REM:
		if b.n != 0 && a.n >= 0 && b.n > 0 {
			return c11I(a.n % b.n), true
		}
	}
	return c11Val{}, false
}

// load reads through a pointer: one cell, or an array value.
func c11Load(p c11Val, t types.Type) (c11Val, bool) {
	if p.k != c11Ptr {
		return c11Val{}, false
	}
	if _, isArr := t.Underlying().(*types.Array); isArr {
		return c11Val{k: c11Arr, el: append([]c11Val(nil), p.obj.cells[p.n:p.n+p.m]...)}, true
	}
	if p.m != 1 {
		return c11Val{}, false
	}
	return p.obj.cells[p.n], true
}

func c11Store(p, v c11Val) bool {
	if p.k != c11Ptr {
		return false
	}
	if v.k == c11Arr {
		if int64(len(v.el)) != p.m {
			return false
		}
		copy(p.obj.cells[p.n:p.n+p.m], v.el)
		return true
	}
	if p.m != 1 {
		return false
	}
	p.obj.cells[p.n] = v
	return true
}

// call interprets fn on args; end is "" (returned), "panic" or "undecided".
func (r *c11Run) call(fn *ssa.Function, args, free []c11Val, depth int) ([]c11Val, string) {
	if depth > 8 {
		return nil, r.undecided(nil, "call depth bound exceeded in %s", fn.Name())
	}
	if len(fn.Blocks) == 0 {
		return nil, r.undecided(nil, "function %s has no body", fn.String())
	}
	fr := &c11Frame{env: map[ssa.Value]c11Val{}}
	for i, p := range fn.Params {
		if i < len(args) {
			fr.env[p] = args[i]
		}
	}
	for i, fv := range fn.FreeVars {
		if i < len(free) {
			fr.env[fv] = free[i]
		}
	}
	b := fn.Blocks[0]
	var pred *ssa.BasicBlock
	for {
		// phis: parallel assignment
		if pred != nil {
			idx := -1
			for i, p := range b.Preds {
				if p == pred {
					idx = i
				}
			}
			type upd struct {
				ph *ssa.Phi
				v  c11Val
				ok bool
			}
			var us []upd
			for _, in := range b.Instrs {
				ph, ok := in.(*ssa.Phi)
				if !ok {
					break
				}
				v, ok := r.val(fr, ph.Edges[idx])
				us = append(us, upd{ph, v, ok})
			}
			for _, u := range us {
				delete(fr.env, u.ph)
				if u.ok {
					fr.env[u.ph] = u.v
				}
			}
		}
		var next *ssa.BasicBlock
		for _, in := range b.Instrs {
			r.steps++
			if r.steps > 20000 {
				return nil, r.undecided(in, "step bound exceeded")
			}
			get := func(v ssa.Value) (c11Val, bool) { return r.val(fr, v) }
			switch x := in.(type) {
			case *ssa.Phi, *ssa.DebugRef:
			case *ssa.Alloc:
				elem := x.Type().Underlying().(*types.Pointer).Elem()
				p, ok := r.allocFor(x.Comment+"#"+strconv.Itoa(r.nobj), elem)
				if !ok {
					return nil, r.undecided(x, "variable of type %s is outside the model", elem)
				}
				fr.env[x] = p
			case *ssa.UnOp:
				a, ok := get(x.X)
				if !ok {
					return nil, r.undecided(x, "operand of %s is unknown", x)
				}
				switch x.Op {
				case token.MUL:
					v, ok := c11Load(a, x.Type())
					if !ok {
						if a.isNil() {
							return nil, r.panicEnd(x, "nil pointer dereference")
						}
						return nil, r.undecided(x, "load %s is outside the model", x)
					}
					fr.env[x] = v
				case token.NOT:
					if a.k != c11Int {
						return nil, r.undecided(x, "negation of a symbolic value")
					}
					fr.env[x] = c11I(1 - a.n)
				case token.SUB:
					if a.k != c11Int {
						return nil, r.undecided(x, "arithmetic on a symbolic value")
					}
					fr.env[x] = c11I(wrapTo(-a.n, x.Type()))
				case token.XOR:
					if a.k != c11Int {
						return nil, r.undecided(x, "arithmetic on a symbolic value")
					}
					fr.env[x] = c11I(wrapTo(^a.n, x.Type()))
				default:
					return nil, r.undecided(x, "operator %s is outside the model", x.Op)
				}
			case *ssa.BinOp:
				a, ok1 := get(x.X)
				bb, ok2 := get(x.Y)
				if !ok1 || !ok2 {
					return nil, r.undecided(x, "operand of %s is unknown", x)
				}
				v, ok := r.binop(x, a, bb)
				if !ok {
					return nil, r.undecided(x, "%s on %s and %s depends on content the model leaves symbolic", x.Op, a, bb)
				}
				fr.env[x] = v
			case *ssa.Convert:
				a, ok := get(x.X)
				if !ok {
					return nil, r.undecided(x, "operand of conversion is unknown")
				}
				_, _, i1 := intBits(x.X.Type())
				_, _, i2 := intBits(x.Type())
				switch {
				case a.k == c11Int && i1 && i2:
					fr.env[x] = c11I(wrapTo(a.n, x.Type()))
				case a.k == c11Sym && i1 && i2:
					fr.env[x] = a
				default:
					return nil, r.undecided(x, "conversion %s is outside the model", x)
				}
			case *ssa.SliceToArrayPointer:
				a, ok := get(x.X)
				arr, isArr := x.Type().Underlying().(*types.Pointer).Elem().Underlying().(*types.Array)
				if !ok || !isArr {
					return nil, r.undecided(x, "operand unknown")
				}
				n, okn := a.length()
				if !okn || (a.k != c11Slice && a.k != c11Nil) {
					return nil, r.undecided(x, "conversion of %s to an array is outside the model", a)
				}
				if n < arr.Len() {
					return nil, r.panicEnd(x, "conversion of a slice of length %d to an array of length %d", n, arr.Len())
				}
				if a.k == c11Nil {
					fr.env[x] = a
				} else {
					fr.env[x] = c11Val{k: c11Ptr, obj: a.obj, n: a.n, m: arr.Len()}
				}
			case *ssa.ChangeType:
				a, ok := get(x.X)
				if !ok {
					return nil, r.undecided(x, "operand unknown")
				}
				fr.env[x] = a
			case *ssa.ChangeInterface:
				a, ok := get(x.X)
				if !ok {
					return nil, r.undecided(x, "operand unknown")
				}
				fr.env[x] = a
			case *ssa.MakeInterface:
				a, ok := get(x.X)
				if !ok {
					return nil, r.undecided(x, "operand unknown")
				}
				if a.k == c11Nil || a.k == c11Int {
					// an interface holding a value is not the nil interface
					a = c11S("iface(" + a.String() + ")")
				}
				fr.env[x] = a
			case *ssa.MakeClosure:
				var bs []c11Val
				for _, bv := range x.Bindings {
					v, ok := get(bv)
					if !ok {
						return nil, r.undecided(x, "closure binding unknown")
					}
					bs = append(bs, v)
				}
				fr.env[x] = c11Val{k: c11Func, fn: x.Fn.(*ssa.Function), el: bs}
			case *ssa.MakeSlice:
				n, ok := get(x.Len)
				z, okz := c11ZeroOf(x.Type().Underlying().(*types.Slice).Elem())
				if !ok || n.k != c11Int || !okz || n.n < 0 || n.n > 4096 {
					return nil, r.undecided(x, "make of a slice outside the model")
				}
				o := r.newObj("make#"+strconv.Itoa(r.nobj), int(n.n), z)
				fr.env[x] = c11Val{k: c11Slice, obj: o, n: 0, m: n.n}
			case *ssa.IndexAddr:
				a, ok1 := get(x.X)
				i, ok2 := get(x.Index)
				if !ok1 || !ok2 || i.k != c11Int {
					return nil, r.undecided(x, "index %s is not a known integer", x)
				}
				switch a.k {
				case c11Ptr:
					if i.n < 0 || i.n >= a.m {
						return nil, r.panicEnd(x, "index %d out of range [0,%d)", i.n, a.m)
					}
					fr.env[x] = c11Val{k: c11Ptr, obj: a.obj, n: a.n + i.n, m: 1}
				case c11Slice:
					if i.n < 0 || i.n >= a.m-a.n {
						return nil, r.panicEnd(x, "index %d out of range [0,%d)", i.n, a.m-a.n)
					}
					fr.env[x] = c11Val{k: c11Ptr, obj: a.obj, n: a.n + i.n, m: 1}
				case c11Nil:
					return nil, r.panicEnd(x, "index into a nil slice or pointer")
				default:
					return nil, r.undecided(x, "indexing %s is outside the model", a)
				}
			case *ssa.Index:
				a, ok1 := get(x.X)
				i, ok2 := get(x.Index)
				if !ok1 || !ok2 || i.k != c11Int || a.k != c11Arr {
					return nil, r.undecided(x, "index expression outside the model")
				}
				if i.n < 0 || i.n >= int64(len(a.el)) {
					return nil, r.panicEnd(x, "index out of range")
				}
				fr.env[x] = a.el[i.n]
			case *ssa.Slice:
				a, ok := get(x.X)
				if !ok {
					return nil, r.undecided(x, "operand of slice expression unknown")
				}
				if x.Max != nil {
					return nil, r.undecided(x, "3-index slice is outside the model")
				}
				var base, length, capa int64
				switch a.k {
				case c11Ptr:
					base, length, capa = a.n, a.m, a.m
				case c11Slice:
					base, length, capa = a.n, a.m-a.n, int64(len(a.obj.cells))-a.n
				case c11Nil:
					if _, isP := x.X.Type().Underlying().(*types.Pointer); isP {
						return nil, r.panicEnd(x, "slice of a nil array pointer")
					}
					base, length, capa = 0, 0, 0
				default:
					return nil, r.undecided(x, "slicing %s is outside the model", a)
				}
				lo, hi := int64(0), length
				if x.Low != nil {
					v, ok := get(x.Low)
					if !ok || v.k != c11Int {
						return nil, r.undecided(x, "slice bound is not a known integer")
					}
					lo = v.n
				}
				if x.High != nil {
					v, ok := get(x.High)
					if !ok || v.k != c11Int {
						return nil, r.undecided(x, "slice bound is not a known integer")
					}
					hi = v.n
				}
				if lo < 0 || hi < lo || hi > capa {
					return nil, r.panicEnd(x, "slice bounds [%d:%d] out of range (cap %d)", lo, hi, capa)
				}
				if a.k == c11Nil {
					fr.env[x] = a
				} else {
					fr.env[x] = c11Val{k: c11Slice, obj: a.obj, n: base + lo, m: base + hi}
				}
			case *ssa.Store:
				p, ok1 := get(x.Addr)
				v, ok2 := get(x.Val)
				if !ok1 || !ok2 {
					return nil, r.undecided(x, "store of an unknown value")
				}
				if p.isNil() {
					return nil, r.panicEnd(x, "store through a nil pointer")
				}
				if !c11Store(p, v) {
					return nil, r.undecided(x, "store %s is outside the model", x)
				}
			case *ssa.Extract:
				t, ok := get(x.Tuple)
				if !ok || t.k != c11Tuple || x.Index >= len(t.el) {
					return nil, r.undecided(x, "tuple unknown")
				}
				fr.env[x] = t.el[x.Index]
			case *ssa.Call:
				res, end := r.doCall(fr, x, depth)
				if end != "" {
					return nil, end
				}
				fr.env[x] = res
			case *ssa.Defer:
				r.deferred = true
				return nil, r.undecided(x, "defer is outside the model")
			case *ssa.RunDefers:
			case *ssa.Return:
				var rs []c11Val
				for _, rv := range x.Results {
					v, ok := get(rv)
					if !ok {
						return nil, r.undecided(x, "result unknown")
					}
					rs = append(rs, v)
				}
				return rs, ""
			case *ssa.Panic:
				v, _ := get(x.X)
				return nil, r.panicEnd(x, "explicit panic(%s)", v)
			case *ssa.Jump:
				next = b.Succs[0]
			case *ssa.If:
				cnd, ok := get(x.Cond)
				if !ok || cnd.k != c11Int {
					return nil, r.undecided(x, "branch condition is not decided by the model")
				}
				if cnd.n != 0 {
					next = b.Succs[0]
				} else {
					next = b.Succs[1]
				}
			default:
				return nil, r.undecided(in, "instruction %T is outside the model", in)
			}
		}
		if next == nil {
			return nil, r.undecided(nil, "block without terminator in %s", fn.Name())
		}
		pred, b = b, next
	}
}

// fresh returns a new slice object holding the given cells.
func (r *c11Run) fresh(name string, cells []c11Val) c11Val {
	o := r.newObj(name, len(cells), c11I(0))
	copy(o.cells, cells)
	return c11Val{k: c11Slice, obj: o, n: 0, m: int64(len(cells))}
}

func c11SymCells(name string, n int) []c11Val {
	cs := make([]c11Val, n)
	for i := range cs {
		cs[i] = c11S(name + "[" + strconv.Itoa(i) + "]")
	}
	return cs
}

func c11Tup(vs ...c11Val) c11Val { return c11Val{k: c11Tuple, el: vs} }

func (r *c11Run) decide() bool {
	if r.used < len(r.dec) {
		d := r.dec[r.used]
		r.used++
		return d
	}
	r.dec = append(r.dec, false)
	r.used++
	return false
}

func (r *c11Run) doCall(fr *c11Frame, call *ssa.Call, depth int) (c11Val, string) {
	cc := &call.Call
	var args []c11Val
	for _, a := range cc.Args {
		v, ok := r.val(fr, a)
		if !ok {
			return c11Val{}, r.undecided(call, "argument of %s unknown", call)
		}
		args = append(args, v)
	}
	none := c11Tup()
	nilV := c11Val{k: c11Nil}
	if cc.IsInvoke() {
		recv, ok := r.val(fr, cc.Value)
		if !ok {
			return c11Val{}, r.undecided(call, "receiver unknown")
		}
		if recv.isNil() {
			return c11Val{}, r.panicEnd(call, "method call on a nil interface")
		}
		m := cc.Method.Name()
		switch {
		case strings.HasPrefix(recv.tag, "curve:") && (m == "NewPrivateKey" || m == "NewPublicKey") && len(args) == 1:
			kind := "priv"
			if m == "NewPublicKey" {
				kind = "pub"
			}
			if args[0].k != c11Slice && args[0].k != c11Nil {
				return c11Val{}, r.undecided(call, "key bytes outside the model")
			}
			fp := c11Fp(args[0].bytes())
			n, _ := args[0].length()
			if recv.tag != "curve:X25519" {
				fp = recv.tag + ":" + fp
			}
			failed := n != 32
			r.events = append(r.events, c11Event{kind: kind, a: fp, failed: failed, at: call})
			if failed {
				return c11Tup(nilV, c11S("err:"+m)), ""
			}
			return c11Tup(c11S(kind+"("+fp+")"), nilV), ""
		case strings.HasPrefix(recv.tag, "err:") && m == "Error":
			return c11S("str:?" + recv.tag), ""
		}
		return c11Val{}, r.undecided(call, "interface call %s on %s is outside the model", m, recv)
	}
	if bi, ok := cc.Value.(*ssa.Builtin); ok {
		switch bi.Name() {
		case "len", "cap":
			if args[0].k == c11Sym && strings.HasPrefix(args[0].tag, "str:") && !strings.Contains(args[0].tag, "?") {
				return c11I(int64(len(args[0].tag) - 4)), ""
			}
			n, ok := args[0].length()
			if !ok {
				return c11Val{}, r.undecided(call, "len of %s is outside the model", args[0])
			}
			if bi.Name() == "cap" && args[0].k == c11Slice {
				n = int64(len(args[0].obj.cells)) - args[0].n
			}
			return c11I(n), ""
		case "copy":
			d, s := args[0], args[1]
			if (d.k != c11Slice && d.k != c11Nil) || (s.k != c11Slice && s.k != c11Nil) {
				return c11Val{}, r.undecided(call, "copy operands outside the model")
			}
			src := append([]c11Val(nil), s.bytes()...)
			n := copy(d.bytes(), src)
			return c11I(int64(n)), ""
		case "clear":
			if args[0].k != c11Slice && args[0].k != c11Nil {
				return c11Val{}, r.undecided(call, "clear of %s is outside the model", args[0])
			}
			z, ok := c11ZeroOf(cc.Args[0].Type().Underlying().(*types.Slice).Elem())
			if !ok {
				return c11Val{}, r.undecided(call, "clear of aggregate elements")
			}
			bs := args[0].bytes()
			for i := range bs {
				bs[i] = z
			}
			return none, ""
		case "min", "max":
			best := args[0]
			for _, a := range args {
				if a.k != c11Int {
					return c11Val{}, r.undecided(call, "min/max of symbolic values")
				}
				if (bi.Name() == "min") == (a.n < best.n) && a.n != best.n {
					best = a
				}
			}
			return best, ""
		}
		return c11Val{}, r.undecided(call, "builtin %s is outside the model", bi.Name())
	}
	// closures and function values
	if _, isFn := cc.Value.(*ssa.Function); !isFn {
		fv, ok := r.val(fr, cc.Value)
		if !ok || fv.k != c11Func {
			return c11Val{}, r.undecided(call, "dynamic call is outside the model")
		}
		return r.enter(call, fv.fn, args, fv.el, depth)
	}
	callee := cc.StaticCallee()
	if callee.Pkg == r.pkg || (callee.Parent() != nil && callee.Parent().Pkg == r.pkg) {
		return r.enter(call, callee, args, nil, depth)
	}
	name := calleeName(cc)
	switch {
	case name == "crypto/ecdh.X25519":
		return c11S("curve:X25519"), ""
	case strings.HasPrefix(name, "crypto/ecdh.P"):
		return c11S("curve:" + strings.TrimPrefix(name, "crypto/ecdh.")), ""
	case callee.Name() == "init" && len(args) == 0:
		return none, "" // initializer of an imported package
	case name == "(*crypto/ecdh.PrivateKey).ECDH" && len(args) == 2:
		if args[0].isNil() || args[1].isNil() {
			return c11Val{}, r.panicEnd(call, "ECDH on a nil key")
		}
		if !strings.HasPrefix(args[0].tag, "priv(") || !(strings.HasPrefix(args[1].tag, "pub(") || strings.HasPrefix(args[1].tag, "pubof(")) {
			return c11Val{}, r.undecided(call, "ECDH operands %s, %s are outside the model", args[0], args[1])
		}
		// the base point has prime order: with a clamped scalar the secret is never zero
		failed := false
		if args[1].tag != "pub(base)" {
			failed = r.decide()
		}
		r.events = append(r.events, c11Event{kind: "ecdh", a: args[0].tag, b: args[1].tag, failed: failed, at: call})
		if failed {
			return c11Tup(nilV, c11S("err:ECDH")), ""
		}
		return c11Tup(r.fresh("out", c11SymCells("out("+args[0].tag+","+args[1].tag+")", 32)), nilV), ""
	case name == "(*crypto/ecdh.PrivateKey).PublicKey" && len(args) == 1:
		if !strings.HasPrefix(args[0].tag, "priv(") {
			if args[0].isNil() {
				return c11Val{}, r.panicEnd(call, "PublicKey of a nil key")
			}
			return c11Val{}, r.undecided(call, "PublicKey of %s", args[0])
		}
		return c11S("pubof(" + args[0].tag + ")"), ""
	case (name == "(*crypto/ecdh.PublicKey).Bytes" || name == "(*crypto/ecdh.PrivateKey).Bytes") && len(args) == 1:
		t := args[0].tag
		switch {
		case args[0].isNil():
			return c11Val{}, r.panicEnd(call, "Bytes of a nil key")
		case strings.HasPrefix(t, "pubof("):
			return r.fresh("bytes", c11SymCells(t, 32)), ""
		case t == "pub(base)":
			cs := make([]c11Val, 32)
			for i := range cs {
				cs[i] = c11I(0)
			}
			cs[0] = c11I(9)
			return r.fresh("bytes", cs), ""
		case strings.HasPrefix(t, "pub(") || strings.HasPrefix(t, "priv("):
			// the encoding of a key is the 32 bytes it was made from
			inner := t[strings.Index(t, "(")+1 : len(t)-1]
			if inner == "zero" {
				cs := make([]c11Val, 32)
				for i := range cs {
					cs[i] = c11I(0)
				}
				return r.fresh("bytes", cs), ""
			}
			if !strings.ContainsAny(inner, "{(,:") {
				return r.fresh("bytes", c11SymCells(inner, 32)), ""
			}
		}
		return c11Val{}, r.undecided(call, "Bytes of %s is outside the model", args[0])
	case name == "errors.New" || name == "fmt.Errorf":
		return c11S("err:" + name), ""
	case (name == "bytes.Clone" || name == "slices.Clone") && len(args) == 1:
		if args[0].isNil() {
			return args[0], ""
		}
		if args[0].k != c11Slice {
			return c11Val{}, r.undecided(call, "Clone of %s", args[0])
		}
		return r.fresh("clone", args[0].bytes()), ""
	case name == "crypto/subtle.ConstantTimeCopy" && len(args) == 3:
		if args[0].k != c11Int || (args[0].n != 0 && args[0].n != 1) {
			return c11Val{}, r.undecided(call, "ConstantTimeCopy selector is symbolic")
		}
		l1, _ := args[1].length()
		l2, _ := args[2].length()
		if l1 != l2 {
			return c11Val{}, r.panicEnd(call, "ConstantTimeCopy of slices of different lengths")
		}
		if args[0].n == 1 {
			copy(args[1].bytes(), append([]c11Val(nil), args[2].bytes()...))
		}
		return none, ""
	}
	return c11Val{}, r.undecided(call, "call of %s is outside the model", name)
}

func (r *c11Run) enter(call *ssa.Call, callee *ssa.Function, args, free []c11Val, depth int) (c11Val, string) {
	rs, end := r.call(callee, args, free, depth+1)
	if end != "" {
		return c11Val{}, end
	}
	if len(rs) == 1 {
		return rs[0], ""
	}
	return c11Tup(rs...), ""
}

// c11Outcome is one explored path of one entry point.
type c11Outcome struct {
	run     *c11Run
	end     string // "return", "panic", "undecided"
	results []c11Val
}

func (o *c11Outcome) ecdhFailed() bool {
	for _, e := range o.run.events {
		if e.kind == "ecdh" && e.failed {
			return true
		}
	}
	return false
}

// c11Explore runs the package initializer and then entry(args) once per
// combination of outcomes of the ECDH calls met on the way.
func c11Explore(pkg *ssa.Package, entry *ssa.Function, mkArgs func(r *c11Run) []c11Val) []*c11Outcome {
	var outs []*c11Outcome
	var dec []bool
	for len(outs) < 64 {
		r := &c11Run{pkg: pkg, dec: dec, globals: map[*ssa.Global]*c11Obj{}}
		o := &c11Outcome{run: r, end: "return"}
		end := ""
		if ini := pkg.Func("init"); ini != nil {
			_, end = r.call(ini, nil, nil, 0)
			if end != "" {
				r.why = "package initializer: " + r.why
			}
		}
		if end == "" && entry != nil {
			o.results, end = r.call(entry, mkArgs(r), nil, 0)
		}
		if end != "" {
			o.end = end
		}
		outs = append(outs, o)
		d := r.dec[:r.used]
		i := len(d) - 1
		for i >= 0 && d[i] {
			i--
		}
		if i < 0 {
			break
		}
		dec = append(append([]bool(nil), d[:i]...), true)
	}
	return outs
}
