package main

import (
	"fmt"

	"golang.org/x/tools/go/ssa"
)

// c21Fill: RFC 7292 appendix B.2 steps 2/3 — the salt and the password are
// each extended to v*ceil(len/v) bytes by repeating them (nothing for an empty
// input). fillWithRepeats is interpreted with slices represented by their
// lengths for every pattern length 0..300 and v = 64 (and v = 128 for the
// SHA-512 family block size): the returned slice must have exactly that
// length, every byte of it must come from repetitions of the pattern (a prefix
// of bytes.Repeat(pattern, k) with k*len >= the length, or copies whose source
// is the pattern), and no slice expression may leave its bounds.
func c21Fill(c *Ctx, pk string) {
	f := c.fn(pk, "fillWithRepeats")
	if f == nil {
		return
	}
	pat, vP := f.Params[0], f.Params[1]
	bad := ""
	cases := 0
	for _, v := range []int64{64, 128} {
		for n := int64(0); n <= 300 && bad == ""; n++ {
			w := &pathWalker{env: newEnv(), lengths: true, maxSteps: 20000}
			w.env.bind(pat, n)
			w.env.bind(vP, v)
			w.cls = map[ssa.Value]string{pat: "pattern"}
			w.onSlice = func(w *pathWalker, sl *ssa.Slice) {
				if cl, ok := w.cls[sl.X]; ok {
					lo := int64(0)
					if sl.Low != nil {
						lo, _ = w.env.eval(sl.Low)
					}
					if cl == "repeat" && lo != 0 {
						w.cls[sl] = "repeat-shifted"
					} else {
						w.cls[sl] = cl
					}
				}
			}
			w.onPhi = func(w *pathWalker, ph *ssa.Phi, in ssa.Value) {
				if cl, ok := w.cls[in]; ok {
					w.cls[ph] = cl
				} else {
					delete(w.cls, ph)
				}
			}
			problem := ""
			w.onCall = func(w *pathWalker, ci ssa.CallInstruction) string {
				cc := ci.Common()
				switch short(calleeName(cc)) {
				case "bytes.Repeat":
					l, ok1 := w.env.eval(cc.Args[0])
					k, ok2 := w.env.eval(cc.Args[1])
					if !ok1 || !ok2 || k < 0 {
						problem = "bytes.Repeat with an unevaluated or negative count"
						return ""
					}
					if w.cls[cc.Args[0]] != "pattern" {
						problem = "something other than the pattern is repeated"
					}
					w.env.bind(ci.(ssa.Value), l*k)
					w.cls[ci.(ssa.Value)] = "repeat"
				case "builtin:copy":
					if _, isOut := w.cls[cc.Args[0]]; isOut && w.cls[cc.Args[0]] == "out" {
						if src := w.cls[cc.Args[1]]; src != "pattern" && src != "out" {
							problem = "the output is filled from something other than the pattern"
						}
					}
				}
				return ""
			}
			end := w.walk(f.Blocks[0], nil)
			cases++
			id := fmt.Sprintf("pattern of %d bytes, v=%d", n, v)
			if end != "return" {
				bad = id + ": evaluation ended with " + end + " " + w.why
				break
			}
			ret := retVal(w.last.(*ssa.Return), 0)
			got := int64(0)
			if !isNilConst(ret) {
				g, ok := w.env.eval(ret)
				if !ok {
					bad = id + ": the result's length does not evaluate"
					break
				}
				got = g
			}
			want := v * ((n + v - 1) / v)
			switch {
			case problem != "":
				bad = id + ": " + problem
			case got != want:
				bad = fmt.Sprintf("%s: %d bytes returned, RFC 7292 B.2 requires v*ceil(len/v) = %d", id, got, want)
			case w.oob || w.beyondLen:
				bad = id + ": a slice expression leaves its bounds (fewer repetitions than bytes taken)"
			case !isNilConst(ret) && w.cls[ret] != "repeat" && w.cls[ret] != "out":
				if mk, isMk := sliceBase(ret).(*ssa.MakeSlice); !isMk || mk == nil {
					bad = id + ": the result is not made of repetitions of the pattern"
				}
			}
		}
	}
	c.check(bad == "" && cases == 602, "C21.kdf-fill", "fillWithRepeats", f, "v*ceil(len/v) bytes of repeated pattern for every pattern length 0..300, v in {64,128}", bad)
}
