package main

import (
	"fmt"

	"golang.org/x/tools/go/ssa"
)

// c21Fill: RFC 7292 appendix B.2 steps 2/3 — the salt and the password are
// each extended to v*ceil(len/v) bytes by repeating them (nothing for an empty
// input). fillWithRepeats is interpreted on byte CONTENTS (c21Sim) for every
// pattern length 0..300 and v = 64 (and v = 128 for the SHA-512 family block
// size), the pattern being n distinct non-zero bytes: the returned slice must
// have exactly that length and its i-th byte must be pattern[i mod n], and no
// index or slice expression may leave its bounds. How the repetition is
// produced (bytes.Repeat and a reslice, a copy loop into a fresh buffer, an
// append loop, a byte loop, a helper) does not matter.
func c21Fill(c *Ctx, pk string) {
	f := c.fn(pk, "fillWithRepeats")
	if f == nil {
		return
	}
	if len(f.Params) != 2 {
		c.fail("C21.kdf-fill", "fillWithRepeats", f, "fillWithRepeats no longer takes (pattern, v)")
		return
	}
	pat, vP := f.Params[0], f.Params[1]
	bad := ""
	cases := 0
	for _, v := range []int64{64, 128} {
		for n := int64(0); n <= 300 && bad == ""; n++ {
			s := newC21Sim()
			w := s.walker(f)
			w.maxSteps = 40000
			pattern := make([]int64, n)
			for i := range pattern {
				pattern[i] = int64(i*7+3)%251 + 1
			}
			s.mem["pattern"] = pattern
			w.env.bind(pat, n)
			w.cls[pat], w.off[pat] = "pattern", 0
			w.env.bind(vP, v)
			end := s.walk(w, f)
			cases++
			id := fmt.Sprintf("pattern of %d bytes, v=%d", n, v)
			if s.problem != "" && !s.oob && !w.oob {
				bad = id + ": " + s.problem
				break
			}
			if end == "panic" || w.oob || s.oob {
				bad = id + ": a slice or index expression leaves its bounds (fewer repetitions than bytes taken)"
				break
			}
			if end != "return" {
				bad = id + ": evaluation ended with " + end + " " + w.why
				break
			}
			ret := w.last.(*ssa.Return).Results[0]
			got, ok := w.env.eval(ret)
			if !ok {
				bad = id + ": the result's length does not evaluate"
				break
			}
			want := v * ((n + v - 1) / v)
			if got != want {
				bad = fmt.Sprintf("%s: %d bytes returned, RFC 7292 B.2 requires v*ceil(len/v) = %d", id, got, want)
				break
			}
			res, ok := s.bytesOf(w, ret)
			if !ok {
				bad = id + ": the contents of the result do not evaluate"
				break
			}
			for i, b := range res {
				if b != pattern[int64(i)%n] {
					bad = fmt.Sprintf("%s: byte %d of the result is not byte %d of the pattern (the result is not made of repetitions of the pattern)", id, i, int64(i)%n)
					break
				}
			}
		}
	}
	c.check(bad == "" && cases == 602, "C21.kdf-fill", "fillWithRepeats", f, "v*ceil(len/v) bytes, byte i = pattern[i mod len], for every pattern length 0..300, v in {64,128} (interpreted on contents)", bad)
}
