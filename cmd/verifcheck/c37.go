package main

import (
	"fmt"
	"go/token"
	"go/types"
	"strings"

	"golang.org/x/tools/go/ssa"
)

func init() {
	register(&propDef{
		id: "C37", run: runC37, minOblig: 14,
		explanation: "Decides structural clauses of remote-forward listeners: (no blocking under the list lock) no method of forwardList performs a channel send/receive while its mutex is held — on the pinned tree forwardList.forward does (KNOWN FINDING: Listener.Close can hang); (registration key) each listener is registered with forwards.add(network, K) and its Close calls forwards.remove(network, K') where K' is the listener field that was initialised with the very value K, with the same network constant, and remove precedes the cancel request; (close semantics) remove and closeAll close the entry's channel and drop the entry, under the lock; both listeners' Accept return an error when the channel is closed (evaluated); (exact delivery) forward delivers exactly when network AND address are equal to an entry's (4 cases evaluated) and handleChannels rejects the channel when forward reports false, when the payload does not parse, or when the origin address/port is invalid; add appends under the lock a fresh 1-buffered channel. NOT decided: liveness in general.",
		assumptions: []string{"a send on a full buffered channel blocks (Go semantics)"},
	})
	tech("C37", "lockset analysis with blocking-operation detection, key-provenance agreement between registration and removal, finite-domain evaluation of the match predicate")
}

func runC37(c *Ctx) {
	fns := c.funcsOfPkg("ssh")
	// ---- (a) no blocking under the forwardList mutex
	n := 0
	for _, f := range fns {
		if f.Signature.Recv() == nil || typeName(f.Signature.Recv().Type()) != "forwardList" {
			continue
		}
		n++
		bl := blockingUnder(f, ".Mutex")
		if len(bl) == 0 {
			c.ok("C37.no-block-under-lock", fnName(f), f, "no channel operation while the list mutex is held")
			continue
		}
		c.fail("C37.no-block-under-lock", fnName(f), bl[0], "a channel send is performed while the forward list's mutex is held; with two un-accepted forwarded connections the sender blocks holding the lock and Listener.Close (which needs the lock in remove) never returns")
	}
	c.check(n >= 5, "C37.no-block-under-lock", "forwardList methods", nil, fmt.Sprintf("%d methods analysed", n), "forwardList methods not found")
	// entries / locking
	for _, gs := range []guardSpec{{"forwardList", "entries", ".Mutex", false}} {
		c.checkGuarded("C37.lock", fns, gs, nil)
	}
	// ---- (b) registration key agreement
	for _, spec := range []struct {
		typ, field, network, closeFn string
	}{
		{"tcpListener", "addr", "tcp", "(*tcpListener).Close"},
		{"unixListener", "socketPath", "unix", "(*unixListener).Close"},
	} {
		// constructor sites: Store into typ.field
		okReg := false
		var regAt ssa.Instruction
		for _, f := range fns {
			for _, st := range storesTo(f, spec.typ, spec.field) {
				for _, ci := range callsNamed(f, "(*ssh.forwardList).add") {
					net, _ := constString(ci.Common().Args[1])
					if ci.Common().Args[2] == st.Val && net == spec.network {
						// and the listener's channel is the one add returned
						for _, st2 := range storesTo(f, spec.typ, "in") {
							if stripConv(st2.Val) == callValue(ci) {
								okReg = true
								regAt = st
							}
						}
					}
				}
			}
		}
		c.check(okReg, "C37.key-agreement", spec.typ+" registration", regAt, "registered under (\""+spec.network+"\", "+spec.field+") and reads from the channel add returned", "the listener is not registered under the value kept in its "+spec.field+" field (or does not read from the registered channel)")
		cf := c.fn("ssh", spec.closeFn)
		if cf == nil {
			continue
		}
		rm := callsNamed(cf, "(*ssh.forwardList).remove")
		okRm := len(rm) == 1
		if okRm {
			net, _ := constString(rm[0].Common().Args[1])
			_, fld, base, okf := fieldOf(rm[0].Common().Args[2])
			okRm = net == spec.network && okf && fld == spec.field && base == ssa.Value(cf.Params[0])
		}
		c.check(okRm, "C37.key-agreement", spec.closeFn+" removal key", cf, "Close removes (\""+spec.network+"\", l."+spec.field+")", "Close does not remove the entry under the key it was registered with (\""+spec.network+"\", l."+spec.field+"); the entry stays, Accept blocks and another listener's entry may be removed")
		sr := calls(cf, func(n string) bool { return strings.HasSuffix(n, ".SendRequest") })
		c.check(len(rm) == 1 && len(sr) == 1 && precedes(rm[0], sr[0]), "C37.close-order", spec.closeFn, cf, "the entry is removed (channel closed) before the cancel request round-trip", "Close does not remove the entry before sending the cancel request")
	}
	// ---- close semantics
	c37RemoveIdentity(c)
	for _, name := range []string{"(*forwardList).remove", "(*forwardList).closeAll"} {
		f := c.fn("ssh", name)
		if f == nil {
			continue
		}
		cl := calls(f, nameIs("builtin:close"))
		st := storesTo(f, "forwardList", "entries")
		li := computeLocks(f)
		ok := len(cl) == 1 && len(st) >= 1
		if ok {
			_, fld, _, okf := fieldOf(cl[0].Common().Args[0])
			ok = okf && fld == "c" && li.at(cl[0]).holds("", ".Mutex")
		}
		c.check(ok, "C37.close-entry", name, f, "closes the entry's channel and drops the entry under the lock", "the entry's channel is not closed / the entry not dropped under the lock")
	}
	if f := c.fn("ssh", "(*forwardList).remove"); f != nil {
		// only the matching entry: close reachable iff both equal
		c37Match(c, f, "C37.match", "(*forwardList).remove", func() ssa.Instruction {
			for _, ci := range calls(f, nameIs("builtin:close")) {
				return ci
			}
			return nil
		}())
	}
	for _, name := range []string{"(*tcpListener).Accept", "(*unixListener).Accept"} {
		f := c.fn("ssh", name)
		if f == nil {
			continue
		}
		var okv *ssa.Extract
		allInstrs(f, func(in ssa.Instruction) {
			if ex, isE := in.(*ssa.Extract); isE && ex.Index == 1 {
				if u, isU := ex.Tuple.(*ssa.UnOp); isU && u.Op == token.ARROW && u.CommaOk {
					okv = ex
				}
			}
		})
		good := okv != nil
		if good {
			e := newEnv()
			e.bind(okv, 0)
			e.solve(f)
			for _, r := range returnsOf(f) {
				if e.reach[r.Block()] && errNilness(r.Results[1], r.Block(), 0) != neverNil {
					good = false
				}
			}
		}
		c.check(good, "C37.accept-after-close", name, f, "a closed forward channel makes Accept return an error", "Accept does not turn a closed channel into an error")
	}
	// ---- exact delivery
	if f := c.fn("ssh", "(*forwardList).forward"); f != nil {
		var snd ssa.Instruction
		allInstrs(f, func(in ssa.Instruction) {
			if s, ok := in.(*ssa.Send); ok {
				snd = s
			}
		})
		c37Match(c, f, "C37.match", "(*forwardList).forward", snd)
		// true only after delivery
		okRet := true
		for _, r := range returnsOf(f) {
			if b, isC := constBool(retVal(r, 0)); isC && b {
				if snd == nil || !precedes(snd, r) {
					okRet = false
				}
			} else if !isC {
				okRet = false
			}
		}
		c.check(okRet, "C37.match", "(*forwardList).forward result", f, "reports true only after delivering to the matching entry", "forward can report success without delivering")
	}
	if f := c.fn("ssh", "(*forwardList).handleChannels"); f != nil {
		fw := callsNamed(f, "(*ssh.forwardList).forward")
		rej := calls(f, nameIs("invoke:(ssh.NewChannel).Reject"))
		okRej := len(fw) == 1
		if okRej {
			_, no := successEdges(fw[0].(*ssa.Call), 0, isTrue)
			okRej = len(no) > 0
			for _, e := range no {
				hit := false
				for _, r := range rej {
					if r.Block() == e.to() {
						hit = true
					}
				}
				if !hit {
					okRej = false
				}
			}
		}
		c.check(okRej, "C37.reject", "handleChannels spurious forward", f, "a forwarded channel with no matching listener is rejected", "a forwarded channel for an address with no listener is not rejected")
		// parse failures reject
		for _, cn := range []string{"ssh.Unmarshal", "ssh.parseTCPAddr"} {
			for i, ci := range callsNamed(f, cn) {
				_, no := errSuccessEdges(ci.(*ssa.Call))
				ok := len(no) > 0
				for _, e := range no {
					hit := false
					for _, r := range rej {
						if r.Block() == e.to() {
							hit = true
						}
					}
					if !hit {
						ok = false
					}
				}
				c.check(ok, "C37.reject", fmt.Sprintf("handleChannels %s#%d failure", cn, i), ci, "a malformed forwarded-channel payload is rejected", "a malformed forwarded-channel payload is not rejected")
			}
		}
		c.check(len(fw) == 1 && len(rej) >= 4, "C37.reject", "handleChannels reject sites", f, fmt.Sprintf("%d reject sites", len(rej)), fmt.Sprintf("only %d reject sites", len(rej)))
	}
	if f := c.fn("ssh", "parseTCPAddr"); f != nil {
		bad := ""
		for _, p := range []int64{0, 1, 65535, 65536, 1<<32 - 1} {
			e := newEnv()
			e.bind(f.Params[1], p)
			e.solve(f)
			got := false
			for _, t := range acceptReturns(f, 1) {
				if e.reach[t.Block()] {
					got = true
				}
			}
			if got != (p >= 1 && p <= 65535) {
				bad = fmt.Sprintf("port %d accepted=%v", p, got)
			}
		}
		c.check(bad == "", "C37.reject", "parseTCPAddr port range", f, "origin ports outside 1..65535 are rejected", bad)
	}
	if f := c.fn("ssh", "(*forwardList).add"); f != nil {
		var mk *ssa.MakeChan
		allInstrs(f, func(in ssa.Instruction) {
			if m, ok := in.(*ssa.MakeChan); ok {
				mk = m
			}
		})
		ok := mk != nil
		if ok {
			k, okk := constInt(mk.Size)
			ok = okk && k >= 1
		}
		c.check(ok, "C37.add", "(*forwardList).add", f, "a fresh buffered channel per registration", "add does not create a fresh buffered channel")
	}
	_ = types.Typ
}

// c37Match: target reachable exactly when both string comparisons (network, addr) are equal.
func c37Match(c *Ctx, f *ssa.Function, rule, name string, target ssa.Instruction) {
	var cmps []*ssa.BinOp
	allInstrs(f, func(in ssa.Instruction) {
		bo, ok := in.(*ssa.BinOp)
		if !ok || (bo.Op != token.EQL && bo.Op != token.NEQ) {
			return
		}
		if b, ok := bo.X.Type().Underlying().(*types.Basic); !ok || b.Info()&types.IsString == 0 {
			return
		}
		_, fx, _, okx := fieldOf(bo.X)
		_, fy, _, oky := fieldOf(bo.Y)
		_, px := bo.X.(*ssa.Parameter)
		_, py := bo.Y.(*ssa.Parameter)
		if (okx && py && (fx == "network" || fx == "addr")) || (oky && px && (fy == "network" || fy == "addr")) {
			cmps = append(cmps, bo)
		}
	})
	if target == nil || len(cmps) != 2 {
		c.fail(rule, name, f, fmt.Sprintf("anchors not found: delivery/close instruction=%v, %d comparisons of (network, addr) with the parameters (want 2)", target != nil, len(cmps)))
		return
	}
	// the two comparisons cover both fields, each against the like-named parameter
	fields := map[string]bool{}
	for _, bo := range cmps {
		for _, pr := range [][2]ssa.Value{{bo.X, bo.Y}, {bo.Y, bo.X}} {
			if _, fld, _, ok := fieldOf(pr[0]); ok {
				if p, ok := pr[1].(*ssa.Parameter); ok {
					want := map[string]string{"network": "n", "addr": "addr"}[fld]
					if p.Name() == want {
						fields[fld] = true
					}
				}
			}
		}
	}
	bad := ""
	for a := int64(0); a < 2; a++ {
		for b := int64(0); b < 2; b++ {
			e := newEnv()
			for i, bo := range cmps {
				v := []int64{a, b}[i]
				if bo.Op == token.NEQ {
					v = 1 - v
				}
				e.bind(bo, v)
			}
			cut := e.cuts(f)
			got := reachAfter(cmps[0], cut)[target.Block()] || cmps[0].Block() == target.Block()
			if !precedes(cmps[0], cmps[1]) {
				got = reachAfter(cmps[1], cut)[target.Block()]
			}
			if got != (a == 1 && b == 1) {
				bad = fmt.Sprintf("network equal=%d address equal=%d: entry selected=%v", a, b, got)
			}
		}
	}
	c.check(bad == "" && fields["network"] && fields["addr"], rule, name, target, "an entry is selected exactly when both network and address are equal to the request's", bad+fmt.Sprintf(" (fields compared with the like-named parameter: %v)", fields))
}
