package main

import (
	"fmt"
	"go/token"
	"go/types"
	"strings"

	"golang.org/x/tools/go/ssa"
)

func init() {
	register(&propDef{
		id: "C37", run: runC37, minOblig: 14,
		explanation: "Decides clauses of remote-forward listeners, independently of how the code is factored. (no blocking under the list lock) no function that takes the forwardList mutex performs a channel send/receive while it is held, in itself or in a helper it calls with the lock held — on the pinned tree forwardList.forward does (KNOWN FINDING: Listener.Close can hang); every access to forwardList.entries holds the lock (helpers inherit the locks of all their call sites). (registration key) each listener type is constructed from the value K passed to forwards.add(network, K) and the channel add returned, and its Close calls forwards.remove(network, K') where K' is the listener field initialised with that very K, with the same network constant (arguments resolved through helpers in the context of the call), and no path reaches the cancel request before remove. (list behaviour, by EVALUATION of the SSA bodies of add/forward/remove/closeAll on concrete histories of four registered listeners, nine requests, a duplicate key) add returns a fresh open empty channel with room; forward delivers exactly one value carrying the request's channel and remote address to the channel registered for exactly its network AND address and reports true, else delivers nothing and reports false; remove closes exactly that entry's channel while the list lock is held and drops exactly that entry (later forwards, a second remove, a later closeAll observed); closeAll closes every channel once under the lock and drops all; every call returns with the lock released. (Accept) evaluated on a closed channel, both listeners' Accept return a non-nil error without blocking or panicking. (reject) in handleChannels every channel taken from the peer is rejected or successfully forwarded before the next one is taken; a forward that reports false, a payload that does not parse and an invalid origin address/port lead to Reject before any delivery (paths followed through helpers, error returns folded); parseTCPAddr accepts ports 1..65535 only. NOT decided: liveness in general.",
		assumptions: []string{"a send on a full buffered channel blocks (Go semantics)", "the evaluated histories are single-goroutine; mutual exclusion of concurrent calls is the lockset clause"},
	})
	tech("C37", "lockset analysis with blocking-operation detection across helpers, key-provenance agreement between registration and removal resolved in call context, concrete evaluation of the forward list's methods and of Accept against an observational specification, interprocedural must-cross per received channel")
}

func runC37(c *Ctx) {
	fns := c.funcsOfPkg("ssh")
	listT := c.namedType("ssh", "forwardList")
	if listT == nil {
		return
	}
	listSt, _ := listT.Underlying().(*types.Struct)
	lockField := c37LockField(listSt)
	if !c.check(lockField != "", "C37.lock", "forwardList mutex", nil, "the list carries its mutex (field "+lockField+")", "forwardList has no sync.Mutex / sync.RWMutex field: the lock rules cannot be evaluated") {
		return
	}
	suffix := "." + lockField

	// ---- (a) no blocking under the forwardList mutex: every method of the list
	// and every other function that takes a forwardList's mutex
	n := 0
	for _, f := range fns {
		isMethod := f.Signature.Recv() != nil && typeName(f.Signature.Recv().Type()) == "forwardList"
		if !isMethod && !c37TakesListLock(f) {
			continue
		}
		n++
		bl := c37BlockingUnder(f, suffix)
		if len(bl) == 0 {
			c.ok("C37.no-block-under-lock", fnName(f), f, "no channel operation while the list mutex is held")
			continue
		}
		where := ""
		if bl[0].Parent() != f {
			where = " (in " + fnName(bl[0].Parent()) + ", called with the lock held)"
		}
		c.fail("C37.no-block-under-lock", fnName(f), bl[0], "a channel send is performed while the forward list's mutex is held"+where+"; with two un-accepted forwarded connections the sender blocks holding the lock and Listener.Close (which needs the lock in remove) never returns")
	}
	c.check(n >= 1, "C37.no-block-under-lock", "forwardList methods", nil, fmt.Sprintf("%d functions analysed", n), "no function operating on forwardList found")
	// entries / locking
	c.checkGuarded("C37.lock", fns, guardSpec{"forwardList", "entries", suffix, false}, nil)

	// ---- (b) registration key agreement
	for _, spec := range []struct{ typ, network string }{{"tcpListener", "tcp"}, {"unixListener", "unix"}} {
		keyField, regAt, why := c37Registration(c, fns, spec.typ, spec.network)
		c.check(keyField >= 0, "C37.key-agreement", spec.typ+" registration", regAt, "constructed from the key registered under \""+spec.network+"\" and reads from the channel add returned", why)
		closeName := "(*" + spec.typ + ").Close"
		cf := c.fn("ssh", closeName)
		if cf == nil || keyField < 0 {
			continue
		}
		fieldName := "?"
		if T := c.namedType("ssh", spec.typ); T != nil {
			if st, ok := T.Underlying().(*types.Struct); ok && keyField < st.NumFields() {
				fieldName = st.Field(keyField).Name()
			}
		}
		isRemove := nameIs("(*ssh.forwardList).remove")
		rm := c37Sites(cf, isRemove)
		okRm := len(rm) >= 1
		for _, s := range rm {
			args := s.call.Common().Args
			if len(args) < 3 {
				okRm = false
				continue
			}
			net, _ := c37ConstString(args[1], s.ctx)
			fld, okf := c37FieldLoad(args[2], s.ctx, cf, 0)
			if net != spec.network || !okf || fld != keyField {
				okRm = false
			}
		}
		c.check(okRm, "C37.key-agreement", closeName+" removal key", cf, "Close removes (\""+spec.network+"\", l."+fieldName+")", "Close does not remove the entry under the key it was registered with (\""+spec.network+"\", l."+fieldName+"); the entry stays, Accept blocks and another listener's entry may be removed")
		// no path reaches the cancel request before the entry was removed
		isSend := func(n string) bool { return strings.HasSuffix(n, ".SendRequest") }
		sr := c37Sites(cf, isSend)
		orderAct := func(in ssa.Instruction) c37act {
			if cc := callCommon(in); cc != nil {
				if _, isCall := in.(*ssa.Call); isCall && isRemove(short(calleeName(cc))) {
					return c37Stop
				}
				if isSend(short(calleeName(cc))) {
					return c37Hit
				}
			}
			return c37Go
		}
		hit, _ := c37Walk(cf, nil, cf.Blocks[0], 0, nil, func(in ssa.Instruction) bool { return orderAct(in) != c37Go },
			func(in ssa.Instruction, _ *c37ctx) c37act { return orderAct(in) })
		c.check(len(rm) >= 1 && len(sr) >= 1 && hit == nil, "C37.close-order", closeName, cf, "the entry is removed (channel closed) before the cancel request round-trip", "Close does not remove the entry before sending the cancel request")
	}

	// ---- the list's behaviour, evaluated
	c37Scenarios(c)
	for _, typ := range []string{"tcpListener", "unixListener"} {
		c37Accept(c, typ)
	}

	// ---- exact delivery: what handleChannels does with the verdict
	if f := c.fn("ssh", "(*forwardList).handleChannels"); f != nil {
		c37Reject(c, f)
	}
	if f := c.fn("ssh", "parseTCPAddr"); f != nil {
		bad := ""
		pi := -1
		for i, p := range f.Params {
			if b, ok := p.Type().Underlying().(*types.Basic); ok && b.Info()&types.IsInteger != 0 {
				pi = i
			}
		}
		for _, p := range []int64{0, 1, 65535, 65536, 1<<32 - 1} {
			if pi < 0 {
				bad = "no integer (port) parameter"
				break
			}
			e := newEnv()
			e.bind(f.Params[pi], p)
			e.solve(f)
			got := false
			for _, t := range acceptReturns(f, 1) {
				if e.reach[t.Block()] {
					got = true
				}
			}
			if got != (p >= 1 && p <= 65535) {
				bad = fmt.Sprintf("port %d accepted=%v", p, got)
			}
		}
		c.check(bad == "", "C37.reject", "parseTCPAddr port range", f, "origin ports outside 1..65535 are rejected", bad)
	}
}

// c37TakesListLock: f acquires the mutex of a forwardList.
func c37TakesListLock(f *ssa.Function) bool {
	found := false
	allInstrs(f, func(in ssa.Instruction) {
		if _, d := lockOp(in); d <= 0 {
			return
		}
		cc := callCommon(in)
		if cc == nil || len(cc.Args) == 0 {
			return
		}
		if fa, ok := cc.Args[0].(*ssa.FieldAddr); ok && typeName(fa.X.Type()) == "forwardList" {
			found = true
		}
	})
	return found
}

// c37Registration: somewhere in the package a call forwards.add(network, K)
// exists such that a listener of type typ is built with K in one field and the
// channel add returned in another field of the same object. The add call and
// the construction may lie in the same function or in helpers (a constructor,
// a registration wrapper) of a common root: every value is resolved to the
// root's context through the calls actually made, so a helper may have any
// number of call sites. Returns the index of the field that keeps K.
func c37Registration(c *Ctx, fns []*ssa.Function, typ, network string) (int, ssa.Instruction, string) {
	isAdd := nameIs("(*ssh.forwardList).add")
	isAddCall := func(in ssa.Instruction) bool {
		call, ok := in.(*ssa.Call)
		return ok && isAdd(short(calleeName(&call.Call)))
	}
	isTypStore := func(in ssa.Instruction) bool {
		st, ok := in.(*ssa.Store)
		if !ok {
			return false
		}
		fa, ok := st.Addr.(*ssa.FieldAddr)
		return ok && derefStruct(fa.X.Type()) != nil && typeName(fa.X.Type()) == typ
	}
	// roots: the functions that call add, and their static callers (two levels)
	roots := map[*ssa.Function]bool{}
	var order []*ssa.Function
	var up func(f *ssa.Function, d int)
	up = func(f *ssa.Function, d int) {
		if !roots[f] {
			roots[f] = true
			order = append(order, f)
		}
		if d >= 2 {
			return
		}
		for _, ci := range c.callersOf(f) {
			if _, isCall := ci.(*ssa.Call); isCall && ci.Parent() != nil && ci.Parent().Pkg == f.Pkg {
				up(ci.Parent(), d+1)
			}
		}
	}
	anyStore := false
	for _, f := range fns {
		hasAdd := false
		allInstrs(f, func(in ssa.Instruction) {
			if isAddCall(in) {
				hasAdd = true
			}
			if isTypStore(in) {
				anyStore = true
			}
		})
		if hasAdd {
			up(f, 0)
		}
	}
	if !anyStore {
		return -1, nil, "no construction of " + typ + " found"
	}
	why := "no forwards.add(\"" + network + "\", K) whose K and result are both kept in a " + typ
	var at ssa.Instruction
	for _, root := range order {
		adds := c37Instrs(root, isAddCall)
		if len(adds) == 0 {
			continue
		}
		stores := c37Instrs(root, isTypStore)
		if len(stores) == 0 {
			continue
		}
		type fstore struct {
			st    *ssa.Store
			field int
			obj   ssa.Value
			val   ssa.Value
			ctx   *c37ctx
		}
		var sts []fstore
		for _, s := range stores {
			st := s.in.(*ssa.Store)
			fa := st.Addr.(*ssa.FieldAddr)
			v, vc := s.ctx.resolve(stripConv(st.Val))
			o, _ := s.ctx.resolve(fa.X)
			sts = append(sts, fstore{st, fa.Field, o, stripConv(v), vc})
		}
		for _, a := range adds {
			call := a.in.(*ssa.Call)
			args := call.Call.Args
			if len(args) < 3 {
				continue
			}
			if net, _ := c37ConstString(args[1], a.ctx); net != network {
				continue
			}
			key, kc := a.ctx.resolve(stripConv(args[2]))
			key = stripConv(key)
			res, rc := c37Up(call, a.ctx)
			if at == nil {
				at = call
			}
			for _, sk := range sts {
				if sk.val != key || sk.ctx.key() != kc.key() {
					continue
				}
				at = sk.st
				for _, sc := range sts {
					if sc.obj == sk.obj && sc.field != sk.field && sc.val == res && sc.ctx.key() == rc.key() {
						return sk.field, sk.st, ""
					}
				}
				why = "the listener registered under \"" + network + "\" does not read from the channel add returned"
			}
		}
	}
	return -1, at, why + " (the listener is not registered under the value kept in its key field, or does not read from the registered channel)"
}

// c37Reject: handleChannels. Every channel taken from the peer is, before the
// next one is taken (or the function returns), either rejected or handed to
// forward with result true; and after a forward that reported false, a payload
// that failed to parse, or an origin address that failed to parse, the channel
// is rejected before anything else happens to it. All paths run through the
// helpers of the package expanded in place.
func c37Reject(c *Ctx, f *ssa.Function) {
	isNewChan := func(t types.Type) bool {
		ct, ok := t.Underlying().(*types.Chan)
		return ok && typeName(ct.Elem()) == "NewChannel"
	}
	isTake := func(in ssa.Instruction) bool {
		switch x := in.(type) {
		case *ssa.UnOp:
			return x.Op == token.ARROW && isNewChan(x.X.Type())
		case *ssa.Select:
			for _, st := range x.States {
				if st.Dir == types.RecvOnly && isNewChan(st.Chan.Type()) {
					return true
				}
			}
		}
		return false
	}
	isReject := func(in ssa.Instruction) bool {
		cc := callCommon(in)
		if cc == nil {
			return false
		}
		if _, isCall := in.(*ssa.Call); !isCall {
			return false
		}
		return cc.IsInvoke() && cc.Method.Name() == "Reject" && typeName(cc.Value.Type()) == "NewChannel"
	}
	// where channels are taken
	type take struct {
		in  ssa.Instruction
		ctx *c37ctx
	}
	isForward := nameIs("(*ssh.forwardList).forward")
	isForwardCall := func(in ssa.Instruction) bool {
		cc := callCommon(in)
		return cc != nil && isForward(short(calleeName(cc)))
	}
	interesting := func(in ssa.Instruction) bool { return isTake(in) || isReject(in) || isForwardCall(in) }
	var takes []take
	seenTake := map[ssa.Instruction]bool{}
	c37Walk(f, nil, f.Blocks[0], 0, nil, interesting, func(in ssa.Instruction, ctx *c37ctx) c37act {
		if isTake(in) && !seenTake[in] {
			seenTake[in] = true
			takes = append(takes, take{in, ctx})
		}
		return c37Go
	})
	// forward calls and the edges on which they reported true / false
	fw := c37Sites(f, isForward)
	pass := edgeSet{}
	var fwFalse []c37start
	for _, s := range fw {
		call, ok := s.call.(*ssa.Call)
		if !ok {
			continue
		}
		pass.addAll(c37ResultEdges(call, s.ctx, 0, isTrue, &fwFalse))
	}
	endOfTurn := func(in ssa.Instruction, ctx *c37ctx) bool {
		if isTake(in) {
			return true
		}
		_, isRet := in.(*ssa.Return)
		return isRet && ctx.call == nil
	}
	// (1) forward reported false -> Reject before the next channel
	okSpur := len(fw) >= 1 && len(fwFalse) > 0
	var spurAt poser = f
	for _, s := range fwFalse {
		hit, _ := c37Walk(f, s.ctx, s.e.to(), 0, pass, interesting, func(in ssa.Instruction, ctx *c37ctx) c37act {
			if isReject(in) {
				return c37Stop
			}
			if endOfTurn(in, ctx) {
				return c37Hit
			}
			return c37Go
		})
		if hit != nil {
			okSpur = false
			spurAt = fw[0].call
		}
	}
	if len(fw) >= 1 && okSpur {
		spurAt = fw[0].call
	}
	c.check(okSpur, "C37.reject", "handleChannels spurious forward", spurAt, "a forwarded channel with no matching listener is rejected", "a forwarded channel for an address with no listener is not rejected")
	// (2) parse failures -> Reject before the next channel and before any delivery
	nParse := 0
	for _, cn := range []string{"ssh.Unmarshal", "ssh.parseTCPAddr"} {
		for i, s := range c37Sites(f, nameIs(cn)) {
			call, ok := s.call.(*ssa.Call)
			if !ok {
				continue
			}
			nParse++
			var fails []c37start
			c37ResultEdges(call, s.ctx, call.Call.Signature().Results().Len()-1, isNil, &fails)
			ok = len(fails) > 0
			for _, st := range fails {
				hit, _ := c37Walk(f, st.ctx, st.e.to(), 0, nil, interesting, func(in ssa.Instruction, ctx *c37ctx) c37act {
					if isReject(in) {
						return c37Stop
					}
					if isForwardCall(in) {
						return c37Hit
					}
					if endOfTurn(in, ctx) {
						return c37Hit
					}
					return c37Go
				})
				if hit != nil {
					ok = false
				}
			}
			c.check(ok, "C37.reject", fmt.Sprintf("handleChannels %s#%d failure", cn, i), call, "a malformed forwarded-channel payload is rejected", "a malformed forwarded-channel payload is not rejected")
		}
	}
	// (3) the whole turn: taken -> rejected or delivered
	okTurn := len(takes) >= 1 && len(fw) >= 1 && nParse >= 2
	var turnAt poser = f
	detail := fmt.Sprintf("channel receive sites=%d, forward calls=%d, payload/origin parse calls=%d (anchors not found)", len(takes), len(fw), nParse)
	for _, t := range takes {
		// the channel is closed: the loop ends, nothing was taken
		cut := edgeSet{}
		for e := range pass {
			cut[e] = true
		}
		if u, ok := t.in.(*ssa.UnOp); ok && u.CommaOk {
			for _, r := range *u.Referrers() {
				if ex, ok := r.(*ssa.Extract); ok && ex.Index == 1 {
					_, no := boolEdges(ex, true)
					cut.addAll(no)
				}
			}
		}
		hit, _ := c37Walk(f, t.ctx, t.in.Block(), instrIndex(t.in)+1, cut, interesting, func(in ssa.Instruction, ctx *c37ctx) c37act {
			if isReject(in) {
				return c37Stop
			}
			if endOfTurn(in, ctx) {
				return c37Hit
			}
			return c37Go
		})
		if hit != nil {
			okTurn = false
			turnAt = hit
			detail = "a channel taken from the peer can reach the next receive (or the end of the handler) neither rejected nor delivered: the peer's channel open is never answered"
		}
	}
	c.check(okTurn, "C37.reject", "handleChannels every channel answered", turnAt, fmt.Sprintf("every channel taken is rejected or delivered before the next is taken (%d receive site(s), %d forward call(s))", len(takes), len(fw)), detail)
}

type c37start struct {
	e   edge
	ctx *c37ctx
}

// c37ResultEdges: the edges taken exactly when P holds for result number idx of
// call (which lies in ctx); the edges taken when it does not are appended to
// *neg together with the context they lie in. When the function of the call
// does not branch on the result but returns it to its caller, the caller's
// branches on the helper's result are used instead — the positive ones only
// when every other return of the helper yields a value for which P cannot
// hold (a constant false, a definitely non-nil error).
func c37ResultEdges(call *ssa.Call, ctx *c37ctx, idx int, k predKind, neg *[]c37start) (yes []edge) {
	sound := true
	for depth := 0; depth <= c37Depth && call != nil && idx >= 0; depth++ {
		vals := resultN(call, idx)
		found := false
		for _, v := range vals {
			y, n := edgesWhere(v, k)
			if len(y)+len(n) > 0 {
				found = true
			}
			if sound {
				yes = append(yes, y...)
			}
			for _, e := range n {
				*neg = append(*neg, c37start{e, ctx})
			}
		}
		if found || ctx == nil || ctx.call == nil {
			return yes
		}
		// returned to the caller?
		g := call.Parent()
		isVal := func(res ssa.Value) bool {
			for _, v := range vals {
				if res == v {
					return true
				}
			}
			return false
		}
		j := -1
		for _, r := range returnsOf(g) {
			for ri, res := range r.Results {
				if isVal(res) {
					j = ri
				}
			}
		}
		if j < 0 {
			return yes
		}
		for _, r := range returnsOf(g) {
			res := r.Results[j]
			if isVal(res) {
				continue
			}
			switch k {
			case isTrue:
				if b, isC := constBool(res); !isC || b {
					sound = false
				}
			case isNil:
				if errNilness(res, r.Block(), 0) != neverNil {
					sound = false
				}
			default:
				sound = false
			}
		}
		call, ctx, idx = ctx.call, ctx.parent, j
	}
	return yes
}
