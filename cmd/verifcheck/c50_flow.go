package main

import (
	"fmt"
	"go/token"
	"strings"

	"golang.org/x/tools/go/ssa"
)

// Interprocedural value-flow and path helpers of property C50. Everything is
// keyed by ROLE (which field, which callee, which parameter index), never by
// the name of a local, a parameter or a receiver, and every search looks
// through the static callees of the acme package with the call tree expanded
// in place (context-sensitively: a helper's parameter is the argument of the
// call it was entered from; a helper returns to that call).

const c50Depth = 5

type c50ctx struct {
	parent *c50ctx
	call   *ssa.Call // the call in parent.fn through which fn was entered (nil at the root)
	fn     *ssa.Function
	depth  int
}

func (x *c50ctx) key() string {
	s := ""
	for y := x; y != nil && y.call != nil; y = y.parent {
		s += fmt.Sprintf("%p/", y.call)
	}
	if x != nil {
		for y := x; y != nil; y = y.parent {
			if y.parent == nil {
				s += fmt.Sprintf("@%p", y.fn)
			}
		}
	}
	return s
}

func (x *c50ctx) active(f *ssa.Function) bool {
	for y := x; y != nil; y = y.parent {
		if y.fn == f {
			return true
		}
	}
	return false
}

// c50Expand: the callee of call when it is a helper to look into from ctx.
func c50Expand(ctx *c50ctx, call *ssa.Call, opaque func(*ssa.Function) bool) *ssa.Function {
	if ctx == nil || call == nil || call.Call.IsInvoke() {
		return nil
	}
	g := samePkgCallee(ctx.fn, &call.Call)
	if g == nil || ctx.depth >= c50Depth || ctx.active(g) || (opaque != nil && opaque(g)) {
		return nil
	}
	if len(g.Params) != len(call.Call.Args) {
		return nil
	}
	return g
}

type c50leaf struct {
	val ssa.Value
	ctx *c50ctx
}

func (l c50leaf) same(m c50leaf) bool { return l.val == m.val && l.ctx.key() == m.ctx.key() }

// c50Leaves: where the value v (seen in context ctx) can come from: through
// phis, type changes, the result spill slots of functions with defers, the
// returns of helpers (expanded in place) and a helper's parameters back to the
// arguments of the call it was entered from. Callees for which opaque holds are
// not entered (their call/extract is the leaf).
func c50Leaves(v ssa.Value, ctx *c50ctx, opaque func(*ssa.Function) bool) []c50leaf {
	var out []c50leaf
	seen := map[string]bool{}
	var rec func(v ssa.Value, ctx *c50ctx)
	results := func(call *ssa.Call, idx int, ctx *c50ctx) bool {
		g := c50Expand(ctx, call, opaque)
		if g == nil {
			return false
		}
		sub := &c50ctx{parent: ctx, call: call, fn: g, depth: ctx.depth + 1}
		for _, r := range returnsOf(g) {
			if rv := retVal(r, idx); rv != nil {
				rec(rv, sub)
			}
		}
		return true
	}
	rec = func(v ssa.Value, ctx *c50ctx) {
		k := fmt.Sprintf("%s|%p", ctx.key(), v)
		if seen[k] {
			return
		}
		seen[k] = true
		switch x := v.(type) {
		case *ssa.Phi:
			for _, e := range x.Edges {
				rec(e, ctx)
			}
			return
		case *ssa.ChangeType:
			rec(x.X, ctx)
			return
		case *ssa.Parameter:
			if ctx != nil && ctx.call != nil && x.Parent() == ctx.fn {
				for i, p := range ctx.fn.Params {
					if p == x && i < len(ctx.call.Call.Args) {
						rec(ctx.call.Call.Args[i], ctx.parent)
						return
					}
				}
			}
		case *ssa.UnOp:
			if al, ok := x.X.(*ssa.Alloc); ok && x.Op == token.MUL {
				if _, private := c50SlotStores(al); private {
					for _, st := range c50Reaching(x, al) {
						rec(st.Val, ctx)
					}
					return
				}
			}
		case *ssa.Extract:
			if call, ok := x.Tuple.(*ssa.Call); ok && results(call, x.Index, ctx) {
				return
			}
		case *ssa.Call:
			if x.Call.Signature().Results().Len() == 1 && results(x, 0, ctx) {
				return
			}
		}
		out = append(out, c50leaf{v, ctx})
	}
	rec(v, ctx)
	return out
}

// c50SlotStores: the stores into a local slot; private is false when the
// slot's address is used for anything but plain loads and stores.
func c50SlotStores(al *ssa.Alloc) (stores []*ssa.Store, private bool) {
	private = true
	for _, r := range *al.Referrers() {
		switch y := r.(type) {
		case *ssa.Store:
			if y.Addr == ssa.Value(al) {
				stores = append(stores, y)
			} else {
				private = false
			}
		case *ssa.UnOp, *ssa.DebugRef:
		default:
			private = false
		}
	}
	return
}

// c50Reaching: the stores into the private slot al whose value the load ld
// can observe (reaching definitions; the zero value at entry is not listed).
func c50Reaching(ld *ssa.UnOp, al *ssa.Alloc) []*ssa.Store {
	var out []*ssa.Store
	lastIn := func(b *ssa.BasicBlock, before int) *ssa.Store {
		for i := before - 1; i >= 0; i-- {
			if st, ok := b.Instrs[i].(*ssa.Store); ok && st.Addr == ssa.Value(al) {
				return st
			}
		}
		return nil
	}
	if st := lastIn(ld.Block(), instrIndex(ld)); st != nil {
		return []*ssa.Store{st}
	}
	seen := map[*ssa.BasicBlock]bool{}
	work := append([]*ssa.BasicBlock{}, ld.Block().Preds...)
	for len(work) > 0 {
		b := work[len(work)-1]
		work = work[:len(work)-1]
		if seen[b] {
			continue
		}
		seen[b] = true
		if st := lastIn(b, len(b.Instrs)); st != nil {
			out = append(out, st)
			continue
		}
		work = append(work, b.Preds...)
	}
	return out
}

type c50pos struct {
	ctx *c50ctx
	b   *ssa.BasicBlock
	i   int
}

// c50Walk explores the call tree expanded in place from start and returns the
// first instruction satisfying target that can be reached without executing an
// instruction satisfying barrier and without crossing a cut edge (nil if
// none). A helper all of whose paths are stopped does not return, so the code
// after its call is not reached through it.
func c50Walk(start c50pos, cut edgeSet, barrier, target func(ssa.Instruction, *c50ctx) bool, opaque func(*ssa.Function) bool) ssa.Instruction {
	type key struct {
		ctx string
		b   *ssa.BasicBlock
		i   int
	}
	seen := map[key]bool{}
	work := []c50pos{start}
	for len(work) > 0 {
		p := work[len(work)-1]
		work = work[:len(work)-1]
		k := key{p.ctx.key(), p.b, p.i}
		if seen[k] {
			continue
		}
		seen[k] = true
		stopped := false
		for i := p.i; i < len(p.b.Instrs) && !stopped; i++ {
			in := p.b.Instrs[i]
			if barrier != nil && barrier(in, p.ctx) {
				stopped = true
				break
			}
			if target != nil && target(in, p.ctx) {
				return in
			}
			switch x := in.(type) {
			case *ssa.Call:
				if g := c50Expand(p.ctx, x, opaque); g != nil {
					sub := &c50ctx{parent: p.ctx, call: x, fn: g, depth: p.ctx.depth + 1}
					work = append(work, c50pos{sub, g.Blocks[0], 0})
					stopped = true
				}
			case *ssa.Return:
				if p.ctx.parent != nil && p.ctx.call != nil {
					work = append(work, c50pos{p.ctx.parent, p.ctx.call.Block(), instrIndex(p.ctx.call) + 1})
				}
				stopped = true
			case *ssa.Panic:
				stopped = true
			}
		}
		if stopped {
			continue
		}
		for j, s := range p.b.Succs {
			if cut[edge{p.b, j}] {
				continue
			}
			work = append(work, c50pos{p.ctx, s, 0})
		}
	}
	return nil
}

// c50Chains: every context (chain of calls expanded from root) in which
// function g is entered; the root context itself when g == root.
func c50Chains(root, g *ssa.Function) []*c50ctx {
	var out []*c50ctx
	var rec func(ctx *c50ctx)
	rec = func(ctx *c50ctx) {
		if ctx.fn == g {
			out = append(out, ctx)
			return
		}
		allInstrs(ctx.fn, func(in ssa.Instruction) {
			if call, ok := in.(*ssa.Call); ok {
				if h := c50Expand(ctx, call, nil); h != nil {
					rec(&c50ctx{parent: ctx, call: call, fn: h, depth: ctx.depth + 1})
				}
			}
		})
	}
	rec(&c50ctx{fn: root})
	return out
}

// ---------------------------------------------------------------------------
// roles

func c50IsPool(v ssa.Value) bool { return isField(v, "Client", "nonces") }

// c50PoolKey: v is the key produced by ranging over the nonce pool.
func c50PoolKey(v ssa.Value) bool {
	ex, ok := v.(*ssa.Extract)
	if !ok || ex.Index != 1 {
		return false
	}
	nx, ok := ex.Tuple.(*ssa.Next)
	if !ok {
		return false
	}
	rg, ok := nx.Iter.(*ssa.Range)
	return ok && c50IsPool(rg.X)
}

// c50IsReset: the instruction empties the pool (a fresh map is stored into
// the field, or clear(pool)).
func c50IsReset(in ssa.Instruction) bool {
	switch x := in.(type) {
	case *ssa.Store:
		if _, fresh := x.Val.(*ssa.MakeMap); fresh && c50IsPool(x.Addr) {
			return true
		}
	case *ssa.Call:
		if calleeName(&x.Call) == "builtin:clear" && len(x.Call.Args) == 1 && c50IsPool(x.Call.Args[0]) {
			return true
		}
	}
	return false
}

type c50an struct {
	c        *Ctx
	sinkSeen map[ssa.CallInstruction]bool
}

// exported reports whether outside code can call f directly.
func c50Exported(f *ssa.Function) bool {
	return f.Object() != nil && f.Object().Exported()
}

// callerArgs: for a root parameter p of an unexported function, the argument
// every static call passes for it (ok=false: exported, no caller, go/defer).
func (a *c50an) callerArgs(p *ssa.Parameter) (sites []ssa.CallInstruction, args []ssa.Value, ok bool) {
	f := p.Parent()
	if f == nil || c50Exported(f) {
		return nil, nil, false
	}
	idx := -1
	for i, q := range f.Params {
		if q == p {
			idx = i
		}
	}
	cs := a.c.callersOf(f)
	if idx < 0 || len(cs) == 0 {
		return nil, nil, false
	}
	for _, ci := range cs {
		cc := ci.Common()
		if cc.IsInvoke() || idx >= len(cc.Args) {
			return nil, nil, false
		}
		sites = append(sites, ci)
		args = append(args, cc.Args[idx])
	}
	return sites, args, true
}

// headerOK: h is the Header of a received *http.Response — directly, or a
// parameter that every caller binds to one (each such call site is recorded
// as a nonce-sink obligation).
func (a *c50an) headerOK(h ssa.Value, ctx *c50ctx, depth int) bool {
	ok := true
	ls := c50Leaves(h, ctx, nil)
	if len(ls) == 0 {
		return false
	}
	for _, l := range ls {
		if _, fld, base, isF := fieldOf(l.val); isF && fld == "Header" && strings.HasSuffix(base.Type().String(), "net/http.Response") {
			continue
		}
		p, isP := l.val.(*ssa.Parameter)
		if !isP || depth >= 3 {
			ok = false
			continue
		}
		sites, args, known := a.callerArgs(p)
		if !known {
			ok = false
			continue
		}
		for i, arg := range args {
			site := sites[i]
			good := a.headerOK(arg, &c50ctx{fn: site.Parent()}, depth+1)
			if !a.sinkSeen[site] {
				a.sinkSeen[site] = true
				a.c.check(good, "C50.nonce-sink", short(strings.TrimPrefix(fnName(p.Parent()), "(*Client)."))+" in "+fnName(site.Parent()), site,
					"pools the Replay-Nonce of a received HTTP response",
					fnName(p.Parent())+" is fed a header that is not a received response's Header (a used nonce could re-enter the pool)")
			}
			if !good {
				ok = false
			}
		}
	}
	return ok
}

// fresh: every origin of the string v is the Replay-Nonce of a received HTTP
// response (Header.Get / Header.Values / header["Replay-Nonce"][i]), or the
// empty string; a root parameter is followed to every caller. why names the
// first origin that is something else.
func (a *c50an) fresh(v ssa.Value, ctx *c50ctx, opaque func(*ssa.Function) bool, depth int) (ok bool, why string) {
	ok = true
	for _, l := range c50Leaves(v, ctx, opaque) {
		if good, w := a.freshLeaf(l, opaque, depth); !good {
			ok = false
			if why == "" {
				why = w
			}
		}
	}
	return
}

func (a *c50an) freshLeaf(l c50leaf, opaque func(*ssa.Function) bool, depth int) (bool, string) {
	if s, isC := constString(l.val); isC && s == "" {
		return true, ""
	}
	at := a.c.posStr(l.val.Pos())
	replay := func(k ssa.Value) bool {
		for _, kl := range c50Leaves(k, l.ctx, nil) {
			if s, isC := constString(kl.val); !isC || !strings.EqualFold(s, "Replay-Nonce") {
				return false
			}
		}
		return true
	}
	switch x := l.val.(type) {
	case *ssa.Call:
		n := calleeName(&x.Call)
		if (n == "(net/http.Header).Get" || n == "(net/http.Header).Values") && len(x.Call.Args) == 2 {
			if replay(x.Call.Args[1]) && a.headerOK(x.Call.Args[0], l.ctx, 0) {
				return true, ""
			}
			return false, "a header value at " + at + " that is not the Replay-Nonce of a received response"
		}
	case *ssa.UnOp:
		// header["Replay-Nonce"][i]
		if ia, isIA := x.X.(*ssa.IndexAddr); isIA && x.Op == token.MUL {
			if lk, isL := ia.X.(*ssa.Lookup); isL && replay(lk.Index) && a.headerOK(lk.X, l.ctx, 0) {
				return true, ""
			}
		}
	case *ssa.Parameter:
		if depth < 3 {
			if sites, args, known := a.callerArgs(x); known {
				for i, arg := range args {
					if good, w := a.fresh(arg, &c50ctx{fn: sites[i].Parent()}, opaque, depth+1); !good {
						return false, w
					}
				}
				return true, ""
			}
		}
		return false, "parameter " + x.Name() + " of " + fnName(x.Parent()) + " (callers unknown)"
	}
	if c50PoolKey(l.val) {
		return false, "a key read from the pool at " + at
	}
	return false, "the value at " + at
}

// ---------------------------------------------------------------------------
// forward flow of a nonce

type c50use struct {
	sinks  []ssa.Instruction
	others []ssa.Instruction
}

// c50Consumers follows v forward: through phis, type changes, private local
// slots, into the parameters of acme helpers it is passed to and out of the
// functions that return it (to every caller). isSink decides which uses are
// the intended consumption; stopAt ends the upward flow at a function's
// return (its callers are examined by another rule). Comparisons are harmless.
func (a *c50an) consumers(v ssa.Value, isSink func(in ssa.Instruction, v ssa.Value) bool, stopAt func(*ssa.Function) bool) c50use {
	var u c50use
	seen := map[ssa.Value]bool{}
	var rec func(v ssa.Value, depth int)
	rec = func(v ssa.Value, depth int) {
		if seen[v] || depth > 8 {
			return
		}
		seen[v] = true
		refs := v.Referrers()
		if refs == nil {
			return
		}
		for _, r := range *refs {
			if isSink(r, v) {
				u.sinks = append(u.sinks, r)
				continue
			}
			switch x := r.(type) {
			case *ssa.DebugRef:
			case *ssa.Phi:
				rec(x, depth)
			case *ssa.ChangeType:
				rec(x, depth)
			case *ssa.BinOp:
				switch x.Op {
				case token.EQL, token.NEQ, token.LSS, token.GTR, token.LEQ, token.GEQ:
				default:
					u.others = append(u.others, r)
				}
			case *ssa.Store:
				al, isAl := x.Addr.(*ssa.Alloc)
				if !isAl || x.Val != v {
					u.others = append(u.others, r)
					break
				}
				if _, private := c50SlotStores(al); !private {
					u.others = append(u.others, r)
					break
				}
				for _, q := range *al.Referrers() {
					if ld, isLd := q.(*ssa.UnOp); isLd && ld.Op == token.MUL {
						for _, st := range c50Reaching(ld, al) {
							if st == x {
								rec(ld, depth)
							}
						}
					}
				}
			case *ssa.Return:
				g := x.Parent()
				if stopAt != nil && stopAt(g) {
					break
				}
				if c50Exported(g) {
					u.others = append(u.others, r)
					break
				}
				for i, res := range x.Results {
					if res != v {
						continue
					}
					for _, ci := range a.c.callersOf(g) {
						call, isCall := ci.(*ssa.Call)
						if !isCall {
							continue
						}
						if len(x.Results) == 1 {
							rec(call, depth+1)
							continue
						}
						for _, q := range *call.Referrers() {
							if ex, isEx := q.(*ssa.Extract); isEx && ex.Index == i {
								rec(ex, depth+1)
							}
						}
					}
				}
			case ssa.CallInstruction:
				cc := x.Common()
				if calleeName(cc) == "builtin:len" {
					break
				}
				g := cc.StaticCallee()
				if g == nil || cc.IsInvoke() || len(g.Blocks) == 0 || g.Pkg != x.Parent().Pkg || len(g.Params) != len(cc.Args) {
					u.others = append(u.others, r)
					break
				}
				for i, arg := range cc.Args {
					if arg == v {
						rec(g.Params[i], depth+1)
					}
				}
			default:
				u.others = append(u.others, r)
			}
		}
	}
	rec(v, 0)
	return u
}
