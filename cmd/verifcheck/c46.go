package main

import (
	"fmt"
	"go/ast"
	"go/constant"
	"go/token"
	"go/types"
	"sort"
	"strings"

	"golang.org/x/tools/go/ssa"
)

func init() {
	register(&propDef{
		id: "C46", run: runC46, minOblig: 40,
		explanation: "Decides structural necessary conditions of the armor and clearsign round trips. (armor CRC) openpgpReader.Read returns ArmorCorrupt exactly when the base64 reader reported EOF, a checksum line was recorded and the recorded CRC differs from the running CRC (truth table over the three conditions, evaluated on the code); the running CRC is updated with crc24 over exactly the bytes handed to the caller and starts from crc24Init on both the encoder and the decoder; the three checksum bytes are written most-significant first by encoding.Close and recombined in the same order by lineReader.Read (finite-domain evaluation of both expressions); lineReader records crcSet only after storing the CRC and after the END line test, and rejects over-long lines; writer and reader agree on the header separator and on the BEGIN/END framing constants. (clearsign) the per-byte state machine of dashEscaper.Write is extracted from the code by flow-sensitive finite-domain evaluation — for every reachable abstract state (at-beginning-of-line, first-line, buffered-whitespace empty/non-empty) and every byte class (space, tab, CR, '-', LF, other) the sequence of writes to the signature hash, the sequence of writes to the output and the successor state — and compared with the RFC 4880 section 7.1 reference transducer (hash = lines with trailing whitespace removed, joined by CRLF, without dash escapes and without the final line ending; output = dash-escaped text); Decode removes exactly the 2-byte dash escape and only behind a HasPrefix(line, \"- \") test, joins lines with CRLF except before the first, and the escape constants agree. NOT decided: base64 and CRC-24 values, line breaking arithmetic, that GnuPG verifies the output, map iteration and header value content.",
		assumptions: []string{"bufio/base64 contracts", "the reference transducer transcribes RFC 4880 section 7.1 and 5.2.4"},
	})
	tech("C46", "flow-sensitive finite-domain evaluation of the per-byte transition function against a reference transducer, truth-table evaluation of the CRC gate, writer/reader constant and byte-order agreement")
}

func runC46(c *Ctx) {
	c46CRCGate(c)
	c46CRCOrder(c)
	c46LineReader(c)
	c46Constants(c)
	c46DashEscaper(c)
	c46ClearsignDecode(c)
}

// bytesGlobal returns the string value of a package-level variable declared
// as []byte("literal") or []byte{'a', ...}.
func (c *Ctx) bytesGlobal(pkgPath, name string) (string, bool) {
	p := c.pkg(pkgPath)
	if p == nil {
		return "", false
	}
	for _, f := range p.Syntax {
		for _, d := range f.Decls {
			gd, ok := d.(*ast.GenDecl)
			if !ok || gd.Tok != token.VAR {
				continue
			}
			for _, s := range gd.Specs {
				vs := s.(*ast.ValueSpec)
				for i, n := range vs.Names {
					if n.Name != name || i >= len(vs.Values) {
						continue
					}
					switch v := vs.Values[i].(type) {
					case *ast.CallExpr:
						if len(v.Args) == 1 {
							if tv, ok := p.TypesInfo.Types[v.Args[0]]; ok && tv.Value != nil && tv.Value.Kind() == constant.String {
								return constant.StringVal(tv.Value), true
							}
						}
					case *ast.CompositeLit:
						var sb strings.Builder
						for _, e := range v.Elts {
							tv, ok := p.TypesInfo.Types[e]
							if !ok || tv.Value == nil {
								return "", false
							}
							n, ok := constant.Int64Val(constant.ToInt(tv.Value))
							if !ok {
								return "", false
							}
							sb.WriteByte(byte(n))
						}
						return sb.String(), true
					}
					return "", false
				}
			}
		}
	}
	return "", false
}

func isGlobalLoad(v ssa.Value, name string) bool {
	if u, ok := v.(*ssa.UnOp); ok && u.Op == token.MUL {
		if g, ok := u.X.(*ssa.Global); ok && g.Name() == name {
			return true
		}
	}
	return false
}

// ---------------------------------------------------------------------------

func c46CRCGate(c *Ctx) {
	f := c.fn("openpgp/armor", "(*openpgpReader).Read")
	if f == nil {
		return
	}
	// the three conditions
	var eofCmp, neCmp []ssa.Value
	var crcSetLoads []ssa.Value
	allInstrs(f, func(in ssa.Instruction) {
		switch x := in.(type) {
		case *ssa.BinOp:
			if x.Op == token.EQL || x.Op == token.NEQ {
				if isGlobalLoad(x.X, "EOF") || isGlobalLoad(x.Y, "EOF") {
					eofCmp = append(eofCmp, x)
				}
				px, py := accessPath(x.X), accessPath(x.Y)
				if strings.HasSuffix(px, ".crc") || strings.HasSuffix(py, ".crc") {
					neCmp = append(neCmp, x)
				}
			}
		case *ssa.UnOp:
			if x.Op == token.MUL && strings.HasSuffix(accessPath(x.X), ".crcSet") {
				crcSetLoads = append(crcSetLoads, x)
			}
		}
	})
	if len(eofCmp) != 1 || len(neCmp) != 1 || len(crcSetLoads) != 1 {
		c.fail("C46.crc-gate", "(*openpgpReader).Read", f, fmt.Sprintf("expected one EOF test, one crcSet load and one CRC comparison; found %d/%d/%d", len(eofCmp), len(neCmp), len(crcSetLoads)))
		return
	}
	pol := func(b *ssa.BinOp, holds bool) int64 { // value of the BinOp when "X rel Y" semantic condition holds
		if (b.Op == token.EQL) == holds {
			return 1
		}
		return 0
	}
	isCorrupt := func(r *ssa.Return) bool {
		return len(r.Results) == 2 && isGlobalLoad(retVal(r, 1), "ArmorCorrupt")
	}
	rows := 0
	for _, eof := range []bool{false, true} {
		for _, set := range []bool{false, true} {
			for _, differ := range []bool{false, true} {
				e := newEnv()
				e.bind(eofCmp[0], pol(eofCmp[0].(*ssa.BinOp), eof))
				if set {
					e.bind(crcSetLoads[0], 1)
				} else {
					e.bind(crcSetLoads[0], 0)
				}
				e.bind(neCmp[0], pol(neCmp[0].(*ssa.BinOp), !differ))
				_, rets, _ := e.reachableExits(f, nil)
				want := eof && set && differ
				got, other := false, false
				for _, r := range rets {
					if isCorrupt(r) {
						got = true
					} else {
						other = true
					}
				}
				name := fmt.Sprintf("EOF=%v crcSet=%v crcDiffers=%v", eof, set, differ)
				switch {
				case want && (!got || other):
					c.fail("C46.crc-gate", name, f, "a body whose recorded CRC-24 differs from the running CRC can reach EOF without ArmorCorrupt")
				case !want && got:
					c.fail("C46.crc-gate", name, f, "ArmorCorrupt is returned although the CRC matches, is absent, or the stream has not ended")
				default:
					c.ok("C46.crc-gate", name, f, fmt.Sprintf("ArmorCorrupt=%v as specified", want))
				}
				rows++
			}
		}
	}
	// the comparison is between the recorded crc and the masked running crc
	bo := neCmp[0].(*ssa.BinOp)
	other := bo.Y
	if strings.HasSuffix(accessPath(bo.Y), ".crc") {
		other = bo.X
	}
	okMask := false
	if and, ok := other.(*ssa.BinOp); ok && and.Op == token.AND {
		for _, side := range []ssa.Value{and.X, and.Y} {
			if strings.HasSuffix(accessPath(side), ".currentCRC") {
				okMask = true
			}
		}
	}
	c.check(okMask, "C46.crc-gate", "compared values", bo, "recorded crc is compared with currentCRC & crc24Mask", "the recorded CRC is not compared with the masked running CRC")
	// running update: currentCRC = crc24(currentCRC, p[:n]) with n the count returned by the base64 reader
	okUpd := false
	for _, st := range storesTo(f, "openpgpReader", "currentCRC") {
		call, ok := st.Val.(*ssa.Call)
		if !ok || !strings.HasSuffix(calleeName(&call.Call), "armor.crc24") || len(call.Call.Args) != 2 {
			continue
		}
		a0 := strings.HasSuffix(accessPath(call.Call.Args[0]), ".currentCRC")
		sl, isSl := call.Call.Args[1].(*ssa.Slice)
		if a0 && isSl && sl.Low == nil && sl.High != nil && sl.X == ssa.Value(f.Params[1]) {
			if ex, ok := sl.High.(*ssa.Extract); ok && ex.Index == 0 {
				if rd, ok := ex.Tuple.(*ssa.Call); ok && rd.Call.IsInvoke() && rd.Call.Method.Name() == "Read" && strings.HasSuffix(accessPath(rd.Call.Value), ".b64Reader") {
					okUpd = true
				}
			}
		}
	}
	c.check(okUpd, "C46.crc-running", "(*openpgpReader).Read update", f, "currentCRC = crc24(currentCRC, p[:n]) over exactly the n decoded bytes handed to the caller", "the running CRC is not updated over exactly the bytes returned by the base64 reader")
	// both sides start from crc24Init
	initOK := func(fn *ssa.Function, typ, field string) bool {
		if fn == nil {
			return false
		}
		ok := false
		for _, st := range storesTo(fn, typ, field) {
			if k, isK := constInt(st.Val); isK && k == 0xb704ce {
				ok = true
			}
		}
		return ok
	}
	c.check(initOK(c.fn("openpgp/armor", "Decode"), "openpgpReader", "currentCRC"), "C46.crc-running", "Decode initial CRC", nil, "decoder starts from crc24Init (0xb704ce)", "decoder's running CRC does not start from crc24Init")
	c.check(initOK(c.fn("openpgp/armor", "Encode"), "encoding", "crc"), "C46.crc-running", "Encode initial CRC", nil, "encoder starts from crc24Init (0xb704ce)", "encoder's running CRC does not start from crc24Init")
	if g := c.fn("openpgp/armor", "(*encoding).Write"); g != nil {
		ok := false
		for _, st := range storesTo(g, "encoding", "crc") {
			if call, isC := st.Val.(*ssa.Call); isC && strings.HasSuffix(calleeName(&call.Call), "armor.crc24") && len(call.Call.Args) == 2 &&
				strings.HasSuffix(accessPath(call.Call.Args[0]), ".crc") && call.Call.Args[1] == ssa.Value(g.Params[1]) {
				ok = true
			}
		}
		c.check(ok, "C46.crc-running", "(*encoding).Write update", g, "crc = crc24(crc, data) over exactly the bytes written", "the encoder's CRC does not cover exactly the written bytes")
	}
}

// c46CRCOrder: writer emits (crc>>16, crc>>8, crc); reader recombines b0<<16|b1<<8|b2.
func c46CRCOrder(c *Ctx) {
	w := c.fn("openpgp/armor", "(*encoding).Close")
	r := c.fn("openpgp/armor", "(*lineReader).Read")
	if w == nil || r == nil {
		return
	}
	// writer: stores into checksumBytes[i]
	probe := int64(0xA1B2C3)
	e := newEnv()
	allInstrs(w, func(in ssa.Instruction) {
		if u, ok := in.(*ssa.UnOp); ok && u.Op == token.MUL && strings.HasSuffix(accessPath(u.X), ".crc") {
			e.bind(u, probe)
		}
	})
	got := map[int64]int64{}
	allInstrs(w, func(in ssa.Instruction) {
		st, ok := in.(*ssa.Store)
		if !ok {
			return
		}
		ia, ok := st.Addr.(*ssa.IndexAddr)
		if !ok {
			return
		}
		if al, ok := ia.X.(*ssa.Alloc); !ok || al.Comment != "checksumBytes" {
			return
		}
		k, okk := constInt(ia.Index)
		v, okv := e.eval(st.Val)
		if okk && okv {
			got[k] = v
		}
	})
	okW := len(got) == 3 && got[0] == 0xA1 && got[1] == 0xB2 && got[2] == 0xC3
	c.check(okW, "C46.crc-order", "(*encoding).Close checksum bytes", w, "bytes are crc>>16, crc>>8, crc (evaluated with crc=0xA1B2C3)", fmt.Sprintf("checksum bytes are not the big-endian 24-bit CRC: %v", got))
	// reader: l.crc store value under expectedBytes[i] = 0xA1,0xB2,0xC3
	e2 := newEnv()
	n := e2.bindIndexLoads(r, func(base ssa.Value) bool {
		al, ok := base.(*ssa.Alloc)
		return ok && al.Comment == "expectedBytes"
	}, 0, 0xA1)
	n += e2.bindIndexLoads(r, func(base ssa.Value) bool {
		al, ok := base.(*ssa.Alloc)
		return ok && al.Comment == "expectedBytes"
	}, 1, 0xB2)
	n += e2.bindIndexLoads(r, func(base ssa.Value) bool {
		al, ok := base.(*ssa.Alloc)
		return ok && al.Comment == "expectedBytes"
	}, 2, 0xC3)
	okR := false
	for _, st := range storesTo(r, "lineReader", "crc") {
		if v, ok := e2.eval(st.Val); ok && v == probe {
			okR = true
		}
	}
	c.check(okR && n == 3, "C46.crc-order", "(*lineReader).Read checksum recombination", r, "crc = b0<<16 | b1<<8 | b2 (evaluated: 0xA1,0xB2,0xC3 -> 0xA1B2C3), the writer's order", "the reader does not recombine the three checksum bytes in the order the writer emits them")
}

func c46LineReader(c *Ctx) {
	f := c.fn("openpgp/armor", "(*lineReader).Read")
	if f == nil {
		return
	}
	var setStores, crcStores []*ssa.Store
	for _, st := range storesTo(f, "lineReader", "crcSet") {
		if b, ok := constBool(st.Val); ok && b {
			setStores = append(setStores, st)
		}
	}
	crcStores = storesTo(f, "lineReader", "crc")
	ok := len(setStores) == 1 && len(crcStores) == 1
	if ok {
		// every path from entry to crcSet=true crosses the crc store ...
		cutB := map[*ssa.BasicBlock]bool{crcStores[0].Block(): true}
		r := reachAvoiding([]*ssa.BasicBlock{f.Blocks[0]}, nil, cutB)
		ok = !r[setStores[0].Block()] || setStores[0].Block() == crcStores[0].Block() && precedes(crcStores[0], setStores[0])
	}
	c.check(ok, "C46.crc-record", "crcSet implies crc recorded", f, "crcSet = true is reached only after l.crc was stored", "crcSet can be set without a CRC having been recorded")
	// ... and the success edge of the END-line test after the checksum line
	if len(setStores) == 1 {
		var pass []edge
		for _, ci := range callsNamed(f, "bytes.HasPrefix") {
			if call, isC := ci.(*ssa.Call); isC && isGlobalLoad(call.Call.Args[1], "armorEnd") && len(crcStores) == 1 && crcStores[0].Block().Dominates(call.Block()) {
				y, _ := boolEdges(call, true)
				pass = append(pass, y...)
			}
		}
		cut := edgeSet{}
		cut.addAll(pass)
		c.check(len(pass) > 0 && !pathFromEntry(setStores[0], cut), "C46.crc-record", "checksum line followed by END line", setStores[0], "the checksum is accepted only when the next line is the END line", "a checksum line not followed by the armor END line is accepted")
	}
	// the m != 3 / decode error test dominates the crc store
	if len(crcStores) == 1 {
		var pass []edge
		for _, ci := range calls(f, func(n string) bool { return strings.HasSuffix(n, "base64.Encoding).Decode") }) {
			call := ci.(*ssa.Call)
			for _, v := range resultN(call, 0) {
				pass = append(pass, edgesImplying(v, []int64{0, 1, 2, 3, 4}, func(d int64) bool { return d == 3 })...)
			}
		}
		cut := edgeSet{}
		cut.addAll(pass)
		c.check(len(pass) > 0 && !pathFromEntry(crcStores[0], cut), "C46.crc-record", "checksum decodes to 3 bytes", crcStores[0], "the CRC is recorded only when the checksum line decodes to exactly 3 bytes", "a checksum line that does not decode to 3 bytes is recorded")
	}
	// over-long lines: len(line) > 96 -> ArmorCorrupt before copying
	okLong := false
	allInstrs(f, func(in ssa.Instruction) {
		bo, ok := in.(*ssa.BinOp)
		if !ok {
			return
		}
		if k, isK := constInt(bo.Y); isK && k == 96 && bo.Op == token.GTR {
			y, _ := boolEdges(bo, true)
			for _, e := range y {
				if rt, isR := e.to().Instrs[len(e.to().Instrs)-1].(*ssa.Return); isR && isGlobalLoad(retVal(rt, 1), "ArmorCorrupt") {
					okLong = true
				}
			}
		}
	})
	c.check(okLong, "C46.crc-record", "over-long line", f, "lines longer than 96 bytes are rejected with ArmorCorrupt", "over-long armor lines are not rejected")
}

func c46Constants(c *Ctx) {
	get := func(pkg, name string) string {
		s, ok := c.bytesGlobal(pkg, name)
		if !ok {
			c.fail("C46.constants", pkg+"."+name, nil, "constant not found or not a literal")
		}
		return s
	}
	a := "openpgp/armor"
	start, end, eol, eolOut, sep, blockEnd := get(a, "armorStart"), get(a, "armorEnd"), get(a, "armorEndOfLine"), get(a, "armorEndOfLineOut"), get(a, "armorHeaderSep"), get(a, "blockEnd")
	c.check(start == "-----BEGIN " && end == "-----END " && eol == "-----", "C46.constants", "armor framing", nil, "BEGIN/END framing per RFC 4880 6.2", "armor framing constants differ from RFC 4880 section 6.2")
	c.check(eolOut == eol+"\n", "C46.constants", "armorEndOfLineOut", nil, "writer's end-of-header-line = reader's suffix + newline", "the writer's header-line ending does not match what Decode strips")
	c.check(blockEnd == "\n=", "C46.constants", "blockEnd", nil, "checksum line starts with newline + '='", "the checksum line introducer is not \"\\n=\"")
	// Decode's header split literal equals the writer's separator
	okSep := false
	if f := c.fn(a, "Decode"); f != nil {
		for _, ci := range callsNamed(f, "bytes.Index") {
			// argument is a []byte(": ") conversion of a constant string
			arg := ci.Common().Args[1]
			if sl, ok := arg.(*ssa.Convert); ok {
				if s, isS := constString(sl.X); isS && s == sep {
					okSep = true
				}
			}
			if s, isS := sliceLiteralString(arg); isS && s == sep {
				okSep = true
			}
		}
	}
	c.check(okSep && sep == ": ", "C46.constants", "header separator", nil, "Encode writes \"key: value\" and Decode splits at the same \": \"", "Encode's header separator and Decode's split string differ")
	de, _ := c.bytesGlobal("openpgp/clearsign", "dashEscape")
	c.check(de == "- ", "C46.constants", "clearsign.dashEscape", nil, "dash escape is \"- \" (RFC 4880 7.1)", "the dash-escape prefix is not \"- \"")
	cr, _ := c.bytesGlobal("openpgp/clearsign", "crlf")
	c.check(cr == "\r\n", "C46.constants", "clearsign.crlf", nil, "canonical line ending is CRLF", "the canonical line ending constant is not CRLF")
}

// sliceLiteralString recognises []byte{...} composite literals lowered to an
// allocation with constant element stores, or a conversion from a constant string.
func sliceLiteralString(v ssa.Value) (string, bool) {
	if cv, ok := v.(*ssa.Convert); ok {
		return constString(cv.X)
	}
	sl, ok := v.(*ssa.Slice)
	if !ok {
		return "", false
	}
	al, ok := sl.X.(*ssa.Alloc)
	if !ok {
		return "", false
	}
	vals := map[int64]byte{}
	for _, r := range *al.Referrers() {
		if ia, ok := r.(*ssa.IndexAddr); ok {
			k, okk := constInt(ia.Index)
			if !okk {
				return "", false
			}
			for _, rr := range *ia.Referrers() {
				if st, ok := rr.(*ssa.Store); ok {
					if b, okb := constInt(st.Val); okb {
						vals[k] = byte(b)
					}
				}
			}
		}
	}
	var keys []int64
	for k := range vals {
		keys = append(keys, k)
	}
	sort.Slice(keys, func(i, j int) bool { return keys[i] < keys[j] })
	var sb strings.Builder
	for i, k := range keys {
		if int64(i) != k {
			return "", false
		}
		sb.WriteByte(vals[k])
	}
	return sb.String(), len(keys) > 0
}

// ---------------------------------------------------------------------------
// dashEscaper.Write transition table

type deState struct{ bol, first, ws bool }

type deRow struct {
	hash, out string
	next      deState
}

// deReference is the RFC 4880 section 7.1 / 5.2.4 per-byte transducer:
// the hash sees the text with trailing whitespace (space, tab, and the CR of a
// CRLF ending) removed from every line, lines joined by CRLF, no CRLF after
// the last line, no dash escapes; the output sees "- " before any line that
// begins with '-', and trailing whitespace dropped as well (so that Decode,
// which trims it, reproduces what was hashed).
func deReference(s deState, b byte) deRow {
	var r deRow
	if s.bol {
		if !s.first {
			r.hash += "CRLF "
		}
		s.first = false
	}
	switch b {
	case ' ', '\t', '\r':
		s.ws = true
		s.bol = false
		r.next = s
		return r
	}
	if s.bol {
		switch b {
		case '-':
			r.out += "DASH "
			r.hash += "B "
			s.bol = false
		case '\n':
		default:
			r.hash += "B "
			s.bol = false
		}
		r.out += "B "
	} else {
		if b == '\n' {
			s.ws = false
			r.out += "B "
			s.bol = true
		} else {
			if s.ws {
				r.hash += "WS "
				r.out += "WS "
				s.ws = false
			}
			r.hash += "B "
			r.out += "B "
		}
	}
	r.next = s
	return r
}

func c46DashEscaper(c *Ctx) {
	f := c.fn("openpgp/clearsign", "(*dashEscaper).Write")
	if f == nil {
		return
	}
	// the range element
	var elem *ssa.UnOp
	allInstrs(f, func(in ssa.Instruction) {
		if u, ok := in.(*ssa.UnOp); ok && u.Op == token.MUL {
			if ia, ok := u.X.(*ssa.IndexAddr); ok && ia.X == ssa.Value(f.Params[1]) {
				elem = u
			}
		}
	})
	if elem == nil || len(elem.Block().Preds) != 1 {
		c.undecided("C46.dash-escape", "(*dashEscaper).Write loop", f, "per-byte loop over data not found")
		return
	}
	body := elem.Block()
	header := body.Preds[0]
	extract := func(s deState, b byte) (deRow, string) {
		w := &pathWalker{env: newEnv(), assumeErrNil: true}
		w.env.bind(elem, int64(b))
		w.state = map[string]int64{
			"d.atBeginningOfLine": b2i(s.bol), "d.isFirstLine": b2i(s.first), "d.whitespace": b2i(s.ws), "d.byteBuf[0]": -1,
		}
		w.absVal = func(v ssa.Value) (int64, bool) {
			switch x := v.(type) {
			case *ssa.Call:
				if calleeName(&x.Call) == "builtin:append" {
					return 1, true
				}
			case *ssa.Slice:
				if x.High != nil {
					if k, ok := constInt(x.High); ok && k == 0 {
						return 0, true
					}
				}
			}
			return 0, false
		}
		w.stop = func(bb *ssa.BasicBlock) bool { return bb == header }
		var hash, out []string
		w.onCall = func(w *pathWalker, ci ssa.CallInstruction) string {
			cc := ci.Common()
			var stream *[]string
			var arg ssa.Value
			switch {
			case cc.IsInvoke() && cc.Method.Name() == "Write" && strings.HasSuffix(accessPath(cc.Value), ".toHash"):
				stream, arg = &hash, cc.Args[0]
			case strings.HasSuffix(calleeName(cc), "bufio.Writer).Write") && strings.HasSuffix(accessPath(cc.Args[0]), ".buffered"):
				stream, arg = &out, cc.Args[1]
			case strings.HasSuffix(calleeName(cc), "bufio.Writer).WriteByte") && strings.HasSuffix(accessPath(cc.Args[0]), ".buffered"):
				stream, arg = &out, cc.Args[1]
			default:
				return ""
			}
			tok := "?"
			switch {
			case arg == ssa.Value(elem):
				tok = "B"
			case isGlobalLoad(arg, "crlf"):
				tok = "CRLF"
			case isGlobalLoad(arg, "dashEscape"):
				tok = "DASH"
			case strings.HasSuffix(accessPath(arg), ".byteBuf"):
				if w.state["d.byteBuf[0]"] == int64(b) {
					tok = "B"
				}
			case strings.HasSuffix(accessPath(arg), ".whitespace"):
				if w.state["d.whitespace"] == 0 {
					return "" // writes an empty slice
				}
				tok = "WS"
			}
			*stream = append(*stream, tok)
			return ""
		}
		end := w.walk(body, nil)
		if end != "stop" {
			return deRow{}, fmt.Sprintf("walk ended with %q: %s", end, w.why)
		}
		j := func(xs []string) string {
			if len(xs) == 0 {
				return ""
			}
			return strings.Join(xs, " ") + " "
		}
		return deRow{hash: j(hash), out: j(out), next: deState{w.state["d.atBeginningOfLine"] != 0, w.state["d.isFirstLine"] != 0, w.state["d.whitespace"] != 0}}, ""
	}
	// initial state from Encode: atBeginningOfLine = true, isFirstLine = true
	init := deState{true, true, false}
	okInit := false
	if g := c.fn("openpgp/clearsign", "EncodeMulti"); g != nil {
		bol, first := false, false
		allInstrs(g, func(in ssa.Instruction) {
			if st, ok := in.(*ssa.Store); ok {
				if _, fld, _, okf := fieldOf(st.Addr); okf {
					if v, isB := constBool(st.Val); isB && v {
						if fld == "atBeginningOfLine" {
							bol = true
						}
						if fld == "isFirstLine" {
							first = true
						}
					}
				}
			}
		})
		okInit = bol && first
	}
	c.check(okInit, "C46.dash-escape", "initial escaper state", nil, "Encode starts at beginning-of-line, first line", "the escaper does not start in the (beginning-of-line, first-line) state")
	classes := []byte{' ', '\t', '\r', '-', '\n', 'x'}
	seen := map[deState]bool{init: true}
	work := []deState{init}
	rows := 0
	for len(work) > 0 {
		s := work[0]
		work = work[1:]
		for _, b := range classes {
			want := deReference(s, b)
			got, why := extract(s, b)
			name := fmt.Sprintf("state(bol=%v first=%v ws=%v) byte %q", s.bol, s.first, s.ws, string(b))
			rows++
			if why != "" {
				c.undecided("C46.dash-escape", name, f, why)
			} else if got != want {
				c.fail("C46.dash-escape", name, f, fmt.Sprintf("code: hash[%s] out[%s] -> %+v; RFC 4880 7.1 reference: hash[%s] out[%s] -> %+v", got.hash, got.out, got.next, want.hash, want.out, want.next))
			} else {
				c.ok("C46.dash-escape", name, f, fmt.Sprintf("hash[%s] out[%s] -> %+v", got.hash, got.out, got.next))
			}
			if !seen[want.next] {
				seen[want.next] = true
				work = append(work, want.next)
			}
		}
	}
	// Close terminates the last line in the output when it was not terminated
	if g := c.fn("openpgp/clearsign", "(*dashEscaper).Close"); g != nil {
		var lfWrites []ssa.CallInstruction
		for _, ci := range calls(g, func(n string) bool { return strings.HasSuffix(n, "bufio.Writer).WriteByte") }) {
			if k, ok := constInt(ci.Common().Args[1]); ok && k == '\n' {
				lfWrites = append(lfWrites, ci)
			} else if isGlobalLoad(ci.Common().Args[1], "lf") {
				lfWrites = append(lfWrites, ci)
			}
		}
		enc := callsNamed(g, "openpgp/armor.Encode")
		ok := len(lfWrites) == 1 && len(enc) == 1
		if ok {
			e1 := newEnv()
			e1.bindField(g, "dashEscaper", "atBeginningOfLine", 0)
			_, _, blocks := e1.reachableExits(g, nil)
			e2 := newEnv()
			e2.bindField(g, "dashEscaper", "atBeginningOfLine", 1)
			_, _, blocks2 := e2.reachableExits(g, nil)
			ok = blocks[lfWrites[0].Block()] && !blocks2[lfWrites[0].Block()] && precedesOrDominates(lfWrites[0], enc[0])
		}
		c.check(ok, "C46.dash-escape", "(*dashEscaper).Close", g, "an unterminated last line gets its line feed before the signature armor, a terminated one does not get a second", "Close does not terminate an unterminated final line exactly once before the signature block")
	}
}

func precedesOrDominates(a, b ssa.Instruction) bool {
	if a.Block() == b.Block() {
		return precedes(a, b)
	}
	// a's block reaches b's block and b cannot reach a
	return reach([]*ssa.BasicBlock{a.Block()}, nil)[b.Block()] && !reach([]*ssa.BasicBlock{b.Block()}, nil)[a.Block()]
}

func c46ClearsignDecode(c *Ctx) {
	f := c.fn("openpgp/clearsign", "Decode")
	if f == nil {
		return
	}
	// the un-escape slice line[2:] behind HasPrefix(line, dashEscape)
	var hp []*ssa.Call
	for _, ci := range callsNamed(f, "bytes.HasPrefix") {
		if call, ok := ci.(*ssa.Call); ok && isGlobalLoad(call.Call.Args[1], "dashEscape") {
			hp = append(hp, call)
		}
	}
	var unesc []*ssa.Slice
	allInstrs(f, func(in ssa.Instruction) {
		if sl, ok := in.(*ssa.Slice); ok && sl.Low != nil && sl.High == nil {
			if k, isK := constInt(sl.Low); isK && k > 0 && len(hp) == 1 && sl.X == hp[0].Call.Args[0] {
				unesc = append(unesc, sl)
			}
		}
	})
	ok := len(hp) == 1 && len(unesc) == 1
	if ok {
		k, _ := constInt(unesc[0].Low)
		y, _ := boolEdges(hp[0], true)
		cut := edgeSet{}
		cut.addAll(y)
		ok = k == 2 && len(y) > 0 && !pathBetween(hp[0], unesc[0], cut)
	}
	c.check(ok, "C46.unescape", "Decode dash un-escaping", f, "exactly the 2-byte \"- \" prefix is removed and only from lines that carry it", "Decode strips a prefix that is not the dash escape, or strips it without testing for it")
	// no other line gets shortened at the front: the only Slice of `line` with Low>0 is the one above (checked by count)
	// Bytes gets CRLF between lines: the append of crlf to b.Bytes is skipped exactly on the first line
	var crlfApp []ssa.Instruction
	allInstrs(f, func(in ssa.Instruction) {
		if call, ok := in.(*ssa.Call); ok && calleeName(&call.Call) == "builtin:append" && len(call.Call.Args) == 2 && isGlobalLoad(call.Call.Args[1], "crlf") {
			crlfApp = append(crlfApp, call)
		}
	})
	okJoin := len(crlfApp) == 1
	if okJoin {
		// the guard of the CRLF append is a loop-header phi (the first-line
		// flag): true on loop entry; evaluated under flag=true and flag=false,
		// every back-edge value is false, and the append is reachable exactly
		// when the flag is false.
		okJoin = false
		be := backEdges(f)
		allInstrs(f, func(in ssa.Instruction) {
			ph, isPhi := in.(*ssa.Phi)
			if !isPhi || ph.Comment != "firstLine" && !isBoolType(ph.Type()) {
				return
			}
			if !isBoolType(ph.Type()) {
				return
			}
			var entryVals, backVals []ssa.Value
			for i, e := range ph.Edges {
				pred := ph.Block().Preds[i]
				isBack := false
				for j, sb := range pred.Succs {
					if sb == ph.Block() && be[edge{pred, j}] {
						isBack = true
					}
				}
				if isBack {
					backVals = append(backVals, e)
				} else {
					entryVals = append(entryVals, e)
				}
			}
			if len(backVals) == 0 || len(entryVals) == 0 {
				return
			}
			for _, e := range entryVals {
				if v, isB := constBool(e); !isB || !v {
					return
				}
			}
			good := true
			for _, flag := range []int64{0, 1} {
				e := newEnv()
				e.bind(ph, flag)
				e.solve(f)
				for _, bv := range backVals {
					if n, ok := e.eval(bv); !ok || n != 0 {
						good = false
					}
				}
				if e.reach[crlfApp[0].Block()] != (flag == 0) {
					good = false
				}
			}
			if good {
				okJoin = true
			}
		})
	}
	c.check(okJoin, "C46.unescape", "Decode line joining", f, "Block.Bytes joins lines with CRLF, none before the first line and none after the last", "Block.Bytes is not the CRLF-joined text (the first-line flag is not a true-then-false loop variable guarding the CRLF)")
	// trailing whitespace trimmed with " \t"
	okTrim := false
	for _, ci := range callsNamed(f, "bytes.TrimRight") {
		if s, isS := constString(ci.Common().Args[1]); isS && s == " \t" {
			okTrim = true
		}
	}
	c.check(okTrim, "C46.unescape", "Decode trailing whitespace", f, "trailing space/tab removed before hashing input is rebuilt (matches the encoder's hash)", "Decode does not trim trailing space and tab the way the encoder's hash does")
}

func isBoolType(t types.Type) bool {
	b, ok := t.Underlying().(*types.Basic)
	return ok && b.Kind() == types.Bool
}
