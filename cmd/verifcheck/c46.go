package main

import (
	"go/ast"
	"go/constant"
	"go/token"
	"go/types"
	"sort"
	"strings"

	"golang.org/x/tools/go/ssa"
)

func init() {
	register(&propDef{
		id: "C46", run: runC46, minOblig: 40,
		explanation: "Decides necessary conditions of the armor and clearsign round trips by abstract interpretation of the anchor functions on small concrete inputs (nothing is executed: the SSA of each function, with the helpers of its package interpreted in place, is folded by the path walker over a byte-level memory model with models of bytes.*/strings.* searching and trimming, append/copy, encoding/base64 and encoding/binary; a branch on a value outside the model leaves the obligation undecided). The rules observe effects, not statement shapes, and identify receiver state by role (the 32-bit CRC field, the boolean the CRC gate consults, the boolean Close consults) rather than by the names of locals, parameters or receivers. (armor CRC) openpgpReader.Read is interpreted for every combination of base64-reader result (nil / io.EOF / other error, 0 or 3 bytes), checksum-recorded flag and recorded CRC equal / different: it returns ArmorCorrupt exactly when the reader reported EOF, a checksum was recorded and it differs from the running CRC, and otherwise passes (n, err) on; after the call the running CRC is the RFC 4880 section 6.1 CRC-24 of the previous value and exactly the n bytes handed to the caller (the package's crc24 is interpreted and compared with a reference implementation on these samples; if it cannot be interpreted it is taken as CRC-24 by name), likewise for encoding.Write; encoder and decoder start from crc24Init (constant stores, searched through helpers). encoding.Close is interpreted with probe CRC values: the byte string handed to the base64 encoder is crc>>16, crc>>8, crc. lineReader.Read is interpreted on scripted lines: a checksum line decoding to b0,b1,b2 followed by the END line leaves crc = b0<<16|b1<<8|b2 with the recorded flag set and (0, io.EOF) returned; a checksum line not followed by the END line gives ArmorCorrupt and no flag; checksum lines decoding to 1 or 2 bytes or malformed leave the flag clear; a 97-byte line is rejected with ArmorCorrupt and a 96-byte line is delivered. Writer and reader agree on the header separator (any bytes/strings Index/Cut/Split form in Decode or its helpers) and on the BEGIN/END framing constants. (clearsign) dashEscaper.Write is interpreted from entry to return on a single byte for every reachable abstract state (at-beginning-of-line, first-line, buffered-whitespace empty/non-empty) and every byte class (space, tab, CR, '-', LF, other); the bytes written to the signature hash (any io.Writer invocation), the bytes written to the output (any *bufio.Writer method) and the successor state are compared with the RFC 4880 section 7.1 reference transducer (hash = lines with trailing whitespace removed, joined by CRLF, without dash escapes and without the final line ending; output = dash-escaped text); EncodeMulti (or a helper) starts the escaper at beginning-of-line / first-line; Close writes exactly one LF before the signature armor when the text ended mid-line and none otherwise. clearsign.Decode is interpreted on whole clearsigned messages (dash-escaped and look-alike lines, empty first/last lines, CRLF line ends, trailing blanks): Block.Bytes and Block.Plaintext equal the lines with exactly the \"- \" escape removed where present, trailing space/tab trimmed, joined by CRLF (Bytes) or LF-terminated (Plaintext). NOT decided: base64 alphabet, CRC-24 beyond the sampled inputs, line breaking arithmetic, that GnuPG verifies the output, map iteration and header value content, I/O error paths of the escaper.",
		assumptions: []string{"bufio/base64/bytes contracts as modelled", "the reference transducer transcribes RFC 4880 section 7.1 and 5.2.4", "struct field names crcSet / atBeginningOfLine / isFirstLine / whitespace are used only when the role-based identification is ambiguous"},
	})
	tech("C46", "abstract interpretation (path walker with a byte-level memory model and helper inlining) of the armor trailer writer/reader, the CRC gate, the running CRC, the per-byte escaper transition function and clearsign.Decode on concrete sample inputs, compared with reference implementations; writer/reader constant agreement")
}

func runC46(c *Ctx) {
	c46CRCGate(c)
	c46CRCOrder(c)
	c46LineReader(c)
	c46Constants(c)
	c46DashEscaper(c)
	c46ClearsignDecode(c)
}

// bytesGlobal returns the string value of a package-level variable declared
// as []byte("literal") or []byte{'a', ...}.
func (c *Ctx) bytesGlobal(pkgPath, name string) (string, bool) {
	p := c.pkg(pkgPath)
	if p == nil {
		return "", false
	}
	for _, f := range p.Syntax {
		for _, d := range f.Decls {
			gd, ok := d.(*ast.GenDecl)
			if !ok || gd.Tok != token.VAR {
				continue
			}
			for _, s := range gd.Specs {
				vs := s.(*ast.ValueSpec)
				for i, n := range vs.Names {
					if n.Name != name || i >= len(vs.Values) {
						continue
					}
					switch v := vs.Values[i].(type) {
					case *ast.CallExpr:
						if len(v.Args) == 1 {
							if tv, ok := p.TypesInfo.Types[v.Args[0]]; ok && tv.Value != nil && tv.Value.Kind() == constant.String {
								return constant.StringVal(tv.Value), true
							}
						}
					case *ast.CompositeLit:
						var sb strings.Builder
						for _, e := range v.Elts {
							tv, ok := p.TypesInfo.Types[e]
							if !ok || tv.Value == nil {
								return "", false
							}
							n, ok := constant.Int64Val(constant.ToInt(tv.Value))
							if !ok {
								return "", false
							}
							sb.WriteByte(byte(n))
						}
						return sb.String(), true
					}
					return "", false
				}
			}
		}
	}
	return "", false
}

func isGlobalLoad(v ssa.Value, name string) bool {
	if u, ok := v.(*ssa.UnOp); ok && u.Op == token.MUL {
		if g, ok := u.X.(*ssa.Global); ok && g.Name() == name {
			return true
		}
	}
	return false
}

// sliceLiteralString recognises []byte{...} composite literals lowered to an
// allocation with constant element stores, or a conversion from a constant string.
func sliceLiteralString(v ssa.Value) (string, bool) {
	if cv, ok := v.(*ssa.Convert); ok {
		return constString(cv.X)
	}
	sl, ok := v.(*ssa.Slice)
	if !ok {
		return "", false
	}
	al, ok := sl.X.(*ssa.Alloc)
	if !ok {
		return "", false
	}
	vals := map[int64]byte{}
	for _, r := range *al.Referrers() {
		if ia, ok := r.(*ssa.IndexAddr); ok {
			k, okk := constInt(ia.Index)
			if !okk {
				return "", false
			}
			for _, rr := range *ia.Referrers() {
				if st, ok := rr.(*ssa.Store); ok {
					if b, okb := constInt(st.Val); okb {
						vals[k] = byte(b)
					}
				}
			}
		}
	}
	var keys []int64
	for k := range vals {
		keys = append(keys, k)
	}
	sort.Slice(keys, func(i, j int) bool { return keys[i] < keys[j] })
	var sb strings.Builder
	for i, k := range keys {
		if int64(i) != k {
			return "", false
		}
		sb.WriteByte(vals[k])
	}
	return sb.String(), len(keys) > 0
}

func isBoolType(t types.Type) bool {
	b, ok := t.Underlying().(*types.Basic)
	return ok && b.Kind() == types.Bool
}
