package main

import (
	"fmt"
	"strings"

	"golang.org/x/tools/go/ssa"
)

func runC10(c *Ctx) {
	c10SecretboxRule(c, true)
	c10SecretboxRule(c, false)
	c10Box(c)
	c10Sign(c)
	c10Auth(c)
}

// one interpreted (function, input shape) case
type c10case struct {
	m   *c10m
	w   *pathWalker
	end string
	ret *ssa.Return
}

func c10Exec(f *ssa.Function, setup func(m *c10m, w *pathWalker)) *c10case {
	m := c10new(f)
	w := m.walker()
	setup(m, w)
	c10BindNilTests(w, f)
	k := &c10case{m: m, w: w}
	k.end = w.walk(f.Blocks[0], nil)
	if k.end == "return" {
		k.ret, _ = w.last.(*ssa.Return)
	}
	return k
}

// problem: why the case cannot be compared with the specification at all.
func (k *c10case) problem() string {
	switch {
	case k.end != "return" || k.ret == nil:
		return "evaluation ended with " + k.end + " " + k.w.why
	case len(k.m.notes) > 0:
		return k.m.notes[0]
	case k.w.oob:
		return "an index or slice expression leaves its bounds"
	}
	return ""
}

func (k *c10case) result(i int) ssa.Value { return retVal(k.ret, i) }

func (k *c10case) boolResult(i int) (int64, bool) { return k.w.env.eval(k.result(i)) }

// outputIs compares the bytes of the i'th result with want.
func (k *c10case) outputIs(i int, want []c10byte, pretty *strings.Replacer) string {
	got, ok := k.m.bytesOfResult(k.w, k.result(i))
	if !ok {
		return "the storage of the returned value cannot be followed"
	}
	if d := c10FirstDiff(got, want); d != "" {
		return pretty.Replace(fmt.Sprintf("output %s; it returns [%s], prescribed is [%s]", d, c10Trunc(c10desc(got), 700), c10Trunc(c10desc(want), 500)))
	}
	return ""
}

// rejected: the case returns (nil, false) without having written to the caller's buffer.
func (k *c10case) rejected() string {
	b, ok := k.boolResult(1)
	switch {
	case !k.m.isNilResult(k.w, k.result(0)):
		return "a rejected input still yields a non-nil slice"
	case !ok || b != 0:
		return "a rejected input is reported as ok"
	case k.m.visibleWrites != 0:
		return "a rejected input still writes to the caller's buffer"
	}
	return ""
}

// verifiedBy: exactly the prescribed verification happened, in constant time, before any output.
func (k *c10case) verifiedBy(want string, pretty *strings.Replacer) string {
	var real []c10check
	for _, ch := range k.m.checks {
		if !ch.lengthsDiffer {
			real = append(real, ch)
		}
	}
	switch {
	case len(real) == 0 && len(k.m.checks) > 0:
		return pretty.Replace("the only comparison is between byte strings of different lengths: " + c10Trunc(k.m.checks[0].what, 500))
	case len(real) == 0:
		return "no verification is performed"
	case len(real) > 1 || real[0].what != want:
		var ws []string
		for _, ch := range real {
			ws = append(ws, ch.what)
		}
		return pretty.Replace(fmt.Sprintf("it verifies [%s], prescribed is [%s]", c10Trunc(strings.Join(ws, "; "), 600), c10Trunc(want, 400)))
	case !real[0].constantTime:
		return "the comparison is not constant-time"
	case real[0].writesBefore != 0:
		return "output is written to the caller's buffer before the verification"
	}
	return ""
}

const c10Prefix = 3 // bytes already in the caller's output buffer

func c10Dst() []c10byte { return c10seq("DST", 0, c10Prefix) }

func c10Spare(spare bool) int64 {
	if spare {
		return 1000
	}
	return 0
}

// ---------------------------------------------------------------------------
// secretbox

func c10SecretboxRule(c *Ctx, seal bool) {
	const pkg = "nacl/secretbox"
	name := "Open"
	if seal {
		name = "Seal"
	}
	f := c.fn(pkg, name)
	if f == nil {
		return
	}
	if len(f.Params) != 4 {
		c.fail("C10.secretbox", pkg+"."+name, f, "signature is not (out, input, nonce, key)")
		return
	}
	key, nonce, sigma := c10seq("key", 0, 32), c10seq("nonce", 0, 24), c10seq("Sigma", 0, 16)
	sub := c10seq(c10HSalsa(key, nonce[:16], sigma), 0, 32)
	ksBase := c10Stream(sub, nonce[16:])
	ks := func(lo, hi int64) []c10byte { return c10seq(ksBase, lo, hi) }
	pretty := strings.NewReplacer(ksBase, "keystream", c10desc(sub), "subkey")
	run := func(total int64, spare bool, verdict int64) *c10case {
		return c10Exec(f, func(m *c10m, w *pathWalker) {
			m.verdict, m.spare = verdict, spare
			m.paramBuf(w, f.Params[0], "DST", c10Prefix, c10Spare(spare), true, false)
			m.paramBuf(w, f.Params[1], "IN", total, 0, false, true)
			m.paramArr(f.Params[2], "nonce", true)
			m.paramArr(f.Params[3], "key", true)
		})
	}
	cases, bad := 0, ""
	verdicts := []int64{1}
	if !seal {
		verdicts = []int64{1, 0}
	}
	for n := int64(0); n <= 70 && bad == ""; n++ {
		if n > 36 && n != 63 && n != 64 && n != 65 && n != 70 {
			continue
		}
		for _, spare := range []bool{false, true} {
			for _, verdict := range verdicts {
				if bad != "" {
					break
				}
				total := n
				if !seal {
					total = n + 16
				}
				k := run(total, spare, verdict)
				cases++
				id := fmt.Sprintf("input of %d bytes, spare capacity %v, tag verdict %d: ", total, spare, verdict)
				if p := k.problem(); p != "" {
					bad = id + p
					break
				}
				if seal {
					ct := c10xorSeq(c10seq("IN", 0, n), ks(32, 32+n))
					want := c10cat(c10Dst(), c10seq(c10Poly(ks(0, 32), ct), 0, 16), ct)
					if d := k.outputIs(0, want, pretty); d != "" {
						bad = id + d
					}
					continue
				}
				ctIn := c10seq("IN", 16, 16+n)
				check := c10CtEq(c10seq("IN", 0, 16), c10seq(c10Poly(ks(0, 32), ctIn), 0, 16))
				if d := k.verifiedBy(check, pretty); d != "" {
					bad = id + d
					break
				}
				if verdict == 0 {
					if d := k.rejected(); d != "" {
						bad = id + "tag mismatch: " + d
					}
					continue
				}
				if d := k.outputIs(0, c10cat(c10Dst(), c10xorSeq(ctIn, ks(32, 32+n))), pretty); d != "" {
					bad = id + d
				} else if b, ok := k.boolResult(1); !ok || b != 1 {
					bad = id + "a verified box is not reported as ok"
				}
			}
		}
	}
	if !seal {
		// inputs shorter than the tag
		for n := int64(0); n < 16 && bad == ""; n++ {
			k := run(n, true, 1)
			cases++
			id := fmt.Sprintf("input of %d bytes: ", n)
			if p := k.problem(); p != "" {
				bad = id + p
			} else if len(k.m.checks) != 0 {
				bad = id + "an input shorter than the tag reaches the tag verification"
			} else if d := k.rejected(); d != "" {
				bad = id + d
			}
		}
	}
	c.check(bad == "" && cases >= 80, "C10.secretbox", pkg+"."+name, f, fmt.Sprintf("%d (length, capacity, verdict) cases: the returned bytes are out | Poly1305(keystream[0:32], ct) | ct with ct = message ^ keystream[32:], keystream = Salsa20(HSalsa20(key, nonce[0:16]), nonce[16:24])", cases), bad)
}

// ---------------------------------------------------------------------------
// box

func c10Box(c *Ctx) {
	const pkg = "nacl/box"
	sigma, zero16 := c10seq("Sigma", 0, 16), c10zeros(16)
	beforenm := func(priv, pub []c10byte) []c10byte {
		return c10seq(c10HSalsa(c10seq(c10X25519(priv, pub), 0, 32), zero16, sigma), 0, 32)
	}
	zeroGlobs := map[*ssa.Global]bool{}
	collect := func(k *c10case) {
		for g := range k.m.zeroGlob {
			zeroGlobs[g] = true
		}
	}
	peer, priv, nonce := c10seq("peer", 0, 32), c10seq("priv", 0, 32), c10seq("nonce", 0, 24)

	if f := c.fn(pkg, "Precompute"); f != nil && c10Arity(c, f, 3) {
		bad := ""
		for _, failX := range []bool{false, true} {
			k := c10Exec(f, func(m *c10m, w *pathWalker) {
				m.failX = failX
				m.paramArr(f.Params[0], "previous-content", false)
				m.paramArr(f.Params[1], "peer", true)
				m.paramArr(f.Params[2], "priv", true)
			})
			collect(k)
			if failX && !k.m.saw["X25519"] {
				continue
			}
			want := beforenm(priv, peer)
			id := ""
			if failX {
				// ScalarMult yields the all-zero point where X25519 reports an error
				want = c10seq(c10HSalsa(c10zeros(32), zero16, sigma), 0, 32)
				id = "when X25519 rejects a low-order peer key: "
			}
			if p := k.problem(); p != "" {
				bad = id + p
			} else if d := c10FirstDiff(k.m.val[f.Params[0]].p.r.b, want); d != "" && bad == "" {
				bad = fmt.Sprintf("%sshared key %s; it is [%s], crypto_box_beforenm is [%s]", id, d, c10Trunc(c10desc(k.m.val[f.Params[0]].p.r.b), 300), c10desc(want))
			}
		}
		c.check(bad == "", "C10.box", "box.Precompute", f, "sharedKey = HSalsa20(X25519(private, peer public), 0^16, sigma), whatever the buffer held before", "Precompute is not HSalsa20 of the X25519 shared point with a zero nonce: "+bad)
	}

	// Seal / Open and the AfterPrecomputation variants: secretbox under the (pre)computed key
	type variant struct {
		fn   string
		seal bool
		pre  bool
	}
	for _, v := range []variant{{"Seal", true, true}, {"Open", false, true}, {"SealAfterPrecomputation", true, false}, {"OpenAfterPrecomputation", false, false}} {
		f := c.fn(pkg, v.fn)
		if f == nil {
			continue
		}
		np := map[bool]int{true: 5, false: 4}[v.pre]
		if len(f.Params) != np {
			c.fail("C10.box", "box."+v.fn, f, "unexpected signature")
			continue
		}
		shared := c10seq("shared", 0, 32)
		if v.pre {
			shared = beforenm(priv, peer)
		}
		pretty := strings.NewReplacer(c10desc(shared), "sharedkey")
		bad, cases := "", 0
		verdicts := []int64{1}
		lens := []int64{0, 1, 33}
		if !v.seal {
			verdicts = []int64{1, 0}
			lens = []int64{0, 15, 16, 17, 50}
		}
		for _, n := range lens {
			for _, spare := range []bool{false, true} {
				for _, verdict := range verdicts {
					if bad != "" {
						continue
					}
					k := c10Exec(f, func(m *c10m, w *pathWalker) {
						m.verdict, m.spare = verdict, spare
						m.paramBuf(w, f.Params[0], "DST", c10Prefix, c10Spare(spare), true, false)
						m.paramBuf(w, f.Params[1], "IN", n, 0, false, true)
						m.paramArr(f.Params[2], "nonce", true)
						if v.pre {
							m.paramArr(f.Params[3], "peer", true)
							m.paramArr(f.Params[4], "priv", true)
						} else {
							m.paramArr(f.Params[3], "shared", true)
						}
					})
					collect(k)
					cases++
					id := fmt.Sprintf("input of %d bytes, spare capacity %v, verdict %d: ", n, spare, verdict)
					in := c10seq("IN", 0, n)
					wantCall := [3]string{c10desc(shared), c10desc(nonce), c10desc(in)}
					if p := k.problem(); p != "" {
						bad = id + p
						continue
					}
					for _, sc := range k.m.sbCalls {
						if sc != wantCall {
							bad = id + pretty.Replace(fmt.Sprintf("secretbox is used with key [%s], nonce [%s], payload [%s]; crypto_box uses key [%s], nonce [%s], payload [%s]", c10Trunc(sc[0], 250), sc[1], sc[2], wantCall[0], wantCall[1], wantCall[2]))
						}
					}
					if bad != "" {
						continue
					}
					switch {
					case v.seal:
						bad = k.outputIs(0, c10cat(c10Dst(), c10seq(c10Secretbox(shared, nonce, in), 0, n+16)), pretty)
					case n < 16 || verdict == 0:
						bad = k.rejected()
						if n >= 16 && len(k.m.sbCalls) != 1 && bad == "" {
							bad = "the box is rejected without consulting secretbox.Open"
						}
					default:
						bad = k.outputIs(0, c10cat(c10Dst(), c10seq(c10SecretboxOpen(shared, nonce, in), 0, n-16)), pretty)
						if b, ok := k.boolResult(1); bad == "" && (!ok || b != 1) {
							bad = "an opened box is not reported as ok"
						}
					}
					if bad != "" {
						bad = id + bad
					}
				}
			}
		}
		inner := map[bool]string{true: "Seal", false: "Open"}[v.seal]
		c.check(bad == "" && cases > 0, "C10.box", "box."+v.fn, f, fmt.Sprintf("%d cases: the result is secretbox.%s of (out, input, nonce) under %s", cases, inner, map[bool]string{true: "HSalsa20(X25519(private, peer public), 0^16, sigma)", false: "the precomputed key"}[v.pre]), "box."+v.fn+" is not secretbox."+inner+" under the precomputed key: "+bad)
	}

	// anonymous boxes
	nonceBad := []string{}
	nonceSeen := 0
	if f := c.fn(pkg, "SealAnonymous"); f != nil && c10Arity(c, f, 4) {
		rcpt := c10seq("recipient", 0, 32)
		esk := c10seq("rand", 0, 32)
		epk := c10seq(c10X25519Base(esk), 0, 32)
		shared := beforenm(esk, rcpt)
		anonNonce := c10seq(c10Digest("BLAKE2b", 24, nil, c10cat(epk, rcpt)), 0, 24)
		pretty := strings.NewReplacer(c10desc(shared), "sharedkey", c10desc(anonNonce), "sealnonce", c10desc(epk), "ephemeralpublic")
		bad, cases := "", 0
		for _, n := range []int64{0, 1, 40} {
			for _, spare := range []bool{false, true} {
				if bad != "" {
					continue
				}
				k := c10Exec(f, func(m *c10m, w *pathWalker) {
					m.spare = spare
					m.paramBuf(w, f.Params[0], "DST", c10Prefix, c10Spare(spare), true, false)
					m.paramBuf(w, f.Params[1], "IN", n, 0, false, true)
					m.paramArr(f.Params[2], "recipient", true)
					m.entry(f.Params[3]).tag = "rand"
					w.env.bind(f.Params[3], 1)
				})
				collect(k)
				cases++
				id := fmt.Sprintf("message of %d bytes, spare capacity %v: ", n, spare)
				if p := k.problem(); p != "" {
					bad = id + p
					continue
				}
				for _, sc := range k.m.sbCalls {
					nonceSeen++
					if sc[1] != c10desc(anonNonce) {
						nonceBad = append(nonceBad, "SealAnonymous seals under nonce ["+c10Trunc(sc[1], 300)+"]")
					}
				}
				in := c10seq("IN", 0, n)
				if d := k.outputIs(0, c10cat(c10Dst(), epk, c10seq(c10Secretbox(shared, anonNonce, in), 0, n+16)), pretty); d != "" {
					bad = id + d
				} else if !isNilConst(k.result(1)) {
					bad = id + "a sealed box is returned with a non-nil error"
				}
			}
		}
		c.check(bad == "" && cases > 0, "C10.box", "box.SealAnonymous", f, "ephemeral public key | box(message, nonce(ephemeral, recipient), recipient, ephemeral private)", "SealAnonymous does not emit the ephemeral public key followed by the box under the derived nonce: "+bad)
	}
	if f := c.fn(pkg, "OpenAnonymous"); f != nil && c10Arity(c, f, 4) {
		pk, sk := c10seq("public", 0, 32), c10seq("private", 0, 32)
		epk := c10seq("IN", 0, 32)
		shared := beforenm(sk, epk)
		anonNonce := c10seq(c10Digest("BLAKE2b", 24, nil, c10cat(epk, pk)), 0, 24)
		pretty := strings.NewReplacer(c10desc(shared), "sharedkey", c10desc(anonNonce), "sealnonce")
		bad, cases := "", 0
		for _, n := range []int64{0, 31, 32, 47, 48, 49, 90} {
			for _, verdict := range []int64{1, 0} {
				if bad != "" {
					continue
				}
				k := c10Exec(f, func(m *c10m, w *pathWalker) {
					m.verdict, m.spare = verdict, true
					m.paramBuf(w, f.Params[0], "DST", c10Prefix, c10Spare(true), true, false)
					m.paramBuf(w, f.Params[1], "IN", n, 0, false, true)
					m.paramArr(f.Params[2], "public", true)
					m.paramArr(f.Params[3], "private", true)
				})
				collect(k)
				cases++
				id := fmt.Sprintf("input of %d bytes, verdict %d: ", n, verdict)
				if p := k.problem(); p != "" {
					bad = id + p
					continue
				}
				body := c10seq("IN", 32, n)
				if n >= 48 {
					if len(k.m.sbCalls) != 1 {
						bad = id + "the input does not reach secretbox.Open exactly once"
						continue
					}
					sc := k.m.sbCalls[0]
					nonceSeen++
					if sc[1] != c10desc(anonNonce) {
						nonceBad = append(nonceBad, "OpenAnonymous opens under nonce ["+c10Trunc(sc[1], 300)+"]")
					}
					if sc[0] != c10desc(shared) || sc[2] != c10desc(body) {
						bad = id + pretty.Replace(fmt.Sprintf("secretbox.Open gets key [%s] and box [%s], prescribed are [%s] and [%s]", c10Trunc(sc[0], 250), sc[2], c10desc(shared), c10desc(body)))
						continue
					}
				}
				if n < 48 || verdict == 0 {
					if d := k.rejected(); d != "" {
						bad = id + d
					}
					continue
				}
				if d := k.outputIs(0, c10cat(c10Dst(), c10seq(c10SecretboxOpen(shared, anonNonce, body), 0, n-48)), pretty); d != "" && len(nonceBad) == 0 {
					bad = id + d
				} else if b, ok := k.boolResult(1); !ok || b != 1 {
					bad = id + "an opened box is not reported as ok"
				}
			}
		}
		c.check(bad == "" && cases > 0, "C10.box", "box.OpenAnonymous", f, "reads the 32-byte ephemeral key, opens the rest under HSalsa20(X25519(private, ephemeral)); inputs < 48 bytes rejected", "OpenAnonymous does not mirror SealAnonymous: "+bad)
	}
	nonceBad = c10Uniq(nonceBad)
	c.check(len(nonceBad) == 0 && nonceSeen >= 2, "C10.box", "box.anonymous-nonce", nil, "both directions use nonce = BLAKE2b-24(ephemeral public | recipient public)", "the anonymous-box nonce is not BLAKE2b-24(ephemeral public key | recipient public key): "+strings.Join(nonceBad, "; "))

	// the zero HSalsa20 input: when it is a package-level array, nothing may ever write it
	bad := ""
	var names []string
	for g := range zeroGlobs {
		names = append(names, g.Name())
		if d := c10ZeroGlobalWritten(c, pkg, g); d != "" {
			bad = g.Name() + " is " + d
		}
	}
	c.check(bad == "", "C10.box", "box.zero-block", nil, fmt.Sprintf("package-level arrays read as all-zero (%s) are never written", strings.Join(names, ",")), "the HSalsa20 input block is modified somewhere in the package: "+bad)
}

// ---------------------------------------------------------------------------
// sign

func c10Sign(c *Ctx) {
	const pkg = "nacl/sign"
	none := strings.NewReplacer()
	if f := c.fn(pkg, "Sign"); f != nil && c10Arity(c, f, 3) {
		bad, cases := "", 0
		for _, n := range []int64{0, 1, 5, 64, 65} {
			for _, spare := range []bool{false, true} {
				if bad != "" {
					continue
				}
				k := c10Exec(f, func(m *c10m, w *pathWalker) {
					m.spare = spare
					m.paramBuf(w, f.Params[0], "DST", c10Prefix, c10Spare(spare), true, false)
					m.paramBuf(w, f.Params[1], "IN", n, 0, false, true)
					m.paramArr(f.Params[2], "privatekey", true)
				})
				cases++
				id := fmt.Sprintf("message of %d bytes, spare capacity %v: ", n, spare)
				in := c10seq("IN", 0, n)
				if p := k.problem(); p != "" {
					bad = id + p
				} else if d := k.outputIs(0, c10cat(c10Dst(), c10seq(c10EdSig(c10seq("privatekey", 0, 64), in), 0, 64), in), none); d != "" {
					bad = id + d
				}
			}
		}
		c.check(bad == "" && cases > 0, "C10.sign", "sign.Sign", f, "signature | message with the signature over exactly the message", "Sign does not emit the Ed25519 signature of the message followed by the message: "+bad)
	}
	if f := c.fn(pkg, "Open"); f != nil && c10Arity(c, f, 3) {
		bad, cases := "", 0
		for _, n := range []int64{0, 1, 63, 64, 65, 100} {
			for _, verdict := range []int64{1, 0} {
				for _, spare := range []bool{false, true} {
					if bad != "" {
						continue
					}
					k := c10Exec(f, func(m *c10m, w *pathWalker) {
						m.verdict, m.spare = verdict, spare
						m.paramBuf(w, f.Params[0], "DST", c10Prefix, c10Spare(spare), true, false)
						m.paramBuf(w, f.Params[1], "IN", n, 0, false, true)
						m.paramArr(f.Params[2], "publickey", true)
					})
					cases++
					id := fmt.Sprintf("input of %d bytes, spare capacity %v, verdict %d: ", n, spare, verdict)
					if p := k.problem(); p != "" {
						bad = id + p
						continue
					}
					if n < 64 {
						if len(k.m.checks) != 0 {
							bad = id + "an input shorter than a signature reaches the verification"
						} else if d := k.rejected(); d != "" {
							bad = id + d
						}
						continue
					}
					msg := c10seq("IN", 64, n)
					if d := k.verifiedBy(c10EdVerify(c10seq("publickey", 0, 32), msg, c10seq("IN", 0, 64)), none); d != "" {
						bad = id + d
					} else if verdict == 0 {
						if d := k.rejected(); d != "" {
							bad = id + d
						}
					} else if d := k.outputIs(0, c10cat(c10Dst(), msg), none); d != "" {
						bad = id + d
					} else if b, ok := k.boolResult(1); !ok || b != 1 {
						bad = id + "a verified message is not reported as ok"
					}
				}
			}
		}
		c.check(bad == "" && cases > 0, "C10.sign", "sign.Open", f, "verifies message = input[64:] under signature = input[:64] before copying", "Open does not verify input[64:] against input[:64] before releasing the message: "+bad)
	}
}

// ---------------------------------------------------------------------------
// auth

func c10Auth(c *Ctx) {
	const pkg = "nacl/auth"
	key := c10seq("key", 0, 32)
	mac := func(n int64) []c10byte {
		return c10seq(c10Digest("HMAC-SHA512", 64, key, c10seq("IN", 0, n)), 0, 32)
	}
	none := strings.NewReplacer()
	if f := c.fn(pkg, "Sum"); f != nil && c10Arity(c, f, 2) {
		bad := ""
		for _, n := range []int64{0, 1, 200} {
			k := c10Exec(f, func(m *c10m, w *pathWalker) {
				m.paramBuf(w, f.Params[0], "IN", n, 0, false, true)
				m.paramArr(f.Params[1], "key", true)
			})
			if p := k.problem(); p != "" {
				bad = p
			} else if d := k.outputIs(0, mac(n), none); d != "" && bad == "" {
				bad = fmt.Sprintf("message of %d bytes: %s", n, d)
			}
		}
		c.check(bad == "", "C10.auth", "auth.Sum", f, "HMAC-SHA-512 over the message under the key, first 32 bytes", "auth.Sum is not HMAC-SHA-512-256 of the message: "+bad)
	}
	if f := c.fn(pkg, "Verify"); f != nil && c10Arity(c, f, 3) {
		bad := ""
		for _, dl := range []int64{0, 31, 32, 33, 64} {
			for _, verdict := range []int64{1, 0} {
				if bad != "" {
					continue
				}
				const n = 7
				k := c10Exec(f, func(m *c10m, w *pathWalker) {
					m.verdict = verdict
					m.paramBuf(w, f.Params[0], "DIGEST", dl, 0, false, true)
					m.paramBuf(w, f.Params[1], "IN", n, 0, false, true)
					m.paramArr(f.Params[2], "key", true)
				})
				id := fmt.Sprintf("digest of %d bytes, verdict %d: ", dl, verdict)
				if p := k.problem(); p != "" {
					bad = id + p
					continue
				}
				b, ok := k.w.env.eval(k.result(0))
				switch {
				case !ok:
					bad = id + "the result does not evaluate"
				case dl != 32 && b != 0:
					bad = id + "a digest of the wrong length is accepted"
				case dl == 32:
					if d := k.verifiedBy(c10CtEq(c10seq("DIGEST", 0, 32), mac(n)), none); d != "" {
						bad = id + d
					} else if b != verdict {
						bad = id + "the result is not the outcome of the comparison"
					}
				}
			}
		}
		c.check(bad == "", "C10.auth", "auth.Verify", f, "HMAC-SHA-512 over the message under the key, first 32 bytes, constant-time comparison of a 32-byte digest", "auth.Verify is not HMAC-SHA-512-256 of the message: "+bad)
	}
}

func c10Arity(c *Ctx, f *ssa.Function, n int) bool {
	if len(f.Params) != n {
		c.fail("C10.signature", f.Name(), f, fmt.Sprintf("%d parameters where the NaCl API has %d; the rule cannot bind its inputs", len(f.Params), n))
		return false
	}
	return true
}

func c10Uniq(xs []string) []string {
	seen := map[string]bool{}
	var out []string
	for _, x := range xs {
		if !seen[x] {
			seen[x] = true
			out = append(out, x)
		}
	}
	return out
}
