package main

import (
	"fmt"
	"go/types"
	"strings"

	"golang.org/x/tools/go/ssa"
)

func init() {
	register(&propDef{
		id: "C25", run: runC25, minOblig: 18,
		explanation: "Decides, by abstract interpretation of the packet cipher methods over a byte-level memory model (ssh-package helpers interpreted in place, crypto primitives modelled; memory identified by struct field, parameter index or allocation, never by the name of a local, parameter or receiver), what the four SSH packet cipher writers put on the io.Writer and what the stream, GCM and chacha20-poly1305 readers do with such bytes, for payload lengths 0..40, 255, 256, 1000, 32768, every MAC/EtM/block-size combination and both buffer-growth paths: (framing, RFC 4253 section 6) the bytes written are length || padding_length || payload || random padding || MAC/tag in this order, padding is >= 4 and < 4 + block, the aligned part is a multiple of the block size (16 stream/GCM, 8 chacha20-poly1305, max(8, cipher block) CBC; the 4 length bytes excluded for EtM, GCM and chacha20-poly1305), the length field equals 1 + payload + padding, CBC packets are at least 16 bytes, and every byte that must be encrypted is encrypted exactly once, at the keystream position of its place in the packet (the length stays in clear for EtM and GCM); (MAC) the first MAC input after Reset is the big-endian sequence number, followed by exactly the packet bytes — as sent (ciphertext) with EtM, as plaintext without — and the MAC output is what is appended (writer) or compared with the received MAC (reader); readers return exactly the payload bytes, decrypted; (AEAD) GCM seals and opens under the current IV with the 4-byte length as additional data and afterwards the IV is the old IV with the 64-bit big-endian invocation counter iv[4:12] incremented by one modulo 2^64 (eleven counter values including every carry length and the wrap), the fixed field iv[0:4] untouched, and is unchanged when Open fails; chacha20-poly1305 uses key[:32] for the payload and key[32:] for the length, both with nonce = 8 zero bytes || big-endian sequence number, derives the Poly1305 key from the first 32 keystream bytes of the payload cipher, encrypts the payload from keystream block 1, and computes/verifies the tag over the encrypted length and ciphertext; RC4 variants discard the RFC 4345 amount of keystream; (sequence numbers) connectionState passes seqNum to the cipher and increments it on every path of readPacket and on every non-error path of writePacket (helpers followed). NOT decided: byte-exact output against an independent implementation; the CBC reader; sequence-number wrap.",
		assumptions: []string{"hash.Hash / cipher.Stream / cipher.BlockMode / cipher.AEAD / chacha20 / poly1305 contracts"},
	})
	tech("C25", "abstract interpretation (pathWalker + byte-level memory and keystream model) of the cipher methods over a finite grid of payload lengths, modes and IVs; interprocedural CFG ordering rule for the sequence counter")
}

const c25seq = 0x01020304

var c25payloads = []int64{0, 1, 2, 3, 4, 5, 6, 7, 8, 9, 10, 11, 12, 13, 14, 15, 16, 17, 18, 19, 20, 21, 22, 23, 24, 25, 26, 27, 28, 29, 30, 31, 32, 33, 39, 40, 255, 256, 1000, 32768}

// IV counter values: every carry length, the wrap, and sign-bit patterns.
var c25counters = []uint64{0, 0xfe, 0xff, 0xffff, 0x0100ff, 0xffffffff, 0xffffffffff, 0x00ffffffffffffff, 0x7fffffffffffffff, 0x0102030405060708, 0xffffffffffffffff}

type c25case struct {
	pl, mac, etm, bs int64
	bigCap           bool
	counter          uint64
	failOpen         bool
	probe            bool
	ivObj            string // storage object of the GCM IV ("" = none)
	script           func(pos int64) c25cell
}

func (cs c25case) String() string {
	return fmt.Sprintf("payload=%d mac=%d etm=%d block=%d grow=%v", cs.pl, cs.mac, cs.etm, cs.bs, !cs.bigCap)
}

var c25ivFixed = []int64{0xde, 0xad, 0xbe, 0xef}

func c25ivBytes(counter uint64) []int64 {
	out := append([]int64(nil), c25ivFixed...)
	for i := 7; i >= 0; i-- {
		out = append(out, int64(counter>>(8*uint(i))&0xff))
	}
	return out
}

// c25run interprets one cipher method for one case. Parameters by index:
// writers (recv, seqNum, w, rand, packet), readers (recv, seqNum, r).
func c25run(f *ssa.Function, cs c25case, reader bool) (*c25sim, *pathWalker, string) {
	s := newC25sim(f)
	s.reader = reader
	if reader {
		s.srcIdx = 2
		s.script = cs.script
	} else {
		s.sinkIdx, s.srcIdx = 2, 3
	}
	s.bigCap, s.failOpen, s.probe = cs.bigCap, cs.failOpen, cs.probe
	if cs.bs > 0 {
		s.blockSize = cs.bs
	}
	s.fields["etm"] = cs.etm
	s.fields["macSize"] = cs.mac * s.macSize
	s.nilIface = func(t types.Type) (bool, bool) {
		if c25typeIs(t, "hash.Hash") {
			return cs.mac == 0, true
		}
		return false, false
	}
	if cs.ivObj != "" {
		for i, b := range c25ivBytes(cs.counter) {
			s.put(cs.ivObj, int64(i), c25cell{known: true, v: b})
		}
		s.fieldLen[strings.TrimPrefix(cs.ivObj, "S:")] = 12
	}
	w := s.walker()
	if len(f.Params) > 1 {
		w.env.bind(f.Params[1], c25seq)
	}
	if !reader && len(f.Params) > 4 {
		w.env.bind(f.Params[4], cs.pl)
	}
	end := w.walk(f.Blocks[0], nil)
	if end != "return" {
		return s, w, fmt.Sprintf("evaluation ended with %s %s", end, w.why)
	}
	if s.problem != "" {
		return s, w, s.problem
	}
	if w.oob {
		return s, w, "an index or slice expression leaves its bounds"
	}
	return s, w, ""
}

// c25frame: the written bytes start with length || padding_length || payload ||
// random padding.
func c25frame(wire []c25cell, pl int64, payloadTag string) (L, P int64, bad string) {
	if len(wire) < 5 {
		return 0, 0, fmt.Sprintf("only %d bytes are written", len(wire))
	}
	L, ok := c25be(wire[:4])
	if !ok {
		return 0, 0, "the first four bytes written are not a computed length field"
	}
	if !wire[4].known {
		return L, 0, "the fifth byte written is not a computed padding length"
	}
	P = wire[4].v
	if P < 4 || L != 1+pl+P {
		return L, P, fmt.Sprintf("padding %d, length field %d (need padding >= 4 and length = 1+payload+padding)", P, L)
	}
	if int64(len(wire)) < 4+L {
		return L, P, fmt.Sprintf("length field %d but only %d bytes are written", L, len(wire))
	}
	for i := int64(0); i < pl; i++ {
		if c := wire[5+i]; c.tag != payloadTag || c.idx != i {
			return L, P, fmt.Sprintf("byte %d of the packet is not payload byte %d", 5+i, i)
		}
	}
	for j := int64(0); j < P; j++ {
		c := wire[5+pl+j]
		if c.tag != "rand" || (j > 0 && c.idx != wire[5+pl].idx+j) {
			return L, P, fmt.Sprintf("padding byte %d is not fresh random data", j)
		}
	}
	return L, P, ""
}

// c25encrypted: wire[lo:hi) is encrypted once, all under one keystream, byte i
// at keystream offset ks0+(i-lo). Returns the keystream identity.
func c25encrypted(wire []c25cell, lo, hi, ks0 int64, checkKS bool) (string, string) {
	id := ""
	for i := lo; i < hi; i++ {
		c := wire[i]
		switch {
		case c.enc == "":
			return id, fmt.Sprintf("byte %d of the packet is sent unencrypted", i)
		case c.enc == "mixed":
			return id, fmt.Sprintf("byte %d of the packet is encrypted twice or under the wrong keystream position", i)
		case id != "" && c.enc != id:
			return id, fmt.Sprintf("byte %d of the packet is encrypted under a different cipher than byte %d", i, lo)
		case checkKS && c.ks != ks0+(i-lo):
			return id, fmt.Sprintf("byte %d of the packet is encrypted at keystream offset %d instead of %d", i, c.ks, ks0+(i-lo))
		}
		id = c.enc
	}
	return id, ""
}

func c25clear(wire []c25cell, lo, hi int64) string {
	for i := lo; i < hi; i++ {
		if wire[i].enc != "" {
			return fmt.Sprintf("byte %d of the packet must stay in clear but is encrypted", i)
		}
	}
	return ""
}

func c25tail(wire []c25cell, from int64, tag string, n int64) string {
	if int64(len(wire)) != from+n {
		return fmt.Sprintf("%d bytes are written, expected %d (4 + length + %d bytes of %s)", len(wire), from+n, n, tag)
	}
	for i := int64(0); i < n; i++ {
		if c := wire[from+i]; c.tag != tag || c.idx != i || c.enc != "" {
			return fmt.Sprintf("byte %d after the packet is not byte %d of the %s", i, i, tag)
		}
	}
	return ""
}

// c25macInput: the bytes absorbed between the last Reset and the Sum.
func c25macInput(evs []c25ev) (in []c25cell, bad string) {
	started, summed := false, false
	for _, e := range evs {
		switch e.kind {
		case "mac.reset":
			started, summed, in = true, false, nil
		case "mac.write":
			if !started {
				return nil, "MAC input before Reset"
			}
			if summed {
				return nil, "MAC input after the MAC was taken"
			}
			in = append(in, e.data...)
		case "mac.sum":
			summed = true
		}
	}
	if !started || !summed {
		return nil, "no Reset … Sum sequence on the MAC"
	}
	return in, ""
}

// c25macCheck compares the MAC input with seq || packet. image is the packet
// as on the wire; with etm the MAC must absorb exactly that, without etm its
// plaintext. Returns (seq problem, order problem).
func c25macCheck(evs []c25ev, image []c25cell, etm bool) (string, string) {
	in, bad := c25macInput(evs)
	if bad != "" {
		return bad, bad
	}
	seqBad := ""
	if len(in) < 4 {
		return "the MAC's first input is not the big-endian sequence number of this packet", "the MAC input is shorter than a sequence number"
	}
	if v, ok := c25be(in[:4]); !ok || v != c25seq || c25clear(in, 0, 4) != "" {
		seqBad = "the MAC's first input is not the big-endian sequence number of this packet"
	}
	body := in[4:]
	if len(body) != len(image) {
		return seqBad, fmt.Sprintf("the MAC absorbs %d bytes after the sequence number, the packet has %d", len(body), len(image))
	}
	for i := range body {
		if !c25sameContent(body[i], image[i]) {
			return seqBad, fmt.Sprintf("MAC input byte %d is not byte %d of the packet", i, i)
		}
		if etm && (body[i].enc != image[i].enc || body[i].ks != image[i].ks) {
			return seqBad, fmt.Sprintf("etm=1: MAC input byte %d is not the byte as it is on the wire (encrypt-then-MAC requires the MAC over the ciphertext)", i)
		}
		if !etm && body[i].enc != "" {
			return seqBad, fmt.Sprintf("etm=0: MAC input byte %d is ciphertext (encrypt-and-MAC requires the MAC over the plaintext)", i)
		}
	}
	return seqBad, ""
}

func c25first(dst *string, format string, a ...any) {
	if *dst == "" {
		*dst = fmt.Sprintf(format, a...)
	}
}

func c25pad(pl, block, skip int64) (P, L int64) {
	P = block - (5+pl-skip)%block
	if P < 4 {
		P += block
	}
	return P, 1 + pl + P
}

// c25wireScript: a well-formed incoming packet for payload length pl: cells of
// the wire image, position by position.
func c25wireScript(pl, L, P int64, enc func(pos int64) (string, int64), tailTag string) func(int64) c25cell {
	return func(pos int64) c25cell {
		c := c25cell{tag: "w", idx: pos}
		switch {
		case pos < 4:
			c = c25cell{known: true, v: L >> (8 * uint(3-pos)) & 0xff}
		case pos == 4:
			c = c25cell{known: true, v: P}
		case pos >= 4+L:
			return c25cell{tag: tailTag, idx: pos - (4 + L)}
		}
		c.enc, c.ks = enc(pos)
		return c
	}
}

// c25returned: the reader returns exactly the payload bytes, decrypted.
func c25returned(s *c25sim, w *pathWalker, pl int64) string {
	ret, ok := w.last.(*ssa.Return)
	if !ok || len(ret.Results) < 1 {
		return "no payload is returned"
	}
	r, n, ok := s.region(w, ret.Results[0])
	if !ok {
		return "the returned payload lies outside the model"
	}
	if n != pl {
		return fmt.Sprintf("%d bytes are returned for a payload of %d", n, pl)
	}
	for i, c := range s.snapshot(r, n) {
		if c.tag != "w" || c.idx != 5+int64(i) {
			return fmt.Sprintf("returned byte %d is not payload byte %d of the packet", i, i)
		}
		if c.enc != "" {
			return fmt.Sprintf("returned byte %d is not decrypted (or decrypted at the wrong keystream position)", i)
		}
	}
	return ""
}

func runC25(c *Ctx) {
	c25RC4Discard(c)
	c25Stream(c)
	c25GCM(c)
	c25ChaCha(c)
	c25CBC(c)
	c25SeqNum(c)
}

// ---------- stream cipher + MAC (encrypt-and-MAC and EtM)
func c25Stream(c *Ctx) {
	modes := []struct{ mac, etm int64 }{{0, 0}, {1, 0}, {1, 1}}
	if f := c.fn("ssh", "(*streamPacketCipher).writeCipherPacket"); f != nil && len(f.Params) == 5 {
		frame, order, seq := "", "", ""
		n := 0
		for _, pl := range c25payloads {
			for _, m := range modes {
				cs := c25case{pl: pl, mac: m.mac, etm: m.etm, bigCap: pl%2 == 1}
				s, _, bad := c25run(f, cs, false)
				n++
				if bad != "" {
					c25first(&frame, "%v: %s", cs, bad)
					continue
				}
				L, P, bad := c25frame(s.wire, pl, "p4")
				skip := int64(0)
				if m.mac == 1 && m.etm == 1 {
					skip = 4
				}
				if bad == "" && (P >= 4+16 || (4+L-skip)%16 != 0) {
					bad = fmt.Sprintf("padding %d, length field %d (need padding in [4,20), (5+payload+padding-%d)%%16==0, length = 1+payload+padding)", P, L, skip)
				}
				if bad == "" {
					bad = c25clear(s.wire, 0, skip)
				}
				if bad == "" {
					_, bad = c25encrypted(s.wire, skip, 4+L, 0, true)
				}
				if bad == "" {
					bad = c25tail(s.wire, 4+L, "mac", m.mac*s.macSize)
				}
				if bad != "" {
					c25first(&frame, "%v: %s", cs, bad)
					continue
				}
				if m.mac == 1 {
					sb, ob := c25macCheck(s.events, s.wire[:4+L], m.etm == 1)
					if sb != "" {
						c25first(&seq, "%v: %s", cs, sb)
					}
					if ob != "" {
						c25first(&order, "%v: %s", cs, ob)
					}
				}
			}
		}
		c.check(frame == "", "C25.framing", "(*streamPacketCipher).writeCipherPacket", f, fmt.Sprintf("length || padding length || payload || padding || MAC written, padding and length correct, every byte encrypted once in stream order, on %d (payload, mode) cases", n), frame)
		c.check(order == "", "C25.mac-order", "(*streamPacketCipher).writeCipherPacket", f, "EtM MACs the packet as sent, plain MAC modes MAC the plaintext packet (both flag values interpreted)", order)
		c.check(seq == "", "C25.mac-seq", "(*streamPacketCipher).writeCipherPacket", f, "the MAC starts with the big-endian packet sequence number", seq)
	}
	if f := c.fn("ssh", "(*streamPacketCipher).readCipherPacket"); f != nil && len(f.Params) == 3 {
		frame, order, seq := "", "", ""
		n := 0
		for _, pl := range c25payloads {
			if pl == 0 {
				continue // a packet without payload is rejected by the layer above
			}
			for _, m := range modes {
				skip := int64(0)
				if m.mac == 1 && m.etm == 1 {
					skip = 4
				}
				P, L := c25pad(pl, 16, skip)
				tailN := m.mac * 20
				enc := func(pos int64) (string, int64) {
					if pos < skip {
						return "", 0
					}
					return "*", pos - skip
				}
				cs := c25case{pl: pl, mac: m.mac, etm: m.etm, bigCap: pl%2 == 1, script: c25wireScript(pl, L, P, enc, "wmac")}
				s, w, bad := c25run(f, cs, true)
				n++
				if bad == "" && s.rpos != 4+L+tailN {
					bad = fmt.Sprintf("%d bytes are consumed from the connection, the packet has %d", s.rpos, 4+L+tailN)
				}
				if bad == "" {
					bad = c25returned(s, w, pl)
				}
				if bad != "" {
					c25first(&frame, "%v: %s", cs, bad)
					continue
				}
				if m.mac == 1 {
					image := make([]c25cell, 4+L)
					for i := range image {
						image[i] = cs.script(int64(i))
					}
					sb, ob := c25macCheck(s.events, image, m.etm == 1)
					if ob == "" {
						ob = "the computed MAC is not compared with the received one"
						for _, e := range s.events {
							if e.kind == "compare" && (c25allTag(e.data, "mac", 20) && c25allTag(e.aad, "wmac", 20) || c25allTag(e.aad, "mac", 20) && c25allTag(e.data, "wmac", 20)) {
								ob = ""
							}
						}
					}
					if sb != "" {
						c25first(&seq, "%v: %s", cs, sb)
					}
					if ob != "" {
						c25first(&order, "%v: %s", cs, ob)
					}
				}
			}
		}
		c.check(frame == "", "C25.framing", "(*streamPacketCipher).readCipherPacket", f, fmt.Sprintf("consumes exactly one packet and returns its payload decrypted on %d (payload, mode) cases", n), frame)
		c.check(order == "", "C25.mac-order", "(*streamPacketCipher).readCipherPacket", f, "EtM verifies the MAC over the packet as received, plain MAC modes over the decrypted packet (both flag values interpreted)", order)
		c.check(seq == "", "C25.mac-seq", "(*streamPacketCipher).readCipherPacket", f, "the MAC starts with the big-endian packet sequence number", seq)
	}
}

func c25allTag(cells []c25cell, tag string, n int64) bool {
	if int64(len(cells)) != n {
		return false
	}
	for i, c := range cells {
		if c.tag != tag || c.idx != int64(i) {
			return false
		}
	}
	return true
}

// ---------- AES-GCM
func c25ivCheck(s *c25sim, ivObj string, counter uint64, wantInc bool) string {
	want := counter
	if wantInc {
		want++
	}
	exp := c25ivBytes(want)
	got := make([]int64, 12)
	for i := range got {
		c := s.get(ivObj, int64(i))
		if !c.known {
			return fmt.Sprintf("IV byte %d is not a computed value after the packet", i)
		}
		got[i] = c.v
	}
	for i := range got {
		if got[i] != exp[i] {
			if wantInc {
				return fmt.Sprintf("invocation counter %#016x: the IV becomes % x, expected % x (RFC 5647: iv[4:12] is a 64-bit big-endian counter incremented by one per packet, iv[0:4] is fixed)", counter, c25bytes(got), c25bytes(exp))
			}
			return fmt.Sprintf("invocation counter %#016x: the IV changes to % x although no packet was processed", counter, c25bytes(got))
		}
	}
	return ""
}

func c25bytes(v []int64) []byte {
	out := make([]byte, len(v))
	for i, b := range v {
		out[i] = byte(b)
	}
	return out
}

func c25knownEq(cells []c25cell, want []int64) bool {
	if len(cells) != len(want) {
		return false
	}
	for i, c := range cells {
		if !c.known || c.v != want[i] || c.enc != "" {
			return false
		}
	}
	return true
}

func c25be32(v int64) []int64 {
	return []int64{v >> 24 & 0xff, v >> 16 & 0xff, v >> 8 & 0xff, v & 0xff}
}

// c25aeadOp: the single Seal/Open of a run.
func c25aeadOp(s *c25sim, kind string) (*c25ev, string) {
	var op *c25ev
	for i := range s.events {
		if s.events[i].kind == kind {
			if op != nil {
				return nil, "more than one AEAD operation per packet"
			}
			op = &s.events[i]
		}
	}
	if op == nil {
		return nil, "no AEAD operation on the packet"
	}
	return op, ""
}

// c25persistent: storage that outlives the call (a field of the cipher: the
// slice it holds, or an array in it).
func c25persistent(r c25ref) bool {
	return r.off == 0 && (strings.HasPrefix(r.obj, "S:") || strings.HasPrefix(r.obj, "F:"))
}

func c25GCM(c *Ctx) {
	if f := c.fn("ssh", "(*gcmCipher).writeCipherPacket"); f != nil && len(f.Params) == 5 {
		// where does the nonce live? (probe run; the storage handed to Seal as nonce is the IV)
		ivObj := ""
		if s, _, _ := c25run(f, c25case{pl: 10, probe: true}, false); s != nil {
			if op, _ := c25aeadOp(s, "seal"); op != nil && c25persistent(op.ref) {
				ivObj = op.ref.obj
			}
		}
		frame, aead, ctr := "", "", ""
		if ivObj == "" {
			frame, aead, ctr = "no Seal under a nonce kept in the cipher state found", "no Seal under a nonce kept in the cipher state found", "no Seal under a nonce kept in the cipher state found"
		}
		run := func(cs c25case) {
			cs.ivObj = ivObj
			s, _, bad := c25run(f, cs, false)
			if bad != "" {
				c25first(&frame, "%v: %s", cs, bad)
				return
			}
			L, P, bad := c25frame(s.wire, cs.pl, "p4")
			if bad == "" && (P >= 20 || L%16 != 0) {
				bad = fmt.Sprintf("padding %d length %d (need padding in [4,20), (1+payload+padding)%%16 == 0)", P, L)
			}
			if bad == "" {
				bad = c25clear(s.wire, 0, 4)
			}
			if bad == "" {
				var id string
				if id, bad = c25encrypted(s.wire, 4, 4+L, 0, false); bad == "" && id != "aead" {
					bad = "the packet body is not the output of the AEAD"
				}
			}
			if bad == "" {
				bad = c25tail(s.wire, 4+L, "aeadtag", 16)
			}
			if bad != "" {
				c25first(&frame, "%v: %s", cs, bad)
				return
			}
			op, bad := c25aeadOp(s, "seal")
			switch {
			case bad != "":
			case !c25knownEq(op.nonce, c25ivBytes(cs.counter)):
				bad = "Seal does not use the current IV as nonce"
			case !c25knownEq(op.aad, c25be32(L)):
				bad = "Seal does not use the length prefix as additional data"
			case op.n != L:
				bad = fmt.Sprintf("Seal encrypts %d bytes, the packet body has %d", op.n, L)
			}
			if bad != "" {
				c25first(&aead, "%v: %s", cs, bad)
				return
			}
			if bad := c25ivCheck(s, ivObj, cs.counter, true); bad != "" {
				c25first(&ctr, "%s", bad)
			}
		}
		if ivObj != "" {
			for _, pl := range c25payloads {
				run(c25case{pl: pl, counter: 0x0102030405060708, bigCap: pl%2 == 1})
				run(c25case{pl: pl, counter: 0xff, bigCap: pl%2 == 0})
			}
			for _, k := range c25counters {
				run(c25case{pl: 10, counter: k})
			}
		}
		c.check(frame == "", "C25.framing", "(*gcmCipher).writeCipherPacket", f, "length in clear || sealed(padding length || payload || padding) || tag; padding >= 4, (1+payload+padding)%16 == 0, length = 1+payload+padding", frame)
		c.check(aead == "", "C25.aead", "(*gcmCipher).writeCipherPacket Seal", f, "sealed under the current IV with the length prefix as additional data", aead)
		c.check(ctr == "", "C25.gcm-counter", "(*gcmCipher).writeCipherPacket", f, fmt.Sprintf("after each sealed packet the IV is the old one with the 64-bit big-endian counter iv[4:12] incremented (mod 2^64) on %d counter values", len(c25counters)), ctr)
	}
	if f := c.fn("ssh", "(*gcmCipher).readCipherPacket"); f != nil && len(f.Params) == 3 {
		mk := func(pl int64) (c25case, int64) {
			P, L := c25pad(pl, 16, 4)
			enc := func(pos int64) (string, int64) {
				if pos < 4 {
					return "", 0
				}
				return "*", 0
			}
			return c25case{pl: pl, script: c25wireScript(pl, L, P, enc, "wtag")}, L
		}
		ivObj := ""
		{
			cs, _ := mk(10)
			cs.probe = true
			if s, _, _ := c25run(f, cs, true); s != nil {
				if op, _ := c25aeadOp(s, "open"); op != nil && c25persistent(op.ref) {
					ivObj = op.ref.obj
				}
			}
		}
		aead, ctr := "", ""
		if ivObj == "" {
			aead, ctr = "no Open under a nonce kept in the cipher state found", "no Open under a nonce kept in the cipher state found"
		}
		run := func(pl int64, counter uint64, bigCap, failOpen bool) {
			cs, L := mk(pl)
			cs.ivObj, cs.counter, cs.bigCap, cs.failOpen = ivObj, counter, bigCap, failOpen
			sim, w, bad := c25run(f, cs, true)
			if bad != "" {
				c25first(&aead, "%v: %s", cs, bad)
				return
			}
			op, bad := c25aeadOp(sim, "open")
			switch {
			case bad != "":
			case !c25knownEq(op.nonce, c25ivBytes(counter)):
				bad = "Open does not use the current IV as nonce"
			case !c25knownEq(op.aad, c25be32(L)):
				bad = "Open does not use the length prefix as additional data"
			case op.n != L+16:
				bad = fmt.Sprintf("Open is given %d bytes, body and tag have %d", op.n, L+16)
			default:
				for i, cell := range op.data {
					if !c25sameContent(cell, cs.script(4+int64(i))) || cell.enc != cs.script(4+int64(i)).enc {
						bad = fmt.Sprintf("byte %d given to Open is not byte %d of the received packet", i, 4+i)
						break
					}
				}
			}
			if bad == "" && !failOpen {
				if sim.rpos != 4+L+16 {
					bad = fmt.Sprintf("%d bytes are consumed from the connection, the packet has %d", sim.rpos, 4+L+16)
				} else {
					bad = c25returned(sim, w, pl)
				}
			}
			if bad != "" {
				c25first(&aead, "%v: %s", cs, bad)
				return
			}
			if bad := c25ivCheck(sim, ivObj, counter, !failOpen); bad != "" {
				if failOpen {
					bad += " (Open failed)"
				}
				c25first(&ctr, "%s", bad)
			}
		}
		if ivObj != "" {
			for _, pl := range c25payloads {
				if pl > 0 {
					run(pl, 0x0102030405060708, pl%2 == 1, false)
				}
			}
			for _, k := range c25counters {
				run(10, k, false, false)
				run(10, k, true, true)
			}
		}
		c.check(aead == "", "C25.aead", "(*gcmCipher).readCipherPacket Open", f, "opens body || tag under the current IV with the length prefix as additional data and returns the payload", aead)
		c.check(ctr == "", "C25.gcm-counter", "(*gcmCipher).readCipherPacket", f, "the invocation counter iv[4:12] advances by one exactly when a packet was opened successfully", ctr)
	}
}

// ---------- chacha20-poly1305@openssh.com
func c25ChaCha(c *Ctx) {
	// key split, from the constructor: which key bytes end up in which field
	contentObj, lengthObj := "", ""
	if f := c.fn("ssh", "newChaCha20Cipher"); f != nil && len(f.Params) >= 1 {
		s := newC25sim(f)
		w := s.walker()
		w.env.bind(f.Params[0], 64)
		end := w.walk(f.Blocks[0], nil)
		got := map[string]string{}
		for obj, m := range s.mem {
			if !strings.HasPrefix(obj, "F:") || len(m) != 32 {
				continue
			}
			lo, ok := int64(-1), true
			for i := int64(0); i < 32; i++ {
				cell, has := m[i]
				if !has || cell.tag != "p0" {
					ok = false
					break
				}
				if i == 0 {
					lo = cell.idx
				} else if cell.idx != lo+i {
					ok = false
				}
			}
			if !ok {
				continue
			}
			got[obj[strings.LastIndex(obj, ".")+1:]] = fmt.Sprintf("key[%d:%d]", lo, lo+32)
			switch lo {
			case 0:
				contentObj = obj
			case 32:
				lengthObj = obj
			}
		}
		ok := end == "return" && s.problem == "" && contentObj != "" && lengthObj != "" && len(got) == 2
		c.check(ok, "C25.aead", "newChaCha20Cipher key split", f, "two 32-byte keys: key[:32] and key[32:]", fmt.Sprintf("the 64 key bytes are split as %v (%s %s); PROTOCOL.chacha20poly1305 requires K_2 = key[:32] for the payload and K_1 = key[32:] for the length", got, end, s.problem))
		if !ok {
			return
		}
	} else {
		return
	}
	contentID := fmt.Sprintf("K:%s+0/32", contentObj)
	lengthID := fmt.Sprintf("K:%s+0/32", lengthObj)
	wantNonce := append(make([]int64, 8), c25be32(c25seq)...)
	role := func(id string) string {
		switch id {
		case contentID:
			return "key[:32]"
		case lengthID:
			return "key[32:]"
		}
		return "an unknown key"
	}
	nonces := func(s *c25sim) string {
		n := 0
		for _, e := range s.events {
			if e.kind == "newcipher" {
				n++
				if !c25knownEq(e.nonce, wantNonce) {
					return "the chacha20 nonce is not 8 zero bytes followed by the big-endian sequence number"
				}
			}
		}
		if n == 0 {
			return "no chacha20 instance is created for the packet"
		}
		return ""
	}
	polyKey := func(key []c25cell) string {
		if len(key) != 32 {
			return "the Poly1305 key is not 32 bytes"
		}
		for i, k := range key {
			if k.enc != contentID || k.ks != int64(i) || !k.known || k.v != 0 {
				return "the Poly1305 key is not the first 32 keystream bytes of the payload cipher (key[:32], block counter 0)"
			}
		}
		return ""
	}
	if f := c.fn("ssh", "(*chacha20Poly1305Cipher).writeCipherPacket"); f != nil && len(f.Params) == 5 {
		frame, tag, nonce, split := "", "", "", ""
		for _, pl := range c25payloads {
			cs := c25case{pl: pl, bigCap: pl%2 == 1}
			s, _, bad := c25run(f, cs, false)
			if bad != "" {
				c25first(&frame, "%v: %s", cs, bad)
				continue
			}
			L, P, bad := c25frame(s.wire, pl, "p4")
			if bad == "" && (P >= 12 || L%8 != 0) {
				bad = fmt.Sprintf("padding %d length %d (need padding in [4,12), (1+payload+padding)%%8 == 0)", P, L)
			}
			if bad == "" {
				bad = c25tail(s.wire, 4+L, "polytag", 16)
			}
			if bad != "" {
				c25first(&frame, "%v: %s", cs, bad)
				continue
			}
			lid, bad1 := c25encrypted(s.wire, 0, 4, 0, true)
			cid, bad2 := c25encrypted(s.wire, 4, 4+L, 64, true)
			switch {
			case bad1 != "":
				c25first(&split, "%v: length field: %s", cs, bad1)
			case bad2 != "":
				c25first(&split, "%v: %s (the payload starts at keystream block 1)", cs, bad2)
			case lid != lengthID || cid != contentID:
				c25first(&split, "%v: the length is encrypted under %s and the payload under %s; PROTOCOL.chacha20poly1305 requires key[32:] for the length and key[:32] for the payload", cs, role(lid), role(cid))
			}
			if bad := nonces(s); bad != "" {
				c25first(&nonce, "%v: %s", cs, bad)
			}
			bad = "the Poly1305 tag is not computed over the encrypted packet"
			for _, e := range s.events {
				if e.kind != "poly.sum" {
					continue
				}
				bad = polyKey(e.key)
				if bad == "" && int64(len(e.data)) != 4+L {
					bad = fmt.Sprintf("the Poly1305 tag covers %d bytes, encrypted length and ciphertext have %d", len(e.data), 4+L)
				}
				for i := 0; bad == "" && i < len(e.data); i++ {
					if !c25sameContent(e.data[i], s.wire[i]) || e.data[i].enc != s.wire[i].enc || e.data[i].ks != s.wire[i].ks {
						bad = "the Poly1305 tag is not computed over the encrypted packet"
					}
				}
			}
			if bad != "" {
				c25first(&tag, "%v: %s", cs, bad)
			}
		}
		c.check(frame == "", "C25.framing", "(*chacha20Poly1305Cipher).writeCipherPacket", f, "length || padding length || payload || padding || tag; padding >= 4, (1+payload+padding)%8 == 0, length = 1+payload+padding", frame)
		c.check(split == "", "C25.aead", "(*chacha20Poly1305Cipher).writeCipherPacket keys", f, "length encrypted under key[32:] from keystream offset 0, the rest under key[:32] from block 1", split)
		c.check(tag == "", "C25.aead", "(*chacha20Poly1305Cipher).writeCipherPacket tag", f, "the tag covers the encrypted length and ciphertext (computed after encryption), keyed with the first keystream block of the payload cipher", tag)
		c.check(nonce == "", "C25.aead", "(*chacha20Poly1305Cipher).writeCipherPacket nonce", f, "12-byte nonce with the big-endian sequence number in bytes 8..11", nonce)
	}
	if f := c.fn("ssh", "(*chacha20Poly1305Cipher).readCipherPacket"); f != nil && len(f.Params) == 3 {
		body, nonce := "", ""
		for _, pl := range c25payloads {
			if pl == 0 {
				continue
			}
			P, L := c25pad(pl, 8, 4)
			enc := func(pos int64) (string, int64) {
				if pos < 4 {
					return lengthID, pos
				}
				return contentID, 64 + pos - 4
			}
			cs := c25case{pl: pl, bigCap: pl%2 == 1, script: c25wireScript(pl, L, P, enc, "wtag")}
			s, w, bad := c25run(f, cs, true)
			if bad == "" && s.rpos != 4+L+16 {
				bad = fmt.Sprintf("%d bytes are consumed from the connection, the packet has %d", s.rpos, 4+L+16)
			}
			if bad == "" {
				bad = c25returned(s, w, pl)
			}
			if bad == "" {
				bad = "the Poly1305 tag of the received packet is not verified"
				for _, e := range s.events {
					if e.kind != "poly.verify" {
						continue
					}
					bad = polyKey(e.key)
					if bad == "" && !c25allTag(e.aad, "wtag", 16) {
						bad = "the tag verified is not the 16 bytes that follow the packet"
					}
					if bad == "" && int64(len(e.data)) != 4+L {
						bad = fmt.Sprintf("the Poly1305 tag is verified over %d bytes, encrypted length and ciphertext have %d", len(e.data), 4+L)
					}
					for i := 0; bad == "" && i < len(e.data); i++ {
						want := cs.script(int64(i))
						if !c25sameContent(e.data[i], want) || e.data[i].enc != want.enc || e.data[i].ks != want.ks {
							bad = "the Poly1305 tag is not verified over the packet as received (encrypted length and ciphertext)"
						}
					}
				}
			}
			if bad != "" {
				c25first(&body, "%v: %s", cs, bad)
			}
			if bad := nonces(s); bad != "" {
				c25first(&nonce, "%v: %s", cs, bad)
			}
		}
		c.check(body == "", "C25.aead", "(*chacha20Poly1305Cipher).readCipherPacket", f, "length decrypted under key[32:], tag verified over the packet as received with the first keystream block of key[:32], payload decrypted from block 1 and returned", body)
		c.check(nonce == "", "C25.aead", "(*chacha20Poly1305Cipher).readCipherPacket nonce", f, "12-byte nonce with the big-endian sequence number in bytes 8..11", nonce)
	}
}

// ---------- CBC writer
func c25CBC(c *Ctx) {
	f := c.fn("ssh", "(*cbcCipher).writeCipherPacket")
	if f == nil || len(f.Params) != 5 {
		return
	}
	frame, mac := "", ""
	for _, pl := range c25payloads {
		for _, bs := range []int64{8, 16} {
			for _, m := range []int64{0, 1} {
				cs := c25case{pl: pl, bs: bs, mac: m, bigCap: pl%2 == 1}
				s, _, bad := c25run(f, cs, false)
				if bad != "" {
					c25first(&frame, "%v: %s", cs, bad)
					continue
				}
				L, P, bad := c25frame(s.wire, pl, "p4")
				blk := max(bs, 8)
				if bad == "" && (P > 255 || (4+L)%blk != 0 || 4+L < 16) {
					bad = fmt.Sprintf("padding %d length %d (need (4+length) a multiple of %d and at least 16)", P, L, blk)
				}
				if bad == "" {
					_, bad = c25encrypted(s.wire, 0, 4+L, 0, true)
				}
				if bad == "" {
					bad = c25tail(s.wire, 4+L, "mac", m*s.macSize)
				}
				if bad != "" {
					c25first(&frame, "%v: %s", cs, bad)
					continue
				}
				if m == 1 {
					sb, ob := c25macCheck(s.events, s.wire[:4+L], false)
					if sb != "" {
						c25first(&mac, "%v: %s", cs, sb)
					} else if ob != "" {
						c25first(&mac, "%v: %s", cs, ob)
					}
				}
			}
		}
	}
	c.check(frame == "", "C25.framing", "(*cbcCipher).writeCipherPacket", f, "padding >= 4, (4+length) multiple of max(8, block), length = 1+payload+padding, packet >= 16 bytes, whole packet encrypted in order, MAC appended in clear", frame)
	c.check(mac == "", "C25.mac-order", "(*cbcCipher).writeCipherPacket", f, "the MAC covers the big-endian sequence number and the plaintext packet", mac)
}
