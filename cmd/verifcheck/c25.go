package main

import (
	"fmt"
	"go/token"
	"strings"

	"golang.org/x/tools/go/ssa"
)

func init() {
	register(&propDef{
		id: "C25", run: runC25, minOblig: 18,
		explanation: "Decides RFC 4253 section 6 framing structure of the four SSH packet cipher writers and the sequence/IV bookkeeping: (framing arithmetic, evaluated with Go's fixed-width semantics for payload lengths 0..40, 255, 256, 1000, 32768 and every MAC/EtM/block-size combination) the padding length written is >= 4 and < 4 + block, the encrypted part is a multiple of the block size (16 stream/GCM, 8 chacha20-poly1305, max(8, cipher block) CBC; the 4 length bytes excluded for EtM, GCM and chacha20-poly1305), the length field equals 1 + payload + padding, and CBC packets are at least 16 bytes; (MAC placement) for the stream cipher the first MAC input after Reset is the big-endian sequence number; with EtM the payload is MACed after encryption by the writer and before decryption by the reader, without EtM the other way round (order of mac.Write(payload) and XORKeyStream(payload) evaluated under both flag values); (AEAD) GCM seals and opens with the 4-byte prefix as additional data and increments the invocation counter iv[4:12] — all eight bytes, most significant last — after every packet in both directions; chacha20-poly1305 uses key[:32] for the payload and key[32:] for the length, MACs after encrypting and puts the sequence number in nonce[8:12]; (sequence numbers) connectionState passes seqNum to the cipher and increments it on every path of readPacket and on every non-error path of writePacket. NOT decided: byte-exact framing against an independent implementation; counter wrap-around.",
		assumptions: []string{"hash.Hash / cipher.Stream / cipher.AEAD contracts"},
	})
	tech("C25", "finite-domain evaluation of padding/length arithmetic, flag-conditioned ordering rules on the CFG, loop-bound extraction for the GCM counter, argument-shape rules")
}

func runC25(c *Ctx) {
	c25RC4Discard(c)
	payloads :=[]int64{0, 1, 2, 3, 4, 5, 6, 7, 8, 9, 10, 11, 12, 13, 14, 15, 16, 17, 18, 19, 20, 21, 22, 23, 24, 25, 26, 27, 28, 29, 30, 31, 32, 33, 39, 40, 255, 256, 1000, 32768}
	// ---------- stream writer
	if f := c.fn("ssh", "(*streamPacketCipher).writeCipherPacket"); f != nil {
		pkt := f.Params[4]
		var lenV, padV ssa.Value
		for _, ci := range calls(f, func(n string) bool { return strings.HasSuffix(n, ").PutUint32") }) {
			a := ci.Common().Args
			if accessPath(sliceBase(a[len(a)-2])) == "s.prefix" {
				lenV = a[len(a)-1]
			}
		}
		allInstrs(f, func(in ssa.Instruction) {
			if st, ok := in.(*ssa.Store); ok {
				if ia, ok := st.Addr.(*ssa.IndexAddr); ok && accessPath(ia.X) == "s.prefix" {
					if k, ok := constInt(ia.Index); ok && k == 4 {
						padV = st.Val
					}
				}
			}
		})
		bad := ""
		n := 0
		if lenV == nil || padV == nil {
			bad = "length / padding stores not found"
		} else {
			for _, pl := range payloads {
				for _, mode := range []struct{ mac, etm int64 }{{0, 0}, {1, 0}, {1, 1}} {
					e := newEnv()
					e.bindLen(f, pkt, pl)
					e.bindNilTests(f, func(v ssa.Value) bool { return isField(v, "streamPacketCipher", "mac") }, mode.mac == 0)
					e.bindField(f, "streamPacketCipher", "etm", mode.etm)
					e.solve(f)
					L, ok1 := e.eval(lenV)
					P, ok2 := e.eval(padV)
					n++
					if !ok1 || !ok2 {
						bad = fmt.Sprintf("payload=%d mac=%d etm=%d: length/padding not evaluable", pl, mode.mac, mode.etm)
						continue
					}
					aad := int64(0)
					if mode.mac == 1 && mode.etm == 1 {
						aad = 4
					}
					if P < 4 || P >= 4+16 || (5+pl+P-aad)%16 != 0 || L != 1+pl+P {
						bad = fmt.Sprintf("payload=%d mac=%d etm=%d: padding %d, length field %d (need padding in [4,20), (5+payload+padding-%d)%%16==0, length = 1+payload+padding)", pl, mode.mac, mode.etm, P, L, aad)
					}
				}
			}
		}
		c.check(bad == "", "C25.framing", "(*streamPacketCipher).writeCipherPacket", f, fmt.Sprintf("padding and length correct on %d (payload, mode) cases", n), bad)
		c25MacOrder(c, f, "streamPacketCipher", pkt, true)
		c25SeqFirst(c, f, "streamPacketCipher", f.Params[1])
	}
	if f := c.fn("ssh", "(*streamPacketCipher).readCipherPacket"); f != nil {
		// data := s.packetData[:length-1]
		c25MacOrder(c, f, "streamPacketCipher", nil, false)
		c25SeqFirst(c, f, "streamPacketCipher", f.Params[1])
	}
	// ---------- GCM
	if f := c.fn("ssh", "(*gcmCipher).writeCipherPacket"); f != nil {
		pkt := f.Params[4]
		var lenV, padV ssa.Value
		for _, ci := range calls(f, func(n string) bool { return strings.HasSuffix(n, ").PutUint32") }) {
			a := ci.Common().Args
			lenV = a[len(a)-1]
		}
		allInstrs(f, func(in ssa.Instruction) {
			if st, ok := in.(*ssa.Store); ok {
				if ia, ok := st.Addr.(*ssa.IndexAddr); ok && accessPath(ia.X) == "c.buf" {
					if k, ok := constInt(ia.Index); ok && k == 0 {
						padV = st.Val
					}
				}
			}
		})
		bad := ""
		if lenV == nil || padV == nil {
			bad = "length / padding stores not found"
		} else {
			for _, pl := range payloads {
				e := newEnv()
				e.bindLen(f, pkt, pl)
				e.solve(f)
				L, ok1 := e.eval(lenV)
				P, ok2 := e.eval(padV)
				if !ok1 || !ok2 || P < 4 || P >= 20 || (1+pl+P)%16 != 0 || L != 1+pl+P {
					bad = fmt.Sprintf("payload=%d: padding %d length %d (evaluable %v/%v)", pl, P, L, ok2, ok1)
				}
			}
		}
		c.check(bad == "", "C25.framing", "(*gcmCipher).writeCipherPacket", f, "padding >= 4, (1+payload+padding)%16 == 0, length = 1+payload+padding", bad)
		seal := calls(f, nameIs("invoke:(crypto/cipher.AEAD).Seal"))
		okAAD := len(seal) == 1 && accessPath(sliceBase(seal[0].Common().Args[3])) == "c.prefix" && accessPath(seal[0].Common().Args[1]) == "c.iv"
		c.check(okAAD, "C25.aead", "(*gcmCipher).writeCipherPacket Seal", f, "sealed under c.iv with the length prefix as additional data", "Seal does not use c.iv / the length prefix as additional data")
		inc := callsNamed(f, "(*ssh.gcmCipher).incIV")
		c.check(len(inc) == 1 && len(seal) == 1 && precedes(seal[0], inc[0]), "C25.aead", "(*gcmCipher).writeCipherPacket incIV", f, "the invocation counter advances after each sealed packet", "the GCM invocation counter is not advanced after sealing")
	}
	if f := c.fn("ssh", "(*gcmCipher).readCipherPacket"); f != nil {
		open := calls(f, nameIs("invoke:(crypto/cipher.AEAD).Open"))
		inc := callsNamed(f, "(*ssh.gcmCipher).incIV")
		ok := len(open) == 1 && len(inc) == 1
		if ok {
			yes, _ := errSuccessEdges(open[0].(*ssa.Call))
			cut := edgeSet{}
			cut.addAll(yes)
			ok = !pathFromEntry(inc[0], cut) && accessPath(open[0].Common().Args[1]) == "c.iv"
			// every payload return passes incIV
			for _, t := range valueReturns(f, 0) {
				if reachAvoiding([]*ssa.BasicBlock{f.Blocks[0]}, nil, map[*ssa.BasicBlock]bool{inc[0].Block(): true})[t.Block()] {
					ok = false
				}
			}
		}
		c.check(ok, "C25.aead", "(*gcmCipher).readCipherPacket incIV", f, "the invocation counter advances exactly after a successfully opened packet", "the reader's invocation counter does not advance in step with successfully opened packets")
	}
	if f := c.fn("ssh", "(*gcmCipher).incIV"); f != nil {
		// index phi: init K0, step -1, loop while i >= K1
		var phi *ssa.Phi
		allInstrs(f, func(in ssa.Instruction) {
			if p, ok := in.(*ssa.Phi); ok {
				phi = p
			}
		})
		ok := false
		detail := "counter loop not recognised"
		if phi != nil {
			var k0 int64 = -1
			step := int64(0)
			for _, e := range phi.Edges {
				if bo, isB := e.(*ssa.BinOp); isB && bo.X == ssa.Value(phi) {
					if k, isC := constInt(bo.Y); isC {
						if bo.Op == token.SUB {
							step = -k
						} else if bo.Op == token.ADD {
							step = k
						}
					}
				} else {
					// initial index: a constant expression such as 4+7, or
					// len(c.iv)-1 with the 12-byte GCM IV (cipherModes table, C27)
					ev := newEnv()
					ev.bindLenPath(f, "c.iv", 12)
					if k, okk := ev.eval(e); okk {
						k0 = k
					}
				}
			}
			// which indices are visited: evaluate the loop condition for i = k0, k0+step, …
			var visited []int64
			i := k0
			for n := 0; n < 20; n++ {
				e := newEnv()
				e.bind(phi, i)
				cut := e.cuts(f)
				// is the increment store reachable from the phi's block?
				reached := false
				allInstrs(f, func(in ssa.Instruction) {
					if st, isS := in.(*ssa.Store); isS {
						if ia, isIA := st.Addr.(*ssa.IndexAddr); isIA && accessPath(ia.X) == "c.iv" && ia.Index == ssa.Value(phi) {
							if reach([]*ssa.BasicBlock{phi.Block()}, cut)[st.Block()] {
								reached = true
							}
						}
					}
				})
				if !reached {
					break
				}
				visited = append(visited, i)
				i += step
			}
			detail = fmt.Sprintf("the counter loop touches iv indices %v; RFC 5647 invocation counter is iv[4..11], least significant byte 11 first", visited)
			ok = len(visited) == 8 && visited[0] == 11 && visited[7] == 4 && step == -1
		}
		c.check(ok, "C25.gcm-counter", "(*gcmCipher).incIV", f, "increments the 64-bit counter iv[4:12] with carry from byte 11 up to byte 4", detail)
	}
	// ---------- chacha20-poly1305
	if f := c.fn("ssh", "(*chacha20Poly1305Cipher).writeCipherPacket"); f != nil {
		pl := f.Params[4]
		var lenV, padV ssa.Value
		for _, ci := range calls(f, func(n string) bool { return strings.HasSuffix(n, ").PutUint32") }) {
			a := ci.Common().Args
			if accessPath(sliceBase(a[len(a)-2])) == "c.buf" {
				lenV = a[len(a)-1]
			}
		}
		allInstrs(f, func(in ssa.Instruction) {
			if st, ok := in.(*ssa.Store); ok {
				if ia, ok := st.Addr.(*ssa.IndexAddr); ok && accessPath(ia.X) == "c.buf" {
					if k, ok := constInt(ia.Index); ok && k == 4 {
						padV = st.Val
					}
				}
			}
		})
		bad := ""
		if lenV == nil || padV == nil {
			bad = "length / padding stores not found"
		} else {
			for _, n := range payloads {
				e := newEnv()
				e.bindLen(f, pl, n)
				e.solve(f)
				L, ok1 := e.eval(lenV)
				P, ok2 := e.eval(padV)
				if !ok1 || !ok2 || P < 4 || P >= 12 || (1+n+P)%8 != 0 || L != 1+n+P {
					bad = fmt.Sprintf("payload=%d: padding %d length %d (evaluable %v/%v)", n, P, L, ok2, ok1)
				}
			}
		}
		c.check(bad == "", "C25.framing", "(*chacha20Poly1305Cipher).writeCipherPacket", f, "padding >= 4, (1+payload+padding)%8 == 0, length = 1+payload+padding", bad)
		// MAC after encryption: poly1305.Sum preceded by the payload XORKeyStream over c.buf
		sum := callsNamed(f, "internal/poly1305.Sum")
		var enc ssa.CallInstruction
		for _, ci := range calls(f, func(n string) bool { return strings.HasSuffix(n, ").XORKeyStream") }) {
			if sl, ok := ci.Common().Args[1].(*ssa.Slice); ok && accessPath(sliceBase(sl)) == "c.buf" && sl.Low != nil {
				enc = ci
			}
		}
		c.check(len(sum) == 1 && enc != nil && precedes(enc, sum[0]) && accessPath(sliceBase(sum[0].Common().Args[1])) == "c.buf", "C25.aead", "(*chacha20Poly1305Cipher).writeCipherPacket tag", f, "the tag covers the encrypted length and ciphertext (computed after encryption)", "the Poly1305 tag is not computed over the encrypted packet")
		c25Nonce(c, f)
	}
	if f := c.fn("ssh", "(*chacha20Poly1305Cipher).readCipherPacket"); f != nil {
		c25Nonce(c, f)
	}
	if f := c.fn("ssh", "newChaCha20Cipher"); f != nil {
		got := map[string]string{}
		for _, ci := range calls(f, nameIs("builtin:copy")) {
			a := ci.Common().Args
			_, fld, _, ok := fieldOf(sliceBase(a[0]))
			if !ok {
				continue
			}
			if sl, isS := a[1].(*ssa.Slice); isS && sl.X == ssa.Value(f.Params[0]) {
				lo, hi := "0", "end"
				if sl.Low != nil {
					if k, okk := constInt(sl.Low); okk {
						lo = itoa(k)
					}
				}
				if sl.High != nil {
					if k, okk := constInt(sl.High); okk {
						hi = itoa(k)
					}
				}
				got[fld] = lo + ":" + hi
			}
		}
		c.check(got["contentKey"] == "0:32" && got["lengthKey"] == "32:end", "C25.aead", "newChaCha20Cipher key split", f, "payload key = key[:32], length key = key[32:]", fmt.Sprintf("key split is %v; PROTOCOL.chacha20poly1305 requires K_2 = key[:32] for the payload and K_1 = key[32:] for the length", got))
	}
	// ---------- CBC writer
	if f := c.fn("ssh", "(*cbcCipher).writeCipherPacket"); f != nil {
		pkt := f.Params[4]
		var lenV, padV ssa.Value
		for _, ci := range calls(f, func(n string) bool { return strings.HasSuffix(n, ").PutUint32") }) {
			a := ci.Common().Args
			if _, isPhi := sliceBase(a[len(a)-2]).(*ssa.Phi); isPhi || accessPath(sliceBase(a[len(a)-2])) == "c.packetData" {
				if !strings.HasSuffix(accessPath(sliceBase(a[len(a)-2])), "seqNumBytes") {
					lenV = a[len(a)-1]
				}
			}
		}
		allInstrs(f, func(in ssa.Instruction) {
			if st, ok := in.(*ssa.Store); ok {
				if ia, ok := st.Addr.(*ssa.IndexAddr); ok {
					if k, ok := constInt(ia.Index); ok && k == 0 {
						if _, isSl := ia.X.(*ssa.Slice); isSl {
							padV = st.Val
						}
					}
				}
			}
		})
		var bsCall ssa.Value
		for _, ci := range calls(f, nameIs("invoke:(crypto/cipher.BlockMode).BlockSize")) {
			bsCall = callValue(ci)
		}
		bad := ""
		if lenV == nil || padV == nil || bsCall == nil {
			bad = "length / padding stores or block size not found"
		} else {
			for _, n := range payloads {
				for _, bs := range []int64{8, 16} {
					e := newEnv()
					e.bindLen(f, pkt, n)
					e.bind(bsCall, bs)
					for pass := 0; pass < 3; pass++ {
						for _, ci := range callsNamed(f, "ssh.maxUInt32") {
							a0, ok0 := e.eval(ci.Common().Args[0])
							a1, ok1 := e.eval(ci.Common().Args[1])
							if ok0 && ok1 {
								m := a0
								if a1 > m {
									m = a1
								}
								e.bind(callValue(ci), m)
							}
						}
					}
					e.solve(f)
					L, ok1 := e.eval(lenV)
					P, ok2 := e.eval(padV)
					P &= 0xff
					blk := bs
					if blk < 8 {
						blk = 8
					}
					if !ok1 || !ok2 || P < 4 || (4+L)%blk != 0 || L != 1+n+P || 4+L < 16 {
						bad = fmt.Sprintf("payload=%d block=%d: padding %d length %d (evaluable %v/%v)", n, bs, P, L, ok2, ok1)
					}
				}
			}
		}
		c.check(bad == "", "C25.framing", "(*cbcCipher).writeCipherPacket", f, "padding >= 4, (4+length) multiple of max(8, block), length = 1+payload+padding, packet >= 16 bytes", bad)
	}
	// ---------- sequence numbers
	for _, spec := range []struct{ fn, callee string }{
		{"(*connectionState).readPacket", ".readCipherPacket"},
		{"(*connectionState).writePacket", ".writeCipherPacket"},
	} {
		f := c.fn("ssh", spec.fn)
		if f == nil {
			continue
		}
		var call ssa.CallInstruction
		for _, ci := range calls(f, func(n string) bool { return strings.HasSuffix(n, spec.callee) }) {
			call = ci
		}
		var inc *ssa.Store
		for _, st := range storesTo(f, "connectionState", "seqNum") {
			if bo, ok := st.Val.(*ssa.BinOp); ok && bo.Op == token.ADD {
				inc = st
			}
		}
		ok := call != nil && inc != nil
		detail := "cipher call or increment not found"
		if ok {
			a := call.Common().Args
			ok = isField(a[0], "connectionState", "seqNum")
			detail = "the cipher is not given the connection's sequence number"
			if ok {
				isInc := func(in ssa.Instruction) bool { return in == ssa.Instruction(inc) }
				var sinks []ssa.Instruction
				if strings.Contains(spec.fn, "read") {
					for _, r := range returnsOf(f) {
						sinks = append(sinks, r)
					}
				} else {
					sinks = acceptReturns(f, 0)
				}
				for _, s := range sinks {
					s := s
					if hit := passBefore(call, isInc, func(in ssa.Instruction) bool { return in == s }); hit != nil {
						ok = false
						detail = "a return is reachable after the cipher call without incrementing the sequence number"
					}
				}
			}
		}
		c.check(ok, "C25.seqnum", spec.fn, f, "the cipher receives seqNum, which is then incremented exactly on the paths that consumed a packet", detail)
	}
}

// c25SeqFirst: the first MAC input after Reset is seqNumBytes, filled by PutUint32(seqNum).
func c25SeqFirst(c *Ctx, f *ssa.Function, typ string, seq ssa.Value) {
	var reset ssa.CallInstruction
	for _, ci := range calls(f, nameIs("invoke:(hash.Hash).Reset")) {
		reset = ci
	}
	var first ssa.CallInstruction
	for _, ci := range calls(f, func(n string) bool { return n == "invoke:(io.Writer).Write" || n == "invoke:(hash.Hash).Write" }) {
		if !isField(ci.Common().Value, typ, "mac") {
			continue
		}
		if reset != nil && precedes(reset, ci) && (first == nil || precedes(ci, first)) {
			first = ci
		}
	}
	ok := reset != nil && first != nil && strings.HasSuffix(accessPath(sliceBase(first.Common().Args[0])), ".seqNumBytes")
	if ok {
		ok = false
		for _, ci := range calls(f, func(n string) bool { return strings.HasSuffix(n, ").PutUint32") }) {
			a := ci.Common().Args
			if strings.HasSuffix(accessPath(sliceBase(a[len(a)-2])), ".seqNumBytes") && a[len(a)-1] == seq && precedes(ci, first) && strings.Contains(calleeName(ci.Common()), "bigEndian") {
				ok = true
			}
		}
	}
	c.check(ok, "C25.mac-seq", fnName(f), f, "the MAC starts with the big-endian packet sequence number", "the MAC's first input is not the big-endian sequence number of this packet")
}

// c25MacOrder: with EtM the MAC absorbs the encrypted payload, without EtM the plaintext.
func c25MacOrder(c *Ctx, f *ssa.Function, typ string, payload ssa.Value, writer bool) {
	// payload value: writer -> parameter; reader -> the slice 'data' that is both MACed and decrypted
	type ev struct {
		mac ssa.CallInstruction
		xor ssa.CallInstruction
	}
	var xors, macs []ssa.CallInstruction
	for _, ci := range calls(f, func(n string) bool { return strings.HasSuffix(n, ").XORKeyStream") }) {
		a := ci.Common().Args
		if payload != nil && a[len(a)-1] == payload {
			xors = append(xors, ci)
		}
		if payload == nil {
			if sl, ok := a[len(a)-1].(*ssa.Slice); ok && strings.HasSuffix(accessPath(sliceBase(sl)), ".packetData") {
				xors = append(xors, ci)
			}
		}
	}
	for _, ci := range calls(f, func(n string) bool { return n == "invoke:(io.Writer).Write" || n == "invoke:(hash.Hash).Write" }) {
		if !isField(ci.Common().Value, typ, "mac") {
			continue
		}
		a := ci.Common().Args[0]
		if payload != nil && a == payload {
			macs = append(macs, ci)
		}
		if payload == nil {
			if sl, ok := a.(*ssa.Slice); ok && strings.HasSuffix(accessPath(sliceBase(sl)), ".packetData") {
				macs = append(macs, ci)
			}
		}
	}
	if len(xors) != 1 || len(macs) != 2 {
		c.fail("C25.mac-order", fnName(f), f, fmt.Sprintf("expected one payload XORKeyStream and two conditional MAC writes of the payload; found %d / %d", len(xors), len(macs)))
		return
	}
	bad := ""
	for etm := int64(0); etm < 2; etm++ {
		e := newEnv()
		e.bindNilTests(f, func(v ssa.Value) bool { return isField(v, typ, "mac") }, false)
		e.bindField(f, typ, "etm", etm)
		e.solve(f)
		var live ssa.CallInstruction
		nLive := 0
		for _, m := range macs {
			if e.reach[m.Block()] {
				live = m
				nLive++
			}
		}
		if nLive != 1 {
			bad = fmt.Sprintf("etm=%d: the payload is MACed %d times", etm, nLive)
			continue
		}
		// order on the paths feasible under this flag value
		macFirst := pathBetween(live, xors[0], e.cut) && !pathBetween(xors[0], live, e.cut)
		macAfter := pathBetween(xors[0], live, e.cut) && !pathBetween(live, xors[0], e.cut)
		if !macFirst && !macAfter {
			bad = fmt.Sprintf("etm=%d: the order of MAC and cipher on the payload is not fixed", etm)
			continue
		}
		// writer: EtM -> encrypt then MAC (mac after xor); reader: EtM -> MAC then decrypt (mac before xor)
		want := (etm == 1) != writer
		if macFirst != want {
			what := "encryption"
			if !writer {
				what = "decryption"
			}
			bad = fmt.Sprintf("etm=%d: MAC of the payload happens before %s = %v, RFC/EtM requires %v", etm, what, macFirst, want)
		}
	}
	c.check(bad == "", "C25.mac-order", fnName(f), f, "EtM MACs ciphertext, plain MAC modes MAC plaintext (both flag values evaluated)", bad)
}

func c25Nonce(c *Ctx, f *ssa.Function) {
	ok := false
	for _, ci := range calls(f, func(n string) bool { return strings.HasSuffix(n, ").PutUint32") }) {
		a := ci.Common().Args
		if sl, isS := a[len(a)-2].(*ssa.Slice); isS && sl.Low != nil {
			if k, okk := constInt(sl.Low); okk && k == 8 && a[len(a)-1] == ssa.Value(f.Params[1]) && strings.Contains(calleeName(ci.Common()), "bigEndian") {
				if mk, isM := sl.X.(*ssa.MakeSlice); isM {
					if n, okn := constInt(mk.Len); okn && n == 12 {
						ok = true
					}
				} else if al := allocLen(sl.X); al == 12 {
					ok = true
				} else if inner, isI := sl.X.(*ssa.Slice); isI && allocLen(inner) == 12 {
					ok = true
				}
			}
		}
	}
	c.check(ok, "C25.aead", fnName(f)+" nonce", f, "12-byte nonce with the big-endian sequence number in bytes 8..11", "the chacha20 nonce is not 8 zero bytes followed by the big-endian sequence number")
}
