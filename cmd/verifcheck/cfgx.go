package main

import (
	"golang.org/x/tools/go/ssa"
)

// passBefore: on every path that starts just after 'from', an instruction
// satisfying barrier occurs before any instruction satisfying sink.
// Returns the first offending sink (nil if the rule holds).
func passBefore(from ssa.Instruction, barrier, sink func(ssa.Instruction) bool) ssa.Instruction {
	type item struct {
		b   *ssa.BasicBlock
		idx int
	}
	seen := map[*ssa.BasicBlock]bool{}
	stack := []item{{from.Block(), instrIndex(from) + 1}}
	for len(stack) > 0 {
		it := stack[len(stack)-1]
		stack = stack[:len(stack)-1]
		stopped := false
		for i := it.idx; i < len(it.b.Instrs); i++ {
			in := it.b.Instrs[i]
			if barrier(in) {
				stopped = true
				break
			}
			if sink(in) {
				return in
			}
		}
		if stopped {
			continue
		}
		for _, s := range it.b.Succs {
			if !seen[s] {
				seen[s] = true
				stack = append(stack, item{s, 0})
			}
		}
	}
	return nil
}

// reachesWithout: can 'target' be reached from just after 'from' without
// executing an instruction satisfying barrier and without crossing cut edges?
func reachesWithout(from, target ssa.Instruction, barrier func(ssa.Instruction) bool, cut edgeSet) bool {
	hit := passBeforeCut(from, barrier, func(in ssa.Instruction) bool { return in == target }, cut)
	return hit != nil
}

func passBeforeCut(from ssa.Instruction, barrier, sink func(ssa.Instruction) bool, cut edgeSet) ssa.Instruction {
	type item struct {
		b   *ssa.BasicBlock
		idx int
	}
	seen := map[*ssa.BasicBlock]bool{}
	stack := []item{{from.Block(), instrIndex(from) + 1}}
	for len(stack) > 0 {
		it := stack[len(stack)-1]
		stack = stack[:len(stack)-1]
		stopped := false
		for i := it.idx; i < len(it.b.Instrs); i++ {
			in := it.b.Instrs[i]
			if barrier(in) {
				stopped = true
				break
			}
			if sink(in) {
				return in
			}
		}
		if stopped {
			continue
		}
		for i, s := range it.b.Succs {
			if cut[edge{it.b, i}] {
				continue
			}
			if !seen[s] {
				seen[s] = true
				stack = append(stack, item{s, 0})
			}
		}
	}
	return nil
}

func isCallTo(in ssa.Instruction, names ...string) bool {
	cc := callCommon(in)
	if cc == nil {
		return false
	}
	if _, isDefer := in.(*ssa.Defer); isDefer {
		return false
	}
	n := short(calleeName(cc))
	for _, w := range names {
		if n == w {
			return true
		}
	}
	return false
}
