package main

import (
	"fmt"
	"go/token"
	"strings"

	"golang.org/x/tools/go/ssa"
)

func init() {
	register(&propDef{
		id: "C35", run: runC35, minOblig: 22,
		explanation: "Decides window-arithmetic guards and locking of SSH channel flow control: (sender) in WriteExtended every data packet's payload is data[:r] with r the value returned by remoteWin.reserve(minPayloadSize(maxRemotePayload, len(data))), the length field is len of that slice, and each writePacket in the loop is preceded by its reserve; minPayloadSize returns min(limit, length) without 32-bit truncation (evaluated incl. length = 2^32, 2^32+5); window.reserve returns min(request, available) and stores available minus that (evaluated on a grid incl. 0 and 2^32-1, fixed-width arithmetic), window.add rejects 32-bit overflow; (receiver) handleData rejects length > maxIncomingPayload and length != len(data) and a short header before touching the window, rejects when myWindow < length and otherwise stores myWindow-length (no underflow on the grid), credits discarded extended data (code > 1) back through adjustWindow(length); ReadExtended calls adjustWindow(n) whenever n > 0; adjustWindow records the enlarged myWindow (store dominates) BEFORE the WINDOW_ADJUST message is sent and sends exactly the consumed amount it added; (locking) window.win/closed/writeWaiters are accessed only under the window's Cond.L, channel.myWindow/myConsumed only under windowMu, sentClose/packetPool only under writeMu, and no channel send/receive happens under windowMu; (open) MaxPacketSize outside [minPacketLength, 2^31] is rejected for both OPEN and OPEN_CONFIRMATION. NOT decided: liveness (blocked writers eventually resume), byte-order integrity across schedules.",
		assumptions: []string{"sync.Cond.Wait re-acquires L before returning"},
	})
	tech("C35", "lockset analysis (guarded-field table) + finite-domain evaluation of unsigned window arithmetic + ordering/dominance rules")
}

func runC35(c *Ctx) {
	fns := c.funcsOfPkg("ssh")
	// ---- locking
	for _, gs := range []guardSpec{
		{"window", "win", ".Cond.L", false}, {"window", "closed", ".Cond.L", false}, {"window", "writeWaiters", ".Cond.L", false},
		{"channel", "myWindow", ".windowMu", false}, {"channel", "myConsumed", ".windowMu", false},
		{"channel", "sentClose", ".writeMu", false}, {"channel", "packetPool", ".writeMu", false},
	} {
		n := c.checkGuarded("C35.lock", fns, gs, map[string]string{
			"(*mux).newChannel":  "channel under construction, not yet shared",
			"(*channel).Accept":  "reads the initial window to build OPEN_CONFIRMATION; no data can arrive before that message is sent",
			"(*mux).openChannel": "reads the initial window to build CHANNEL_OPEN on a channel it just created; no data can arrive before the peer confirms",
		})
		c.check(n > 0, "C35.lock", gs.typ+"."+gs.field+" accesses", nil, fmt.Sprintf("%d accessing functions", n), "no access found (anchor lost)")
	}
	for _, f := range fns {
		if f.Signature.Recv() != nil && typeName(f.Signature.Recv().Type()) == "channel" {
			for _, b := range blockingUnder(f, ".windowMu") {
				c.fail("C35.lock", "blocking under windowMu in "+fnName(f), b, "a blocking channel operation is performed while windowMu is held")
			}
		}
	}
	// ---- minPayloadSize
	if f := c.fn("ssh", "minPayloadSize"); f != nil {
		bad := ""
		for _, lim := range []int64{9, 32768, 1 << 31, 1<<32 - 1} {
			for _, ln := range []int64{0, 1, 8, 9, 10, 32768, 1 << 31, 1<<32 - 1, 1 << 32, 1<<32 + 5, 1 << 40} {
				e := newEnv()
				e.bind(f.Params[0], lim)
				e.bind(f.Params[1], ln)
				e.solve(f)
				want := lim
				if ln < lim {
					want = ln
				}
				for _, r := range returnsOf(f) {
					if e.reach[r.Block()] {
						if v, ok := e.eval(r.Results[0]); !ok || v != want {
							bad = fmt.Sprintf("minPayloadSize(%d, %d) evaluates to %d (ok=%v), want %d", lim, ln, v, ok, want)
						}
					}
				}
			}
		}
		c.check(bad == "", "C35.min-payload", "minPayloadSize", f, "min(limit, length) with no 32-bit truncation", bad)
	}
	// ---- WriteExtended structure
	if f := c.fn("ssh", "(*channel).WriteExtended"); f != nil {
		res := callsNamed(f, "(*ssh.window).reserve")
		wp := callsNamed(f, "(*ssh.channel).writePacket")
		ok := len(res) == 1 && len(wp) == 1
		detail := ""
		if ok {
			rv := resultN(res[0].(*ssa.Call), 0)
			// reserve argument
			arg, _ := res[0].Common().Args[1].(*ssa.Call)
			if arg == nil || short(calleeName(&arg.Call)) != "ssh.minPayloadSize" {
				ok, detail = false, "reserve is not asked for minPayloadSize(maxRemotePayload, len(data))"
			} else if _, fld, _, okf := fieldOf(arg.Call.Args[0]); !okf || fld != "maxRemotePayload" {
				ok, detail = false, "the per-packet limit is not the peer's maximum packet size"
			}
			// todo := data[:space] with space = reserve result
			found := false
			allInstrs(f, func(in ssa.Instruction) {
				if sl, isS := in.(*ssa.Slice); isS && sl.High != nil && len(rv) == 1 && stripConv(sl.High) == rv[0] && sl.Low == nil {
					found = true
				}
			})
			if !found {
				ok, detail = false, "the payload of a data packet is not data[:reserved]"
			}
			if !precedes(res[0], wp[0]) {
				ok, detail = false, "writePacket is not preceded by reserve in the same iteration"
			}
			h := innermostLoopHeader(wp[0].Block())
			if h == nil || !h.Dominates(res[0].Block()) {
				ok, detail = false, "reserve is not inside the write loop"
			}
		} else {
			detail = fmt.Sprintf("%d reserve / %d writePacket calls", len(res), len(wp))
		}
		c.check(ok, "C35.write-reserve", "(*channel).WriteExtended", f, "each packet carries exactly the bytes reserved from the peer's window, at most maxRemotePayload", detail)
	}
	// ---- window.reserve arithmetic
	if f := c.fn("ssh", "(*window).reserve"); f != nil {
		var st *ssa.Store
		for _, s := range storesTo(f, "window", "win") {
			st = s
		}
		bad := ""
		if st == nil {
			bad = "no store to window.win"
		} else {
			for _, avail := range []int64{1, 5, 100, 1<<32 - 1} {
				for _, req := range []int64{0, 1, 5, 99, 100, 101, 1<<32 - 1} {
					e := newEnv()
					e.bindField(f, "window", "win", avail)
					e.bindField(f, "window", "closed", 0)
					e.bind(f.Params[1], req)
					e.solve(f)
					want := req
					if avail < req {
						want = avail
					}
					nv, ok1 := e.eval(st.Val)
					var rv int64
					ok2 := false
					for _, r := range returnsOf(f) {
						if e.reach[r.Block()] {
							rv, ok2 = e.eval(r.Results[0])
						}
					}
					if !ok1 || !ok2 || rv != want || nv != avail-want {
						bad = fmt.Sprintf("available=%d request=%d: returns %d (ok=%v) and stores %d (ok=%v); want %d and %d", avail, req, rv, ok2, nv, ok1, want, avail-want)
					}
				}
			}
		}
		c.check(bad == "", "C35.reserve", "(*window).reserve", f, "reserves min(request, available) and never underflows", bad)
	}
	if f := c.fn("ssh", "(*window).add"); f != nil {
		var st *ssa.Store
		for _, s := range storesTo(f, "window", "win") {
			st = s
		}
		bad := ""
		if st == nil {
			bad = "no store to window.win"
		} else {
			for _, cur := range []int64{0, 1, 1 << 31, 1<<32 - 2, 1<<32 - 1} {
				for _, add := range []int64{1, 2, 1 << 31, 1<<32 - 1} {
					e := newEnv()
					e.bindField(f, "window", "win", cur)
					e.bind(f.Params[1], add)
					e.solve(f)
					overflow := cur+add > 1<<32-1
					if e.reach[st.Block()] == overflow {
						bad = fmt.Sprintf("win=%d add=%d: overflow=%v but update reachable=%v", cur, add, overflow, e.reach[st.Block()])
					}
				}
			}
		}
		c.check(bad == "", "C35.reserve", "(*window).add", f, "a window update that would exceed 2^32-1 is rejected", bad)
	}
	// ---- handleData
	if f := c.fn("ssh", "(*channel).handleData"); f != nil {
		var lengthV ssa.Value
		for _, ci := range calls(f, func(n string) bool { return strings.HasSuffix(n, ").Uint32") }) {
			if sl, ok := ci.Common().Args[len(ci.Common().Args)-1].(*ssa.Slice); ok && sl.High != nil {
				lengthV = callValue(ci)
			}
		}
		var st *ssa.Store
		for _, s := range storesTo(f, "channel", "myWindow") {
			st = s
		}
		if lengthV == nil || st == nil {
			c.fail("C35.handle-data", "(*channel).handleData", f, "anchors not found (length field / myWindow update)")
		} else {
			bad := ""
			n := 0
			for _, L := range []int64{0, 1, 100, 32768, 32769, 1<<32 - 1} {
				for _, W := range []int64{0, 1, 99, 100, 101, 2097152} {
					for _, D := range []int64{0, 1, 100, 32768, 32769} { // len(data)
						for _, maxIn := range []int64{32768} {
							e := newEnv()
							e.bind(lengthV, L)
							e.bindField(f, "channel", "myWindow", W)
							e.bindField(f, "channel", "maxIncomingPayload", maxIn)
							// len(data): data is a slice of packet; bind every len() of a slice of the packet param with non-nil Low
							allInstrs(f, func(in ssa.Instruction) {
								if call, ok := in.(*ssa.Call); ok && calleeName(&call.Call) == "builtin:len" {
									if sl, ok := call.Call.Args[0].(*ssa.Slice); ok && sl.Low != nil && sl.High == nil {
										e.bind(call, D)
									} else if call.Call.Args[0] == ssa.Value(f.Params[1]) {
										e.bind(call, D+9)
									}
								}
							})
							e.bindIndexLoads(f, func(b ssa.Value) bool { return b == ssa.Value(f.Params[1]) }, 0, 94)
							e.solve(f)
							upd := e.reach[st.Block()]
							want := L != 0 && L <= maxIn && L == D && W >= L
							n++
							if upd != want {
								bad = fmt.Sprintf("length=%d len(data)=%d myWindow=%d: window charged=%v, specification %v", L, D, W, upd, want)
							} else if upd {
								if v, ok := e.eval(st.Val); !ok || v != W-L {
									bad = fmt.Sprintf("length=%d myWindow=%d: stores %d (ok=%v), want %d", L, W, v, ok, W-L)
								}
							}
						}
					}
				}
			}
			c.check(bad == "", "C35.handle-data", "(*channel).handleData", st, fmt.Sprintf("window is charged exactly for well-formed data within the window (%d cases)", n), bad)
			// discarded extended data credited back
			aw := callsNamed(f, "(*ssh.channel).adjustWindow")
			okCredit := len(aw) == 1 && aw[0].Common().Args[1] == lengthV
			c.check(okCredit, "C35.handle-data", "(*channel).handleData credit for discarded data", f, "extended data that cannot be read is credited back with its full length", "discarded extended data is not credited back to the window with its length")
		}
	}
	if f := c.fn("ssh", "(*channel).ReadExtended"); f != nil {
		aw := callsNamed(f, "(*ssh.channel).adjustWindow")
		ok := len(aw) == 1
		if ok {
			// reachable exactly when n > 0 : argument is uint32(n) of the n phi
			var pos []edge
			arg := stripConv(aw[0].Common().Args[1])
			pos = edgesImplying(arg, []int64{-1, 0, 1, 5}, func(d int64) bool { return d > 0 })
			cut := edgeSet{}
			cut.addAll(pos)
			ok = len(pos) > 0 && !pathFromEntry(aw[0], cut)
			// and conversely: an n > 0 edge leads to the call block directly
			direct := false
			for _, e := range pos {
				if e.to() == aw[0].Block() {
					direct = true
				}
			}
			ok = ok && direct
		}
		c.check(ok, "C35.read-credit", "(*channel).ReadExtended", f, "every successful read of n > 0 bytes is followed by adjustWindow(n)", "bytes handed to the application are not (always) credited through adjustWindow(n)")
	}
	// ---- adjustWindow ordering
	if f := c.fn("ssh", "(*channel).adjustWindow"); f != nil {
		sm := callsNamed(f, "(*ssh.channel).sendMessage")
		var st *ssa.Store
		for _, s := range storesTo(f, "channel", "myWindow") {
			st = s
		}
		ok := len(sm) == 1 && st != nil
		detail := "sendMessage call or myWindow update not found"
		if ok {
			detail = ""
			// amount sent
			var sent ssa.Value
			allInstrs(f, func(in ssa.Instruction) {
				if s2, isS := in.(*ssa.Store); isS {
					if _, fld, _, okf := fieldOf(s2.Addr); okf && fld == "AdditionalBytes" {
						sent = s2.Val
					}
				}
			})
			// every path that reaches the send with a non-zero amount passes
			// the store first: for each non-zero incoming value of the
			// announced amount, the store's block dominates that predecessor;
			// with a zero amount the send is unreachable (evaluated).
			late := "the WINDOW_ADJUST message can be sent before the enlarged window is recorded in myWindow (the peer may use the granted window while handleData still checks the old value)"
			if ph, isP := sent.(*ssa.Phi); isP {
				for i, ev := range ph.Edges {
					if k, isC := constInt(ev); isC && k == 0 {
						continue
					}
					pred := ph.Block().Preds[i]
					if !(st.Block() == pred || st.Block().Dominates(pred)) {
						ok, detail = false, late
					}
				}
				e := newEnv()
				e.bind(ph, 0)
				e.solve(f)
				if e.reach[sm[0].Block()] {
					ok, detail = false, "a WINDOW_ADJUST of zero bytes can be sent"
				}
				if !ph.Block().Dominates(sm[0].Block()) {
					ok, detail = false, late
				}
			} else if !precedes(st, sm[0]) {
				ok, detail = false, late
			}
			added := ssa.Value(nil)
			if bo, isB := st.Val.(*ssa.BinOp); isB && bo.Op == token.ADD {
				added = bo.Y
				if isField(bo.Y, "channel", "myWindow") {
					added = bo.X
				}
			}
			same := false
			if sent != nil && added != nil {
				if sent == added {
					same = true
				}
				if ph, isP := sent.(*ssa.Phi); isP {
					for _, e := range ph.Edges {
						if e == added {
							same = true
						}
					}
				}
			}
			if ok && !same {
				ok, detail = false, "the amount announced in WINDOW_ADJUST is not the amount added to myWindow"
			}
		}
		c.check(ok, "C35.adjust-order", "(*channel).adjustWindow", f, "myWindow is enlarged, by the amount announced, before WINDOW_ADJUST is sent", detail)
	}
	// ---- MaxPacketSize
	minPL, _ := pkgConstInt(c, "ssh", "minPacketLength")
	for _, spec := range []struct {
		fn, typ string
		target  func(f *ssa.Function) ssa.Instruction
	}{
		{"(*channel).handlePacket", "channelOpenConfirmMsg", func(f *ssa.Function) ssa.Instruction {
			for _, s := range storesTo(f, "channel", "maxRemotePayload") {
				return s
			}
			return nil
		}},
		{"(*mux).handleChannelOpen", "channelOpenMsg", func(f *ssa.Function) ssa.Instruction {
			for _, ci := range callsNamed(f, "(*ssh.mux).newChannel") {
				return ci
			}
			return nil
		}},
	} {
		f := c.fn("ssh", spec.fn)
		if f == nil {
			continue
		}
		t := spec.target(f)
		if t == nil {
			c.fail("C35.max-packet", spec.fn, f, "anchor not found")
			continue
		}
		bad := ""
		for _, v := range []int64{0, minPL - 1, minPL, 32768, 1 << 31, 1<<31 + 1, 1<<32 - 1} {
			e := newEnv()
			e.bindField(f, spec.typ, "MaxPacketSize", v)
			// all error tests pass
			allInstrs(f, func(in ssa.Instruction) {
				if bo, ok := in.(*ssa.BinOp); ok && (bo.Op == token.NEQ || bo.Op == token.EQL) && isNilConst(bo.Y) {
					if strings.HasSuffix(bo.X.Type().String(), "error") {
						if bo.Op == token.NEQ {
							e.bind(bo, 0)
						} else {
							e.bind(bo, 1)
						}
					}
				}
			})
			cut := e.cuts(f)
			// reachability of the target from the first use of the field
			got := reach([]*ssa.BasicBlock{f.Blocks[0]}, cut)[t.Block()]
			want := v >= minPL && v <= 1<<31
			if got != want {
				bad = fmt.Sprintf("MaxPacketSize=%d: accepted=%v, specification %v", v, got, want)
			}
		}
		c.check(bad == "", "C35.max-packet", spec.fn, t, fmt.Sprintf("peer packet sizes outside [%d, 2^31] are rejected", minPL), bad)
	}
}
