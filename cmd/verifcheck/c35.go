package main

import (
	"fmt"
)

func init() {
	register(&propDef{
		id: "C35", run: runC35, minOblig: 22,
		explanation: "Decides window arithmetic, effect ordering and locking of SSH channel flow control by ABSTRACT INTERPRETATION of the accounting functions on finite grids of inputs (same-package helpers interpreted in place; values identified by struct field / parameter type / callee, never by local names), compared with a specification computed by the checker: (sender) WriteExtended, run for data lengths 0..100, peer packet limits 9..32768, full/partial/1-byte window grants, reused and fresh packet buffers, data and extended data: every reserve is asked for min(maxRemotePayload, bytes left) > 0, every writePacket is preceded by its own reserve, the packet is header + exactly the reserved bytes, its length field (freshly written), message type, recipient id and extended code are right, the payload is the next unsent bytes of data in order, all bytes are sent and n = len(data); minPayloadSize returns min(limit, length) without 32-bit truncation (incl. length = 2^32, 2^32+5); window.reserve returns min(request, available), leaves available minus that (grid incl. 0 and 2^32-1, fixed-width arithmetic), waits only while the window is empty and open (exactly once until the modelled peer grants space or closes) and returns io.EOF iff closed; window.add rejects 32-bit overflow leaving the window untouched, otherwise adds and wakes waiters; (receiver) handleData, run on concrete header bytes for data / extended code 1 / other codes: a short header, length > maxIncomingPayload, length != len(data) and length > myWindow are reported as errors with myWindow untouched and nothing delivered; otherwise myWindow becomes myWindow-length (no underflow on the grid), the payload (offset = header length, length bytes) goes to pending resp. extPending, and undeliverable extended data is credited back through adjustWindow(length); compliant data never yields an error; ReadExtended reads the stream selected by the code and credits exactly the n bytes it returns through adjustWindow; adjustWindow: at every WINDOW_ADJUST send myWindow already contains the announced amount, the announced total equals what was added to myWindow, consumed bytes are conserved (pending + announced = old + adj), no zero adjust, and the window is never left at 0 with consumed bytes held back; (locking) window.win/closed/writeWaiters are accessed only under the window's Cond.L, channel.myWindow/myConsumed only under windowMu, sentClose/packetPool only under writeMu (helpers inherit the locks of all their call sites), and no channel send/receive happens under windowMu; (open) interpreting handleChannelOpen and handlePacket(OPEN_CONFIRMATION) with all other checks passing: MaxPacketSize outside [minPacketLength, 2^31] never reaches maxRemotePayload nor creates a channel, any other value is stored unchanged. NOT decided: liveness in general (only: reserve never blocks with space available, add wakes waiters, adjustWindow never strands a zero window), byte-order integrity across concurrent schedules (sequential order per call only).",
		assumptions: []string{"sync.Cond.Wait re-acquires L before returning", "the functions modelled opaquely by the interpretation (buffer.write/Read, writePacket, sendMessage, decode/Unmarshal, newChannel) behave as their names say; they are covered by other properties' rules"},
	})
	tech("C35", "lockset analysis (guarded-field table, interprocedural lock inheritance) + abstract interpretation (path walker) of the window-accounting functions on finite grids with fixed-width unsigned arithmetic, effect sequences compared with an executable specification")
}

func runC35(c *Ctx) {
	fns := c.funcsOfPkg("ssh")
	// ---- locking
	for _, gs := range []guardSpec{
		{"window", "win", ".Cond.L", false}, {"window", "closed", ".Cond.L", false}, {"window", "writeWaiters", ".Cond.L", false},
		{"channel", "myWindow", ".windowMu", false}, {"channel", "myConsumed", ".windowMu", false},
		{"channel", "sentClose", ".writeMu", false}, {"channel", "packetPool", ".writeMu", false},
	} {
		n := c.checkGuarded("C35.lock", fns, gs, map[string]string{
			"(*mux).newChannel":  "channel under construction, not yet shared",
			"(*channel).Accept":  "reads the initial window to build OPEN_CONFIRMATION; no data can arrive before that message is sent",
			"(*mux).openChannel": "reads the initial window to build CHANNEL_OPEN on a channel it just created; no data can arrive before the peer confirms",
		})
		c.check(n > 0, "C35.lock", gs.typ+"."+gs.field+" accesses", nil, fmt.Sprintf("%d accessing functions", n), "no access found (anchor lost)")
	}
	for _, f := range fns {
		if f.Signature.Recv() != nil && typeName(f.Signature.Recv().Type()) == "channel" {
			for _, b := range blockingUnder(f, ".windowMu") {
				c.fail("C35.lock", "blocking under windowMu in "+fnName(f), b, "a blocking channel operation is performed while windowMu is held")
			}
		}
	}
	// ---- interpreted rules (c35_rules.go)
	c35MinPayload(c)
	c35WriteExtended(c)
	c35Reserve(c)
	c35Add(c)
	c35HandleData(c)
	c35ReadExtended(c)
	c35AdjustWindow(c)
	c35MaxPacket(c)
}
