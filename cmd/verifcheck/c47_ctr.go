package main

import (
	"go/token"
	"strings"

	"golang.org/x/tools/go/ssa"
)

// Counter monotonicity gate: "the received 8-byte counter is strictly greater
// than the slot's stored counter", recognised in its equivalent forms and with
// the operands identified by provenance (received = the 8 bytes read from the
// message by getNBytes(·, 8); stored = keySlot.theirLastCtr; both followed
// through helper parameters and reslicings):
//
//   three-way   bytes.Compare / slices.Compare of the two byte strings, or
//               cmp.Compare of their big-endian integers, compared with a
//               constant (lexicographic order on equal-length strings is the
//               big-endian integer order);
//   integer     a <, <=, >, >= comparison of the big-endian integers of the two
//               strings, each obtained by encoding/binary BigEndian.Uint64, by
//               hand-written shifts b[0]<<56 | ... | b[7], or by a helper of the
//               package whose result is such an expression of its parameter.
//
// A helper that returns the outcome as bool / error is covered by c47Gate.

func (m *c47MAC) storedCtr(v ssa.Value) bool {
	return v != nil && m.isFieldOrigin(v, "keySlot", "theirLastCtr")
}

func (m *c47MAC) recvCtr(v ssa.Value) bool {
	if v == nil || m.storedCtr(v) {
		return false
	}
	for _, o := range []ssa.Value{m.c.origin(v), m.c.origin(sliceBase(m.c.origin(v)))} {
		ex, ok := o.(*ssa.Extract)
		if !ok || ex.Index != 0 {
			continue
		}
		cl, ok := ex.Tuple.(*ssa.Call)
		if !ok || short(calleeName(&cl.Call)) != "otr.getNBytes" || len(cl.Call.Args) != 2 {
			continue
		}
		if k, isK := constInt(cl.Call.Args[1]); isK && k == 8 {
			return true
		}
	}
	return false
}

// c47BESource: v is the big-endian 64-bit integer of a byte string; returns
// that byte string (slice value or pointer to array), nil otherwise.
func (m *c47MAC) beSource(v ssa.Value, depth int) ssa.Value {
	if depth > 4 || v == nil {
		return nil
	}
	switch x := v.(type) {
	case *ssa.Convert:
		if _, _, isInt := intBits(x.X.Type()); isInt {
			return m.beSource(x.X, depth+1)
		}
		return nil
	case *ssa.ChangeType:
		return m.beSource(x.X, depth+1)
	case *ssa.Parameter:
		if o := m.c.origin(x); o != ssa.Value(x) {
			return m.beSource(o, depth+1)
		}
		return nil
	case *ssa.Call:
		n := short(calleeName(&x.Call))
		if strings.HasPrefix(n, "(encoding/binary.bigEndian).Uint64") && len(x.Call.Args) > 0 {
			return x.Call.Args[len(x.Call.Args)-1]
		}
		g := samePkgCallee(x.Parent(), &x.Call)
		if g == nil || g.Signature.Results().Len() != 1 {
			return nil
		}
		idx := -1
		for _, r := range returnsOf(g) {
			src := m.beSource(retVal(r, 0), depth+1)
			if src == nil {
				return nil
			}
			p, ok := sliceBase(src).(*ssa.Parameter)
			if !ok {
				return nil
			}
			k := -1
			for i, q := range g.Params {
				if q == p {
					k = i
				}
			}
			if k < 0 || (idx >= 0 && k != idx) {
				return nil
			}
			idx = k
		}
		if idx < 0 || idx >= len(x.Call.Args) {
			return nil
		}
		return x.Call.Args[idx]
	case *ssa.BinOp:
		if x.Op != token.OR && x.Op != token.ADD && x.Op != token.SHL {
			return nil
		}
		// b[0]<<56 | b[1]<<48 | ... | b[7]
		var terms []ssa.Value
		var flat func(t ssa.Value)
		flat = func(t ssa.Value) {
			if b, ok := t.(*ssa.BinOp); ok && (b.Op == token.OR || b.Op == token.ADD) {
				flat(b.X)
				flat(b.Y)
				return
			}
			terms = append(terms, t)
		}
		flat(x)
		if len(terms) != 8 {
			return nil
		}
		var base ssa.Value
		seen := map[int64]bool{}
		for _, t := range terms {
			shift := int64(0)
			if b, ok := t.(*ssa.BinOp); ok && b.Op == token.SHL {
				k, isK := constInt(b.Y)
				if !isK {
					return nil
				}
				shift, t = k, b.X
			}
			for {
				cv, ok := t.(*ssa.Convert)
				if !ok {
					break
				}
				t = cv.X
			}
			u, ok := t.(*ssa.UnOp)
			if !ok || u.Op != token.MUL {
				return nil
			}
			ia, ok := u.X.(*ssa.IndexAddr)
			if !ok {
				return nil
			}
			i, isK := constInt(ia.Index)
			if !isK || i < 0 || i > 7 || seen[i] || shift != 8*(7-i) {
				return nil
			}
			seen[i] = true
			if base == nil {
				base = ia.X
			} else if base != ia.X && (accessPath(base) == "" || accessPath(base) != accessPath(ia.X)) {
				return nil
			}
		}
		return base
	}
	return nil
}

// counterGate: isGate for c47Gate. pol is the state of v that implies
// "received counter > stored counter".
func (m *c47MAC) counterGate(v ssa.Value) (bool, bool) {
	// integer comparison of the two big-endian values
	if bo, ok := v.(*ssa.BinOp); ok {
		a, b := m.beSource(bo.X, 0), m.beSource(bo.Y, 0)
		if a != nil && b != nil {
			op := bo.Op
			switch {
			case m.recvCtr(a) && m.storedCtr(b):
			case m.storedCtr(a) && m.recvCtr(b):
				// stored OP received  ==  received OP' stored
				switch op {
				case token.LSS:
					op = token.GTR
				case token.LEQ:
					op = token.GEQ
				case token.GTR:
					op = token.LSS
				case token.GEQ:
					op = token.LEQ
				}
			default:
				return false, false
			}
			switch op {
			case token.GTR: // received > stored
				return true, true
			case token.LEQ: // !(received <= stored)
				return false, true
			}
			return false, false
		}
	}
	// three-way comparison tested against a constant
	x, holds, ok := c47IntTest(v)
	if !ok {
		return false, false
	}
	call, isCall := x.(*ssa.Call)
	if !isCall || len(call.Call.Args) != 2 {
		return false, false
	}
	a, b := call.Call.Args[0], call.Call.Args[1]
	switch n := calleeName(&call.Call); {
	case n == "bytes.Compare" || strings.HasPrefix(n, "slices.Compare"):
	case strings.HasPrefix(n, "cmp.Compare"):
		a, b = m.beSource(a, 0), m.beSource(b, 0)
	default:
		return false, false
	}
	var P func(int64) bool
	switch {
	case m.recvCtr(a) && m.storedCtr(b):
		P = func(d int64) bool { return d > 0 }
	case m.storedCtr(a) && m.recvCtr(b):
		P = func(d int64) bool { return d < 0 }
	default:
		return false, false
	}
	tI, fI, nT, nF := true, true, 0, 0
	for _, d := range []int64{-1, 0, 1} {
		if holds(d) {
			nT++
			tI = tI && P(d)
		} else {
			nF++
			fI = fI && P(d)
		}
	}
	switch {
	case tI && nT > 0:
		return true, true
	case fI && nF > 0:
		return false, true
	}
	return false, false
}
