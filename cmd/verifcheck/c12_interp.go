package main

// c12_interp.go: a partial evaluator of go/ssa function bodies used by the C12
// rules. Integers, booleans, pointers, slices, arrays, structs, interfaces,
// strings, closures and tuples are evaluated with Go's semantics (fixed-width
// wrap-around, bounds checks, nil checks); an integer may also be UNKNOWN
// (c12Unk: "a byte of the key whose content the rule leaves open"). Arithmetic
// on an unknown is unknown, a load through an index that is unknown yields an
// unknown, a store through such an index makes the whole indexed array
// unknown — and a BRANCH whose condition is unknown stops the evaluation as
// UNDECIDED (never as a silent pass). Calls are followed into every function
// that has a body (module code, encoding/binary, math/bits, errors, ...), so a
// verdict does not depend on how the code is factored: helpers, closures, loop
// forms, renamed locals / receivers / types, hand-written byte packing versus
// encoding/binary all read the same. Nothing of /repo is compiled or executed;
// the evaluator reads the type-checked SSA inside the checker. Constructs it
// does not model (goroutines, channels, maps, defers, floating point,
// functions without a body) stop the evaluation as undecided.

import (
	"fmt"
	"go/constant"
	"go/token"
	"go/types"
	"strings"

	"golang.org/x/tools/go/ssa"
)

type c12kind uint8

const (
	c12Int   c12kind = iota // n (booleans are 0 / 1)
	c12Unk                  // integer or boolean of unknown value
	c12Ptr                  // o (nil: nil pointer), a: leaf offset; unk: offset unknown within [a, b)
	c12Slice                // o (nil: nil slice), a: leaf offset of element 0, b: len, n: cap (elements)
	c12Agg                  // x.([]c12v): the flattened scalar leaves of a struct / array value
	c12Iface                // x.(*c12iface); x == nil: nil interface
	c12Func                 // x.(*c12clo); x == nil: nil func
	c12Str                  // x.(string)
	c12Tuple                // x.([]c12v), one entry per result
)

type c12v struct {
	k   c12kind
	unk bool
	n   int64
	o   *c12obj
	a   int
	b   int
	x   any
}

type c12obj struct {
	cells []c12v
	reads []bool // non-nil: loads are recorded per cell
	bad   bool   // contents not available (package initialiser could not be evaluated)
	name  string
}

type c12iface struct {
	t types.Type
	v c12v
}

type c12clo struct {
	fn    *ssa.Function
	binds []c12v
	bi    string // builtin name
}

type c12stop struct {
	kind string // "panic" | "undecided"
	msg  string
}

type c12ins struct {
	in         ssa.Instruction
	dst        int
	a, b, c, d int
	xs         []int
	k, k2      int
	w, f       int // BinOp: result width; flags 1 operand unsigned, 2 operand integer, 4 result unsigned, 8 shift count unsigned
}

type c12blk struct {
	ins  []c12ins
	nphi int
}

type c12code struct {
	fn     *ssa.Function
	blocks []c12blk
	nreg   int
	nconst int
	tmpl   []c12v
	params []int
	fvs    []int
	free   [][]c12v
}

type c12interp struct {
	prog    *ssa.Program
	codes   map[*ssa.Function]*c12code
	globals map[*ssa.Global]*c12obj
	inited  map[*ssa.Package]int // 1 running/ok, 2 failed
	nl      map[types.Type]int
	steps   int
	total   int
	limit   int
	depth   int
	opaqueT types.Type
}

func newC12Interp(prog *ssa.Program) *c12interp {
	return &c12interp{
		prog: prog, codes: map[*ssa.Function]*c12code{}, globals: map[*ssa.Global]*c12obj{},
		inited: map[*ssa.Package]int{}, nl: map[types.Type]int{},
		opaqueT: types.NewNamed(types.NewTypeName(token.NoPos, nil, "opaqueError", nil), types.NewStruct(nil, nil), nil),
	}
}

func c12undecided(format string, a ...any) { panic(c12stop{"undecided", fmt.Sprintf(format, a...)}) }
func c12panic(format string, a ...any)     { panic(c12stop{"panic", fmt.Sprintf(format, a...)}) }

func c12int(n int64) c12v { return c12v{k: c12Int, n: n} }
func c12bool(b bool) c12v {
	if b {
		return c12v{k: c12Int, n: 1}
	}
	return c12v{k: c12Int}
}

// ---------------------------------------------------------------------------
// type layout: every value of struct / array type is a flat sequence of scalar leaves

func c12isAgg(t types.Type) bool {
	switch t.Underlying().(type) {
	case *types.Struct, *types.Array:
		return true
	}
	return false
}

func (it *c12interp) nleaf(t types.Type) int {
	if n, ok := it.nl[t]; ok {
		return n
	}
	n := 1
	switch u := t.Underlying().(type) {
	case *types.Struct:
		n = 0
		for i := 0; i < u.NumFields(); i++ {
			n += it.nleaf(u.Field(i).Type())
		}
	case *types.Array:
		n = int(u.Len()) * it.nleaf(u.Elem())
	case *types.Tuple:
		c12undecided("tuple type in memory")
	}
	it.nl[t] = n
	return n
}

func (it *c12interp) fieldOff(st *types.Struct, idx int) int {
	off := 0
	for i := 0; i < idx; i++ {
		off += it.nleaf(st.Field(i).Type())
	}
	return off
}

// zeroInto fills dst (len nleaf(t)) with the zero value of t.
func (it *c12interp) zeroInto(dst []c12v, t types.Type) {
	switch u := t.Underlying().(type) {
	case *types.Struct:
		off := 0
		for i := 0; i < u.NumFields(); i++ {
			n := it.nleaf(u.Field(i).Type())
			it.zeroInto(dst[off:off+n], u.Field(i).Type())
			off += n
		}
	case *types.Array:
		n := it.nleaf(u.Elem())
		if n == 0 {
			return
		}
		if !c12isAgg(u.Elem()) {
			z := it.zeroLeaf(u.Elem())
			for i := range dst {
				dst[i] = z
			}
			return
		}
		for i := 0; i < int(u.Len()); i++ {
			it.zeroInto(dst[i*n:(i+1)*n], u.Elem())
		}
	default:
		dst[0] = it.zeroLeaf(t)
	}
}

func (it *c12interp) zeroLeaf(t types.Type) c12v {
	switch u := t.Underlying().(type) {
	case *types.Basic:
		switch {
		case u.Info()&(types.IsInteger|types.IsBoolean) != 0:
			return c12v{k: c12Int}
		case u.Info()&types.IsString != 0:
			return c12v{k: c12Str, x: ""}
		case u.Kind() == types.UnsafePointer:
			return c12v{k: c12Ptr}
		}
		return c12v{k: c12Unk} // floating point: not modelled
	case *types.Slice:
		return c12v{k: c12Slice}
	case *types.Interface:
		return c12v{k: c12Iface}
	case *types.Signature:
		return c12v{k: c12Func}
	}
	return c12v{k: c12Ptr} // pointers; maps and channels are never operated on
}

func (it *c12interp) zeroValue(t types.Type) c12v {
	if c12isAgg(t) {
		ls := make([]c12v, it.nleaf(t))
		it.zeroInto(ls, t)
		return c12v{k: c12Agg, x: ls}
	}
	return it.zeroLeaf(t)
}

func (it *c12interp) newObj(t types.Type, count int, name string) *c12obj {
	n := it.nleaf(t)
	o := &c12obj{cells: make([]c12v, n*count), name: name}
	for i := 0; i < count; i++ {
		it.zeroInto(o.cells[i*n:(i+1)*n], t)
	}
	return o
}

// ---------------------------------------------------------------------------
// globals and package initialisers

func (it *c12interp) global(g *ssa.Global) *c12obj {
	if o, ok := it.globals[g]; ok {
		return o
	}
	et := g.Type().(*types.Pointer).Elem()
	o := it.newObj(et, 1, g.String())
	it.globals[g] = o
	if len(o.cells) > 0 && g.Pkg != nil {
		it.ensureInit(g.Pkg)
		if it.inited[g.Pkg] == 2 {
			o.bad = true
		}
	}
	return o
}

// ensureInit evaluates the package initialiser (the stores that build the
// package-level tables) the first time a variable of the package is touched.
// Initialisers of imported packages are evaluated on their own first touch.
func (it *c12interp) ensureInit(p *ssa.Package) {
	if it.inited[p] != 0 {
		return
	}
	it.inited[p] = 1
	initFn := p.Func("init")
	if initFn == nil || len(initFn.Blocks) == 0 {
		return
	}
	saveSteps, saveLimit, saveDepth := it.steps, it.limit, it.depth
	it.steps, it.limit, it.depth = 0, 4000000, 0
	func() {
		defer func() {
			if r := recover(); r != nil {
				it.inited[p] = 2
				for g, o := range it.globals {
					if g.Pkg == p {
						o.bad = true
					}
				}
			}
		}()
		it.call(&c12clo{fn: initFn}, nil)
	}()
	it.steps, it.limit, it.depth = saveSteps, saveLimit, saveDepth
}

// ---------------------------------------------------------------------------
// compilation of a function into register form

func (it *c12interp) compile(fn *ssa.Function) *c12code {
	if cd, ok := it.codes[fn]; ok {
		return cd
	}
	// package-level variables first: touching one may evaluate a package
	// initialiser, which may itself need functions compiled
	for _, b := range fn.Blocks {
		for _, in := range b.Instrs {
			for _, op := range in.Operands(nil) {
				if g, ok := (*op).(*ssa.Global); ok {
					it.global(g)
				}
			}
		}
	}
	if cd, ok := it.codes[fn]; ok {
		return cd
	}
	cd := &c12code{fn: fn}
	it.codes[fn] = cd
	idx := map[ssa.Value]int{}
	var consts []c12v
	// constants, globals, functions first
	reg := func(v ssa.Value) int {
		if v == nil {
			return -1
		}
		if i, ok := idx[v]; ok {
			return i
		}
		var cv c12v
		switch x := v.(type) {
		case *ssa.Const:
			cv = it.constVal(x)
		case *ssa.Global:
			cv = c12v{k: c12Ptr, o: it.global(x)}
		case *ssa.Function:
			cv = c12v{k: c12Func, x: &c12clo{fn: x}}
		case *ssa.Builtin:
			cv = c12v{k: c12Func, x: &c12clo{bi: x.Name()}}
		default:
			c12undecided("operand %T used before definition in %s", v, fn)
		}
		idx[v] = len(consts)
		consts = append(consts, cv)
		return idx[v]
	}
	// pass 1: constants
	for _, b := range fn.Blocks {
		for _, in := range b.Instrs {
			for _, op := range in.Operands(nil) {
				if *op == nil {
					continue
				}
				switch (*op).(type) {
				case *ssa.Const, *ssa.Global, *ssa.Function, *ssa.Builtin:
					reg(*op)
				}
			}
		}
	}
	cd.nconst = len(consts)
	n := cd.nconst
	for _, p := range fn.Params {
		idx[p] = n
		cd.params = append(cd.params, n)
		n++
	}
	for _, fv := range fn.FreeVars {
		idx[fv] = n
		cd.fvs = append(cd.fvs, n)
		n++
	}
	for _, b := range fn.Blocks {
		for _, in := range b.Instrs {
			if v, ok := in.(ssa.Value); ok {
				idx[v] = n
				n++
			}
		}
	}
	cd.nreg = n
	cd.tmpl = consts
	regs := func(vs []ssa.Value) []int {
		out := make([]int, len(vs))
		for i, v := range vs {
			out[i] = reg(v)
		}
		return out
	}
	cd.blocks = make([]c12blk, len(fn.Blocks))
	for bi, b := range fn.Blocks {
		blk := &cd.blocks[bi]
		for _, in := range b.Instrs {
			ci := c12ins{in: in, dst: -1, a: -1, b: -1, c: -1, d: -1}
			if v, ok := in.(ssa.Value); ok {
				ci.dst = idx[v]
			}
			switch x := in.(type) {
			case *ssa.Phi:
				ci.xs = regs(x.Edges)
				blk.nphi++
			case *ssa.Alloc:
				ci.k = it.nleaf(x.Type().(*types.Pointer).Elem())
			case *ssa.BinOp:
				ci.a, ci.b = reg(x.X), reg(x.Y)
				if bits, uns, ok := intBits(x.X.Type()); ok {
					ci.k, ci.f = bits, ci.f|2
					if uns {
						ci.f |= 1
					}
				}
				if bits, uns, ok := intBits(x.Type()); ok {
					ci.w = bits
					if uns {
						ci.f |= 4
					}
				}
				if _, uns, ok := intBits(x.Y.Type()); ok && uns {
					ci.f |= 8
				}
			case *ssa.UnOp:
				ci.a = reg(x.X)
				if x.Op == token.MUL {
					ci.k = it.nleaf(x.Type())
				}
			case *ssa.Store:
				ci.a, ci.b = reg(x.Addr), reg(x.Val)
				ci.k = it.nleaf(x.Val.Type())
			case *ssa.FieldAddr:
				ci.a = reg(x.X)
				st := x.X.Type().Underlying().(*types.Pointer).Elem().Underlying().(*types.Struct)
				ci.k = it.fieldOff(st, x.Field)
			case *ssa.Field:
				ci.a = reg(x.X)
				st := x.X.Type().Underlying().(*types.Struct)
				ci.k = it.fieldOff(st, x.Field)
				ci.k2 = it.nleaf(st.Field(x.Field).Type())
			case *ssa.IndexAddr:
				ci.a, ci.b = reg(x.X), reg(x.Index)
				switch u := x.X.Type().Underlying().(type) {
				case *types.Pointer:
					arr := u.Elem().Underlying().(*types.Array)
					ci.k, ci.k2 = it.nleaf(arr.Elem()), int(arr.Len())
				case *types.Slice:
					ci.k, ci.k2 = it.nleaf(u.Elem()), -1
				default:
					c12undecided("IndexAddr on %s", x.X.Type())
				}
			case *ssa.Index:
				ci.a, ci.b = reg(x.X), reg(x.Index)
				switch u := x.X.Type().Underlying().(type) {
				case *types.Array:
					ci.k, ci.k2 = it.nleaf(u.Elem()), int(u.Len())
				default:
					ci.k, ci.k2 = 1, -1 // string
				}
			case *ssa.Lookup:
				ci.a, ci.b = reg(x.X), reg(x.Index)
			case *ssa.Slice:
				ci.a, ci.b, ci.c, ci.d = reg(x.X), reg(x.Low), reg(x.High), reg(x.Max)
				switch u := x.X.Type().Underlying().(type) {
				case *types.Pointer:
					arr := u.Elem().Underlying().(*types.Array)
					ci.k, ci.k2 = it.nleaf(arr.Elem()), int(arr.Len())
				case *types.Slice:
					ci.k, ci.k2 = it.nleaf(u.Elem()), -1
				default:
					ci.k, ci.k2 = 1, -2 // string
				}
			case *ssa.MakeSlice:
				ci.a, ci.b = reg(x.Len), reg(x.Cap)
			case *ssa.Convert:
				ci.a = reg(x.X)
				_, _, fi := intBits(x.X.Type().Underlying())
				if bits, uns, ti := intBits(x.Type().Underlying()); fi && ti {
					ci.k, ci.w = 1, bits
					if uns {
						ci.f |= 4
					}
				}
			case *ssa.ChangeType:
				ci.a = reg(x.X)
			case *ssa.ChangeInterface:
				ci.a = reg(x.X)
			case *ssa.MakeInterface:
				ci.a = reg(x.X)
			case *ssa.TypeAssert:
				ci.a = reg(x.X)
			case *ssa.SliceToArrayPointer:
				ci.a = reg(x.X)
			case *ssa.Extract:
				ci.a = reg(x.Tuple)
			case *ssa.MakeClosure:
				ci.a = reg(x.Fn)
				ci.xs = regs(x.Bindings)
			case *ssa.Call:
				ci.a = reg(x.Call.Value)
				ci.xs = regs(x.Call.Args)
			case *ssa.Return:
				ci.xs = regs(x.Results)
			case *ssa.If:
				ci.a = reg(x.Cond)
			case *ssa.Panic:
				ci.a = reg(x.X)
			case *ssa.Jump, *ssa.RunDefers, *ssa.DebugRef:
			default:
				// Go, Defer, Select, Send, Range, Next, MakeMap, MapUpdate, MakeChan, ...: stop when executed
			}
			blk.ins = append(blk.ins, ci)
		}
	}
	return cd
}

func (it *c12interp) constVal(c *ssa.Const) c12v {
	t := c.Type()
	if c.Value == nil {
		return it.zeroValue(t)
	}
	if b, ok := t.Underlying().(*types.Basic); ok {
		switch {
		case b.Info()&types.IsBoolean != 0:
			return c12bool(constant.BoolVal(c.Value))
		case b.Info()&types.IsInteger != 0:
			if n, ok := constant.Int64Val(c.Value); ok {
				return c12int(wrapTo(n, t))
			}
			if u, ok := constant.Uint64Val(c.Value); ok {
				return c12int(int64(u))
			}
		case b.Info()&types.IsString != 0:
			return c12v{k: c12Str, x: constant.StringVal(c.Value)}
		}
	}
	return c12v{k: c12Unk}
}

// ---------------------------------------------------------------------------
// execution

// run evaluates fn on args. kind is "return", "panic" or "undecided".
func (it *c12interp) run(fn *ssa.Function, limit int, args ...c12v) (res c12v, kind, msg string) {
	it.total += it.steps
	it.steps, it.limit, it.depth = 0, limit, 0
	defer func() {
		if r := recover(); r != nil {
			st, ok := r.(c12stop)
			if !ok {
				// a value of a shape the evaluator does not expect: undecided, never a pass
				st = c12stop{"undecided", fmt.Sprintf("evaluator fault: %v", r)}
			}
			kind, msg = st.kind, st.msg
		}
	}()
	res = it.call(&c12clo{fn: fn}, args)
	return res, "return", ""
}

func (it *c12interp) call(clo *c12clo, args []c12v) c12v {
	fn := clo.fn
	if len(fn.Blocks) == 0 {
		c12undecided("call of %s, which has no Go body", fn)
	}
	if it.depth > 200 {
		c12undecided("call depth exceeded in %s", fn)
	}
	cd := it.compile(fn)
	var regs []c12v
	if n := len(cd.free); n > 0 {
		regs = cd.free[n-1]
		cd.free = cd.free[:n-1]
	} else {
		regs = make([]c12v, cd.nreg)
		copy(regs, cd.tmpl)
	}
	it.depth++
	defer func() {
		it.depth--
		cd.free = append(cd.free, regs)
	}()
	if len(args) != len(cd.params) {
		c12undecided("call of %s with %d arguments", fn, len(args))
	}
	for i, p := range cd.params {
		regs[p] = args[i]
	}
	for i, p := range cd.fvs {
		if i < len(clo.binds) {
			regs[p] = clo.binds[i]
		}
	}
	bi, pred := 0, -1
	var phibuf []c12v
	for {
		blk := &cd.blocks[bi]
		b := fn.Blocks[bi]
		if blk.nphi > 0 {
			e := -1
			for i, p := range b.Preds {
				if p.Index == pred {
					e = i
				}
			}
			if e < 0 {
				c12undecided("phi without predecessor in %s", fn)
			}
			phibuf = phibuf[:0]
			for i := 0; i < blk.nphi; i++ {
				phibuf = append(phibuf, regs[blk.ins[i].xs[e]])
			}
			for i := 0; i < blk.nphi; i++ {
				regs[blk.ins[i].dst] = phibuf[i]
			}
		}
		next := -1
		for i := blk.nphi; i < len(blk.ins); i++ {
			ci := &blk.ins[i]
			it.steps++
			if it.steps > it.limit {
				c12undecided("evaluation step bound exceeded in %s", fn)
			}
			switch x := ci.in.(type) {
			case *ssa.BinOp:
				regs[ci.dst] = it.binop(x, ci, regs[ci.a], regs[ci.b])
			case *ssa.UnOp:
				regs[ci.dst] = it.unop(x, ci, regs[ci.a])
			case *ssa.IndexAddr:
				regs[ci.dst] = it.indexAddr(ci, regs[ci.a], regs[ci.b])
			case *ssa.Store:
				it.store(regs[ci.a], regs[ci.b], ci.k)
			case *ssa.Convert:
				if v := regs[ci.a]; ci.k == 1 {
					// integer to integer
					if v.k == c12Int {
						regs[ci.dst] = c12int(c12wrap(v.n, ci.w, ci.f&4 != 0))
					} else {
						regs[ci.dst] = c12v{k: c12Unk}
					}
				} else {
					regs[ci.dst] = it.convert(x, v)
				}
			case *ssa.ChangeType, *ssa.ChangeInterface:
				regs[ci.dst] = regs[ci.a]
			case *ssa.FieldAddr:
				p := regs[ci.a]
				if p.k != c12Ptr || p.o == nil {
					c12panic("nil pointer dereference")
				}
				if p.unk {
					c12undecided("field of an element selected by an unknown index")
				}
				p.a += ci.k
				regs[ci.dst] = p
			case *ssa.Field:
				ls := regs[ci.a].x.([]c12v)
				if c12isAgg(x.Type()) {
					regs[ci.dst] = c12v{k: c12Agg, x: append([]c12v(nil), ls[ci.k:ci.k+ci.k2]...)}
				} else {
					regs[ci.dst] = ls[ci.k]
				}
			case *ssa.Index:
				regs[ci.dst] = it.index(x, ci, regs[ci.a], regs[ci.b])
			case *ssa.Lookup:
				if _, isMap := x.X.Type().Underlying().(*types.Map); isMap {
					c12undecided("map lookup")
				}
				regs[ci.dst] = it.index(nil, ci, regs[ci.a], regs[ci.b])
			case *ssa.Alloc:
				et := x.Type().(*types.Pointer).Elem()
				regs[ci.dst] = c12v{k: c12Ptr, o: it.newObj(et, 1, x.Comment)}
			case *ssa.Slice:
				regs[ci.dst] = it.slice(ci, regs)
			case *ssa.MakeSlice:
				ln, cp := regs[ci.a], regs[ci.b]
				if ln.k != c12Int || cp.k != c12Int {
					c12undecided("make with a length that is unknown")
				}
				if ln.n < 0 || cp.n < ln.n || cp.n > 1<<24 {
					c12panic("makeslice: len out of range")
				}
				et := x.Type().Underlying().(*types.Slice).Elem()
				regs[ci.dst] = c12v{k: c12Slice, o: it.newObj(et, int(cp.n), "make"), b: int(ln.n), n: cp.n}
			case *ssa.MakeInterface:
				regs[ci.dst] = c12v{k: c12Iface, x: &c12iface{t: x.X.Type(), v: regs[ci.a]}}
			case *ssa.TypeAssert:
				regs[ci.dst] = it.typeAssert(x, regs[ci.a])
			case *ssa.SliceToArrayPointer:
				s := regs[ci.a]
				L := int(x.Type().Underlying().(*types.Pointer).Elem().Underlying().(*types.Array).Len())
				if s.b < L {
					c12panic("cannot convert slice with length %d to array or pointer to array with length %d", s.b, L)
				}
				regs[ci.dst] = c12v{k: c12Ptr, o: s.o, a: s.a}
			case *ssa.Extract:
				regs[ci.dst] = regs[ci.a].x.([]c12v)[x.Index]
			case *ssa.MakeClosure:
				f := regs[ci.a].x.(*c12clo)
				bs := make([]c12v, len(ci.xs))
				for j, r := range ci.xs {
					bs[j] = regs[r]
				}
				regs[ci.dst] = c12v{k: c12Func, x: &c12clo{fn: f.fn, binds: bs}}
			case *ssa.Call:
				args := make([]c12v, 0, len(ci.xs)+1)
				for _, r := range ci.xs {
					args = append(args, regs[r])
				}
				regs[ci.dst] = it.doCall(x, regs[ci.a], args)
			case *ssa.Return:
				switch len(ci.xs) {
				case 0:
					return c12v{k: c12Tuple}
				case 1:
					return regs[ci.xs[0]]
				}
				rs := make([]c12v, len(ci.xs))
				for j, r := range ci.xs {
					rs[j] = regs[r]
				}
				return c12v{k: c12Tuple, x: rs}
			case *ssa.Jump:
				next = b.Succs[0].Index
			case *ssa.If:
				cv := regs[ci.a]
				if cv.k != c12Int {
					c12undecided("a branch in %s depends on content that is left unknown (%s)", fn, x.Cond)
				}
				if cv.n != 0 {
					next = b.Succs[0].Index
				} else {
					next = b.Succs[1].Index
				}
			case *ssa.Panic:
				v := regs[ci.a]
				msg := "panic"
				if v.k == c12Iface && v.x != nil {
					if pv := v.x.(*c12iface).v; pv.k == c12Str {
						msg = "panic: " + pv.x.(string)
					}
				}
				panic(c12stop{"panic", msg})
			case *ssa.RunDefers, *ssa.DebugRef:
			default:
				c12undecided("%T is not modelled (in %s)", ci.in, fn)
			}
		}
		if next < 0 {
			c12undecided("block without terminator in %s", fn)
		}
		pred, bi = bi, next
	}
}

func (it *c12interp) doCall(x *ssa.Call, fv c12v, args []c12v) c12v {
	cc := &x.Call
	if cc.IsInvoke() {
		if fv.k != c12Iface || fv.x == nil {
			c12panic("nil pointer dereference (method call on a nil interface)")
		}
		iv := fv.x.(*c12iface)
		m := it.prog.LookupMethod(iv.t, cc.Method.Pkg(), cc.Method.Name())
		if m == nil {
			c12undecided("method %s of %s not found", cc.Method.Name(), iv.t)
		}
		return it.call(&c12clo{fn: m}, append([]c12v{iv.v}, args...))
	}
	if fv.k != c12Func {
		c12undecided("call of a non-function value")
	}
	if fv.x == nil {
		c12panic("nil pointer dereference (call of a nil func)")
	}
	clo := fv.x.(*c12clo)
	if clo.bi != "" {
		return it.builtin(x, clo.bi, args)
	}
	if clo.fn.Synthetic == "package initializer" {
		// an imported package's initialiser: evaluated on the first touch of one of its variables
		return c12v{k: c12Tuple}
	}
	switch clo.fn.String() {
	case "fmt.Errorf":
		return c12v{k: c12Iface, x: &c12iface{t: it.opaqueT}}
	case "fmt.Sprintf", "fmt.Sprint", "strconv.Itoa":
		return c12v{k: c12Str, x: "?"}
	}
	return it.call(clo, args)
}

func (it *c12interp) elemLeaves(sliceT types.Type) int {
	if s, ok := sliceT.Underlying().(*types.Slice); ok {
		return it.nleaf(s.Elem())
	}
	return 1
}

func (it *c12interp) builtin(x *ssa.Call, name string, args []c12v) c12v {
	switch name {
	case "len", "cap":
		v := args[0]
		switch v.k {
		case c12Slice:
			if name == "len" {
				return c12int(int64(v.b))
			}
			return c12int(v.n)
		case c12Str:
			return c12int(int64(len(v.x.(string))))
		}
		t := x.Call.Args[0].Type().Underlying()
		if p, ok := t.(*types.Pointer); ok {
			t = p.Elem().Underlying()
		}
		if a, ok := t.(*types.Array); ok {
			return c12int(a.Len())
		}
		c12undecided("len of %s", x.Call.Args[0].Type())
	case "copy":
		d, s := args[0], args[1]
		es := it.elemLeaves(x.Call.Args[0].Type())
		if s.k == c12Str {
			str := s.x.(string)
			n := min(d.b, len(str))
			for i := 0; i < n; i++ {
				d.o.cells[d.a+i] = c12int(int64(str[i]))
			}
			return c12int(int64(n))
		}
		n := min(d.b, s.b)
		if n > 0 {
			if s.o.bad {
				c12undecided("read of %s, whose initialiser could not be evaluated", s.o.name)
			}
			tmp := append([]c12v(nil), s.o.cells[s.a:s.a+n*es]...)
			copy(d.o.cells[d.a:d.a+n*es], tmp)
			if s.o.reads != nil {
				for i := s.a; i < s.a+n*es; i++ {
					s.o.reads[i] = true
				}
			}
		}
		return c12int(int64(n))
	case "append":
		s, t := args[0], args[1]
		es := it.elemLeaves(x.Type())
		var add []c12v
		switch t.k {
		case c12Str:
			for _, ch := range []byte(t.x.(string)) {
				add = append(add, c12int(int64(ch)))
			}
		case c12Slice:
			if t.b > 0 {
				add = append(add, t.o.cells[t.a:t.a+t.b*es]...)
				if t.o.reads != nil {
					for i := t.a; i < t.a+t.b*es; i++ {
						t.o.reads[i] = true
					}
				}
			}
		}
		cnt := 0
		if es > 0 {
			cnt = len(add) / es
		} else if t.k == c12Slice {
			cnt = t.b
		}
		if cnt == 0 {
			return s
		}
		if s.o != nil && int64(s.b+cnt) <= s.n {
			copy(s.o.cells[s.a+s.b*es:], add)
			s.b += cnt
			return s
		}
		ncap := max(2*int(s.n), s.b+cnt)
		et := x.Type().Underlying().(*types.Slice).Elem()
		o := it.newObj(et, ncap, "append")
		if s.o != nil {
			copy(o.cells, s.o.cells[s.a:s.a+s.b*es])
		}
		copy(o.cells[s.b*es:], add)
		return c12v{k: c12Slice, o: o, b: s.b + cnt, n: int64(ncap)}
	case "min", "max":
		best := args[0]
		for _, a := range args {
			if a.k != c12Int || best.k != c12Int {
				return c12v{k: c12Unk}
			}
		}
		_, uns, isInt := intBits(x.Type())
		if !isInt {
			c12undecided("%s on %s", name, x.Type())
		}
		for _, a := range args[1:] {
			less := a.n < best.n
			if uns {
				less = uint64(a.n) < uint64(best.n)
			}
			if (name == "min") == less {
				best = a
			}
		}
		return best
	case "clear":
		s := args[0]
		if s.k != c12Slice {
			c12undecided("clear of %s", x.Call.Args[0].Type())
		}
		if s.b > 0 {
			et := x.Call.Args[0].Type().Underlying().(*types.Slice).Elem()
			es := it.nleaf(et)
			for i := 0; i < s.b; i++ {
				it.zeroInto(s.o.cells[s.a+i*es:s.a+(i+1)*es], et)
			}
		}
		return c12v{k: c12Tuple}
	case "recover":
		return c12v{k: c12Iface}
	case "print", "println":
		return c12v{k: c12Tuple}
	}
	c12undecided("builtin %s is not modelled", name)
	return c12v{}
}

func (it *c12interp) unop(x *ssa.UnOp, ci *c12ins, v c12v) c12v {
	switch x.Op {
	case token.MUL:
		return it.load(v, ci.k, c12isAgg(x.Type()))
	case token.NOT:
		if v.k != c12Int {
			return c12v{k: c12Unk}
		}
		return c12int(1 - v.n)
	case token.SUB:
		if v.k != c12Int {
			return c12v{k: c12Unk}
		}
		return c12int(wrapTo(-v.n, x.Type()))
	case token.XOR:
		if v.k != c12Int {
			return c12v{k: c12Unk}
		}
		return c12int(wrapTo(^v.n, x.Type()))
	}
	c12undecided("unary %s is not modelled", x.Op)
	return c12v{}
}

func (it *c12interp) load(p c12v, n int, agg bool) c12v {
	if p.k != c12Ptr {
		c12undecided("load through a non-pointer")
	}
	if n == 0 {
		if agg {
			return c12v{k: c12Agg, x: []c12v(nil)}
		}
		c12undecided("load of a zero-size scalar")
	}
	if p.o == nil {
		c12panic("invalid memory address or nil pointer dereference")
	}
	if p.o.bad {
		c12undecided("read of %s, whose initialiser could not be evaluated", p.o.name)
	}
	if p.unk {
		for i := p.a; i < p.b; i++ {
			if k := p.o.cells[i].k; k != c12Int && k != c12Unk {
				c12undecided("load of a non-integer through an unknown index")
			}
			if p.o.reads != nil {
				p.o.reads[i] = true
			}
		}
		if !agg {
			return c12v{k: c12Unk}
		}
		ls := make([]c12v, n)
		for i := range ls {
			ls[i] = c12v{k: c12Unk}
		}
		return c12v{k: c12Agg, x: ls}
	}
	if p.a < 0 || p.a+n > len(p.o.cells) {
		c12undecided("load outside the object")
	}
	if p.o.reads != nil {
		for i := p.a; i < p.a+n; i++ {
			p.o.reads[i] = true
		}
	}
	if !agg {
		return p.o.cells[p.a]
	}
	return c12v{k: c12Agg, x: append([]c12v(nil), p.o.cells[p.a:p.a+n]...)}
}

func (it *c12interp) store(p, v c12v, n int) {
	if p.k != c12Ptr {
		c12undecided("store through a non-pointer")
	}
	if n == 0 {
		return
	}
	if p.o == nil {
		c12panic("invalid memory address or nil pointer dereference")
	}
	if p.unk {
		for i := p.a; i < p.b; i++ {
			if k := p.o.cells[i].k; k != c12Int && k != c12Unk {
				c12undecided("store of a non-integer through an unknown index")
			}
			p.o.cells[i] = c12v{k: c12Unk}
		}
		return
	}
	if p.a < 0 || p.a+n > len(p.o.cells) {
		c12undecided("store outside the object")
	}
	if v.k == c12Agg {
		copy(p.o.cells[p.a:p.a+n], v.x.([]c12v))
		return
	}
	p.o.cells[p.a] = v
}

func (it *c12interp) indexAddr(ci *c12ins, base, idx c12v) c12v {
	es := ci.k
	var o *c12obj
	var off, L int
	switch base.k {
	case c12Ptr:
		if base.o == nil {
			c12panic("invalid memory address or nil pointer dereference")
		}
		if base.unk {
			c12undecided("index into an element selected by an unknown index")
		}
		o, off, L = base.o, base.a, ci.k2
	case c12Slice:
		o, off, L = base.o, base.a, base.b
	default:
		c12undecided("index of a value that is not an array pointer or slice")
	}
	switch idx.k {
	case c12Int:
		if idx.n < 0 || idx.n >= int64(L) {
			c12panic("index out of range [%d] with length %d", idx.n, L)
		}
		return c12v{k: c12Ptr, o: o, a: off + int(idx.n)*es}
	case c12Unk:
		if L == 0 {
			c12panic("index out of range with length 0")
		}
		return c12v{k: c12Ptr, o: o, unk: true, a: off, b: off + L*es}
	}
	c12undecided("index that is not an integer")
	return c12v{}
}

func (it *c12interp) index(x *ssa.Index, ci *c12ins, base, idx c12v) c12v {
	if base.k == c12Str {
		s := base.x.(string)
		if idx.k != c12Int {
			return c12v{k: c12Unk}
		}
		if idx.n < 0 || idx.n >= int64(len(s)) {
			c12panic("index out of range [%d] with length %d", idx.n, len(s))
		}
		return c12int(int64(s[idx.n]))
	}
	if base.k != c12Agg || x == nil {
		c12undecided("index of a value that is not an array or string")
	}
	ls := base.x.([]c12v)
	es, L := ci.k, ci.k2
	agg := c12isAgg(x.Type())
	switch idx.k {
	case c12Int:
		if idx.n < 0 || idx.n >= int64(L) {
			c12panic("index out of range [%d] with length %d", idx.n, L)
		}
		i := int(idx.n)
		if agg {
			return c12v{k: c12Agg, x: append([]c12v(nil), ls[i*es:(i+1)*es]...)}
		}
		return ls[i]
	case c12Unk:
		for _, l := range ls {
			if l.k != c12Int && l.k != c12Unk {
				c12undecided("index of a non-integer array by an unknown index")
			}
		}
		if !agg {
			return c12v{k: c12Unk}
		}
		out := make([]c12v, es)
		for i := range out {
			out[i] = c12v{k: c12Unk}
		}
		return c12v{k: c12Agg, x: out}
	}
	c12undecided("index that is not an integer")
	return c12v{}
}

func (it *c12interp) slice(ci *c12ins, regs []c12v) c12v {
	base := regs[ci.a]
	get := func(r int, def int64) int64 {
		if r < 0 {
			return def
		}
		v := regs[r]
		if v.k != c12Int {
			c12undecided("slice bound that is unknown")
		}
		return v.n
	}
	if base.k == c12Str {
		s := base.x.(string)
		lo, hi := get(ci.b, 0), get(ci.c, int64(len(s)))
		if lo < 0 || hi < lo || hi > int64(len(s)) {
			c12panic("slice bounds out of range [%d:%d] with length %d", lo, hi, len(s))
		}
		return c12v{k: c12Str, x: s[lo:hi]}
	}
	es := ci.k
	var o *c12obj
	var off int
	var ln, cp int64
	switch base.k {
	case c12Ptr:
		if base.o == nil {
			c12panic("invalid memory address or nil pointer dereference")
		}
		if base.unk {
			c12undecided("slice of an element selected by an unknown index")
		}
		o, off, ln, cp = base.o, base.a, int64(ci.k2), int64(ci.k2)
	case c12Slice:
		o, off, ln, cp = base.o, base.a, int64(base.b), base.n
	default:
		c12undecided("slice of a value that is not an array pointer, slice or string")
	}
	lo := get(ci.b, 0)
	hi := get(ci.c, ln)
	mx := get(ci.d, cp)
	if mx < 0 || mx > cp {
		c12panic("slice bounds out of range [::%d] with capacity %d", mx, cp)
	}
	if hi < 0 || hi > mx {
		c12panic("slice bounds out of range [:%d] with capacity %d", hi, mx)
	}
	if lo < 0 || lo > hi {
		c12panic("slice bounds out of range [%d:%d]", lo, hi)
	}
	return c12v{k: c12Slice, o: o, a: off + int(lo)*es, b: int(hi - lo), n: mx - lo}
}

func (it *c12interp) convert(x *ssa.Convert, v c12v) c12v {
	from, to := x.X.Type().Underlying(), x.Type().Underlying()
	_, _, fi := intBits(from)
	_, _, ti := intBits(to)
	if fi && ti {
		if v.k != c12Int {
			return c12v{k: c12Unk}
		}
		return c12int(wrapTo(v.n, to))
	}
	fb, fIsB := from.(*types.Basic)
	tb, tIsB := to.(*types.Basic)
	if tIsB && tb.Info()&types.IsString != 0 {
		if fIsB && fb.Info()&types.IsString != 0 {
			return v
		}
		if v.k == c12Slice {
			bs := make([]byte, v.b)
			for i := range bs {
				c := v.o.cells[v.a+i]
				if c.k != c12Int {
					c12undecided("string built from unknown bytes")
				}
				bs[i] = byte(c.n)
			}
			return c12v{k: c12Str, x: string(bs)}
		}
	}
	if fIsB && fb.Info()&types.IsString != 0 && v.k == c12Str {
		if s, ok := to.(*types.Slice); ok {
			if eb, ok := s.Elem().Underlying().(*types.Basic); ok && eb.Kind() == types.Uint8 {
				str := v.x.(string)
				o := it.newObj(s.Elem(), len(str), "[]byte(string)")
				for i := 0; i < len(str); i++ {
					o.cells[i] = c12int(int64(str[i]))
				}
				return c12v{k: c12Slice, o: o, b: len(str), n: int64(len(str))}
			}
		}
	}
	if tIsB && tb.Info()&(types.IsFloat|types.IsComplex) != 0 || fIsB && fb.Info()&(types.IsFloat|types.IsComplex) != 0 {
		return c12v{k: c12Unk}
	}
	c12undecided("conversion %s -> %s is not modelled", x.X.Type(), x.Type())
	return c12v{}
}

func (it *c12interp) typeAssert(x *ssa.TypeAssert, v c12v) c12v {
	ok := false
	var res c12v
	if v.k == c12Iface && v.x != nil {
		iv := v.x.(*c12iface)
		if it2, isI := x.AssertedType.Underlying().(*types.Interface); isI {
			if iv.t != it.opaqueT {
				ok = types.Implements(iv.t, it2)
			}
			res = v
		} else {
			ok = types.Identical(iv.t, x.AssertedType)
			res = iv.v
		}
	}
	if !ok {
		if !x.CommaOk {
			c12panic("interface conversion: type assertion failed")
		}
		res = it.zeroValue(x.AssertedType)
	}
	if x.CommaOk {
		return c12v{k: c12Tuple, x: []c12v{res, c12bool(ok)}}
	}
	return res
}

// c12wrap is wrapTo with the width and signedness precomputed.
func c12wrap(n int64, bits int, uns bool) int64 {
	if bits == 0 || bits >= 64 {
		return n
	}
	mask := int64(1)<<uint(bits) - 1
	n &= mask
	if !uns && n&(int64(1)<<uint(bits-1)) != 0 {
		n |= ^mask
	}
	return n
}

func (it *c12interp) binop(x *ssa.BinOp, ci *c12ins, a, b c12v) c12v {
	xt := x.X.Type()
	// operand width / signedness and result width were computed at compile time
	bits, uns, isInt := ci.k, ci.f&1 != 0, ci.f&2 != 0
	wrapTo := func(n int64, _ types.Type) int64 { return c12wrap(n, ci.w, ci.f&4 != 0) }
	if isInt {
		if a.k != c12Int || b.k != c12Int {
			if (a.k != c12Int && a.k != c12Unk) || (b.k != c12Int && b.k != c12Unk) {
				c12undecided("integer operation on a non-integer value")
			}
			// shifts by a known count that is too large, and division by a known zero, are decided
			if b.k == c12Int {
				switch x.Op {
				case token.QUO, token.REM:
					if b.n == 0 {
						c12panic("integer divide by zero")
					}
				}
			}
			return c12v{k: c12Unk}
		}
		an, bn := a.n, b.n
		cmp := func(c bool) c12v { return c12bool(c) }
		switch x.Op {
		case token.EQL:
			return cmp(an == bn)
		case token.NEQ:
			return cmp(an != bn)
		case token.LSS, token.LEQ, token.GTR, token.GEQ:
			lt, eq := an < bn, an == bn
			if uns {
				lt = uint64(an) < uint64(bn)
			}
			switch x.Op {
			case token.LSS:
				return cmp(lt)
			case token.LEQ:
				return cmp(lt || eq)
			case token.GTR:
				return cmp(!lt && !eq)
			}
			return cmp(!lt)
		case token.ADD:
			return c12int(wrapTo(an+bn, x.Type()))
		case token.SUB:
			return c12int(wrapTo(an-bn, x.Type()))
		case token.MUL:
			return c12int(wrapTo(an*bn, x.Type()))
		case token.QUO:
			if bn == 0 {
				c12panic("integer divide by zero")
			}
			if uns {
				return c12int(wrapTo(int64(uint64(an)/uint64(bn)), x.Type()))
			}
			if bn == -1 {
				return c12int(wrapTo(-an, x.Type()))
			}
			return c12int(wrapTo(an/bn, x.Type()))
		case token.REM:
			if bn == 0 {
				c12panic("integer divide by zero")
			}
			if uns {
				return c12int(wrapTo(int64(uint64(an)%uint64(bn)), x.Type()))
			}
			if bn == -1 {
				return c12int(0)
			}
			return c12int(wrapTo(an%bn, x.Type()))
		case token.AND:
			return c12int(wrapTo(an&bn, x.Type()))
		case token.OR:
			return c12int(wrapTo(an|bn, x.Type()))
		case token.XOR:
			return c12int(wrapTo(an^bn, x.Type()))
		case token.AND_NOT:
			return c12int(wrapTo(an&^bn, x.Type()))
		case token.SHL, token.SHR:
			// the shift count has its own type
			if ci.f&8 == 0 && bn < 0 {
				c12panic("negative shift amount")
			}
			cnt := uint64(bn)
			if x.Op == token.SHL {
				if cnt >= 64 {
					return c12int(0)
				}
				return c12int(wrapTo(an<<cnt, x.Type()))
			}
			if uns {
				ua := uint64(an)
				if bits < 64 {
					ua &= uint64(1)<<uint(bits) - 1
				}
				if cnt >= 64 {
					return c12int(0)
				}
				return c12int(wrapTo(int64(ua>>cnt), x.Type()))
			}
			if cnt >= 64 {
				cnt = 63
			}
			return c12int(an >> cnt)
		}
		c12undecided("integer operator %s is not modelled", x.Op)
	}
	// strings
	if a.k == c12Str && b.k == c12Str {
		as, bs := a.x.(string), b.x.(string)
		switch x.Op {
		case token.ADD:
			return c12v{k: c12Str, x: as + bs}
		case token.EQL:
			return c12bool(as == bs)
		case token.NEQ:
			return c12bool(as != bs)
		case token.LSS:
			return c12bool(as < bs)
		case token.LEQ:
			return c12bool(as <= bs)
		case token.GTR:
			return c12bool(as > bs)
		case token.GEQ:
			return c12bool(as >= bs)
		}
	}
	if x.Op == token.EQL || x.Op == token.NEQ {
		eq, ok := it.equal(a, b)
		if !ok {
			c12undecided("comparison of %s values is not modelled", xt)
		}
		return c12bool(eq == (x.Op == token.EQL))
	}
	if a.k == c12Unk || b.k == c12Unk {
		return c12v{k: c12Unk} // floating point
	}
	c12undecided("operator %s on %s is not modelled", x.Op, xt)
	return c12v{}
}

func (it *c12interp) equal(a, b c12v) (eq, ok bool) {
	if a.k != b.k {
		return false, false
	}
	switch a.k {
	case c12Int:
		return a.n == b.n, true
	case c12Str:
		return a.x.(string) == b.x.(string), true
	case c12Ptr:
		if a.unk || b.unk {
			return false, false
		}
		if a.o == nil || b.o == nil {
			return a.o == b.o, true
		}
		return a.o == b.o && a.a == b.a, true
	case c12Slice:
		if a.o == nil || b.o == nil {
			return a.o == nil && b.o == nil, true
		}
		return false, false
	case c12Func:
		if a.x == nil || b.x == nil {
			return a.x == nil && b.x == nil, true
		}
		return false, false
	case c12Iface:
		if a.x == nil || b.x == nil {
			return a.x == nil && b.x == nil, true
		}
		ai, bi := a.x.(*c12iface), b.x.(*c12iface)
		if !types.Identical(ai.t, bi.t) {
			return false, true
		}
		return it.equal(ai.v, bi.v)
	case c12Agg:
		as, bs := a.x.([]c12v), b.x.([]c12v)
		if len(as) != len(bs) {
			return false, false
		}
		for i := range as {
			e, ok := it.equal(as[i], bs[i])
			if !ok {
				return false, false
			}
			if !e {
				return false, true
			}
		}
		return true, true
	}
	return false, false
}

// ---------------------------------------------------------------------------
// values for the rules

// c12Bytes makes a []byte argument. vals == nil: n bytes of unknown content.
// Loads are recorded (obj.reads).
func (it *c12interp) bytes(n int, vals []byte) (c12v, *c12obj) {
	o := &c12obj{cells: make([]c12v, n), reads: make([]bool, n), name: "input"}
	for i := range o.cells {
		if vals != nil {
			o.cells[i] = c12int(int64(vals[i]))
		} else {
			o.cells[i] = c12v{k: c12Unk}
		}
	}
	return c12v{k: c12Slice, o: o, b: n, n: int64(n)}, o
}

// c12IsNil: nil pointer / nil interface / nil slice / nil func.
func c12IsNil(v c12v) bool {
	switch v.k {
	case c12Ptr, c12Slice:
		return v.o == nil
	case c12Iface, c12Func:
		return v.x == nil
	}
	return false
}

func c12Results(v c12v) []c12v {
	if v.k == c12Tuple {
		if v.x == nil {
			return nil
		}
		return v.x.([]c12v)
	}
	return []c12v{v}
}

// method finds the method `name` of the dynamic type held in an interface
// value (or of a pointer's static type t).
func (it *c12interp) method(v c12v, static types.Type, name string) (*ssa.Function, c12v) {
	t, recv := static, v
	if v.k == c12Iface {
		if v.x == nil {
			return nil, c12v{}
		}
		iv := v.x.(*c12iface)
		t, recv = iv.t, iv.v
	}
	if t == nil {
		return nil, c12v{}
	}
	ms := it.prog.MethodSets.MethodSet(t)
	for i := 0; i < ms.Len(); i++ {
		if sel := ms.At(i); sel.Obj().Name() == name {
			return it.prog.MethodValue(sel), recv
		}
	}
	return nil, c12v{}
}

func c12short(s string) string {
	return strings.ReplaceAll(s, modPath+"/", "")
}
