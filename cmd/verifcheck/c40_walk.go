package main

import (
	"fmt"
	"go/token"
	"go/types"
	"reflect"
	"sort"
	"strings"

	"golang.org/x/tools/go/ssa"
)

// Interpretation of the SSH signature code for C40.
//
// Every Verify method (and the two list-restricted signers) is walked with the
// pathWalker for each case of a small finite input domain; helpers of package
// ssh are interpreted in place, so the verdicts do not depend on how the code
// is factored, on the names of locals, parameters or receivers, or on the form
// of a test (if-chain, switch, loop, slices.Contains).
//
// Abstract values
//   strings      interned: every string constant and the modelled inputs
//                (sig.Format, the key's Type()) are integers, equality decides;
//   errors       0 = nil, 1 = non-nil (nil constants, sentinel globals,
//                errors.New / fmt.Errorf, results of modelled calls);
//   byte slices  their length in the environment (where it matters) and a
//                content description in the side table w.cls, a concatenation
//                a||b||... of atoms: "data", "sig.Blob", "recv.application",
//                "u8:5", "H[hash(sig.Format)](data)"; ssh.Marshal, append,
//                hash Write sequences, []byte{...} literals and
//                binary.BigEndian.AppendUint32 all normalise to it;
//   memory       scalar cells in w.state[path]; content descriptions of cells
//                in w.state["#c:"+path] (interned); struct VALUES (loaded,
//                returned, passed) are snapshots under "#g:sv<n>".
// Keys that start with "#g:" are global to the walk (they follow into helpers
// and back); everything lives in the walker's own tables so that a discarded
// trial inlining leaves no trace.

type c40Model struct {
	c       *Ctx
	sp      *ssa.Package
	ids     map[string]int64
	names   map[int64]string
	typeVal map[*ssa.Function]string
	opaque  map[string]bool
	mapFns  map[*ssa.Function]map[string]string
	ats     map[string]ssa.Instruction
}

// c40Scn is one case of the input domain.
type c40Scn struct {
	T       types.Type // receiver type of the Verify under interpretation (nil for signers)
	fmtID   int64      // sig.Format
	primOK  bool       // verdict of the primitive verifier (or of the inner key's Verify)
	sk      bool       // security-key type: flags / nt apply
	flags   int64      // flags byte received in sig.Rest
	nt      int64      // the key's no-touch-required opt-out
	blobLen int64      // len(sig.Blob)
	// signers
	algoID  int64   // requested algorithm
	list    []int64 // the signer's own algorithm list (multiAlgorithmSigner)
	keyType int64   // Type() of the signer's public key
}

type c40Out struct {
	end    string
	why    string
	res    int64 // 0 = nil error, 1 = non-nil error, -1 = not evaluated
	events []string
	last   ssa.Instruction
}

const c40Counter = 0x01020304

func newC40Model(c *Ctx, sp *ssa.Package) *c40Model {
	m := &c40Model{c: c, sp: sp, ids: map[string]int64{}, names: map[int64]string{}, typeVal: map[*ssa.Function]string{},
		opaque: map[string]bool{"Unmarshal": true, "Marshal": true, "Type": true}, mapFns: map[*ssa.Function]map[string]string{}, ats: map[string]ssa.Instruction{}}
	// helpers the model interprets itself: hash selectors (string -> (crypto.Hash, error))
	// and string->string lookups in a package-level table
	for _, mem := range sp.Members {
		g, ok := mem.(*ssa.Function)
		if !ok || len(g.Blocks) == 0 {
			continue
		}
		if c40IsHashSelector(g) {
			m.opaque[g.Name()] = true
		}
		if _, ok := m.mapFn(g); ok {
			m.opaque[g.Name()] = true
		}
	}
	return m
}

func (m *c40Model) intern(s string) int64 {
	if id, ok := m.ids[s]; ok {
		return id
	}
	id := int64(1<<20 + len(m.ids))
	m.ids[s] = id
	m.names[id] = s
	return id
}

func (m *c40Model) strOf(id int64) string {
	if s, ok := m.names[id]; ok {
		return s
	}
	return fmt.Sprintf("#%d", id)
}

// c40Show renders an interned string for a message.
func c40Show(s string) string {
	if strings.HasPrefix(s, "\x00") {
		return "<" + s[1:] + ">"
	}
	return fmt.Sprintf("%q", s)
}

func c40IsError(t types.Type) bool {
	return types.Identical(t, types.Universe.Lookup("error").Type())
}

func c40IsHashSelector(g *ssa.Function) bool {
	rs := g.Signature.Results()
	if rs.Len() != 2 || !c40IsError(rs.At(1).Type()) || g.Signature.Params().Len() != 1 {
		return false
	}
	n, ok := rs.At(0).Type().(*types.Named)
	return ok && n.Obj().Pkg() != nil && n.Obj().Pkg().Path() == "crypto" && n.Obj().Name() == "Hash"
}

// mapFn recognises a helper `func(x string) string` that returns T[x] when x is
// a key of the package-level map T and x itself otherwise (certificate
// algorithm -> underlying algorithm), and reads T's contents from the package
// initialiser. The walker cannot fold a map lookup, so the model applies the
// table itself.
func (m *c40Model) mapFn(g *ssa.Function) (map[string]string, bool) {
	if tab, ok := m.mapFns[g]; ok {
		return tab, tab != nil
	}
	m.mapFns[g] = nil
	sig := g.Signature
	if sig.Recv() != nil || sig.Params().Len() != 1 || sig.Results().Len() != 1 || len(g.Params) != 1 {
		return nil, false
	}
	isStr := func(t types.Type) bool {
		b, ok := t.Underlying().(*types.Basic)
		return ok && b.Kind() == types.String
	}
	if !isStr(sig.Params().At(0).Type()) || !isStr(sig.Results().At(0).Type()) {
		return nil, false
	}
	var lk *ssa.Lookup
	var glob *ssa.Global
	nLookups, nIfs, nCalls := 0, 0, 0
	allInstrs(g, func(in ssa.Instruction) {
		switch x := in.(type) {
		case *ssa.Lookup:
			nLookups++
			if u, ok := x.X.(*ssa.UnOp); ok && u.Op == token.MUL && x.CommaOk && x.Index == ssa.Value(g.Params[0]) {
				if gl, ok := u.X.(*ssa.Global); ok {
					lk, glob = x, gl
				}
			}
		case *ssa.If:
			nIfs++
		case ssa.CallInstruction:
			nCalls++
		}
	})
	if lk == nil || nLookups != 1 || nIfs != 1 || nCalls != 0 {
		return nil, false
	}
	// the single branch is on the lookup's ok; hit returns the value, miss the argument
	for _, b := range g.Blocks {
		iff, ok := b.Instrs[len(b.Instrs)-1].(*ssa.If)
		if !ok {
			continue
		}
		ex, ok := iff.Cond.(*ssa.Extract)
		if !ok || ex.Tuple != ssa.Value(lk) || ex.Index != 1 {
			return nil, false
		}
		retOf := func(blk *ssa.BasicBlock) ssa.Value {
			if r, ok := blk.Instrs[len(blk.Instrs)-1].(*ssa.Return); ok && len(r.Results) == 1 {
				return r.Results[0]
			}
			return nil
		}
		hit, miss := retOf(b.Succs[0]), retOf(b.Succs[1])
		hx, ok := hit.(*ssa.Extract)
		if !ok || hx.Tuple != ssa.Value(lk) || hx.Index != 0 || miss != ssa.Value(g.Params[0]) {
			return nil, false
		}
	}
	// contents: MapUpdates on the map stored into the global by the package initialiser
	ini := m.sp.Func("init")
	if ini == nil {
		return nil, false
	}
	var mm ssa.Value
	allInstrs(ini, func(in ssa.Instruction) {
		if st, ok := in.(*ssa.Store); ok && st.Addr == ssa.Value(glob) {
			mm = st.Val
		}
	})
	if mm == nil {
		return nil, false
	}
	tab := map[string]string{}
	good := true
	allInstrs(ini, func(in ssa.Instruction) {
		if mu, ok := in.(*ssa.MapUpdate); ok && mu.Map == mm {
			k, ok1 := constString(mu.Key)
			v, ok2 := constString(mu.Value)
			if !ok1 || !ok2 {
				good = false
				return
			}
			tab[k] = v
		}
	})
	if !good {
		return nil, false
	}
	m.mapFns[g] = tab
	return tab, true
}

// bindConsts gives every nil constant the value 0 and every string constant
// its interned identity, in the environment that interprets g.
func (m *c40Model) bindConsts(e *penv, g *ssa.Function) {
	allInstrs(g, func(in ssa.Instruction) {
		for _, op := range in.Operands(nil) {
			if op == nil || *op == nil {
				continue
			}
			if isNilConst(*op) {
				e.vals[*op] = 0
			} else if s, ok := constString(*op); ok {
				e.vals[*op] = m.intern(s)
			}
		}
	})
}

// typeOf: the value of T's Type() method, by interpretation ("ssh-rsa"), or an
// abstract identity when it depends on the key's contents (ECDSA curves).
func (m *c40Model) typeOf(T types.Type) string {
	sel := m.c.ld.prog.MethodSets.MethodSet(T).Lookup(m.sp.Pkg, "Type")
	if sel == nil {
		return "\x00type of " + short(T.String())
	}
	return m.typeOfFn(m.c.ld.prog.MethodValue(sel), T)
}

func (m *c40Model) typeOfFn(g *ssa.Function, T types.Type) string {
	if g == nil {
		return "\x00type of " + short(T.String())
	}
	if s, ok := m.typeVal[g]; ok {
		return s
	}
	val := "\x00type of " + short(T.String())
	if len(g.Blocks) > 0 && g.Synthetic == "" {
		w := &pathWalker{env: newEnv(), state: map[string]int64{}, lengths: true, maxSteps: 400, cls: map[ssa.Value]string{}, tuple: map[ssa.Value][]optInt{}}
		m.bindConsts(w.env, g)
		w.onInline = func(parent, child *pathWalker, callee *ssa.Function, args []ssa.Value) {
			m.bindConsts(child.env, callee)
		}
		if w.walk(g.Blocks[0], nil) == "return" {
			if r, ok := w.last.(*ssa.Return); ok && len(r.Results) == 1 {
				if id, ok := w.env.eval(r.Results[0]); ok {
					if s, known := m.names[id]; known {
						val = s
					}
				}
			}
		}
	}
	m.typeVal[g] = val
	return val
}

// clsOf: the content description of v on the walked path.
func c40Cls(w *pathWalker, v ssa.Value) string {
	for i := 0; i < 8 && v != nil; i++ {
		if cl, ok := w.cls[v]; ok {
			return cl
		}
		switch x := v.(type) {
		case *ssa.ChangeType:
			v = x.X
		case *ssa.Convert:
			v = x.X
		case *ssa.MakeInterface:
			v = x.X
		case *ssa.ChangeInterface:
			v = x.X
		case *ssa.Const:
			if x.IsNil() {
				return "nil"
			}
			if s, ok := constString(x); ok {
				return "str:" + s
			}
			if n, ok := constInt(x); ok {
				return fmt.Sprintf("int:%d", n)
			}
			return ""
		default:
			return ""
		}
	}
	return ""
}

func c40IsGlobalKey(k string) bool {
	return strings.HasPrefix(k, "#g:") || strings.HasPrefix(k, "#c:#g:")
}

// c40Copy copies the cells (scalars and content descriptions) under path from
// in src to path to in dst.
func c40Copy(src, dst map[string]int64, from, to string) {
	type kv struct {
		k string
		v int64
	}
	var add []kv
	for k, v := range src {
		switch {
		case k == from:
			add = append(add, kv{to, v})
		case k == "#c:"+from:
			add = append(add, kv{"#c:" + to, v})
		case strings.HasPrefix(k, from+".") || strings.HasPrefix(k, from+"["):
			add = append(add, kv{to + k[len(from):], v})
		case strings.HasPrefix(k, "#c:"+from+".") || strings.HasPrefix(k, "#c:"+from+"["):
			add = append(add, kv{"#c:" + to + k[len("#c:"+from):], v})
		}
	}
	for _, a := range add {
		dst[a.k] = a.v
	}
}

func c40ScalarKind(t types.Type) string {
	b, ok := t.Underlying().(*types.Basic)
	if !ok {
		return ""
	}
	switch b.Kind() {
	case types.Uint8:
		return "u8"
	case types.Uint16:
		return "u16"
	case types.Uint32:
		return "u32"
	case types.Uint64:
		return "u64"
	case types.Bool:
		return "bool"
	case types.String:
		return "string"
	case types.Int, types.Int8, types.Int16, types.Int32, types.Int64, types.Uint:
		return "int"
	}
	return ""
}

// bindFields: Field instructions applied to the struct value v read the
// snapshot the value stands for.
func (m *c40Model) bindFields(w *pathWalker, v ssa.Value) {
	sv, ok := w.cls[v]
	if !ok || !strings.HasPrefix(sv, "#g:sv") || v.Referrers() == nil {
		return
	}
	for _, r := range *v.Referrers() {
		fl, ok := r.(*ssa.Field)
		if !ok {
			continue
		}
		st, ok := fl.X.Type().Underlying().(*types.Struct)
		if !ok {
			continue
		}
		cell := sv + "." + st.Field(fl.Field).Name()
		if n, ok := w.state[cell]; ok {
			w.env.bind(fl, n)
		}
		if id, ok := w.state["#c:"+cell]; ok {
			w.cls[fl] = m.strOf(id)
		}
	}
}

func (m *c40Model) nextID(w *pathWalker, counter string) int64 {
	n := w.state[counter] + 1
	w.state[counter] = n
	return n
}

// hashKind normalises the description of a crypto.Hash value: the selector
// applied to the signature format; for the security-key formats, whose hash is
// fixed by the U2F specification, SHA-256 in any spelling.
func (m *c40Model) hashKind(s *c40Scn, cl string) string {
	skFmt := strings.HasPrefix(m.strOf(s.fmtID), "sk-")
	switch cl {
	case "hash(sig.Format)":
		if skFmt {
			return "sha256"
		}
		return cl
	case "int:5":
		return "sha256"
	case "int:6":
		return "sha384"
	case "int:7":
		return "sha512"
	case "int:3":
		return "sha1"
	case "":
		return "?"
	}
	return cl
}

func (m *c40Model) walker(f *ssa.Function, s *c40Scn) *pathWalker {
	w := &pathWalker{env: newEnv(), state: map[string]int64{}, lengths: true, maxSteps: 6000, opaque: m.opaque,
		cls: map[ssa.Value]string{}, tuple: map[ssa.Value][]optInt{}}
	m.bindConsts(w.env, f)
	w.onInline = func(parent, child *pathWalker, callee *ssa.Function, args []ssa.Value) {
		m.bindConsts(child.env, callee)
		if child.tuple == nil {
			child.tuple = map[ssa.Value][]optInt{}
		}
		for k, v := range parent.state {
			if c40IsGlobalKey(k) {
				child.state[k] = v
			}
		}
		for i, p := range callee.Params {
			if i >= len(args) {
				break
			}
			// content descriptions follow arguments through conversions too
			if _, has := parent.cls[p]; !has {
				if cl := c40Cls(parent, args[i]); cl != "" {
					parent.cls[p] = cl
				}
			}
			if sv := parent.cls[p]; strings.HasPrefix(sv, "#g:sv") {
				// a struct passed by value: its cells are the parameter's fields
				c40Copy(parent.state, child.state, sv, p.Name())
				m.bindFields(child, p)
				continue
			}
			pp := parent.path(args[i])
			if pp == "" {
				pp = parent.valPath(args[i])
			}
			if pp != "" {
				for k, v := range parent.state {
					if strings.HasPrefix(k, "#c:"+pp+".") || strings.HasPrefix(k, "#c:"+pp+"[") || k == "#c:"+pp {
						child.state["#c:"+p.Name()+k[len("#c:"+pp):]] = v
					}
				}
			}
		}
	}
	w.onReturn = func(parent, child *pathWalker, call *ssa.Call, results []ssa.Value) {
		for k, v := range child.state {
			if c40IsGlobalKey(k) {
				parent.state[k] = v
			}
		}
		if callee := call.Call.StaticCallee(); callee != nil {
			for i, p := range callee.Params {
				if i >= len(call.Call.Args) {
					break
				}
				if _, isPtr := p.Type().Underlying().(*types.Pointer); !isPtr {
					continue
				}
				if pp := parent.path(call.Call.Args[i]); pp != "" {
					for k, v := range child.state {
						if strings.HasPrefix(k, "#c:"+p.Name()+".") || strings.HasPrefix(k, "#c:"+p.Name()+"[") {
							parent.state["#c:"+pp+k[len("#c:"+p.Name()):]] = v
						}
					}
				}
			}
		}
		if len(results) == 1 {
			if cl := c40Cls(child, results[0]); cl != "" {
				parent.cls[call] = cl
				m.bindFields(parent, call)
			}
			return
		}
		if call.Referrers() == nil {
			return
		}
		for _, r := range *call.Referrers() {
			ex, ok := r.(*ssa.Extract)
			if !ok || ex.Index >= len(results) {
				continue
			}
			if cl := c40Cls(child, results[ex.Index]); cl != "" {
				parent.cls[ex] = cl
				m.bindFields(parent, ex)
			} else {
				delete(parent.cls, ex)
			}
		}
	}
	w.onPhi = func(w *pathWalker, ph *ssa.Phi, incoming ssa.Value) {
		if cl := c40Cls(w, incoming); cl != "" {
			w.cls[ph] = cl
		} else {
			delete(w.cls, ph)
		}
	}
	w.onLoad = func(w *pathWalker, u *ssa.UnOp) (int64, bool) { return m.onLoad(w, s, u) }
	w.onStore = func(w *pathWalker, st *ssa.Store) string { m.onStore(w, st); return "" }
	w.onSlice = func(w *pathWalker, sl *ssa.Slice) { m.onSlice(w, sl) }
	w.onCall = func(w *pathWalker, ci ssa.CallInstruction) string { return m.onCall(w, s, ci) }
	return w
}

func (m *c40Model) onLoad(w *pathWalker, s *c40Scn, u *ssa.UnOp) (int64, bool) {
	delete(w.cls, u)
	t := u.Type()
	switch a := u.X.(type) {
	case *ssa.Global:
		if c40IsError(t) {
			return 1, true // sentinel error values are non-nil
		}
		return 0, false
	case *ssa.FieldAddr:
		st := derefStruct(a.X.Type())
		if st == nil {
			break
		}
		fname := st.Field(a.Field).Name()
		switch c40Cls(w, a.X) {
		case "sig":
			// the exported wire structure ssh.Signature{Format, Blob, Rest}
			switch fname {
			case "Format":
				return s.fmtID, true
			case "Blob":
				w.cls[u] = "sig.Blob"
				return s.blobLen, true
			case "Rest":
				w.cls[u] = "sig.Rest"
				return 5, true
			}
		case "recv":
			switch tt := t.Underlying().(type) {
			case *types.Basic:
				if tt.Kind() == types.Bool && s.sk {
					return s.nt, true // the only boolean of a security key: the opt-out
				}
				if tt.Kind() == types.String {
					w.cls[u] = "recv." + fname
					return m.intern("\x00recv." + fname), true
				}
			case *types.Slice:
				if n, ok := t.(*types.Named); ok && n.Obj().Pkg() != nil && n.Obj().Pkg().Path() == "crypto/ed25519" && n.Obj().Name() == "PublicKey" {
					w.cls[u] = "recv.key"
					return 32, true // a well-formed Ed25519 key
				}
				if b, ok := tt.Elem().Underlying().(*types.Basic); ok && b.Kind() == types.String && s.list != nil {
					w.cls[u] = m.strs(s.list)
					return int64(len(s.list)), true
				}
			case *types.Interface:
				w.cls[u] = "recv." + fname
			}
		}
	case *ssa.IndexAddr:
		if cl := c40Cls(w, a.X); cl == "sig.Rest" {
			// the first byte that trails an SK signature is the flags byte (PROTOCOL.u2f)
			if k, ok := w.env.eval(a.Index); ok && k == 0 {
				return s.flags, true
			}
		} else if strings.HasPrefix(cl, "strs:") {
			if k, ok := w.env.eval(a.Index); ok {
				ids := m.parseStrs(cl)
				if k >= 0 && int(k) < len(ids) {
					return ids[k], true
				}
			}
		}
	}
	p := w.path(u.X)
	if p == "" || strings.Contains(p, "?") {
		return 0, false
	}
	if _, isStruct := t.Underlying().(*types.Struct); isStruct {
		// a struct VALUE: snapshot of the cells under p
		sv := fmt.Sprintf("#g:sv%d", m.nextID(w, "#g:nsv"))
		c40Copy(w.state, w.state, p, sv)
		w.cls[u] = sv
		m.bindFields(w, u)
		return 0, false
	}
	if id, ok := w.state["#c:"+p]; ok {
		w.cls[u] = m.strOf(id)
	}
	return 0, false
}

func (m *c40Model) strs(ids []int64) string {
	var parts []string
	for _, id := range ids {
		parts = append(parts, fmt.Sprint(id))
	}
	return "strs:" + strings.Join(parts, ",")
}

func (m *c40Model) parseStrs(cl string) []int64 {
	var out []int64
	body := strings.TrimPrefix(cl, "strs:")
	if body == "" {
		return nil
	}
	for _, p := range strings.Split(body, ",") {
		var n int64
		fmt.Sscan(p, &n)
		out = append(out, n)
	}
	return out
}

func (m *c40Model) onStore(w *pathWalker, st *ssa.Store) {
	p := w.path(st.Addr)
	if p == "" || strings.Contains(p, "?") {
		return
	}
	cl := c40Cls(w, st.Val)
	if strings.HasPrefix(cl, "#g:sv") {
		c40Copy(w.state, w.state, cl, p)
		return
	}
	if cl != "" && cl != "nil" {
		w.state["#c:"+p] = m.intern(cl)
	} else {
		delete(w.state, "#c:"+p)
	}
	switch st.Addr.(type) {
	case *ssa.FieldAddr, *ssa.IndexAddr:
		if c40ScalarKind(st.Val.Type()) != "" {
			if n, ok := w.env.eval(st.Val); ok {
				w.state[p] = n
			}
		}
	}
}

func (m *c40Model) onSlice(w *pathWalker, sl *ssa.Slice) {
	delete(w.cls, sl)
	lo, hi := int64(0), int64(-1)
	if sl.Low != nil {
		v, ok := w.env.eval(sl.Low)
		if !ok {
			return
		}
		lo = v
	}
	if sl.High != nil {
		v, ok := w.env.eval(sl.High)
		if !ok {
			return
		}
		hi = v
	}
	// a slice of an array of strings whose elements are known: the list itself
	if pt, ok := sl.X.Type().Underlying().(*types.Pointer); ok {
		if arr, ok := pt.Elem().Underlying().(*types.Array); ok {
			if hi < 0 {
				hi = arr.Len()
			}
			if b, ok := arr.Elem().Underlying().(*types.Basic); ok && b.Kind() == types.String {
				if p := w.path(sl.X); p != "" {
					var ids []int64
					for i := lo; i < hi; i++ {
						id, ok := w.state[fmt.Sprintf("%s[%d]", p, i)]
						if !ok {
							return
						}
						ids = append(ids, id)
					}
					w.cls[sl] = m.strs(ids)
				}
				return
			}
			if p := w.path(sl.X); p != "" {
				if id, ok := w.state["#c:"+p]; ok {
					cl := m.strOf(id)
					if lo != 0 || hi != arr.Len() {
						cl = c40Sub(cl, lo, hi)
					}
					w.cls[sl] = cl
				} else if c40ScalarKind(arr.Elem()) == "u8" && lo < hi {
					// a byte array whose bytes are known ([]byte{flags}, a scratch buffer)
					var parts []string
					for i := lo; i < hi; i++ {
						n, ok := w.state[fmt.Sprintf("%s[%d]", p, i)]
						if !ok {
							return
						}
						parts = append(parts, fmt.Sprintf("u8:%d", n&0xff))
					}
					w.cls[sl] = strings.Join(parts, "||")
				}
			}
			return
		}
	}
	cl := c40Cls(w, sl.X)
	if cl == "" {
		return
	}
	if strings.HasPrefix(cl, "strs:") {
		ids := m.parseStrs(cl)
		if hi < 0 {
			hi = int64(len(ids))
		}
		if lo >= 0 && lo <= hi && int(hi) <= len(ids) {
			w.cls[sl] = m.strs(ids[lo:hi])
		}
		return
	}
	full := lo == 0 && hi < 0
	if L, ok := w.env.vals[sl.X]; ok && lo == 0 && hi == L {
		full = true
	}
	if full {
		w.cls[sl] = cl
	} else {
		w.cls[sl] = c40Sub(cl, lo, hi)
	}
}

// c40Sub describes the sub-slice [lo:hi] (hi < 0: to the end) of content cl.
func c40Sub(cl string, lo, hi int64) string {
	if strings.Contains(cl, "||") {
		cl = "(" + cl + ")"
	}
	if hi < 0 {
		return fmt.Sprintf("%s[%d:]", cl, lo)
	}
	return fmt.Sprintf("%s[%d:%d]", cl, lo, hi)
}

// c40U32 is the content of a big-endian uint32 (ssh.Marshal, binary.BigEndian).
func c40U32(n int64) string {
	return fmt.Sprintf("u8:%d||u8:%d||u8:%d||u8:%d", (n>>24)&0xff, (n>>16)&0xff, (n>>8)&0xff, n&0xff)
}

// c40Content describes a byte-string operand: its description, "" (empty)
// when its length is known to be zero, "?" when nothing is known.
func c40Content(w *pathWalker, v ssa.Value) string {
	if v == nil {
		return "?"
	}
	if n, ok := w.env.eval(v); ok && n == 0 {
		if _, isSlice := v.Type().Underlying().(*types.Slice); isSlice {
			return ""
		}
	}
	cl := c40Cls(w, v)
	switch {
	case cl == "nil":
		return ""
	case strings.HasPrefix(cl, "str:"):
		return fmt.Sprintf("%q", cl[4:])
	case cl == "":
		return "?"
	}
	return cl
}

// c40Concat: a followed by b ("" is the empty string of bytes).
func c40Concat(a, b string) string {
	switch {
	case a == "":
		return b
	case b == "":
		return a
	}
	return a + "||" + b
}

func (m *c40Model) prim(w *pathWalker, ci ssa.CallInstruction, kind, msg, hash string) string {
	if msg == "" {
		msg = "?"
	}
	tok := "prim\x1f" + kind + "\x1f" + msg + "\x1f" + hash
	m.ats[tok] = ci
	return tok
}

func (m *c40Model) onCall(w *pathWalker, s *c40Scn, ci ssa.CallInstruction) string {
	cc := ci.Common()
	v, _ := ci.(ssa.Value)
	if v == nil {
		return ""
	}
	name := short(calleeName(cc))
	if name == "builtin:append" && len(cc.Args) == 2 {
		// append(a, b...): the bytes of a followed by the bytes of b
		delete(w.cls, v)
		a, b := c40Content(w, cc.Args[0]), c40Content(w, cc.Args[1])
		w.cls[v] = c40Concat(a, b)
		la, oka := w.env.eval(cc.Args[0])
		lb, okb := w.env.eval(cc.Args[1])
		if _, isStr := cc.Args[1].Type().Underlying().(*types.Basic); oka && okb && !isStr {
			w.env.bind(v, la+lb)
		} else {
			delete(w.env.vals, v)
		}
		return ""
	}
	if strings.HasSuffix(name, "ndian).AppendUint32") && strings.Contains(name, "encoding/binary.big") && len(cc.Args) == 3 {
		delete(w.cls, v)
		if n, ok := w.env.eval(cc.Args[2]); ok {
			w.cls[v] = c40Concat(c40Content(w, cc.Args[1]), c40U32(n))
		}
		return ""
	}
	if strings.HasSuffix(name, "ndian).Uint32") && strings.Contains(name, "encoding/binary.big") && len(cc.Args) == 2 {
		// the counter that follows the flags byte in sig.Rest
		if cl := c40Cls(w, cc.Args[1]); cl == "sig.Rest[1:]" || cl == "sig.Rest[1:5]" {
			w.env.bind(v, c40Counter)
		}
		return ""
	}
	if strings.HasPrefix(name, "builtin:") || strings.HasPrefix(name, "encoding/binary.") || strings.HasPrefix(name, "(encoding/binary.") {
		return "" // the engine's own models
	}
	if w.tuple == nil {
		w.tuple = map[ssa.Value][]optInt{}
	}
	delete(w.cls, v)
	delete(w.env.vals, v)
	delete(w.tuple, v)
	arg := func(i int) ssa.Value {
		if i < len(cc.Args) {
			return cc.Args[i]
		}
		return nil
	}
	extractCls := func(idx int, cl string) {
		if v.Referrers() == nil {
			return
		}
		for _, r := range *v.Referrers() {
			if ex, ok := r.(*ssa.Extract); ok && ex.Index == idx {
				w.cls[ex] = cl
			}
		}
	}
	// results of error type are nil unless the model says otherwise ("every
	// parse / lookup succeeds": the gates are judged on their own)
	generic := func() {
		switch rt := v.Type().(type) {
		case *types.Tuple:
			rs := make([]optInt, rt.Len())
			any := false
			for i := 0; i < rt.Len(); i++ {
				if c40IsError(rt.At(i).Type()) {
					rs[i] = optInt{0, true}
					any = true
				}
			}
			if any {
				w.tuple[v] = rs
			}
		default:
			if c40IsError(v.Type()) {
				w.env.bind(v, 0)
			}
		}
	}
	primErr := int64(1)
	if s.primOK {
		primErr = 0
	}
	if cc.IsInvoke() {
		recv := c40Cls(w, cc.Value)
		switch cc.Method.Name() {
		case "Type":
			switch {
			case recv == "recv" && s.T != nil:
				w.env.bind(v, m.intern(m.typeOf(s.T)))
			case s.keyType != 0:
				w.env.bind(v, s.keyType)
			}
			return ""
		case "PublicKey":
			w.cls[v] = "pubkey(" + recv + ")"
			return ""
		case "Verify":
			if len(cc.Args) == 2 && c40IsError(v.Type()) {
				w.env.bind(v, primErr)
				return m.prim(w, ci, "delegate", c40Cls(w, arg(0))+","+c40Cls(w, arg(1)), "")
			}
		case "Write":
			if strings.HasPrefix(recv, "hobj:") {
				key := "#g:h" + strings.SplitN(recv, ":", 3)[1]
				w.state[key] = m.intern(c40Concat(m.strOf(w.state[key]), c40Content(w, arg(0))))
				w.tuple[v] = []optInt{{0, false}, {0, true}}
				return ""
			}
		case "Reset":
			if strings.HasPrefix(recv, "hobj:") {
				w.state["#g:h"+strings.SplitN(recv, ":", 3)[1]] = m.intern("")
				return ""
			}
		case "Sum":
			if strings.HasPrefix(recv, "hobj:") {
				parts := strings.SplitN(recv, ":", 3)
				d := "H[" + parts[2] + "](" + m.strOf(w.state["#g:h"+parts[1]]) + ")"
				d = c40Concat(c40Content(w, arg(0)), d) // Sum appends to its argument
				w.cls[v] = d
				return ""
			}
		case "Sign", "SignWithAlgorithm":
			generic()
			return "sign|" + cc.Method.Name()
		}
		generic()
		return ""
	}
	callee := cc.StaticCallee()
	if callee != nil && callee.Name() == "Type" && callee.Signature.Recv() != nil && callee.Signature.Results().Len() == 1 {
		rt := callee.Signature.Recv().Type()
		if c40Cls(w, arg(0)) == "recv" && s.T != nil {
			rt = s.T
		}
		w.env.bind(v, m.intern(m.typeOfFn(callee, rt)))
		return ""
	}
	if callee != nil && callee.Pkg == m.sp {
		if c40IsHashSelector(callee) {
			d := "hash(?)"
			if id, ok := w.env.eval(arg(0)); ok {
				if id == s.fmtID && s.fmtID != 0 {
					d = "hash(sig.Format)"
				} else {
					d = "hash(" + c40Show(m.strOf(id)) + ")"
				}
			}
			w.tuple[v] = []optInt{{5, true}, {0, true}}
			extractCls(0, d)
			return ""
		}
		if tab, ok := m.mapFn(callee); ok {
			if id, ok := w.env.eval(arg(0)); ok {
				if to, hit := tab[m.strOf(id)]; hit {
					w.env.bind(v, m.intern(to))
				} else {
					w.env.bind(v, id)
				}
			}
			return ""
		}
		switch callee.Name() {
		case "Unmarshal":
			// ssh.Unmarshal(src, &dst): every field of dst is parsed from src; the bytes
			// that trail an SK signature are (flags byte, counter uint32) per PROTOCOL.u2f
			w.env.bind(v, 0)
			src := c40Or(c40Cls(w, arg(0)), "?")
			ptr := stripConv(arg(1))
			p := w.path(ptr)
			st := derefStruct(ptr.Type())
			if p == "" || st == nil {
				return ""
			}
			for i := 0; i < st.NumFields(); i++ {
				cell := p + "." + st.Field(i).Name()
				delete(w.state, cell)
				w.state["#c:"+cell] = m.intern("unmarshal(" + src + ")." + st.Field(i).Name())
			}
			if src == "sig.Rest" && st.NumFields() >= 2 && c40ScalarKind(st.Field(0).Type()) == "u8" && c40ScalarKind(st.Field(1).Type()) == "u32" {
				w.state[p+"."+st.Field(0).Name()] = s.flags
				w.state[p+"."+st.Field(1).Name()] = c40Counter
				delete(w.state, "#c:"+p+"."+st.Field(0).Name())
				delete(w.state, "#c:"+p+"."+st.Field(1).Name())
			}
			return ""
		case "Marshal":
			x := stripConv(arg(0))
			base := ""
			if sv := w.cls[x]; strings.HasPrefix(sv, "#g:sv") {
				base = sv
			} else if _, isPtr := x.Type().Underlying().(*types.Pointer); isPtr {
				base = w.path(x)
			}
			st := derefStruct(x.Type())
			if base == "" || st == nil {
				w.cls[v] = "marshal(?)"
				return ""
			}
			// the wire encoding, field by field (RFC 4251): byte, big-endian uint32,
			// length-prefixed strings, and raw bytes for a field tagged ssh:"rest"
			content := ""
			for i := 0; i < st.NumFields(); i++ {
				cell := base + "." + st.Field(i).Name()
				kind := c40ScalarKind(st.Field(i).Type())
				n, haveN := w.state[cell]
				id, haveC := w.state["#c:"+cell]
				part := "?"
				switch {
				case kind == "u8" && haveN:
					part = fmt.Sprintf("u8:%d", n&0xff)
				case kind == "u32" && haveN:
					part = c40U32(n)
				case kind == "" && haveC:
					if _, isSlice := st.Field(i).Type().Underlying().(*types.Slice); isSlice {
						part = m.strOf(id)
						if reflect.StructTag(st.Tag(i)).Get("ssh") != "rest" {
							part = "str(" + part + ")"
						}
					}
				case kind == "string" && haveC:
					part = "str(" + m.strOf(id) + ")"
				}
				content = c40Concat(content, part)
			}
			w.cls[v] = content
			return ""
		}
		generic()
		return ""
	}
	switch {
	case name == "crypto/ed25519.Verify" && len(cc.Args) == 3:
		w.env.bind(v, b2i(s.primOK))
		return m.prim(w, ci, "ed25519", c40Cls(w, arg(1)), "")
	case (name == "crypto/ecdsa.Verify" || name == "crypto/dsa.Verify") && len(cc.Args) == 4:
		w.env.bind(v, b2i(s.primOK))
		return m.prim(w, ci, strings.TrimSuffix(strings.TrimPrefix(name, "crypto/"), ".Verify"), c40Cls(w, arg(1)), "")
	case name == "crypto/rsa.VerifyPKCS1v15" && len(cc.Args) == 4:
		w.env.bind(v, primErr)
		return m.prim(w, ci, "rsa", c40Cls(w, arg(2)), m.hashKind(s, c40Cls(w, arg(1))))
	case name == "(crypto.Hash).New":
		n := m.nextID(w, "#g:nh")
		w.cls[v] = fmt.Sprintf("hobj:%d:%s", n, m.hashKind(s, c40Cls(w, arg(0))))
		w.state[fmt.Sprintf("#g:h%d", n)] = m.intern("")
		return ""
	case name == "crypto/sha256.New" || name == "crypto/sha512.New" || name == "crypto/sha512.New384" || name == "crypto/sha1.New":
		n := m.nextID(w, "#g:nh")
		kind := map[string]string{"crypto/sha256.New": "sha256", "crypto/sha512.New": "sha512", "crypto/sha512.New384": "sha384", "crypto/sha1.New": "sha1"}[name]
		w.cls[v] = fmt.Sprintf("hobj:%d:%s", n, kind)
		w.state[fmt.Sprintf("#g:h%d", n)] = m.intern("")
		return ""
	case name == "crypto/sha256.Sum256":
		w.cls[v] = "H[sha256](" + c40Content(w, arg(0)) + ")"
		return ""
	case name == "fmt.Errorf" || name == "errors.New":
		w.env.bind(v, 1)
		return ""
	case strings.HasPrefix(name, "slices.Contains") && len(cc.Args) == 2, strings.HasPrefix(name, "slices.Index") && len(cc.Args) == 2 && !strings.HasPrefix(name, "slices.IndexFunc"):
		cl := c40Cls(w, arg(0))
		x, ok := w.env.eval(arg(1))
		if !strings.HasPrefix(cl, "strs:") || !ok {
			return ""
		}
		idx := int64(-1)
		for i, id := range m.parseStrs(cl) {
			if id == x && idx < 0 {
				idx = int64(i)
			}
		}
		if strings.HasPrefix(name, "slices.Contains") {
			w.env.bind(v, b2i(idx >= 0))
		} else {
			w.env.bind(v, idx)
		}
		return ""
	case strings.HasSuffix(name, "fips140.Enabled"):
		w.env.bind(v, 0)
		return ""
	case name == "(*crypto/rsa.PublicKey).Size":
		w.env.bind(v, 256)
		return ""
	case name == "(*math/big.Int).BitLen":
		w.env.bind(v, 2048)
		return ""
	}
	generic()
	return ""
}

func c40Or(a, b string) string {
	if a == "" {
		return b
	}
	return a
}

// run interprets f (a Verify method) for one case.
func (m *c40Model) run(f *ssa.Function, s *c40Scn) c40Out {
	w := m.walker(f, s)
	if len(f.Params) >= 3 {
		recv, data, sig := f.Params[0], f.Params[1], f.Params[2]
		w.cls[recv] = "recv"
		if _, isSlice := recv.Type().Underlying().(*types.Slice); isSlice {
			w.env.bind(recv, 32) // a well-formed Ed25519 key held by value
		}
		w.cls[data] = "data"
		w.env.bind(data, 100)
		w.cls[sig] = "sig"
	}
	return m.finish(w, f)
}

func (m *c40Model) finish(w *pathWalker, f *ssa.Function) c40Out {
	out := c40Out{res: -1}
	out.end = w.walk(f.Blocks[0], nil)
	out.why, out.events, out.last = w.why, w.events, w.last
	if out.end == "return" {
		if r, ok := w.last.(*ssa.Return); ok && len(r.Results) > 0 {
			if n, ok := w.env.eval(r.Results[len(r.Results)-1]); ok {
				out.res = n
			}
		}
	}
	return out
}

type c40PrimEv struct {
	kind, msg, hash string
	at              ssa.Instruction
}

func (m *c40Model) prims(out c40Out) []c40PrimEv {
	var ps []c40PrimEv
	for _, ev := range out.events {
		if strings.HasPrefix(ev, "prim\x1f") {
			parts := strings.SplitN(ev, "\x1f", 4)
			ps = append(ps, c40PrimEv{parts[1], parts[2], parts[3], m.ats[ev]})
		}
	}
	return ps
}

func (o c40Out) decided() bool { return o.end == "return" && o.res >= 0 }

func (o c40Out) describe() string {
	if o.end != "return" {
		return "interpretation ends in " + o.end + ": " + o.why
	}
	return "the returned error does not evaluate"
}

// c40ProtocolFormats: the signature format names of the SSH protocol the
// format gate is tried with, besides the key's own type.
var c40ProtocolFormats = []string{
	"ssh-rsa", "rsa-sha2-256", "rsa-sha2-512", "ssh-dss",
	"ecdsa-sha2-nistp256", "ecdsa-sha2-nistp384", "ecdsa-sha2-nistp521", "ssh-ed25519",
	"sk-ecdsa-sha2-nistp256@openssh.com", "sk-ssh-ed25519@openssh.com",
	"ssh-rsa-cert-v01@openssh.com", "rsa-sha2-256-cert-v01@openssh.com", "rsa-sha2-512-cert-v01@openssh.com",
	"ssh-dss-cert-v01@openssh.com", "ecdsa-sha2-nistp256-cert-v01@openssh.com", "ecdsa-sha2-nistp384-cert-v01@openssh.com",
	"ecdsa-sha2-nistp521-cert-v01@openssh.com", "ssh-ed25519-cert-v01@openssh.com",
	"sk-ecdsa-sha2-nistp256-cert-v01@openssh.com", "sk-ssh-ed25519-cert-v01@openssh.com",
	"", "\x00some other format",
}

// c40Allowed: the signature formats a key of the given type accepts (RFC 8332
// for RSA; every other key type signs under its own name only).
func c40Allowed(keyType string) []string {
	if keyType == "ssh-rsa" {
		return []string{"ssh-rsa", "rsa-sha2-256", "rsa-sha2-512"}
	}
	return []string{keyType}
}

// checkVerify decides the C40 facts for one Verify implementation.
// It returns false when the method merely delegates to the inner key.
func (m *c40Model) checkVerify(T types.Type, f *ssa.Function, tname string) {
	c := m.c
	construct := tname + ".Verify"
	kt := m.typeOf(T)
	sk := strings.HasPrefix(kt, "sk-")
	dsa := kt == "ssh-dss"
	base := func() *c40Scn {
		s := &c40Scn{T: T, fmtID: m.intern(kt), primOK: true, sk: sk, flags: 0x05, nt: 0, blobLen: 64}
		if dsa {
			s.blobLen = 40
		}
		return s
	}
	out := m.run(f, base())
	if !out.decided() {
		for _, rule := range []string{"C40.format", "C40.primitive", "C40.data"} {
			c.undecided(rule, construct, c40At(out, f), "a signature of the key's own format, well formed, accepted by the primitive: "+out.describe())
		}
		return
	}
	ps := m.prims(out)
	// delegation: the inner key's Verify(data, sig) decides, verbatim
	if len(ps) == 1 && ps[0].kind == "delegate" {
		rej := base()
		rej.primOK = false
		out2 := m.run(f, rej)
		okD := ps[0].msg == "data,sig" && out.res == 0 && out2.decided() && out2.res == 1
		c.check(okD, "C40.verify", construct, f, "returns the inner key's Verify(data, sig) verbatim (by interpretation, both verdicts)", "delegates to an inner Verify but not with (data, sig) / not with its verdict: inner call on ("+ps[0].msg+")")
		return
	}
	// (i) format gate
	allowed := map[string]bool{}
	for _, a := range c40Allowed(kt) {
		allowed[a] = true
	}
	formats := append([]string{kt}, c40ProtocolFormats...)
	bad, n := "", 0
	var at poser = f
	for _, F := range formats {
		s := base()
		s.fmtID = m.intern(F)
		o := m.run(f, s)
		n++
		if !o.decided() {
			bad = fmt.Sprintf("signature format %s: %s", c40Show(F), o.describe())
			at = c40At(o, f)
			break
		}
		if accept := o.res == 0; accept != allowed[F] {
			if accept {
				bad = fmt.Sprintf("a signature of format %s is accepted by a key of type %s: that format is not allowed for the key type (missing or weakened sig.Format test)", c40Show(F), c40Show(kt))
			} else {
				bad = fmt.Sprintf("a valid signature of the allowed format %s is rejected by a key of type %s", c40Show(F), c40Show(kt))
			}
			at = c40At(o, f)
			break
		}
	}
	c.check(bad == "", "C40.format", construct, at, fmt.Sprintf("accepts exactly the formats allowed for key type %s (%d formats interpreted, helpers in place)", c40Show(kt), n), bad)
	// (ii) primitive verdict
	rej := base()
	rej.primOK = false
	o2 := m.run(f, rej)
	switch {
	case len(ps) == 0:
		c.fail("C40.primitive", construct, c40At(out, f), "returns nil without any primitive signature verification (rsa.VerifyPKCS1v15 / dsa.Verify / ecdsa.Verify / ed25519.Verify) on the path")
	case !o2.decided():
		c.undecided("C40.primitive", construct, c40At(o2, f), "primitive verifier rejects: "+o2.describe())
	case o2.res == 0:
		c.fail("C40.primitive", construct, c40At(o2, f), "returns nil although the primitive verifier ("+ps[0].kind+") rejected the signature")
	default:
		c.ok("C40.primitive", construct, ps[0].at, "nil is returned exactly with the primitive verifier's ("+ps[0].kind+") acceptance (both verdicts interpreted)")
	}
	// (iii) what is verified, for every allowed format
	bad = ""
	at = f
	var fs []string
	for a := range allowed {
		fs = append(fs, a)
	}
	sort.Strings(fs)
	for _, F := range fs {
		s := base()
		s.fmtID = m.intern(F)
		o := m.run(f, s)
		if !o.decided() {
			continue // reported by the format rule
		}
		if msg := m.dataProblem(T, s, o); msg != "" && bad == "" {
			bad = fmt.Sprintf("format %s: %s", c40Show(F), msg)
			if p := m.prims(o); len(p) > 0 {
				at = p[0].at
			}
		}
	}
	c.check(bad == "", "C40.data", construct, at, "the primitive verifies the data parameter (raw for Ed25519, else hashed with the hash selected by sig.Format; for security keys inside the U2F blob)", bad)
	// DSA: only 40-byte blobs
	if dsa {
		bad = ""
		for _, L := range []int64{0, 20, 39, 40, 41, 80} {
			s := base()
			s.blobLen = L
			o := m.run(f, s)
			if !o.decided() {
				bad = fmt.Sprintf("blob of %d bytes: %s", L, o.describe())
				break
			}
			reached := len(m.prims(o)) > 0
			if reached != (L == 40) || (o.res == 0) != (L == 40) {
				bad = fmt.Sprintf("blob of %d bytes: dsa.Verify reached=%v, accepted=%v (only 40-byte blobs are DSA signatures)", L, reached, o.res == 0)
				break
			}
		}
		c.check(bad == "", "C40.dsa-blob", construct, f, "only 40-byte signature blobs reach dsa.Verify", bad)
	}
	// (iv) security keys: user presence
	if sk {
		m.checkUserPresence(T, f, tname, base)
	}
}

func c40At(o c40Out, f *ssa.Function) poser {
	if o.last != nil {
		return o.last
	}
	return f
}

// expectedMsg: what the primitive must be given for key type T in case s.
func (m *c40Model) expectedMsg(T types.Type, s *c40Scn, kind string) string {
	hk := m.hashKind(s, "hash(sig.Format)")
	message := "data"
	if s.sk {
		app := "recv.?"
		if st := derefStruct(T); st != nil {
			n := 0
			for i := 0; i < st.NumFields(); i++ {
				if c40ScalarKind(st.Field(i).Type()) == "string" {
					app = "recv." + st.Field(i).Name()
					n++
				}
			}
			if n != 1 {
				app = "recv.?"
			}
		}
		// PROTOCOL.u2f: H(application) || flags || counter (big endian) || H(message)
		message = fmt.Sprintf("H[%s](%s)||u8:%d||%s||H[%s](data)", hk, app, s.flags&0xff, c40U32(c40Counter), hk)
	}
	if kind == "ed25519" {
		return message
	}
	return "H[" + hk + "](" + message + ")"
}

func (m *c40Model) dataProblem(T types.Type, s *c40Scn, o c40Out) string {
	ps := m.prims(o)
	if len(ps) == 0 {
		return ""
	}
	for _, p := range ps {
		want := m.expectedMsg(T, s, p.kind)
		if p.msg != want {
			return fmt.Sprintf("the verified bytes do not derive from the data parameter as specified / the hash is not the one selected by sig.Format: the %s verifier is given %s, specification %s", p.kind, p.msg, want)
		}
		if p.kind == "rsa" && p.hash != m.hashKind(s, "hash(sig.Format)") {
			return fmt.Sprintf("rsa.VerifyPKCS1v15 is told hash %s, the digest is made with %s", p.hash, m.hashKind(s, "hash(sig.Format)"))
		}
	}
	return ""
}

func (m *c40Model) checkUserPresence(T types.Type, f *ssa.Function, tname string, base func() *c40Scn) {
	c := m.c
	up := int64(1) // FIDO CTAP2 authenticatorData UP bit (the specification's value, not the code's constant)
	bad, badBlob, n := "", "", 0
	var at, atBlob poser = f, f
	for d := int64(0); d < 256 && bad == ""; d++ {
		for nt := int64(0); nt < 2; nt++ {
			s := base()
			s.flags, s.nt = d, nt
			o := m.run(f, s)
			n++
			if !o.decided() {
				bad = fmt.Sprintf("flags=%#02x noTouchRequired=%d: %s", d, nt, o.describe())
				at = c40At(o, f)
				break
			}
			ps := m.prims(o)
			reached := len(ps) > 0
			want := d&up != 0 || nt == 1
			if reached != want || (o.res == 0) != want {
				bad = fmt.Sprintf("flags=%#02x noTouchRequired=%d: signature check reached=%v, accepted=%v, specification (user presence bit or opt-out) %v", d, nt, reached, o.res == 0, want)
				at = c40At(o, f)
				break
			}
			if reached && badBlob == "" {
				if wantMsg := m.expectedMsg(T, s, ps[0].kind); ps[0].msg != wantMsg {
					badBlob = fmt.Sprintf("flags=%#02x noTouchRequired=%d: the reconstructed signed blob does not carry the received flags byte: verified %s, specification %s", d, nt, ps[0].msg, wantMsg)
					atBlob = ps[0].at
				}
			}
		}
	}
	c.check(bad == "", "C40.user-presence", tname+".Verify", at, fmt.Sprintf("user-presence gate correct on all %d (flags, opt-out) cases, by interpretation with helpers in place", n), bad)
	c.check(badBlob == "", "C40.user-presence", tname+".Verify signed flags", atBlob, "the flags byte inside the verified U2F blob is the received one, for every flags value", badBlob)
}

// checkSigner: a signer restricted to a list of algorithms delegates to the
// underlying signer exactly when the requested algorithm (or, for "", the
// key's own algorithm) is in its list. list == nil: the list is the method's
// own (algorithmsForKeyFormat of the key type), the specification's is
// c40Allowed.
func (m *c40Model) checkSigner(f *ssa.Function, name string, ownList bool) {
	c := m.c
	A, B, C := "rsa-sha2-256", "rsa-sha2-512", "ssh-ed25519"
	type tc struct {
		list    []string
		keyType string
	}
	var cases []tc
	if ownList {
		cases = []tc{{[]string{A}, "ssh-rsa"}, {[]string{A, B}, "ssh-rsa"}, {[]string{"ssh-rsa", A}, "ssh-rsa"}, {[]string{C}, C}, {[]string{B}, "ssh-rsa-cert-v01@openssh.com"}, {[]string{"ssh-rsa"}, "ssh-rsa-cert-v01@openssh.com"}}
	} else {
		cases = []tc{{nil, "ssh-rsa"}, {nil, C}, {nil, "ssh-dss"}, {nil, "ecdsa-sha2-nistp256"}}
	}
	certBase := map[string]string{"ssh-rsa-cert-v01@openssh.com": "ssh-rsa"}
	bad, n := "", 0
	var at poser = f
	for _, k := range cases {
		for _, algo := range []string{"", A, B, C, "ssh-rsa", "ssh-dss", "\x00some other algorithm"} {
			s := &c40Scn{primOK: true, algoID: m.intern(algo), keyType: m.intern(k.keyType)}
			list := k.list
			if ownList {
				for _, a := range k.list {
					s.list = append(s.list, m.intern(a))
				}
			} else {
				list = c40Allowed(k.keyType)
			}
			w := m.walker(f, s)
			w.cls[f.Params[0]] = "recv"
			w.env.bind(f.Params[len(f.Params)-1], s.algoID)
			w.cls[f.Params[len(f.Params)-2]] = "data"
			w.env.bind(f.Params[len(f.Params)-2], 100)
			o := m.finish(w, f)
			n++
			signed := false
			for _, ev := range o.events {
				if strings.HasPrefix(ev, "sign|") {
					signed = true
				}
			}
			if !signed && o.end != "return" {
				bad = fmt.Sprintf("algorithm %s, list %v, key type %s: %s", c40Show(algo), list, c40Show(k.keyType), o.describe())
				at = c40At(o, f)
				break
			}
			eff := algo
			if eff == "" {
				eff = k.keyType
				if b, ok := certBase[eff]; ok && ownList {
					eff = b
				}
			}
			want := false
			for _, a := range list {
				if a == eff {
					want = true
				}
			}
			if signed != want {
				if signed {
					bad = fmt.Sprintf("requested algorithm %s (effective %s) is outside the signer's list %v but the underlying signer is invoked: no supported-algorithm test on the requested algorithm holds on this path", c40Show(algo), c40Show(eff), list)
				} else {
					bad = fmt.Sprintf("requested algorithm %s (effective %s) is in the signer's list %v but signing is refused", c40Show(algo), c40Show(eff), list)
				}
				at = c40At(o, f)
				break
			}
		}
		if bad != "" {
			break
		}
	}
	c.check(bad == "", "C40.signer", name, at, fmt.Sprintf("delegates to the underlying signer exactly for algorithms in its list (%d (list, key type, algorithm) cases interpreted)", n), bad)
}
